/-
C14 — the property, read literally, as executable predicates over one observed transaction
(`Result`: driver-call log, number of body runs, how the body ended, returned error).
The same predicates are (a) proven of the model for every fault plan / body / environment (Props.lean) and
(b) evaluated by the driver on what the real code did (monitor).
-/
import GoZero.C14.Model
namespace GoZero.C14.Spec

def isBegin : Ev → Bool
  | .begin _ => true
  | _ => false

def isBeginBad : Ev → Bool
  | .beginBad => true
  | _ => false

def isBeginOk : Ev → Bool
  | .begin true => true
  | _ => false

def isCommit : Ev → Bool
  | .commit _ => true
  | _ => false

def isRollback : Ev → Bool
  | .rollback _ => true
  | _ => false

def isEnd (e : Ev) : Bool := isCommit e || isRollback e

def isStmt : Ev → Bool
  | .exec _ _ => true
  | .query _ _ => true
  | _ => false

def count (p : Ev → Bool) (l : List Ev) : Nat := (l.filter p).length

/-- a transaction was opened on the driver -/
def begun (r : Result) : Bool := r.log.any isBeginOk

def bodyFailed : BodyOut → Bool
  | .err _ => true
  | .panic => true
  | _ => false

/-- "begins one transaction": after the attempts database/sql itself retries (answered driver.ErrBadConn) at
most one Begin reaches the driver; nothing reaches the driver before it and no Begin attempt after it. -/
def beginsOnce (r : Result) : Bool :=
  count isBegin r.log ≤ 1 &&
  ((r.log.dropWhile isBeginBad).head?.map isBegin).getD true &&
  ((r.log.dropWhile isBeginBad).drop 1).all (fun e => !isBegin e && !isBeginBad e)

/-- "ends it exactly once": an opened transaction sees exactly one Commit/Rollback, as the last call;
without an opened transaction the driver sees no statement, Commit or Rollback. -/
def endsExactlyOnce (r : Result) : Bool :=
  if begun r then count isEnd r.log = 1 && (r.log.getLast?.map isEnd).getD false
  else count isEnd r.log = 0 && count isStmt r.log = 0

/-- "the body is not run if the transaction cannot begin" (and runs once if it can). -/
def bodyRunsIffBegun (r : Result) : Bool :=
  if begun r then r.runs = 1 && r.body != .notRun else r.runs = 0 && r.body == .notRun

/-- "commits if and only if the body returned nil" -/
def commitIffBodyOk (r : Result) : Bool :=
  r.log.any isCommit == (begun r && r.body == .nil)

/-- "rolls back if the body returned an error or panicked" (and only then) -/
def rollbackIffBodyFailed (r : Result) : Bool :=
  r.log.any isRollback == (begun r && bodyFailed r.body)

/-- "the panic is reported as an error, not swallowed as success" -/
def panicReported (r : Result) : Bool :=
  if r.body == .panic then
    match r.ret with
    | some e => e.mentions .panic || r.escaped     -- (or the Rollback it caused panicked in turn)
    | none => false
  else true

/-- "the returned error is nil only when the commit succeeded" (and then it is nil) -/
def nilIffCommitOk (r : Result) : Bool :=
  r.ret.isNone == r.log.contains (.commit true)

def reports (r : Result) (s : Src) : Bool :=
  match r.ret with
  | some e => e.mentions s
  | none => false

/-- the identity of `s` is reachable in the returned error's chain (`errors.Is`) -/
def retIs (r : Result) (s : Src) : Bool :=
  match r.ret with
  | some e => e.is.contains s
  | none => false

def isCommitSrc : Src → Bool
  | .commit _ => true
  | _ => false

def isRollbackSrc : Src → Bool
  | .rollback _ => true
  | _ => false

/-- something satisfying `p` is reachable in the returned error's chain -/
def retHas (r : Result) (p : Src → Bool) : Bool :=
  match r.ret with
  | some e => e.is.any p
  | none => false

/-- "commit or rollback failures are reported to the caller": the driver's error (of whatever class — also one
the breaker finds acceptable, such as sql.ErrTxDone) is reachable in the returned chain (`errors.Is`), not only
mentioned in its text -/
def endFailuresReported (r : Result) : Bool :=
  (!r.log.contains (.commit false) || retHas r isCommitSrc) &&
  (!r.log.contains (.rollback false) || retHas r isRollbackSrc)

/-- a transaction that could not begin is reported with the driver's Begin error (or driver.ErrBadConn when
database/sql gave up retrying) reachable in the returned chain -/
def beginFailureReported (r : Result) : Bool :=
  (!r.log.contains (.begin false) || retIs r .begin) &&
  (!(r.log.any isBeginBad && !r.log.any isBegin) || retIs r .badConn)

/-- the body's own error is not lost: everything it carried is still told to the caller (unless the Rollback
it caused panicked: then that panic is what the caller gets) -/
def bodyErrorReported (r : Result) : Bool :=
  match r.body with
  | .err e => r.escaped || e.is.all (reports r)
  | _ => true

/-- the call returns in an orderly way: it leaves by a panic only with the panic of the driver's own
Commit / Rollback (the last driver call), never with the body's panic and never after a successful end. -/
def orderlyReturn (r : Result) : Bool :=
  !r.escaped ||
  (r.ret == some (Err.of (.commit .plain)) && r.log.getLast? == some (.commit false)) ||
  (r.ret == some (Err.of (.rollback .plain)) && r.log.getLast? == some (.rollback false))

/-- the breaker is told "success" exactly for nil and for acceptable errors (ErrNoRows, ErrTxDone,
context.Canceled, acceptableError, WithAcceptable) — whenever `acceptable` was consulted at all; a failed
Begin / Commit / Rollback or a panic is never booked as a success. `ua`: the WithAcceptable functions installed. -/
def breakerTold (ua : UA) (r : Result) : Bool :=
  match r.mark with
  | none => true
  | some m => m == acceptable ua r.ret

def clauses : List (String × (Result → Bool)) :=
  [("begins-once", beginsOnce), ("ends-exactly-once", endsExactlyOnce),
   ("body-runs-iff-begun", bodyRunsIffBegun), ("commit-iff-body-ok", commitIffBodyOk),
   ("rollback-iff-body-failed", rollbackIffBodyFailed), ("panic-reported", panicReported),
   ("nil-iff-commit-ok", nilIffCommitOk), ("end-failures-reported", endFailuresReported),
   ("body-error-reported", bodyErrorReported), ("orderly-return", orderlyReturn),
   ("begin-failure-reported", beginFailureReported)]

/-- names of the clauses an observation violates -/
def violated (r : Result) : List String :=
  (clauses.filter fun c => !c.2 r).map (·.1)

def holds (r : Result) : Bool :=
  beginsOnce r && endsExactlyOnce r && bodyRunsIffBegun r && commitIffBodyOk r &&
  rollbackIffBodyFailed r && panicReported r && nilIffCommitOk r && endFailuresReported r &&
  bodyErrorReported r && orderlyReturn r && beginFailureReported r

/-! ### round 5c: the clauses that are go-zero's to keep when the BODY may end the raw Tx itself
(`commit-iff-body-ok` / `rollback-iff-body-failed` / `nil-IFF-commit-ok` / `end-failures-reported` speak about the
end go-zero chooses; a body that commits or rolls back behind its back takes that choice away) -/

/-- "the returned error is nil ONLY when the commit succeeded" — the property's literal direction -/
def nilOnlyIfCommitOk (r : Result) : Bool :=
  !r.ret.isNone || r.log.contains (.commit true)

/-- go-zero never reports success or loses the refusal when ITS end of the transaction did not reach the driver:
if the driver saw no Commit/Rollback of go-zero's own … this is observable as: the last driver call is an end, and
a nil result needs a successful Commit in the log -/
def clausesX : List (String × (Result → Bool)) :=
  [("begins-once", beginsOnce), ("ends-exactly-once", endsExactlyOnce),
   ("body-runs-iff-begun", bodyRunsIffBegun), ("panic-reported", panicReported),
   ("nil-only-if-commit-ok", nilOnlyIfCommitOk), ("body-error-reported", bodyErrorReported),
   ("orderly-return", orderlyReturn), ("begin-failure-reported", beginFailureReported)]

def violatedX (r : Result) : List String :=
  (clausesX.filter fun c => !c.2 r).map (·.1)

def holdsX (r : Result) : Bool :=
  beginsOnce r && endsExactlyOnce r && bodyRunsIffBegun r && panicReported r && nilOnlyIfCommitOk r &&
  bodyErrorReported r && orderlyReturn r && beginFailureReported r

end GoZero.C14.Spec
