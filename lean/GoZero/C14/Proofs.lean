/-
C14 — helper lemmas: the statements of a body only ever produce statement events, for every body length;
facts about logs of the form  begin :: statements ++ [end].
-/
import GoZero.C14.Spec
namespace GoZero.C14
open GoZero.C14.Spec

/-! the predicates on constructors (simp set) -/
@[simp] theorem isBegin_begin (ok : Bool) : isBegin (.begin ok) = true := rfl
@[simp] theorem isBegin_exec (i : Nat) (ok : Bool) : isBegin (.exec i ok) = false := rfl
@[simp] theorem isBegin_query (i : Nat) (ok : Bool) : isBegin (.query i ok) = false := rfl
@[simp] theorem isBegin_commit (ok : Bool) : isBegin (.commit ok) = false := rfl
@[simp] theorem isBegin_rollback (ok : Bool) : isBegin (.rollback ok) = false := rfl
@[simp] theorem isBeginOk_begin (ok : Bool) : isBeginOk (.begin ok) = ok := by cases ok <;> rfl
@[simp] theorem isBeginOk_exec (i : Nat) (ok : Bool) : isBeginOk (.exec i ok) = false := rfl
@[simp] theorem isBeginOk_query (i : Nat) (ok : Bool) : isBeginOk (.query i ok) = false := rfl
@[simp] theorem isBeginOk_commit (ok : Bool) : isBeginOk (.commit ok) = false := rfl
@[simp] theorem isBeginOk_rollback (ok : Bool) : isBeginOk (.rollback ok) = false := rfl
@[simp] theorem isCommit_begin (ok : Bool) : isCommit (.begin ok) = false := rfl
@[simp] theorem isCommit_exec (i : Nat) (ok : Bool) : isCommit (.exec i ok) = false := rfl
@[simp] theorem isCommit_query (i : Nat) (ok : Bool) : isCommit (.query i ok) = false := rfl
@[simp] theorem isCommit_commit (ok : Bool) : isCommit (.commit ok) = true := rfl
@[simp] theorem isCommit_rollback (ok : Bool) : isCommit (.rollback ok) = false := rfl
@[simp] theorem isRollback_begin (ok : Bool) : isRollback (.begin ok) = false := rfl
@[simp] theorem isRollback_exec (i : Nat) (ok : Bool) : isRollback (.exec i ok) = false := rfl
@[simp] theorem isRollback_query (i : Nat) (ok : Bool) : isRollback (.query i ok) = false := rfl
@[simp] theorem isRollback_commit (ok : Bool) : isRollback (.commit ok) = false := rfl
@[simp] theorem isRollback_rollback (ok : Bool) : isRollback (.rollback ok) = true := rfl
@[simp] theorem isEnd_begin (ok : Bool) : isEnd (.begin ok) = false := rfl
@[simp] theorem isEnd_exec (i : Nat) (ok : Bool) : isEnd (.exec i ok) = false := rfl
@[simp] theorem isEnd_query (i : Nat) (ok : Bool) : isEnd (.query i ok) = false := rfl
@[simp] theorem isEnd_commit (ok : Bool) : isEnd (.commit ok) = true := rfl
@[simp] theorem isEnd_rollback (ok : Bool) : isEnd (.rollback ok) = true := rfl
@[simp] theorem isStmt_begin (ok : Bool) : isStmt (.begin ok) = false := rfl
@[simp] theorem isStmt_exec (i : Nat) (ok : Bool) : isStmt (.exec i ok) = true := rfl
@[simp] theorem isStmt_query (i : Nat) (ok : Bool) : isStmt (.query i ok) = true := rfl
@[simp] theorem isStmt_commit (ok : Bool) : isStmt (.commit ok) = false := rfl
@[simp] theorem isStmt_rollback (ok : Bool) : isStmt (.rollback ok) = false := rfl
@[simp] theorem isBegin_beginBad : isBegin .beginBad = false := rfl
@[simp] theorem isBeginOk_beginBad : isBeginOk .beginBad = false := rfl
@[simp] theorem isCommit_beginBad : isCommit .beginBad = false := rfl
@[simp] theorem isRollback_beginBad : isRollback .beginBad = false := rfl
@[simp] theorem isEnd_beginBad : isEnd .beginBad = false := rfl
@[simp] theorem isStmt_beginBad : isStmt .beginBad = false := rfl
@[simp] theorem isBeginBad_beginBad : isBeginBad .beginBad = true := rfl
@[simp] theorem isBeginBad_begin (ok : Bool) : isBeginBad (.begin ok) = false := rfl
@[simp] theorem isBeginBad_exec (i : Nat) (ok : Bool) : isBeginBad (.exec i ok) = false := rfl
@[simp] theorem isBeginBad_query (i : Nat) (ok : Bool) : isBeginBad (.query i ok) = false := rfl
@[simp] theorem isBeginBad_commit (ok : Bool) : isBeginBad (.commit ok) = false := rfl
@[simp] theorem isBeginBad_rollback (ok : Bool) : isBeginBad (.rollback ok) = false := rfl

theorem stmtEv_all (c : Option Nat) (i : Nat) (s : Stmt) : (stmtEvAt c i s).all isStmt = true := by
  unfold stmtEvAt; cases s.kind <;> simp <;> split <;> simp

theorem runStmts_all (c : Option Nat) (dl : Bool) (l : List Stmt) :
    ∀ i, (runStmts c dl i l).1.all isStmt = true := by
  induction l with
  | nil => intro i; simp [runStmts]
  | cons s rest ih =>
    intro i
    unfold runStmts
    split
    · exact stmtEv_all c i s
    · simp only [List.all_append, Bool.and_eq_true]; exact ⟨stmtEv_all c i s, ih (i + 1)⟩

theorem runBody_all (b : Body) : (runBody b).1.all isStmt = true := by
  unfold runBody; split <;> exact runStmts_all _ _ b.stmts 0

/-- the body never ends "not run" once it is run -/
theorem runBody_ne_notRun (b : Body) : (runBody b).2 ≠ .notRun := by
  unfold runBody; split
  · simp
  · cases b.fin <;> simp

theorem getLast?_cons_snoc {α} (a : α) (l : List α) (x : α) : (a :: (l ++ [x])).getLast? = some x := by
  have : a :: (l ++ [x]) = (a :: l) ++ [x] := rfl
  rw [this, List.getLast?_append]; simp

theorem filter_nil_of_all {p q : Ev → Bool} (h : ∀ e, q e = true → p e = false) :
    ∀ (l : List Ev), l.all q = true → l.filter p = [] := by
  intro l hl
  rw [List.filter_eq_nil_iff]
  intro e he
  rw [List.all_eq_true] at hl
  simp [h e (hl e he)]

theorem any_false_of_all {p q : Ev → Bool} (h : ∀ e, q e = true → p e = false) :
    ∀ (l : List Ev), l.all q = true → l.any p = false := by
  intro l hl
  rw [List.any_eq_false]
  intro e he
  rw [List.all_eq_true] at hl
  simp [h e (hl e he)]

theorem stmt_not_begin (e : Ev) : isStmt e = true → isBegin e = false := by cases e <;> simp [isStmt, isBegin]
theorem stmt_not_beginOk (e : Ev) : isStmt e = true → isBeginOk e = false := by
  cases e <;> simp [isStmt, isBeginOk]
theorem stmt_not_commit (e : Ev) : isStmt e = true → isCommit e = false := by cases e <;> simp [isStmt, isCommit]
theorem stmt_not_rollback (e : Ev) : isStmt e = true → isRollback e = false := by
  cases e <;> simp [isStmt, isRollback]
theorem stmt_not_end (e : Ev) : isStmt e = true → isEnd e = false := by
  cases e <;> simp [isStmt, isEnd, isCommit, isRollback]
theorem stmt_not_beginish (e : Ev) : isStmt e = true → (!isBegin e && !isBeginBad e) = true := by
  cases e <;> simp [isStmt, isBegin, isBeginBad]

theorem not_mem_of_all {l : List Ev} (hl : l.all isStmt = true) (x : Ev) (hx : isStmt x = false) : x ∉ l := by
  intro hm
  rw [List.all_eq_true] at hl
  have := hl x hm
  rw [hx] at this
  exact Bool.noConfusion this

/-! ### every clause of the property holds of `transactOnce` (the Begin attempt that is not retried),
for every fault plan and body -/
theorem all_notBeginish (evs : List Ev) (h : evs.all isStmt = true) :
    evs.all (fun e => !isBegin e && !isBeginBad e) = true := by
  rw [List.all_eq_true] at *
  intro e he; exact stmt_not_beginish e (h e he)

theorem beginsOnce_once (f : Faults) (b : Body) : beginsOnce (transactOnce f b) = true := by
  have hall := runBody_all b
  have h1 := filter_nil_of_all stmt_not_begin _ hall
  have h2 := all_notBeginish _ hall
  unfold transactOnce beginsOnce count
  generalize (runBody b).1 = evs at *
  generalize (runBody b).2 = out at *
  cases f.begin <;> cases out <;> cases f.rollbackPanics <;> cases f.commitPanics <;>
    simp [h1, h2, List.filter_cons, List.filter_append, List.all_append]

theorem endsExactlyOnce_once (f : Faults) (b : Body) : endsExactlyOnce (transactOnce f b) = true := by
  have hall := runBody_all b
  have h1 := filter_nil_of_all stmt_not_end _ hall
  have h2 := any_false_of_all stmt_not_beginOk _ hall
  unfold transactOnce endsExactlyOnce count begun
  generalize (runBody b).1 = evs at *
  generalize (runBody b).2 = out at *
  cases f.begin <;> cases out <;> cases f.rollbackPanics <;> cases f.commitPanics <;>
    simp [h1, h2, List.filter_cons, List.filter_append, getLast?_cons_snoc]

theorem bodyRunsIffBegun_once (f : Faults) (b : Body) : bodyRunsIffBegun (transactOnce f b) = true := by
  have hall := runBody_all b
  have h2 := any_false_of_all stmt_not_beginOk _ hall
  have hne := runBody_ne_notRun b
  unfold transactOnce bodyRunsIffBegun begun
  generalize (runBody b).1 = evs at *
  generalize (runBody b).2 = out at *
  cases f.begin <;> cases out <;> cases f.rollbackPanics <;> cases f.commitPanics <;> simp [h2] at hne ⊢

theorem commitIffBodyOk_once (f : Faults) (b : Body) : commitIffBodyOk (transactOnce f b) = true := by
  have hall := runBody_all b
  have h1 := any_false_of_all stmt_not_commit _ hall
  have h2 := any_false_of_all stmt_not_beginOk _ hall
  have hne := runBody_ne_notRun b
  unfold transactOnce commitIffBodyOk begun
  generalize (runBody b).1 = evs at *
  generalize (runBody b).2 = out at *
  cases f.begin <;> cases out <;> cases f.rollbackPanics <;> cases f.commitPanics <;> simp [h1, h2] at hne ⊢

theorem rollbackIffBodyFailed_once (f : Faults) (b : Body) : rollbackIffBodyFailed (transactOnce f b) = true := by
  have hall := runBody_all b
  have h1 := any_false_of_all stmt_not_rollback _ hall
  have h2 := any_false_of_all stmt_not_beginOk _ hall
  have hne := runBody_ne_notRun b
  unfold transactOnce rollbackIffBodyFailed begun
  generalize (runBody b).1 = evs at *
  generalize (runBody b).2 = out at *
  cases f.begin <;> cases out <;> cases f.rollbackPanics <;> cases f.commitPanics <;>
    simp [h1, h2, bodyFailed] at hne ⊢

theorem panicReported_once (f : Faults) (b : Body) : panicReported (transactOnce f b) = true := by
  unfold transactOnce panicReported
  generalize (runBody b).1 = evs at *
  generalize (runBody b).2 = out at *
  cases f.begin <;> cases out <;> cases f.rollbackPanics <;> cases f.commitPanics <;> simp [Err.mentions]

theorem nilIffCommitOk_once (f : Faults) (b : Body) : nilIffCommitOk (transactOnce f b) = true := by
  have hall := runBody_all b
  have h1 := not_mem_of_all hall (.commit true) rfl
  unfold transactOnce nilIffCommitOk
  generalize (runBody b).1 = evs at *
  generalize (runBody b).2 = out at *
  cases f.begin <;> cases out <;> cases f.commit <;> cases f.rollback <;> cases f.rollbackPanics <;>
    cases f.commitPanics <;> simp [h1, Err.of]

theorem endFailuresReported_once (f : Faults) (b : Body) : endFailuresReported (transactOnce f b) = true := by
  have hall := runBody_all b
  have h1 := not_mem_of_all hall (.commit false) rfl
  have h2 := not_mem_of_all hall (.rollback false) rfl
  unfold transactOnce endFailuresReported retHas
  generalize (runBody b).1 = evs at *
  generalize (runBody b).2 = out at *
  cases f.begin <;> cases out <;> cases f.commit <;> cases f.rollback <;> cases f.rollbackPanics <;>
    cases f.commitPanics <;> simp [h1, h2, Err.of, isCommitSrc, isRollbackSrc]

theorem bodyErrorReported_once (f : Faults) (b : Body) : bodyErrorReported (transactOnce f b) = true := by
  unfold transactOnce bodyErrorReported reports
  generalize (runBody b).1 = evs at *
  generalize (runBody b).2 = out at *
  cases f.begin <;> cases out <;> cases f.rollback <;> cases f.rollbackPanics <;> cases f.commitPanics <;>
    simp [Err.mentions] <;> (intro x hx; simp [hx])

theorem orderlyReturn_once (f : Faults) (b : Body) : orderlyReturn (transactOnce f b) = true := by
  unfold transactOnce orderlyReturn
  generalize (runBody b).1 = evs at *
  generalize (runBody b).2 = out at *
  cases f.begin <;> cases out <;> cases f.rollbackPanics <;> cases f.commitPanics <;>
    simp [getLast?_cons_snoc]

theorem beginFailureReported_once (f : Faults) (b : Body) : beginFailureReported (transactOnce f b) = true := by
  have hall := runBody_all b
  have h1 := not_mem_of_all hall (.begin false) rfl
  have h2 := any_false_of_all (p := isBeginBad) (q := isStmt) (by intro e; cases e <;> simp) _ hall
  unfold transactOnce beginFailureReported retIs
  generalize (runBody b).1 = evs at *
  generalize (runBody b).2 = out at *
  cases f.begin <;> cases out <;> cases f.rollbackPanics <;> cases f.commitPanics <;>
    simp [h1, h2, Err.of]

theorem holds_once (f : Faults) (b : Body) : holds (transactOnce f b) = true := by
  simp only [holds, beginsOnce_once, endsExactlyOnce_once, bodyRunsIffBegun_once, commitIffBodyOk_once,
    rollbackIffBodyFailed_once, panicReported_once, nilIffCommitOk_once, endFailuresReported_once,
    bodyErrorReported_once, orderlyReturn_once, beginFailureReported_once, Bool.and_self]

theorem log_once_ne_nil (f : Faults) (b : Body) : (transactOnce f b).log ≠ [] := by
  unfold transactOnce
  cases f.begin <;> simp
  split <;> split <;> simp

theorem log_once_has_begin (f : Faults) (b : Body) : (transactOnce f b).log.any isBegin = true := by
  unfold transactOnce
  cases f.begin <;> simp
  split <;> split <;> simp

/-! ### Begin attempts answered driver.ErrBadConn in front of the log change none of the clauses -/

theorem filter_badPrefix (p : Ev → Bool) (hp : p .beginBad = false) (n : Nat) (l : List Ev) :
    (badPrefix n l).filter p = l.filter p := by
  induction n with
  | zero => rfl
  | succ n ih => simp [badPrefix, hp, ih]

theorem count_bad_badPrefix (n : Nat) (l : List Ev) :
    (List.filter isBeginBad (badPrefix n l)).length = n + (List.filter isBeginBad l).length := by
  induction n with
  | zero => simp [badPrefix]
  | succ n ih => simp [badPrefix, List.filter_cons, ih]; omega

theorem any_badPrefix (p : Ev → Bool) (hp : p .beginBad = false) (n : Nat) (l : List Ev) :
    (badPrefix n l).any p = l.any p := by
  induction n with
  | zero => rfl
  | succ n ih => simp [badPrefix, hp, ih]

theorem dropWhile_badPrefix (n : Nat) (l : List Ev) :
    (badPrefix n l).dropWhile isBeginBad = l.dropWhile isBeginBad := by
  induction n with
  | zero => rfl
  | succ n ih => simp [badPrefix, List.dropWhile_cons, ih]

theorem badPrefix_ne_nil (n : Nat) (l : List Ev) (hl : l ≠ []) : badPrefix n l ≠ [] := by
  cases n <;> simp [badPrefix, hl]

theorem getLast?_badPrefix (n : Nat) (l : List Ev) (hl : l ≠ []) : (badPrefix n l).getLast? = l.getLast? := by
  induction n with
  | zero => rfl
  | succ n ih =>
    have := badPrefix_ne_nil n l hl
    cases h : badPrefix n l with
    | nil => exact absurd h this
    | cons a t => simp [badPrefix, h, List.getLast?_cons_cons, ← ih]

theorem mem_badPrefix (x : Ev) (hx : x ≠ .beginBad) (n : Nat) (l : List Ev) : x ∈ badPrefix n l ↔ x ∈ l := by
  induction n with
  | zero => rfl
  | succ n ih => simp [badPrefix, hx, ih]

theorem mem_badPrefix_or (x : Ev) (n : Nat) (l : List Ev) : x ∈ badPrefix n l → x = .beginBad ∨ x ∈ l := by
  induction n with
  | zero => exact Or.inr
  | succ n ih =>
    intro h
    simp only [badPrefix, List.mem_cons] at h
    rcases h with h | h
    · exact Or.inl h
    · exact ih h

theorem mem_refusedBegins (f : Faults) (a : Ev) : a ∈ refusedBegins f → a = .beginBad ∨ a = .begin false := by
  unfold refusedBegins
  split <;> intro h <;> rcases mem_badPrefix_or _ _ _ h with h | h <;> simp_all

theorem contains_badPrefix (x : Ev) (hx : x ≠ .beginBad) (n : Nat) (l : List Ev) :
    (badPrefix n l).contains x = l.contains x := by
  rw [Bool.eq_iff_iff]; simp [mem_badPrefix x hx n l]

theorem badPrefix_append (n : Nat) (l m : List Ev) : badPrefix n l ++ m = badPrefix n (l ++ m) := by
  induction n with
  | zero => rfl
  | succ n ih => simp [badPrefix, ih]

theorem holds_badPrefix (r : Result) (n : Nat) (hne : r.log ≠ []) (hb : r.log.any isBegin = true) :
    holds { r with log := badPrefix n r.log } = holds r := by
  have e1 : beginsOnce { r with log := badPrefix n r.log } = beginsOnce r := by
    simp only [beginsOnce, count, filter_badPrefix isBegin rfl, dropWhile_badPrefix] <;> rfl
  have e2 : endsExactlyOnce { r with log := badPrefix n r.log } = endsExactlyOnce r := by
    simp only [endsExactlyOnce, begun, count, filter_badPrefix isEnd rfl, filter_badPrefix isStmt rfl,
      any_badPrefix isBeginOk rfl, getLast?_badPrefix n r.log hne] <;> rfl
  have e3 : bodyRunsIffBegun { r with log := badPrefix n r.log } = bodyRunsIffBegun r := by
    simp only [bodyRunsIffBegun, begun, any_badPrefix isBeginOk rfl] <;> rfl
  have e4 : commitIffBodyOk { r with log := badPrefix n r.log } = commitIffBodyOk r := by
    simp only [commitIffBodyOk, begun, any_badPrefix isBeginOk rfl, any_badPrefix isCommit rfl] <;> rfl
  have e5 : rollbackIffBodyFailed { r with log := badPrefix n r.log } = rollbackIffBodyFailed r := by
    simp only [rollbackIffBodyFailed, begun, any_badPrefix isBeginOk rfl, any_badPrefix isRollback rfl] <;> rfl
  have e6 : panicReported { r with log := badPrefix n r.log } = panicReported r := rfl
  have e7 : nilIffCommitOk { r with log := badPrefix n r.log } = nilIffCommitOk r := by
    simp only [nilIffCommitOk, contains_badPrefix (.commit true) (by simp)] <;> rfl
  have e8 : endFailuresReported { r with log := badPrefix n r.log } = endFailuresReported r := by
    simp only [endFailuresReported, retHas, contains_badPrefix (.commit false) (by simp),
      contains_badPrefix (.rollback false) (by simp)] <;> rfl
  have e9 : bodyErrorReported { r with log := badPrefix n r.log } = bodyErrorReported r := rfl
  have e11 : beginFailureReported { r with log := badPrefix n r.log } = beginFailureReported r := by
    simp [beginFailureReported, retIs, mem_badPrefix (.begin false) (by simp : Ev.begin false ≠ .beginBad),
      any_badPrefix isBegin rfl, hb]
  have e10 : orderlyReturn { r with log := badPrefix n r.log } = orderlyReturn r := by
    simp only [orderlyReturn, getLast?_badPrefix n r.log hne] <;> rfl
  simp only [holds, e1, e2, e3, e4, e5, e6, e7, e8, e9, e10, e11]

/-! ### … hence of `transactOnConn` and of `TransactCtx` (breaker + context + connection provider around it) -/

theorem holds_onConn (f : Faults) (b : Body) : holds (transactOnConn f b) = true := by
  unfold transactOnConn
  split
  · decide
  · rw [holds_badPrefix _ _ (log_once_ne_nil f b) (log_once_has_begin f b)]; exact holds_once f b

/-- none of the clauses looks at what the breaker was told -/
theorem holds_mark (r : Result) (m : Option Bool) : holds { r with mark := m } = holds r := rfl

theorem holds_ctx (env : Env) (f : Faults) (b : Body) : holds (transactCtx env f b) = true := by
  unfold transactCtx
  split
  · cases env.ctxDead <;> decide
  · split
    · decide
    · split
      · decide
      · rw [holds_mark]; exact holds_onConn f b

theorem breakerTold_ctx (env : Env) (f : Faults) (b : Body) :
    breakerTold env.userAccept (transactCtx env f b) = true := by
  unfold transactCtx breakerTold markOf
  cases env.ctxDone <;> cases env.brkAllow <;> cases env.connOk <;> simp [acceptable, Err.of, srcAcceptable]
  cases (transactOnConn f b).escaped <;> simp

/-! ### the exact shape of the driver-call log -/

theorem log_shape_once (f : Faults) (b : Body) :
    (transactOnce f b).log =
      if f.begin then .begin true :: ((runBody b).1 ++ [endEvent f b]) else [.begin false] := by
  have hne := runBody_ne_notRun b
  unfold transactOnce endEvent Faults.commitOk Faults.rollbackOk
  cases f.begin <;> simp
  cases h : (runBody b).2 <;> cases f.rollbackPanics <;> cases f.commitPanics <;> simp_all

theorem log_shape_onConn (f : Faults) (b : Body) :
    (transactOnConn f b).log =
      if f.opens then badPrefix f.badConn (.begin true :: ((runBody b).1 ++ [endEvent f b]))
      else refusedBegins f := by
  unfold transactOnConn Faults.opens refusedBegins
  cases h : f.givesUp <;> simp [log_shape_once]
  cases f.begin <;> simp

theorem log_shape_ctx (env : Env) (f : Faults) (b : Body) :
    (transactCtx env f b).log =
      if opened env f then badPrefix f.badConn (.begin true :: ((runBody b).1 ++ [endEvent f b]))
      else if env.admitted then refusedBegins f else [] := by
  unfold transactCtx opened Env.admitted
  cases env.ctxDone <;> cases env.brkAllow <;> cases env.connOk <;> simp [log_shape_onConn]

theorem runStmts_executed (c : Option Nat) (dl : Bool) (l : List Stmt) :
    ∀ i, (runStmts c dl i l).1 = eventsOf c i (executed c i l) := by
  induction l with
  | nil => intro i; rfl
  | cons s rest ih =>
    intro i
    unfold runStmts executed
    split
    · simp [eventsOf]
    · simp [eventsOf, ih]

/-! ### closed forms of the other result fields -/

theorem opened_iff (env : Env) (f : Faults) :
    opened env f = true ↔
      (env.ctxDone = false ∧ env.brkAllow = true ∧ env.connOk = true ∧ f.givesUp = false ∧ f.begin = true) := by
  unfold opened Env.admitted Faults.opens
  cases env.ctxDone <;> cases env.brkAllow <;> cases env.connOk <;> cases f.givesUp <;> cases f.begin <;> simp

/-- runs/body/ret/escaped of `transactOnConn` are those of the attempt that is not retried -/
theorem runs_onConn (f : Faults) (b : Body) : (transactOnConn f b).runs = if f.opens then 1 else 0 := by
  unfold transactOnConn transactOnce Faults.opens
  cases f.givesUp <;> cases f.begin <;> simp
  split <;> split <;> rfl

theorem body_onConn (f : Faults) (b : Body) :
    (transactOnConn f b).body = if f.opens then (runBody b).2 else .notRun := by
  have hne := runBody_ne_notRun b
  unfold transactOnConn transactOnce Faults.opens
  cases f.givesUp <;> cases f.begin <;> simp
  cases h : (runBody b).2 <;> cases f.rollbackPanics <;> cases f.commitPanics <;> simp_all

/-- the returned error (or the panic value the call leaves with), in closed form, when a transaction was opened -/
theorem ret_onConn_opens (f : Faults) (b : Body) (h : f.opens = true) :
    (transactOnConn f b).ret =
      match (runBody b).2 with
      | .panic => if f.rollbackPanics then some (Err.of (.rollback .plain))
                  else some { is := if f.rollback then [] else [.rollback f.rollbackCls], says := [.panic] }
      | .err e => if f.rollbackPanics then some (Err.of (.rollback .plain))
                  else some (if f.rollback then e else { is := [.rollback f.rollbackCls], says := e.is ++ e.says })
      | _ => if f.commitPanics then some (Err.of (.commit .plain))
             else if f.commit then none else some (Err.of (.commit f.commitCls)) := by
  unfold Faults.opens at h
  unfold transactOnConn transactOnce
  cases h1 : f.givesUp <;> cases h2 : f.begin <;> simp_all
  cases h : (runBody b).2 <;> cases f.rollbackPanics <;> cases f.commitPanics <;> simp

theorem escaped_onConn (f : Faults) (b : Body) :
    (transactOnConn f b).escaped =
      (f.opens && (match (runBody b).2 with
                   | .nil => f.commitPanics
                   | _ => f.rollbackPanics)) := by
  have hne := runBody_ne_notRun b
  unfold transactOnConn transactOnce Faults.opens
  cases f.givesUp <;> cases f.begin <;> simp
  cases h : (runBody b).2 <;> cases f.rollbackPanics <;> cases f.commitPanics <;> simp_all

theorem ret_onConn_not_opens (f : Faults) (b : Body) (h : f.opens = false) :
    (transactOnConn f b).ret = some (Err.of (if f.givesUp then .badConn else .begin)) := by
  unfold Faults.opens at h
  unfold transactOnConn transactOnce
  cases h1 : f.givesUp <;> cases h2 : f.begin <;> simp_all

theorem runs_ctx (env : Env) (f : Faults) (b : Body) :
    (transactCtx env f b).runs = if opened env f then 1 else 0 := by
  unfold transactCtx opened Env.admitted
  cases env.ctxDone <;> cases env.brkAllow <;> cases env.connOk <;> simp [runs_onConn]

theorem body_ctx (env : Env) (f : Faults) (b : Body) :
    (transactCtx env f b).body = if opened env f then (runBody b).2 else .notRun := by
  unfold transactCtx opened Env.admitted
  cases env.ctxDone <;> cases env.brkAllow <;> cases env.connOk <;> simp [body_onConn]

theorem ret_admitted (env : Env) (f : Faults) (b : Body) (h : env.admitted = true) :
    (transactCtx env f b).ret = (transactOnConn f b).ret ∧
    (transactCtx env f b).escaped = (transactOnConn f b).escaped := by
  unfold Env.admitted at h
  unfold transactCtx
  cases h1 : env.ctxDone <;> cases h2 : env.brkAllow <;> cases h3 : env.connOk <;> simp_all

theorem ret_opened (env : Env) (f : Faults) (b : Body) (h : opened env f = true) :
    (transactCtx env f b).ret =
      match (runBody b).2 with
      | .panic => if f.rollbackPanics then some (Err.of (.rollback .plain))
                  else some { is := if f.rollback then [] else [.rollback f.rollbackCls], says := [.panic] }
      | .err e => if f.rollbackPanics then some (Err.of (.rollback .plain))
                  else some (if f.rollback then e else { is := [.rollback f.rollbackCls], says := e.is ++ e.says })
      | _ => if f.commitPanics then some (Err.of (.commit .plain))
             else if f.commit then none else some (Err.of (.commit f.commitCls)) := by
  unfold opened at h
  simp only [Bool.and_eq_true] at h
  rw [(ret_admitted env f b h.1).1, ret_onConn_opens f b h.2]

theorem ret_not_opened (env : Env) (f : Faults) (b : Body) (h : opened env f = false) :
    (transactCtx env f b).ret =
      some (Err.of (if env.ctxDone then ctxSrc env.ctxDead else if !env.brkAllow then .breaker
                    else if !env.connOk then .conn else if f.givesUp then .badConn else .begin)) := by
  unfold opened Env.admitted at h
  unfold transactCtx
  cases h1 : env.ctxDone <;> cases h2 : env.brkAllow <;> cases h3 : env.connOk <;> simp_all
  exact ret_onConn_not_opens f b h

theorem escaped_ctx (env : Env) (f : Faults) (b : Body) :
    (transactCtx env f b).escaped =
      (opened env f && (match (runBody b).2 with
                        | .nil => f.commitPanics
                        | _ => f.rollbackPanics)) := by
  unfold transactCtx opened Env.admitted
  cases env.ctxDone <;> cases env.brkAllow <;> cases env.connOk <;> simp [escaped_onConn]

theorem mark_ctx (env : Env) (f : Faults) (b : Body) :
    (transactCtx env f b).mark =
      if env.ctxDone || !env.brkAllow then none
      else if !env.connOk then some false
      else if (transactCtx env f b).escaped then none
      else some (acceptable env.userAccept (transactCtx env f b).ret) := by
  unfold transactCtx markOf
  cases env.ctxDone <;> cases env.brkAllow <;> cases env.connOk <;> simp

theorem violated_nil_of_holds (r : Result) (h : holds r = true) : violated r = [] := by
  unfold holds at h
  simp only [Bool.and_eq_true] at h
  simp [violated, clauses, h]

/-! ### `acceptable` spelled with the probes the code makes (used by Tie and Props) -/

theorem any_or_fun {α} (l : List α) (p q : α → Bool) :
    l.any (fun x => p x || q x) = (l.any p || l.any q) := by
  induction l with
  | nil => rfl
  | cons x l ih =>
    simp only [List.any_cons, ih]
    cases p x <;> cases q x <;> cases l.any p <;> cases l.any q <;> rfl

theorem any_and_const {α} (l : List α) (a : Bool) (p : α → Bool) :
    l.any (fun x => a && p x) = (a && l.any p) := by
  cases a <;> simp

/-- the model's `acceptable`, spelled with the probes the code makes (`errors.Is` per sentinel, `errors.As`,
the installed user functions) -/
theorem acceptable_probes (ua : UA) (e : Option Err) :
    acceptable ua e = (e.isNone || hasCls e .noRows || hasCls e .txDone || hasCls e .canceled ||
      hasCls e .accType || (ua.a1 && hasCls e .userOk) || (ua.a2 && hasCls e .userOk2)) := by
  cases e with
  | none => rfl
  | some e =>
    have hf : srcAcceptable ua = fun s =>
        (srcCls s == some .noRows) || (srcCls s == some .txDone) || (srcCls s == some .canceled) ||
        (srcCls s == some .accType) || (ua.a1 && srcCls s == some .userOk) ||
        (ua.a2 && srcCls s == some .userOk2) := by
      funext s
      obtain ⟨a1, a2⟩ := ua
      cases s with
      | body c => cases c <;> cases a1 <;> cases a2 <;> rfl
      | commit c => cases c <;> cases a1 <;> cases a2 <;> rfl
      | rollback c => cases c <;> cases a1 <;> cases a2 <;> rfl
      | _ => cases a1 <;> cases a2 <;> rfl
    simp only [acceptable, hasCls, hf, any_or_fun, any_and_const, Option.isNone, Bool.false_or]

namespace Conc

/-- per-call consistency + no connection holds two open transactions -/
def Inv (s : St) : Prop :=
  (∀ t, match s.pc t with
        | .idle => s.conn t = none ∧ s.begins t = 0 ∧ s.ends t = 0
        | .running _ => s.conn t ≠ none ∧ s.begins t = 1 ∧ s.ends t = 0
        | .done => s.conn t = none ∧ s.begins t = 1 ∧ s.ends t = 1) ∧
  (∀ t, s.stray t = 0) ∧
  (s.conn true ≠ none → s.conn true ≠ s.conn false)

theorem inv_init : Inv init := by
  refine ⟨?_, ?_, ?_⟩ <;> simp [init]

theorem inv_step (n : Bool → Nat) (s s' : St) (t : Bool) (c : Nat) (hi : Inv s) (h : step n s t c = some s') :
    Inv s' := by
  obtain ⟨h1, h2, h3⟩ := hi
  have ht := h1 t
  have ho := h1 (!t)
  unfold step at h
  split at h
  · -- Begin
    rename_i hpc
    rw [hpc] at ht
    split at h
    · simp at h
    · rename_i hne
      simp only [Option.some.injEq] at h
      subst h
      refine ⟨?_, ?_, ?_⟩
      · intro x
        by_cases hx : x = t
        · subst hx; simp [upd, ht.2.1, ht.2.2]
        · have : h1 x = h1 x := rfl
          have hx' := h1 x
          simp [upd, hx]; exact hx'
      · intro x; simp [h2 x]
      · cases t <;> simp_all [upd]
        all_goals (intro hc; exact hne hc.symm)
  · -- a statement
    rename_i k hpc
    rw [hpc] at ht
    simp only [Option.some.injEq] at h
    subst h
    have hown : ¬ (s.conn t = none ∨ s.conn t = s.conn (!t)) := by
      intro hcon
      rcases hcon with hcon | hcon
      · exact ht.1 hcon
      · cases t
        · simp at hcon
          by_cases hT : s.conn true = none
          · rw [hT] at hcon; exact ht.1 hcon
          · exact h3 hT hcon.symm
        · simp at hcon; exact h3 ht.1 hcon
    refine ⟨?_, ?_, h3⟩
    · intro x
      by_cases hx : x = t
      · subst hx; simp [upd, ht]
      · have hx' := h1 x
        simp [upd, hx]; exact hx'
    · intro x
      by_cases hx : x = t
      · subst hx; simp [upd, h2 x, hown]
      · simp [upd, hx, h2 x]
  · -- the end
    rename_i hpc
    rw [hpc] at ht
    simp only [Option.some.injEq] at h
    subst h
    refine ⟨?_, ?_, ?_⟩
    · intro x
      by_cases hx : x = t
      · subst hx; simp [upd, ht.2.1, ht.2.2]
      · have hx' := h1 x
        simp [upd, hx]; exact hx'
    · intro x; simp [h2 x]
    · cases t <;> simp_all [upd]
  · simp at h

theorem inv_run (n : Bool → Nat) (sched : List (Bool × Nat)) (s : St) (hi : Inv s) : Inv (run n s sched) := by
  induction sched generalizing s with
  | nil => exact hi
  | cons x rest ih =>
    obtain ⟨t, c⟩ := x
    unfold run
    split
    · rename_i s' h; exact ih s' (inv_step n s s' t c hi h)
    · exact ih s hi

end Conc

end GoZero.C14
