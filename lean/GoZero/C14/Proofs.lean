/-
C14 — helper lemmas: the statements of a body only ever produce statement events, for every body length;
facts about logs of the form  begin :: statements ++ [end].
-/
import GoZero.C14.Spec
namespace GoZero.C14
open GoZero.C14.Spec

/-! the predicates on constructors (simp set) -/
@[simp] theorem isBegin_begin (ok : Bool) : isBegin (.begin ok) = true := rfl
@[simp] theorem isBegin_exec (i : Nat) (ok : Bool) : isBegin (.exec i ok) = false := rfl
@[simp] theorem isBegin_query (i : Nat) (ok : Bool) : isBegin (.query i ok) = false := rfl
@[simp] theorem isBegin_commit (ok : Bool) : isBegin (.commit ok) = false := rfl
@[simp] theorem isBegin_rollback (ok : Bool) : isBegin (.rollback ok) = false := rfl
@[simp] theorem isBeginOk_begin (ok : Bool) : isBeginOk (.begin ok) = ok := by cases ok <;> rfl
@[simp] theorem isBeginOk_exec (i : Nat) (ok : Bool) : isBeginOk (.exec i ok) = false := rfl
@[simp] theorem isBeginOk_query (i : Nat) (ok : Bool) : isBeginOk (.query i ok) = false := rfl
@[simp] theorem isBeginOk_commit (ok : Bool) : isBeginOk (.commit ok) = false := rfl
@[simp] theorem isBeginOk_rollback (ok : Bool) : isBeginOk (.rollback ok) = false := rfl
@[simp] theorem isCommit_begin (ok : Bool) : isCommit (.begin ok) = false := rfl
@[simp] theorem isCommit_exec (i : Nat) (ok : Bool) : isCommit (.exec i ok) = false := rfl
@[simp] theorem isCommit_query (i : Nat) (ok : Bool) : isCommit (.query i ok) = false := rfl
@[simp] theorem isCommit_commit (ok : Bool) : isCommit (.commit ok) = true := rfl
@[simp] theorem isCommit_rollback (ok : Bool) : isCommit (.rollback ok) = false := rfl
@[simp] theorem isRollback_begin (ok : Bool) : isRollback (.begin ok) = false := rfl
@[simp] theorem isRollback_exec (i : Nat) (ok : Bool) : isRollback (.exec i ok) = false := rfl
@[simp] theorem isRollback_query (i : Nat) (ok : Bool) : isRollback (.query i ok) = false := rfl
@[simp] theorem isRollback_commit (ok : Bool) : isRollback (.commit ok) = false := rfl
@[simp] theorem isRollback_rollback (ok : Bool) : isRollback (.rollback ok) = true := rfl
@[simp] theorem isEnd_begin (ok : Bool) : isEnd (.begin ok) = false := rfl
@[simp] theorem isEnd_exec (i : Nat) (ok : Bool) : isEnd (.exec i ok) = false := rfl
@[simp] theorem isEnd_query (i : Nat) (ok : Bool) : isEnd (.query i ok) = false := rfl
@[simp] theorem isEnd_commit (ok : Bool) : isEnd (.commit ok) = true := rfl
@[simp] theorem isEnd_rollback (ok : Bool) : isEnd (.rollback ok) = true := rfl
@[simp] theorem isStmt_begin (ok : Bool) : isStmt (.begin ok) = false := rfl
@[simp] theorem isStmt_exec (i : Nat) (ok : Bool) : isStmt (.exec i ok) = true := rfl
@[simp] theorem isStmt_query (i : Nat) (ok : Bool) : isStmt (.query i ok) = true := rfl
@[simp] theorem isStmt_commit (ok : Bool) : isStmt (.commit ok) = false := rfl
@[simp] theorem isStmt_rollback (ok : Bool) : isStmt (.rollback ok) = false := rfl

theorem stmtEv_all (i : Nat) (s : Stmt) : (stmtEv i s).all isStmt = true := by
  unfold stmtEv; cases s.kind <;> simp [isStmt]

theorem runStmts_all (l : List Stmt) : ∀ i, (runStmts i l).1.all isStmt = true := by
  induction l with
  | nil => intro i; simp [runStmts]
  | cons s rest ih =>
    intro i
    unfold runStmts
    split
    · exact stmtEv_all i s
    · simp only [List.all_append, Bool.and_eq_true]; exact ⟨stmtEv_all i s, ih (i + 1)⟩

theorem runBody_all (b : Body) : (runBody b).1.all isStmt = true := by
  unfold runBody; split <;> exact runStmts_all b.stmts 0

/-- the body never ends "not run" once it is run -/
theorem runBody_ne_notRun (b : Body) : (runBody b).2 ≠ .notRun := by
  unfold runBody; split
  · simp
  · cases b.fin <;> simp

theorem getLast?_cons_snoc {α} (a : α) (l : List α) (x : α) : (a :: (l ++ [x])).getLast? = some x := by
  have : a :: (l ++ [x]) = (a :: l) ++ [x] := rfl
  rw [this, List.getLast?_append]; simp

theorem filter_nil_of_all {p q : Ev → Bool} (h : ∀ e, q e = true → p e = false) :
    ∀ (l : List Ev), l.all q = true → l.filter p = [] := by
  intro l hl
  rw [List.filter_eq_nil_iff]
  intro e he
  rw [List.all_eq_true] at hl
  simp [h e (hl e he)]

theorem any_false_of_all {p q : Ev → Bool} (h : ∀ e, q e = true → p e = false) :
    ∀ (l : List Ev), l.all q = true → l.any p = false := by
  intro l hl
  rw [List.any_eq_false]
  intro e he
  rw [List.all_eq_true] at hl
  simp [h e (hl e he)]

theorem stmt_not_begin (e : Ev) : isStmt e = true → isBegin e = false := by cases e <;> simp [isStmt, isBegin]
theorem stmt_not_beginOk (e : Ev) : isStmt e = true → isBeginOk e = false := by
  cases e <;> simp [isStmt, isBeginOk]
theorem stmt_not_commit (e : Ev) : isStmt e = true → isCommit e = false := by cases e <;> simp [isStmt, isCommit]
theorem stmt_not_rollback (e : Ev) : isStmt e = true → isRollback e = false := by
  cases e <;> simp [isStmt, isRollback]
theorem stmt_not_end (e : Ev) : isStmt e = true → isEnd e = false := by
  cases e <;> simp [isStmt, isEnd, isCommit, isRollback]
theorem stmt_not_notBegin (e : Ev) : isStmt e = true → (!isBegin e) = true := by
  cases e <;> simp [isStmt, isBegin]

theorem not_mem_of_all {l : List Ev} (hl : l.all isStmt = true) (x : Ev) (hx : isStmt x = false) : x ∉ l := by
  intro hm
  rw [List.all_eq_true] at hl
  have := hl x hm
  rw [hx] at this
  exact Bool.noConfusion this

/-! ### every clause of the property holds of `transactOnConn`, for every fault plan and body -/
theorem all_notBegin (evs : List Ev) (h : evs.all isStmt = true) : evs.all (fun e => !isBegin e) = true := by
  rw [List.all_eq_true] at *
  intro e he; exact stmt_not_notBegin e (h e he)

theorem beginsOnce_onConn (f : Faults) (b : Body) : beginsOnce (transactOnConn f b) = true := by
  have hall := runBody_all b
  have h1 := filter_nil_of_all stmt_not_begin _ hall
  have h2 := all_notBegin _ hall
  unfold transactOnConn beginsOnce count
  generalize (runBody b).1 = evs at *
  generalize (runBody b).2 = out at *
  cases f.begin <;> cases out <;> simp [h1, h2, List.filter_cons, List.filter_append, List.all_append] 

theorem endsExactlyOnce_onConn (f : Faults) (b : Body) : endsExactlyOnce (transactOnConn f b) = true := by
  have hall := runBody_all b
  have h1 := filter_nil_of_all stmt_not_end _ hall
  have h2 := any_false_of_all stmt_not_beginOk _ hall
  unfold transactOnConn endsExactlyOnce count begun
  generalize (runBody b).1 = evs at *
  generalize (runBody b).2 = out at *
  cases f.begin <;> cases out <;> simp [h1, h2, List.filter_cons, List.filter_append, getLast?_cons_snoc] 

theorem bodyRunsIffBegun_onConn (f : Faults) (b : Body) : bodyRunsIffBegun (transactOnConn f b) = true := by
  have hall := runBody_all b
  have h2 := any_false_of_all stmt_not_beginOk _ hall
  have hne := runBody_ne_notRun b
  unfold transactOnConn bodyRunsIffBegun begun
  generalize (runBody b).1 = evs at *
  generalize (runBody b).2 = out at *
  cases f.begin <;> cases out <;> simp [h2] at hne ⊢

theorem commitIffBodyOk_onConn (f : Faults) (b : Body) : commitIffBodyOk (transactOnConn f b) = true := by
  have hall := runBody_all b
  have h1 := any_false_of_all stmt_not_commit _ hall
  have h2 := any_false_of_all stmt_not_beginOk _ hall
  have hne := runBody_ne_notRun b
  unfold transactOnConn commitIffBodyOk begun
  generalize (runBody b).1 = evs at *
  generalize (runBody b).2 = out at *
  cases f.begin <;> cases out <;> simp [h1, h2] at hne ⊢

theorem rollbackIffBodyFailed_onConn (f : Faults) (b : Body) : rollbackIffBodyFailed (transactOnConn f b) = true := by
  have hall := runBody_all b
  have h1 := any_false_of_all stmt_not_rollback _ hall
  have h2 := any_false_of_all stmt_not_beginOk _ hall
  have hne := runBody_ne_notRun b
  unfold transactOnConn rollbackIffBodyFailed begun
  generalize (runBody b).1 = evs at *
  generalize (runBody b).2 = out at *
  cases f.begin <;> cases out <;> simp [h1, h2, bodyFailed] at hne ⊢

theorem panicReported_onConn (f : Faults) (b : Body) : panicReported (transactOnConn f b) = true := by
  unfold transactOnConn panicReported
  generalize (runBody b).1 = evs at *
  generalize (runBody b).2 = out at *
  cases f.begin <;> cases out <;> simp [Err.mentions]

theorem nilIffCommitOk_onConn (f : Faults) (b : Body) : nilIffCommitOk (transactOnConn f b) = true := by
  have hall := runBody_all b
  have h1 := not_mem_of_all hall (.commit true) rfl
  unfold transactOnConn nilIffCommitOk
  generalize (runBody b).1 = evs at *
  generalize (runBody b).2 = out at *
  cases f.begin <;> cases out <;> cases f.commit <;> cases f.rollback <;> simp [h1, Err.of]

theorem endFailuresReported_onConn (f : Faults) (b : Body) : endFailuresReported (transactOnConn f b) = true := by
  have hall := runBody_all b
  have h1 := not_mem_of_all hall (.commit false) rfl
  have h2 := not_mem_of_all hall (.rollback false) rfl
  unfold transactOnConn endFailuresReported reports
  generalize (runBody b).1 = evs at *
  generalize (runBody b).2 = out at *
  cases f.begin <;> cases out <;> cases f.commit <;> cases f.rollback <;> simp [h1, h2, Err.of, Err.mentions]

theorem bodyErrorReported_onConn (f : Faults) (b : Body) : bodyErrorReported (transactOnConn f b) = true := by
  unfold transactOnConn bodyErrorReported reports
  generalize (runBody b).1 = evs at *
  generalize (runBody b).2 = out at *
  cases f.begin <;> cases out <;> cases f.rollback <;> simp [Err.mentions] <;> (intro x hx; simp [hx])

/-! ### … and of `TransactCtx` (breaker + context + connection provider around it) -/

theorem holds_onConn (f : Faults) (b : Body) : holds (transactOnConn f b) = true := by
  simp only [holds, beginsOnce_onConn, endsExactlyOnce_onConn, bodyRunsIffBegun_onConn, commitIffBodyOk_onConn,
    rollbackIffBodyFailed_onConn, panicReported_onConn, nilIffCommitOk_onConn, endFailuresReported_onConn,
    bodyErrorReported_onConn, Bool.and_self]

/-- none of the clauses looks at what the breaker was told -/
theorem holds_mark (r : Result) (m : Option Bool) : holds { r with mark := m } = holds r := rfl

theorem holds_ctx (env : Env) (f : Faults) (b : Body) : holds (transactCtx env f b) = true := by
  unfold transactCtx
  split
  · decide
  · split
    · decide
    · split
      · decide
      · rw [holds_mark]; exact holds_onConn f b

/-! ### the exact shape of the driver-call log -/

theorem log_shape_onConn (f : Faults) (b : Body) :
    (transactOnConn f b).log =
      if f.begin then .begin true :: ((runBody b).1 ++ [endEvent f b]) else [.begin false] := by
  unfold transactOnConn endEvent
  cases f.begin <;> simp
  split <;> simp_all
  rename_i x h1 h2
  cases h : (runBody b).2 <;> simp_all
  exact absurd h (runBody_ne_notRun b)

theorem log_shape_ctx (env : Env) (f : Faults) (b : Body) :
    (transactCtx env f b).log =
      if opened env f then .begin true :: ((runBody b).1 ++ [endEvent f b])
      else if env.admitted then [.begin false] else [] := by
  unfold transactCtx opened Env.admitted
  cases env.ctxDone <;> cases env.brkAllow <;> cases env.connOk <;> simp [log_shape_onConn]

theorem runStmts_executed (l : List Stmt) : ∀ i, (runStmts i l).1 = eventsOf i (executed l) := by
  induction l with
  | nil => intro i; rfl
  | cons s rest ih =>
    intro i
    unfold runStmts executed
    split
    · simp [eventsOf]
    · simp [eventsOf, ih]

/-! ### closed forms of the other result fields -/

/-- ret/runs/body/mark of TransactCtx in closed form -/
theorem runs_ctx (env : Env) (f : Faults) (b : Body) :
    (transactCtx env f b).runs = if opened env f then 1 else 0 := by
  unfold transactCtx transactOnConn opened Env.admitted
  cases env.ctxDone <;> cases env.brkAllow <;> cases env.connOk <;> cases f.begin <;> simp <;> split <;> rfl

theorem body_ctx (env : Env) (f : Faults) (b : Body) :
    (transactCtx env f b).body = if opened env f then (runBody b).2 else .notRun := by
  unfold transactCtx transactOnConn opened Env.admitted
  cases env.ctxDone <;> cases env.brkAllow <;> cases env.connOk <;> cases f.begin <;> simp
  cases h : (runBody b).2 <;> simp
  exact absurd h (runBody_ne_notRun b)

/-- the returned error, in closed form, when a transaction was opened -/
theorem ret_opened (env : Env) (f : Faults) (b : Body) (h : opened env f = true) :
    (transactCtx env f b).ret =
      match (runBody b).2 with
      | .panic => some { is := if f.rollback then [] else [.rollback], says := [.panic] }
      | .err e => some (if f.rollback then e else { is := [.rollback], says := e.is ++ e.says })
      | _ => if f.commit then none else some (Err.of .commit) := by
  unfold opened Env.admitted at h
  unfold transactCtx transactOnConn
  cases h1 : env.ctxDone <;> cases h2 : env.brkAllow <;> cases h3 : env.connOk <;> cases h4 : f.begin <;> simp_all
  cases h : (runBody b).2 <;> simp

theorem ret_not_opened (env : Env) (f : Faults) (b : Body) (h : opened env f = false) :
    (transactCtx env f b).ret =
      some (Err.of (if env.ctxDone then .ctx else if !env.brkAllow then .breaker else if !env.connOk then .conn else .begin)) := by
  unfold opened Env.admitted at h
  unfold transactCtx transactOnConn
  cases h1 : env.ctxDone <;> cases h2 : env.brkAllow <;> cases h3 : env.connOk <;> cases h4 : f.begin <;> simp_all

theorem opened_iff (env : Env) (f : Faults) :
    opened env f = true ↔ (env.ctxDone = false ∧ env.brkAllow = true ∧ env.connOk = true ∧ f.begin = true) := by
  unfold opened Env.admitted
  cases env.ctxDone <;> cases env.brkAllow <;> cases env.connOk <;> cases f.begin <;> simp

theorem mark_ctx (env : Env) (f : Faults) (b : Body) :
    (transactCtx env f b).mark =
      if env.ctxDone || !env.brkAllow then none
      else some (env.connOk && acceptable env.userAccept (transactCtx env f b).ret) := by
  unfold transactCtx
  cases env.ctxDone <;> cases env.brkAllow <;> cases env.connOk <;> simp

theorem violated_nil_of_holds (r : Result) (h : holds r = true) : violated r = [] := by
  unfold holds at h
  simp only [Bool.and_eq_true] at h
  simp [violated, clauses, h]

end GoZero.C14
