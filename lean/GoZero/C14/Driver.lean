/-
C14 — driver: replays an implementation trace through the model (correspondence) and the spec (monitor).

cfg:  via=<fromdb|named|namedbad|onconn|cached> accept=<none|user>
op:   tx api=<plain|ctx|ctxdone|ctxdead> begin=<ok|fail> bad=<n> stmts=<[xXfiqYghnmNMpP]*|->
         end=<ok|err:<cls>|panic|panicerr|panicnil> commit=<ok|fail|panic> rollback=<ok|fail|panic>
         brk=<allow|reject> cancel=<-|c<k>|d<k>>
obs:  log=<BB,B,E0,Q1!,C|-> runs=<n> body=<notrun|nil|panic|err:<src>> ret=<nil|is:<src+…|->/says:<src+…|->>
         mark=<ok|fail|-|?> esc=<0|1>

statement letters: x exec ok, result not looked at · X exec ok, `if err != nil { return err }` · f exec fault, body
returns it · i exec fault, body ignores it · q / Y / g / h the same for a query · n nested Transact, error returned ·
m nested Transact, error ignored · N / M the same through the nested TransactCtx · p / P a statement prepared
inside the transaction (Session.Prepare[Ctx], executed, closed): ok and checked / fault returned
bad=<n>: the driver answers Begin with driver.ErrBadConn n times first (log BB).
cancel=c<k> / d<k>: the context given to TransactCtx is cancelled / runs into its deadline just before statement k
(k = number of statements: just before the body ends); api=ctxdead: the deadline has passed before the call.
commit=panic / rollback=panic: the driver's Commit / Rollback panics (log C! / R!, obs esc=1 when the call left by a panic).
round 4 — cfg: accept=<none|user|user2|both> (WithAcceptable options in order), accept1=… (second SqlConn instance of the
section; ops say inst=<0|1>).  commit= / rollback= also `fail:<cls>:<i|w|b>`: the failing call returns an error of a
breaker-acceptable class (Is method / wrapping the sentinel / the bare sentinel).  statement letters r / o / w: a QueryRow
that finds no row (ErrNotFound returned / ignored) / that the driver faults; t / T: exec / nested Transact through
NewSessionFromTx(raw tx).  obs: `core=<ret>|-` what the request handed to the breaker returned (recording breaker only).
round 5 — statement letters b / B: exec / query the driver fails with an error wrapping driver.ErrBadConn (returned; an
ordinary error inside a transaction: nothing is begun or run again) · k: the driver refuses the Prepare of a statement
prepared inside the transaction · a / A: QueryRowsPartial (checked) / QueryRowPartial that finds no row (returned) · d:
RawDB() of a connection made from the session (must be refused; ignored).  commit= / rollback= also `fail:badconn:<i|w|b>`
(class plain).  end= also panicint | panicstruct | panictnil (values that are neither error nor string) and err:tnil (a
typed-nil pointer in a non-nil error: an error of class plain).  cfg: cons=<cache|node|conf> (which CachedConn
constructor).  obs: `cv=<1|0|->` the context the body was handed carries the caller's value / does not / no context;
log token `O<i>`: statement i reached a connection with no transaction open on it; markers `lost` (a statement's error did
not reach the body) and `rawdbleak`.  Clauses evaluated on these raw observations: body-gets-callers-context,
statement-outside-transaction, statement-error-reaches-body, raw-db-refused.
-/
import GoZero.Base.Trace
import GoZero.C14.Spec
namespace GoZero.C14

open GoZero

/-! ### rendering (canonical text of the harness) -/

def Cls.render : Cls → String
  | .plain => "plain" | .noRows => "norows" | .txDone => "txdone"
  | .canceled => "canceled" | .accType => "acctype" | .userOk => "userok" | .userOk2 => "userok2"

def Src.render : Src → String
  | .begin => "begin" | .body c => "body." ++ c.render | .stmt i => s!"stmt{i}"
  | .commit c => if c == .plain then "commit" else "commit." ++ c.render
  | .rollback c => if c == .plain then "rollback" else "rollback." ++ c.render
  | .conn => "conn" | .ctx => "ctx" | .breaker => "breaker" | .nest => "nest"
  | .panic => "panic" | .deadline => "deadline" | .badConn => "badconn"

def renderSrcs (l : List Src) : String :=
  if l.isEmpty then "-" else "+".intercalate (l.map Src.render)

def Err.render (e : Err) : String := s!"is:{renderSrcs e.is}/says:{renderSrcs e.says}"

def renderRet : Option Err → String
  | none => "nil"
  | some e => e.render

def bang (ok : Bool) : String := if ok then "" else "!"

def Ev.render : Ev → String
  | .begin ok => "B" ++ bang ok
  | .exec i ok => s!"E{i}" ++ bang ok
  | .query i ok => s!"Q{i}" ++ bang ok
  | .commit ok => "C" ++ bang ok
  | .rollback ok => "R" ++ bang ok
  | .beginBad => "BB"

def renderLog (l : List Ev) : String :=
  if l.isEmpty then "-" else ",".intercalate (l.map Ev.render)

def BodyOut.render : BodyOut → String
  | .notRun => "notrun" | .nil => "nil" | .panic => "panic"
  | .err e => "err:" ++ renderSrcs e.is

def renderMark : Option Bool → String
  | none => "-" | some true => "ok" | some false => "fail"

def Result.render (r : Result) (withMark : Bool) : String :=
  s!"log={renderLog r.log} runs={r.runs} body={r.body.render} ret={renderRet r.ret} mark=" ++
    (if withMark then renderMark r.mark else "?") ++ (if r.escaped then " esc=1" else " esc=0")

/-! ### parsing -/

def parseCls : String → Option Cls
  | "plain" => some .plain | "norows" => some .noRows | "txdone" => some .txDone
  | "canceled" => some .canceled | "acctype" => some .accType | "userok" => some .userOk
  | "userok2" => some .userOk2
  | _ => none

def parseSrc (s : String) : Option Src :=
  match s with
  | "begin" => some .begin | "commit" => some (.commit .plain) | "rollback" => some (.rollback .plain)
  | "conn" => some .conn | "ctx" => some .ctx | "breaker" => some .breaker | "nest" => some .nest
  | "panic" => some .panic | "deadline" => some .deadline | "badconn" => some .badConn
  | _ =>
    match s.splitOn "." with
    | ["body", c] => (parseCls c).map Src.body
    | ["commit", c] => (parseCls c).bind fun c => if c == .plain then none else some (.commit c)
    | ["rollback", c] => (parseCls c).bind fun c => if c == .plain then none else some (.rollback c)
    | _ =>
      match s.toList with
      | 's' :: 't' :: 'm' :: 't' :: ds => (String.ofList ds).toNat?.map Src.stmt
      | _ => none

def parseSrcs (s : String) : Option (List Src) :=
  if s = "-" then some [] else (s.splitOn "+").mapM parseSrc

def parseErr (s : String) : Option Err :=
  match s.splitOn "/" with
  | [a, b] =>
    match a.splitOn ":", b.splitOn ":" with
    | ["is", x], ["says", y] => do pure { is := (← parseSrcs x), says := (← parseSrcs y) }
    | _, _ => none
  | _ => none

def parseRet (s : String) : Option (Option Err) :=
  if s = "nil" then some none else (parseErr s).map some

def parseEv (tok : String) : Option Ev :=
  let cs := tok.toList
  let failed := cs.getLast? == some '!'
  let core := if failed then cs.dropLast else cs
  match core with
  | ['B', 'B'] => if failed then none else some .beginBad
  | ['B'] => some (.begin (!failed))
  | ['C'] => some (.commit (!failed))
  | ['R'] => some (.rollback (!failed))
  | 'E' :: ds => (String.ofList ds).toNat?.map fun i => .exec i (!failed)
  | 'Q' :: ds => (String.ofList ds).toNat?.map fun i => .query i (!failed)
  | _ => none

/-- a log token with the connection it arrived on: the harness driver writes `O<i>` for a statement that reached a
connection with no transaction open on it (connection 1 of the session model), everything else is on the
transaction's connection 0 -/
def parseEvC (tok : String) : Option (Nat × Ev) :=
  match tok.toList with
  | 'O' :: rest =>
    let failed := rest.getLast? == some '!'
    let ds := if failed then rest.dropLast else rest
    (String.ofList ds).toNat?.map fun i => (1, Ev.exec i (!failed))
  | _ => (parseEv tok).map fun e => (0, e)

def parseLog (s : String) : Option (List Ev) :=
  if s = "-" then some [] else (s.splitOn ",").mapM parseEv

def parseBodyOut (s : String) : Option BodyOut :=
  match s with
  | "notrun" => some .notRun | "nil" => some .nil | "panic" => some .panic
  | _ =>
    match s.splitOn ":" with
    | ["err", x] => (parseSrcs x).map fun l => .err { is := l }
    | _ => none

def parseMark : String → Option (Option (Option Bool))
  | "-" => some (some none) | "ok" => some (some (some true)) | "fail" => some (some (some false))
  | "?" => some none
  | _ => none

/-- the observation of one line; `markSeen = false` when the harness could not observe the breaker -/
def parseObs (obs : List String) : Option (Result × Bool) := do
  let log ← parseLog (← kv? obs "log")
  let runs ← (← kv? obs "runs").toNat?
  let body ← parseBodyOut (← kv? obs "body")
  let ret ← parseRet (← kv? obs "ret")
  let mark ← parseMark (← kv? obs "mark")
  let esc ← (match (← kv? obs "esc") with
    | "0" => some false | "1" => some true | _ => none)
  pure ({ log := log, runs := runs, body := body, ret := ret, mark := mark.getD none, escaped := esc }, mark.isSome)

def parseStmt : Char → Option Stmt
  | 'x' => some { kind := .exec, fails := false, prop := false }
  | 'f' => some { kind := .exec, fails := true, prop := true }
  | 'i' => some { kind := .exec, fails := true, prop := false }
  | 'q' => some { kind := .query, fails := false, prop := false }
  | 'g' => some { kind := .query, fails := true, prop := true }
  | 'h' => some { kind := .query, fails := true, prop := false }
  | 'n' => some { kind := .nest, fails := true, prop := true }
  | 'm' => some { kind := .nest, fails := true, prop := false }
  | 'X' => some { kind := .exec, fails := false, prop := true }
  | 'Y' => some { kind := .query, fails := false, prop := true }
  | 'p' => some { kind := .exec, fails := false, prop := true }     -- prepared inside the transaction
  | 'P' => some { kind := .exec, fails := true, prop := true }
  | 'N' => some { kind := .nest, fails := true, prop := true }
  | 'M' => some { kind := .nest, fails := true, prop := false }
  | 'r' => some { kind := .rowq, fails := false, prop := true }    -- QueryRow finds no row: ErrNotFound returned
  | 'o' => some { kind := .rowq, fails := false, prop := false }   -- … ignored
  | 'w' => some { kind := .rowq, fails := true, prop := true }     -- QueryRow faulted by the driver, returned
  | 'b' => some { kind := .exec, fails := true, prop := true }     -- exec fault wrapping driver.ErrBadConn, returned
  | 'B' => some { kind := .query, fails := true, prop := true }    -- query fault wrapping driver.ErrBadConn, returned
  | 'k' => some { kind := .exec, fails := true, prop := true }     -- the driver refuses the Prepare inside the tx, returned
  | 'a' => some { kind := .query, fails := false, prop := true }   -- QueryRowsPartial[Ctx], checked
  | 'A' => some { kind := .rowq, fails := false, prop := true }    -- QueryRowPartial[Ctx] finds no row, returned
  | 'd' => some { kind := .nest, fails := true, prop := false }    -- RawDB() of a connection made from the session: refused, ignored
  | 't' => some { kind := .exec, fails := false, prop := true }    -- exec through NewSessionFromTx(raw tx), checked
  | 'T' => some { kind := .nest, fails := true, prop := true }     -- nested Transact over NewSessionFromTx(raw tx)
  | _ => none

def parseStmts (s : String) : Option (List Stmt) :=
  if s = "-" then some [] else s.toList.mapM parseStmt

def parseEnd (s : String) : Option End :=
  match s with
  | "ok" => some .ok | "panic" => some .panic | "panicerr" => some .panic | "panicnil" => some .panic
  | "panicint" => some .panic | "panicstruct" => some .panic | "panictnil" => some .panic   -- neither error nor string
  | "err:tnil" => some (.err .plain)     -- a typed-nil pointer in a non-nil error interface: an error like any other
  | "goexit" => some .ok | "panicnil1" => some .ok      -- outside the quantifier: handled apart (`Op.oq`)
  | _ =>
    match s.splitOn ":" with
    | ["err", c] => (parseCls c).map End.err
    | _ => none

def parseOk : String → Option Bool
  | "ok" => some true | "fail" => some false | _ => none

/-- answer of the driver's Commit / Rollback: (ok, panics, class of the error returned, form of the error value).
`fail` = `fail:plain`; `fail:<cls>:<i|w|b>`: the error answers errors.Is for the class's sentinel through an Is
method (i), wraps it (w: Unwrap chain) or IS the sentinel (b: bare) — one class for the model. -/
def parseEndAns (s : String) : Option (Bool × Bool × Cls × String) :=
  match s.splitOn ":" with
  | ["ok"] => some (true, false, .plain, "-")
  | ["fail"] => some (false, false, .plain, "-")
  | ["panic"] => some (false, true, .plain, "-")
  | ["fail", "badconn", form] =>   -- driver.ErrBadConn: an ordinary, not acceptable error inside a transaction
    if ["i", "w", "b"].contains form then some (false, false, .plain, "badconn-" ++ form) else none
  | ["fail", c, form] =>
    if ["i", "w", "b"].contains form then (parseCls c).bind fun c => if c == .plain then none else some (false, false, c, form)
    else none
  | _ => none

def parseUA : String → Option UA
  | "none" => some {} | "user" => some { a1 := true } | "user2" => some { a2 := true }
  | "both" => some { a1 := true, a2 := true }
  -- WithAcceptable(nil): alone it installs nothing; before a real function likewise; AFTER a real function the
  -- pinned code installs `pre(err) || nil(err)` (see `nilAfter` below)
  | "nil" => some {} | "niluser" => some { a1 := true } | "usernil" => some { a1 := true }
  | _ => none

/-- `-` | `c<k>` | `d<k>` → (cancelAt, deadline) -/
def parseCancel (s : String) : Option (Option Nat × Bool) :=
  match s.toList with
  | ['-'] => some (none, false)
  | 'c' :: ds => (String.ofList ds).toNat?.map fun k => (some k, false)
  | 'd' :: ds => (String.ofList ds).toNat?.map fun k => (some k, true)
  | _ => none

structure Op where
  api : String
  f   : Faults
  b   : Body
  brkAllow : Bool
  oq : String := ""        -- "goexit" / "nilpanic": an exit of the body outside the property's quantifier
  inst : Nat := 0          -- which SqlConn instance of the section the call goes to
  cform : String := "-"    -- form of the Commit / Rollback error value (coverage only)
  rform : String := "-"
  endKind : String := "ok"  -- the `end=` token (coverage: which kind of value the body panicked with / returned)
  letters : String := ""
  raw : Option RawEnd := none   -- the body ends the raw *sql.Tx itself after its statements (round 5c)
  deriving Repr

def parseOp (op : List String) : Option Op :=
  match op with
  | "tx" :: rest => do
    let api ← kv? rest "api"
    if !(["plain", "ctx", "ctxdone", "ctxdead"].contains api) then none
    let bg ← parseOk (← kv? rest "begin")
    let bad ← (← kv? rest "bad").toNat?
    let cm ← parseEndAns (← kv? rest "commit")
    let rb ← parseEndAns (← kv? rest "rollback")
    let st ← parseStmts (← kv? rest "stmts")
    let en ← parseEnd (← kv? rest "end")
    let cn ← parseCancel (← kv? rest "cancel")
    -- only a TransactCtx body has a context that can end under it; the position is inside the body
    if cn.1.isSome && api != "ctx" then none
    if (cn.1.getD 0) > st.length then none
    let brk ← (match (← kv? rest "brk") with
      | "allow" => some true | "reject" => some false | _ => none)
    let oq := (match (← kv? rest "end") with
      | "goexit" => "goexit" | "panicnil1" => "nilpanic" | _ => "")
    if oq != "" && (cm.2.1 || rb.2.1) then none
    -- raw=<c|C|r|R>: after its statements the body commits (c/C) / rolls back (r/R) the raw *sql.Tx itself; capital =
    -- the driver refuses that call
    let raw ← (match kv? rest "raw" with
      | none => some none | some "-" => some none
      | some "c" => some (some { commit := true, ok := true : RawEnd })
      | some "C" => some (some { commit := true, ok := false : RawEnd })
      | some "r" => some (some { commit := false, ok := true : RawEnd })
      | some "R" => some (some { commit := false, ok := false : RawEnd })
      | _ => none)
    if raw.isSome && (oq != "" || cn.1.isSome) then none
    let inst ← (match kv? rest "inst" with
      | none => some 0 | some "0" => some 0 | some "1" => some 1 | _ => none)
    pure { api := api,
           f := { begin := bg, commit := cm.1, rollback := rb.1, badConn := bad, commitPanics := cm.2.1,
                  rollbackPanics := rb.2.1, commitCls := cm.2.2.1, rollbackCls := rb.2.2.1 },
           b := { stmts := st, fin := en, cancelAt := cn.1, deadline := cn.2 },
           brkAllow := brk, oq := oq, inst := inst, cform := cm.2.2.2, rform := rb.2.2.2,
           endKind := (← kv? rest "end"), letters := (← kv? rest "stmts"), raw := raw }
  | _ => none

def isBreakerReject (r : Result) : Bool :=
  r.ret == some (Err.of .breaker)

/-! ### round 5c: two transactions in flight (`par` ops) — followed with the interleaving model `Conc` -/

def parsePTok (tok : String) : Option (Nat × Ev) :=
  match tok.splitOn "@" with
  | [a, c] => do pure ((← c.toNat?), (← parseEv a))
  | _ => none

def renderPTok (c : Nat) (e : Ev) : String := e.render ++ s!"@{c}"

/-- the driver calls the model expects for the schedule, given the connection the pool handed to each Begin (in
order); `none`: a step of the model is not enabled (the pool handed out a connection that holds an open
transaction, or there are fewer Begins than the model makes) -/
def parExpected (n : Bool → Nat) (endOk : Bool → Bool) (skip : Bool → Bool) (steps : List Bool) (begins : List Nat) :
    Option (List String × Conc.St) := Id.run do
  let mut st : Conc.St := { Conc.init with pc := fun t => if skip t then .done else .idle }
  let mut bs := begins
  let mut out : Array String := #[]
  let mut ok := true
  for t in steps do
    let off := if t then 100 else 0
    match st.pc t with
    | .idle =>
      match bs with
      | [] => ok := false
      | c :: rest =>
        match Conc.step n st t c with
        | some s' => out := out.push (renderPTok c (.begin true)); st := s'; bs := rest
        | none => ok := false
    | .running (k + 1) =>
      out := out.push (renderPTok ((st.conn t).getD 0) (.exec (n t - (k + 1) + off) true))
      st := (Conc.step n st t 0).getD st
    | .running 0 =>
      out := out.push (renderPTok ((st.conn t).getD 0) (if endOk t then .commit true else .rollback true))
      st := (Conc.step n st t 0).getD st
    | .done => pure ()
  return if ok && bs.isEmpty then some (out.toList, st) else none

/-- the events of connection `c` cut into transactions (a new one at every Begin) -/
def segmentsOf (c : Nat) (toks : List (Nat × Ev)) : List (List Ev) :=
  ((toks.filter (·.1 == c)).map (·.2)).foldl (fun acc e =>
    match e, acc.reverse with
    | .begin _, _ => acc ++ [[e]]
    | _, [] => [[e]]
    | _, last :: restRev => restRev.reverse ++ [last ++ [e]]) []

def stmtIdx : Ev → Option Nat
  | .exec i _ => some i
  | .query i _ => some i
  | _ => none

/-- the property on what the driver saw of two calls in flight: connection discipline of the pool / session
(`opens`), and every clause of the property on each call's own transaction -/
def parMonitor (toks : List (Nat × Ev)) (endOk : Bool → Bool) (rets : Bool → Option Err) (runs : Bool → Nat)
    (skip : Bool → Bool) : List String := Id.run do
  let mut bad : Array String := #[]
  let mut opens : List Nat := []
  for (c, e) in toks do
    match e with
    | .begin true => if opens.contains c then bad := bad.push "two-open-transactions-on-one-connection" else opens := c :: opens
    | .commit _ | .rollback _ =>
      if opens.contains c then opens := opens.erase c else bad := bad.push "ends-exactly-once"
    | .exec _ _ | .query _ _ => if !opens.contains c then bad := bad.push "statement-outside-transaction"
    | _ => pure ()
  for t in [false, true] do
    if skip t then continue
    let mine := fun (e : Ev) => match stmtIdx e with | some i => (decide (i ≥ 100)) == t | none => false
    let conns := ((toks.filter fun x => mine x.2).map (·.1)).eraseDups
    match conns with
    | [c] =>
      let segs := (segmentsOf c toks).filter fun sg => sg.any mine
      match segs with
      | [sg] =>
        if sg.any (fun e => (stmtIdx e).isSome && !mine e) then bad := bad.push "statement-outside-transaction"
        let norm := sg.map fun e => match e with
          | .exec i ok => Ev.exec (i % 100) ok | .query i ok => Ev.query (i % 100) ok | x => x
        let r : Result := { log := norm, runs := runs t, ret := rets t,
                            body := if endOk t then .nil else .err (Err.of (.body .plain)) }
        for cl in Spec.violated r do bad := bad.push (s!"call{if t then 1 else 0}:" ++ cl)
      | _ => bad := bad.push "statement-outside-transaction"
    | _ => bad := bad.push "statement-outside-transaction"
  return bad.toList

def runPar (r : Report) (sidx lidx : Nat) (op obs : List String) : Report := Id.run do
  let impl := joinSp obs
  let mut r := { r with ops := r.ops + 1 }
  let parsed : Option (Nat × Nat × Bool × Bool × List Bool) := do
    let n0 ← (← kv? op "n0").toNat?
    let n1 ← (← kv? op "n1").toNat?
    let pe := fun (x : String) => match x with | "ok" => some true | "err" => some false | _ => none
    let e0 ← pe (← kv? op "end0")
    let e1 ← pe (← kv? op "end1")
    let sc ← kv? op "sched"
    let sched ← (if sc == "-" then some [] else sc.toList.mapM fun c => if c == '0' then some false else if c == '1' then some true else none)
    if n0 == 0 || n1 == 0 || n0 > 50 || n1 > 50 then none
    pure (n0, n1, e0, e1, sched)
  match parsed with
  | none => return r.mismatch sidx lidx "bad-op" (joinSp op)
  | some (n0, n1, e0, e1, sched) =>
    let n := fun (t : Bool) => if t then n1 else n0
    let endOk := fun (t : Bool) => if t then e1 else e0
    let obsP : Option (List (Nat × Ev) × Option Err × Option Err × Nat × Nat) := do
      let lg ← kv? obs "log"
      let toks ← (if lg == "-" then some [] else (lg.splitOn ",").mapM parsePTok)
      pure (toks, ← parseRet (← kv? obs "ret0"), ← parseRet (← kv? obs "ret1"), ← (← kv? obs "runs0").toNat?,
            ← (← kv? obs "runs1").toNat?)
    match obsP with
    | none =>
      r := r.mismatch sidx lidx "unparsable-observation" impl
      return r.violation sidx lidx s!"clauses=[no-orderly-return] impl=[{impl}] op=[{joinSp op}]"
    | some (toks, r0, r1, runs0, runs1) =>
      let rets := fun (t : Bool) => if t then r1 else r0
      let runs := fun (t : Bool) => if t then runs1 else runs0
      -- a real breaker that rejects a call is an environment input: that call made no step
      let skip := fun (t : Bool) => rets t == some (Err.of .breaker) && runs t == 0
      if skip false || skip true then r := r.addCover "par-breaker-real-reject"
      let steps := sched ++ List.replicate (n0 + 2) false ++ List.replicate (n1 + 2) true
      let begins := (toks.filter fun x => x.2 == .begin true).map (·.1)
      let wantRet := fun (t : Bool) => if skip t then rets t else if endOk t then none else some (Err.of (.body .plain))
      match parExpected n endOk skip steps begins with
      | none => r := r.mismatch sidx lidx "every step of the interleaving model enabled" impl
      | some (want, fin) =>
        let wantLog := if want.isEmpty then "-" else ",".intercalate want
        let wantObs := s!"log={wantLog} ret0={renderRet (wantRet false)} runs0={if skip false then 0 else 1} " ++
          s!"ret1={renderRet (wantRet true)} runs1={if skip true then 0 else 1}"
        let implN := s!"log={kvStr obs "log" "?"} ret0={kvStr obs "ret0" "?"} runs0={kvStr obs "runs0" "?"} " ++
          s!"ret1={kvStr obs "ret1" "?"} runs1={kvStr obs "runs1" "?"}"
        if wantObs != implN then r := r.mismatch sidx lidx wantObs impl
        if [false, true].any (fun t => !skip t && (fin.begins t != 1 || fin.ends t != 1 || fin.stray t != 0)) then
          r := r.mismatch sidx lidx "model: each call begins and ends one transaction" impl
      let bad := parMonitor toks endOk rets runs skip
      if !bad.isEmpty then
        r := r.violation sidx lidx s!"clauses=[{",".intercalate bad.eraseDups}] impl=[{impl}] op=[{joinSp op}]"
      r := r.addCover "par-two-transactions-in-flight"
      let distinct := (toks.map (·.1)).eraseDups.length
      r := r.addCover s!"par-connections-{distinct}"
      -- did the two transactions overlap in time (second Begin before the first end)?
      let firstEnd := toks.findIdx? fun x => Spec.isEnd x.2
      let secondBegin := (toks.zipIdx.filter fun x => x.1.2 == .begin true).map (·.2) |>.getD 1 0
      if begins.length == 2 && (firstEnd.getD 0) > secondBegin then r := r.addCover "par-overlapping-transactions"
      r := r.addCover s!"par-ends-{if e0 then "commit" else "rollback"}-{if e1 then "commit" else "rollback"}"
      return r

def runSection (r : Report) (s : Section) : Report := Id.run do
  let via := kvStr s.cfg "via" "?"
  let accept := kvStr s.cfg "accept" "none"
  let accept1 := kvStr s.cfg "accept1" accept      -- the second SqlConn instance of the section (ops with inst=1)
  let mut r := r
  if !(["fromdb", "named", "namedbad", "onconn", "cached"].contains via) || (parseUA accept).isNone
      || (parseUA accept1).isNone then
    return r.mismatch s.idx 0 "bad-cfg" (joinSp s.cfg)
  let ua0 := (parseUA accept).getD {}
  let ua1 := (parseUA accept1).getD {}
  for l in s.lines do
    if l.op.head? == some "par" then
      r := runPar r s.idx l.idx l.op.tail l.obs
      continue
    match parseOp l.op with
    | none => r := r.mismatch s.idx l.idx "bad-op" (joinSp l.op)
    | some op =>
      r := { r with ops := r.ops + 1 }
      let impl := joinSp l.obs
      -- exits outside the quantifier (Goexit, nil panic under GODEBUG=panicnil=1): informational. The code
      -- either commits (recover() != nil saw nothing) or rolls back (completion flag); both are followed.
      let ctxDone := op.api == "ctxdone" || op.api == "ctxdead"
      let ua := if op.inst == 1 then ua1 else ua0
      let envOq : Env := { ctxDone := ctxDone, brkAllow := op.brkAllow,
                           connOk := via != "namedbad", userAccept := ua }
      -- FINDING (informational, like the exits outside the quantifier): options `WithAcceptable(f), WithAcceptable(nil)`.
      -- The pinned code then calls the nil function whenever f says "not acceptable": the call leaves by a nil-call
      -- panic AFTER the transaction has ended as the model says.  With fixes/not-applied/C14-withacceptable-nil.patch the nil
      -- option is ignored and the op is checked like any other.  Both are followed.
      let nilAfter := (if op.inst == 1 then accept1 else accept) == "usernil"
      if nilAfter && via != "onconn" && kvStr l.obs "ret" "?" == "nilcall" then
        let envN : Env := { envOq with ctxDead := op.api == "ctxdead" }
        -- (an exit outside the quantifier either commits or rolls back: both are candidates)
        let cands := if op.oq == "" then [transactCtx envN op.f op.b]
          else [transactCtx envN op.f { op.b with fin := .ok }, transactCtx envN op.f { op.b with fin := .panic }]
        if kvStr l.obs "esc" "?" == "1" && cands.any (fun mN => mN.mark == some false &&
            kvStr l.obs "log" "?" == renderLog mN.log && kvStr l.obs "runs" "?" == toString mN.runs) then
          r := r.addCover "finding-nil-option-after-function-PANICS-after-transaction-ended"
          r := { r with ops := r.ops }
        else
          r := r.mismatch s.idx l.idx "a nil-call panic only where the verdict chain reaches the nil function" impl
          r := r.violation s.idx l.idx s!"clauses=[no-orderly-return] impl=[{impl}] op=[{joinSp l.op}]"
        continue
      if nilAfter then r := r.addCover "nil-option-after-function-not-reached-or-ignored"
      if op.oq != "" && (via == "onconn" || envOq.admitted) && op.f.opens
          && (runStmts op.b.cancelAt op.b.deadline 0 op.b.stmts).2.isNone
          && kvStr l.obs "ret" "?" != "is:breaker/says:-" then
        let lg := kvStr l.obs "log" "?"
        let bd := kvStr l.obs "body" "?"
        let mc := transactOnConn op.f { op.b with fin := .ok }
        let mr := transactOnConn op.f { op.b with fin := .panic }
        if bd != op.oq || kvStr l.obs "runs" "?" != "1" then
          r := r.mismatch s.idx l.idx s!"body={op.oq} runs=1" impl
        else if lg == renderLog mc.log then r := r.addCover s!"outside-quantifier-{op.oq}-COMMITTED"
        else if lg == renderLog mr.log then r := r.addCover s!"outside-quantifier-{op.oq}-rolled-back"
        else r := r.mismatch s.idx l.idx s!"log={renderLog mc.log} or log={renderLog mr.log}" impl
        continue
      -- a Transact[Ctx] of a connection made from the transaction's own session must refuse (errCantNestTx);
      -- the harness marks the error of a nested body that ran
      if (((kvStr l.obs "body" "") ++ (kvStr l.obs "ret" "")).splitOn "nestran").length > 1 then
        r := r.mismatch s.idx l.idx "nested-transact-refused" impl
        r := r.violation s.idx l.idx s!"clauses=[nested-transaction-refused] impl=[{impl}] op=[{joinSp l.op}]"
        continue
      -- a statement that must yield an error (driver fault, nested Transact) yielded none: the body had no chance to
      -- return it (the harness marks this `lost`)
      if (((kvStr l.obs "body" "") ++ (kvStr l.obs "ret" "")).splitOn "lost").length > 1 then
        r := r.mismatch s.idx l.idx "statement-error-reaches-body" impl
        r := r.violation s.idx l.idx s!"clauses=[statement-error-reaches-body] impl=[{impl}] op=[{joinSp l.op}]"
        continue
      -- RawDB() of a connection made from the transaction's session must be refused (errNoRawDBFromTx)
      if (((kvStr l.obs "body" "") ++ (kvStr l.obs "ret" "")).splitOn "rawdbleak").length > 1 then
        r := r.mismatch s.idx l.idx "raw-db-refused" impl
        r := r.violation s.idx l.idx s!"clauses=[raw-db-refused] impl=[{impl}] op=[{joinSp l.op}]"
        continue
      -- a statement of the body that reached a connection with no transaction open on it (the harness driver logs
      -- O<i>) did not run inside the transaction
      -- (evaluated with the model's `outsideTx`, which `Props.statements_inside_the_transaction` proves empty)
      if (match ((kvStr l.obs "log" "").splitOn ",").mapM parseEvC with
          | some tagged => !(outsideTx none tagged).isEmpty
          | none => ((kvStr l.obs "log" "").splitOn ",").any (fun t => t.startsWith "O")) then
        r := r.mismatch s.idx l.idx "statements-inside-the-transaction" impl
        r := r.violation s.idx l.idx s!"clauses=[statement-outside-transaction] impl=[{impl}] op=[{joinSp l.op}]"
        continue
      match parseObs l.obs with
      | none =>
        -- e.g. the call panicked out of Transact: not explainable by the model, and a violation of
        -- "the panic is reported as an error"
        r := r.mismatch s.idx l.idx "unparsable-observation" impl
        r := r.violation s.idx l.idx s!"clauses=[no-orderly-return] impl=[{impl}] op=[{joinSp l.op}]"
      | some (obs, markSeen) =>
        -- the real breaker's admission is an environment input: follow what was observed
        let realReject := op.brkAllow && !ctxDone && via != "onconn" && isBreakerReject obs
        if realReject then r := r.addCover "breaker-real-reject"
        let env : Env := { ctxDone := ctxDone, brkAllow := op.brkAllow && !realReject,
                           connOk := via != "namedbad", userAccept := ua,
                           ctxDead := op.api == "ctxdead" }
        let bx : BodyX := { base := op.b, raw := op.raw }
        let m := if op.raw.isSome then
                   (if via == "onconn" then transactOnConnX op.f bx else transactCtxX env op.f bx)
                 else if via == "onconn" then transactOnConn op.f op.b else transactCtx env op.f op.b
        -- what the request handed to the breaker returned (`core=`; `?` when the harness cannot see it, `-` when
        -- it did not run / did not return)
        let coreObs := kvStr l.obs "core" "?"
        let coreWant := if via == "onconn" || !(!env.ctxDone && env.brkAllow) || m.escaped then "-"
                        else renderRet (transactFnX env.connOk op.f bx).ret
        let implCore := if coreObs == "?" then impl else impl ++ " core=" ++ coreObs
        let implMain := joinSp (l.obs.filter fun t => !t.startsWith "core=" && !t.startsWith "cv=")
        -- the context the body is handed: the caller's (TransactCtx / transactOnConn: it carries the caller's
        -- value), none through Transact
        let cvObs := kvStr l.obs "cv" "?"
        let cvWant := if obs.runs == 0 || op.api == "plain" then "-" else "1"
        if cvObs != "?" && cvObs != cvWant then r := r.mismatch s.idx l.idx s!"cv={cvWant}" impl
        if cvObs != "?" then r := r.addCover s!"body-context-cv-{cvObs}"
        let want := m.render markSeen
        if want ≠ implMain then r := r.mismatch s.idx l.idx want impl
        else if coreObs != "?" && coreObs != coreWant then r := r.mismatch s.idx l.idx (want ++ " core=" ++ coreWant) impl
        let _ := implCore
        -- the wrapper hands the caller exactly what the request (transact) returned to the breaker
        let coreBad := coreObs != "?" && coreObs != "-" && !obs.escaped && coreObs != renderRet obs.ret
        -- a body that ends the raw Tx itself takes the choice of the end away from go-zero: the go-zero-side clauses
        let bad := (if op.raw.isSome then Spec.violatedX obs else Spec.violated obs) ++
          (if markSeen && !Spec.breakerTold env.userAccept obs then ["breaker-told"] else []) ++
          (if coreBad then ["wrapper-returns-core-error"] else []) ++
          (if cvObs == "0" then ["body-gets-callers-context"] else [])
        if !bad.isEmpty then
          r := r.violation s.idx l.idx s!"clauses=[{",".intercalate bad}] impl=[{impl}] op=[{joinSp l.op}]"
        -- coverage
        r := r.addCover ("via-" ++ via)
        r := r.addCover ("api-" ++ op.api)
        r := r.addCover ("body-" ++ (match m.body with
          | .notRun => "notrun" | .nil => "nil" | .panic => "panic"
          | .err e => "err-" ++ (match e.is with | [.stmt _] => "stmt" | [.nest] => "nest" | _ => "own")))
        r := r.addCover ("end-" ++ (match m.log.getLast? with
          | some e => e.render | none => "none"))
        r := r.addCover ("ret-" ++ (match m.ret with
          | none => "nil"
          | some e => renderSrcs (e.is.map fun | .stmt _ => .stmt 0 | x => x) ++ "/" ++
                      renderSrcs (e.says.map fun | .stmt _ => .stmt 0 | x => x)))
        r := r.addCover ("mark-" ++ renderMark m.mark)
        -- round 5: kinds of values a body ends with, ErrBadConn inside the transaction, more session methods
        if m.runs == 1 then
          match m.body with
          | .panic => r := r.addCover s!"body-panic-kind-{op.endKind}-rollback-{if op.f.rollbackOk then "ok" else "fails"}"
          | .err _ => if op.endKind == "err:tnil" then r := r.addCover "body-error-typed-nil-pointer"
          | _ => pure ()
        for (c, name) in [('b', "stmt-exec-fault-ErrBadConn"), ('B', "stmt-query-fault-ErrBadConn"),
            ('k', "stmt-prepare-refused-in-tx"), ('a', "stmt-QueryRowsPartial"), ('A', "stmt-QueryRowPartial-norows"),
            ('d', "stmt-RawDB-of-session-conn-refused")] do
          if op.letters.toList.contains c then r := r.addCover name
        if m.runs == 1 && op.letters.toList.any (fun c => c == 'b' || c == 'B') &&
            (match m.body with | .err e => (match e.is with | [.stmt _] => true | _ => false) | _ => false) then
          r := r.addCover "body-returned-ErrBadConn-no-second-transaction"
        match op.raw with
        | none => pure ()
        | some re =>
          if bx.reaches op.f && m.runs == 1 then
            r := r.addCover (s!"raw-end-{if re.commit then "commit" else "rollback"}-{if re.ok then "ok" else "refused"}-body-" ++
              (match m.body with | .nil => "nil-ErrTxDone-returned" | .panic => "panic" | .err _ => "err" | .notRun => "notrun"))
          else r := r.addCover "raw-end-not-reached"
        if via == "cached" then r := r.addCover ("cached-constructor-" ++ kvStr s.cfg "cons" "cache")
        if via == "cached" && kvStr s.cfg "reuse" "0" == "1" then r := r.addCover "cached-conn-reused-over-the-section"
        -- round 4: the acceptable-error classes at every place an error can come from
        r := r.addCover ("accept-" ++ (if op.inst == 1 then accept1 else accept))
        if op.inst == 1 then r := r.addCover "second-instance"
        if coreObs != "?" && coreObs != "-" then r := r.addCover "core-error-observed"
        if m.log.contains (.commit false) && !m.escaped then
          r := r.addCover s!"commit-error-cls-{op.f.commitCls.render}-form-{op.cform}-mark-{renderMark m.mark}"
        if m.log.contains (.rollback false) && !m.escaped then
          r := r.addCover s!"rollback-error-cls-{op.f.rollbackCls.render}-form-{op.rform}-mark-{renderMark m.mark}"
        match m.body with
        | .err e =>
          match e.is with
          | [.body c] => r := r.addCover s!"body-error-cls-{c.render}-mark-{renderMark m.mark}"
          | _ => pure ()
        | _ => pure ()
        if op.b.stmts.any (fun st => st.kind == .rowq) then r := r.addCover "stmt-queryrow-norows"
        if m.mark == some true && m.ret.isSome then r := r.addCover ("acceptable-error-returned-via-" ++ via)
        if ((kv? l.op "stmts").getD "").toList.any (fun c => c == 't' || c == 'T') then
          r := r.addCover "stmt-through-NewSessionFromTx"
        r := r.addCover (s!"stmts-{min op.b.stmts.length 6}")
        if op.b.stmts.any (fun st => (st.kind == .nest || st.fails) && !st.prop) then
          r := r.addCover "stmt-error-ignored"
        if op.b.stmts.any (fun st => st.prop && !st.fails && st.kind != .nest) then
          r := r.addCover "stmt-ok-error-checked"
        if ((kv? l.op "stmts").getD "").toList.any (fun c => c == 'p' || c == 'P') then
          r := r.addCover "stmt-prepared-in-tx"
        -- the classes of fault points of this round
        if op.f.badConn > 0 then
          r := r.addCover (s!"begin-badconn-{min op.f.badConn 4}" ++ (if op.f.opens then "-then-opened" else "-not-opened"))
        if m.escaped then
          r := r.addCover ("escaped-" ++ (match m.log.getLast? with | some e => e.render | none => "none") ++
            "-body-" ++ (match m.body with | .nil => "nil" | .panic => "panic" | .err _ => "err" | .notRun => "notrun"))
        if op.f.commitPanics && !m.escaped then r := r.addCover "commit-would-panic-not-reached"
        if op.f.rollbackPanics && !m.escaped then r := r.addCover "rollback-would-panic-not-reached"
        match op.b.cancelAt with
        | none => pure ()
        | some k =>
          let kind := if op.b.deadline then "deadline" else "cancel"
          let pos := if k == 0 then "before-first" else if k == op.b.stmts.length then "before-body-end" else "mid-body"
          let out := (match m.body with
            | .notRun => "notrun" | .nil => "nil-COMMIT" | .panic => "panic-ROLLBACK"
            | .err e => "err-" ++ (match e.is with
                | [.ctx] => "ctx" | [.deadline] => "deadline" | [.stmt _] => "stmt" | [.nest] => "nest" | _ => "own") ++ "-ROLLBACK")
          r := r.addCover s!"ctx-{kind}-{pos}"
          if m.runs == 1 then r := r.addCover s!"ctx-{kind}-body-{out}"
          if m.runs == 1 then r := r.addCover ("ctx-ends-under-body-via-" ++ via)
  return r

def driver (secs : List Section) : Report := secs.foldl runSection {}

end GoZero.C14
