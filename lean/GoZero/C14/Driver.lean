/-
C14 — driver: replays an implementation trace through the model (correspondence) and the spec (monitor).

cfg:  via=<fromdb|named|namedbad|onconn|cached> accept=<none|user>
op:   tx api=<plain|ctx|ctxdone|ctxdead> begin=<ok|fail> bad=<n> stmts=<[xXfiqYghnmNMpP]*|->
         end=<ok|err:<cls>|panic|panicerr|panicnil> commit=<ok|fail|panic> rollback=<ok|fail|panic>
         brk=<allow|reject> cancel=<-|c<k>|d<k>>
obs:  log=<BB,B,E0,Q1!,C|-> runs=<n> body=<notrun|nil|panic|err:<src>> ret=<nil|is:<src+…|->/says:<src+…|->>
         mark=<ok|fail|-|?> esc=<0|1>

statement letters: x exec ok, result not looked at · X exec ok, `if err != nil { return err }` · f exec fault, body
returns it · i exec fault, body ignores it · q / Y / g / h the same for a query · n nested Transact, error returned ·
m nested Transact, error ignored · N / M the same through the nested TransactCtx · p / P a statement prepared
inside the transaction (Session.Prepare[Ctx], executed, closed): ok and checked / fault returned
bad=<n>: the driver answers Begin with driver.ErrBadConn n times first (log BB).
cancel=c<k> / d<k>: the context given to TransactCtx is cancelled / runs into its deadline just before statement k
(k = number of statements: just before the body ends); api=ctxdead: the deadline has passed before the call.
commit=panic / rollback=panic: the driver's Commit / Rollback panics (log C! / R!, obs esc=1 when the call left by a panic).
round 4 — cfg: accept=<none|user|user2|both> (WithAcceptable options in order), accept1=… (second SqlConn instance of the
section; ops say inst=<0|1>).  commit= / rollback= also `fail:<cls>:<i|w|b>`: the failing call returns an error of a
breaker-acceptable class (Is method / wrapping the sentinel / the bare sentinel).  statement letters r / o / w: a QueryRow
that finds no row (ErrNotFound returned / ignored) / that the driver faults; t / T: exec / nested Transact through
NewSessionFromTx(raw tx).  obs: `core=<ret>|-` what the request handed to the breaker returned (recording breaker only).
round 5 — statement letters b / B: exec / query the driver fails with an error wrapping driver.ErrBadConn (returned; an
ordinary error inside a transaction: nothing is begun or run again) · k: the driver refuses the Prepare of a statement
prepared inside the transaction · a / A: QueryRowsPartial (checked) / QueryRowPartial that finds no row (returned) · d:
RawDB() of a connection made from the session (must be refused; ignored).  commit= / rollback= also `fail:badconn:<i|w|b>`
(class plain).  end= also panicint | panicstruct | panictnil (values that are neither error nor string) and err:tnil (a
typed-nil pointer in a non-nil error: an error of class plain).  cfg: cons=<cache|node|conf> (which CachedConn
constructor).  obs: `cv=<1|0|->` the context the body was handed carries the caller's value / does not / no context;
log token `O<i>`: statement i reached a connection with no transaction open on it; markers `lost` (a statement's error did
not reach the body) and `rawdbleak`.  Clauses evaluated on these raw observations: body-gets-callers-context,
statement-outside-transaction, statement-error-reaches-body, raw-db-refused.
-/
import GoZero.Base.Trace
import GoZero.C14.Spec
namespace GoZero.C14

open GoZero

/-! ### rendering (canonical text of the harness) -/

def Cls.render : Cls → String
  | .plain => "plain" | .noRows => "norows" | .txDone => "txdone"
  | .canceled => "canceled" | .accType => "acctype" | .userOk => "userok" | .userOk2 => "userok2"

def Src.render : Src → String
  | .begin => "begin" | .body c => "body." ++ c.render | .stmt i => s!"stmt{i}"
  | .commit c => if c == .plain then "commit" else "commit." ++ c.render
  | .rollback c => if c == .plain then "rollback" else "rollback." ++ c.render
  | .conn => "conn" | .ctx => "ctx" | .breaker => "breaker" | .nest => "nest"
  | .panic => "panic" | .deadline => "deadline" | .badConn => "badconn"

def renderSrcs (l : List Src) : String :=
  if l.isEmpty then "-" else "+".intercalate (l.map Src.render)

def Err.render (e : Err) : String := s!"is:{renderSrcs e.is}/says:{renderSrcs e.says}"

def renderRet : Option Err → String
  | none => "nil"
  | some e => e.render

def bang (ok : Bool) : String := if ok then "" else "!"

def Ev.render : Ev → String
  | .begin ok => "B" ++ bang ok
  | .exec i ok => s!"E{i}" ++ bang ok
  | .query i ok => s!"Q{i}" ++ bang ok
  | .commit ok => "C" ++ bang ok
  | .rollback ok => "R" ++ bang ok
  | .beginBad => "BB"

def renderLog (l : List Ev) : String :=
  if l.isEmpty then "-" else ",".intercalate (l.map Ev.render)

def BodyOut.render : BodyOut → String
  | .notRun => "notrun" | .nil => "nil" | .panic => "panic"
  | .err e => "err:" ++ renderSrcs e.is

def renderMark : Option Bool → String
  | none => "-" | some true => "ok" | some false => "fail"

def Result.render (r : Result) (withMark : Bool) : String :=
  s!"log={renderLog r.log} runs={r.runs} body={r.body.render} ret={renderRet r.ret} mark=" ++
    (if withMark then renderMark r.mark else "?") ++ (if r.escaped then " esc=1" else " esc=0")

/-! ### parsing -/

def parseCls : String → Option Cls
  | "plain" => some .plain | "norows" => some .noRows | "txdone" => some .txDone
  | "canceled" => some .canceled | "acctype" => some .accType | "userok" => some .userOk
  | "userok2" => some .userOk2
  | _ => none

def parseSrc (s : String) : Option Src :=
  match s with
  | "begin" => some .begin | "commit" => some (.commit .plain) | "rollback" => some (.rollback .plain)
  | "conn" => some .conn | "ctx" => some .ctx | "breaker" => some .breaker | "nest" => some .nest
  | "panic" => some .panic | "deadline" => some .deadline | "badconn" => some .badConn
  | _ =>
    match s.splitOn "." with
    | ["body", c] => (parseCls c).map Src.body
    | ["commit", c] => (parseCls c).bind fun c => if c == .plain then none else some (.commit c)
    | ["rollback", c] => (parseCls c).bind fun c => if c == .plain then none else some (.rollback c)
    | _ =>
      match s.toList with
      | 's' :: 't' :: 'm' :: 't' :: ds => (String.ofList ds).toNat?.map Src.stmt
      | _ => none

def parseSrcs (s : String) : Option (List Src) :=
  if s = "-" then some [] else (s.splitOn "+").mapM parseSrc

def parseErr (s : String) : Option Err :=
  match s.splitOn "/" with
  | [a, b] =>
    match a.splitOn ":", b.splitOn ":" with
    | ["is", x], ["says", y] => do pure { is := (← parseSrcs x), says := (← parseSrcs y) }
    | _, _ => none
  | _ => none

def parseRet (s : String) : Option (Option Err) :=
  if s = "nil" then some none else (parseErr s).map some

def parseEv (tok : String) : Option Ev :=
  let cs := tok.toList
  let failed := cs.getLast? == some '!'
  let core := if failed then cs.dropLast else cs
  match core with
  | ['B', 'B'] => if failed then none else some .beginBad
  | ['B'] => some (.begin (!failed))
  | ['C'] => some (.commit (!failed))
  | ['R'] => some (.rollback (!failed))
  | 'E' :: ds => (String.ofList ds).toNat?.map fun i => .exec i (!failed)
  | 'Q' :: ds => (String.ofList ds).toNat?.map fun i => .query i (!failed)
  | _ => none

/-- a log token with the connection it arrived on: the harness driver writes `O<i>` for a statement that reached a
connection with no transaction open on it (connection 1 of the session model), everything else is on the
transaction's connection 0 -/
def parseEvC (tok : String) : Option (Nat × Ev) :=
  match tok.toList with
  | 'O' :: rest =>
    let failed := rest.getLast? == some '!'
    let ds := if failed then rest.dropLast else rest
    (String.ofList ds).toNat?.map fun i => (1, Ev.exec i (!failed))
  | _ => (parseEv tok).map fun e => (0, e)

def parseLog (s : String) : Option (List Ev) :=
  if s = "-" then some [] else (s.splitOn ",").mapM parseEv

def parseBodyOut (s : String) : Option BodyOut :=
  match s with
  | "notrun" => some .notRun | "nil" => some .nil | "panic" => some .panic
  | _ =>
    match s.splitOn ":" with
    | ["err", x] => (parseSrcs x).map fun l => .err { is := l }
    | _ => none

def parseMark : String → Option (Option (Option Bool))
  | "-" => some (some none) | "ok" => some (some (some true)) | "fail" => some (some (some false))
  | "?" => some none
  | _ => none

/-- the observation of one line; `markSeen = false` when the harness could not observe the breaker -/
def parseObs (obs : List String) : Option (Result × Bool) := do
  let log ← parseLog (← kv? obs "log")
  let runs ← (← kv? obs "runs").toNat?
  let body ← parseBodyOut (← kv? obs "body")
  let ret ← parseRet (← kv? obs "ret")
  let mark ← parseMark (← kv? obs "mark")
  let esc ← (match (← kv? obs "esc") with
    | "0" => some false | "1" => some true | _ => none)
  pure ({ log := log, runs := runs, body := body, ret := ret, mark := mark.getD none, escaped := esc }, mark.isSome)

def parseStmt : Char → Option Stmt
  | 'x' => some { kind := .exec, fails := false, prop := false }
  | 'f' => some { kind := .exec, fails := true, prop := true }
  | 'i' => some { kind := .exec, fails := true, prop := false }
  | 'q' => some { kind := .query, fails := false, prop := false }
  | 'g' => some { kind := .query, fails := true, prop := true }
  | 'h' => some { kind := .query, fails := true, prop := false }
  | 'n' => some { kind := .nest, fails := true, prop := true }
  | 'm' => some { kind := .nest, fails := true, prop := false }
  | 'X' => some { kind := .exec, fails := false, prop := true }
  | 'Y' => some { kind := .query, fails := false, prop := true }
  | 'p' => some { kind := .exec, fails := false, prop := true }     -- prepared inside the transaction
  | 'P' => some { kind := .exec, fails := true, prop := true }
  | 'N' => some { kind := .nest, fails := true, prop := true }
  | 'M' => some { kind := .nest, fails := true, prop := false }
  | 'r' => some { kind := .rowq, fails := false, prop := true }    -- QueryRow finds no row: ErrNotFound returned
  | 'o' => some { kind := .rowq, fails := false, prop := false }   -- … ignored
  | 'w' => some { kind := .rowq, fails := true, prop := true }     -- QueryRow faulted by the driver, returned
  | 'b' => some { kind := .exec, fails := true, prop := true }     -- exec fault wrapping driver.ErrBadConn, returned
  | 'B' => some { kind := .query, fails := true, prop := true }    -- query fault wrapping driver.ErrBadConn, returned
  | 'k' => some { kind := .exec, fails := true, prop := true }     -- the driver refuses the Prepare inside the tx, returned
  | 'a' => some { kind := .query, fails := false, prop := true }   -- QueryRowsPartial[Ctx], checked
  | 'A' => some { kind := .rowq, fails := false, prop := true }    -- QueryRowPartial[Ctx] finds no row, returned
  | 'd' => some { kind := .nest, fails := true, prop := false }    -- RawDB() of a connection made from the session: refused, ignored
  | 't' => some { kind := .exec, fails := false, prop := true }    -- exec through NewSessionFromTx(raw tx), checked
  | 'T' => some { kind := .nest, fails := true, prop := true }     -- nested Transact over NewSessionFromTx(raw tx)
  | _ => none

def parseStmts (s : String) : Option (List Stmt) :=
  if s = "-" then some [] else s.toList.mapM parseStmt

def parseEnd (s : String) : Option End :=
  match s with
  | "ok" => some .ok | "panic" => some .panic | "panicerr" => some .panic | "panicnil" => some .panic
  | "panicint" => some .panic | "panicstruct" => some .panic | "panictnil" => some .panic   -- neither error nor string
  | "err:tnil" => some (.err .plain)     -- a typed-nil pointer in a non-nil error interface: an error like any other
  | "goexit" => some .ok | "panicnil1" => some .ok      -- outside the quantifier: handled apart (`Op.oq`)
  | _ =>
    match s.splitOn ":" with
    | ["err", c] => (parseCls c).map End.err
    | _ => none

def parseOk : String → Option Bool
  | "ok" => some true | "fail" => some false | _ => none

/-- answer of the driver's Commit / Rollback: (ok, panics, class of the error returned, form of the error value).
`fail` = `fail:plain`; `fail:<cls>:<i|w|b>`: the error answers errors.Is for the class's sentinel through an Is
method (i), wraps it (w: Unwrap chain) or IS the sentinel (b: bare) — one class for the model. -/
def parseEndAns (s : String) : Option (Bool × Bool × Cls × String) :=
  match s.splitOn ":" with
  | ["ok"] => some (true, false, .plain, "-")
  | ["fail"] => some (false, false, .plain, "-")
  | ["panic"] => some (false, true, .plain, "-")
  | ["fail", "badconn", form] =>   -- driver.ErrBadConn: an ordinary, not acceptable error inside a transaction
    if ["i", "w", "b"].contains form then some (false, false, .plain, "badconn-" ++ form) else none
  | ["fail", c, form] =>
    if ["i", "w", "b"].contains form then (parseCls c).bind fun c => if c == .plain then none else some (false, false, c, form)
    else none
  | _ => none

def parseUA : String → Option UA
  | "none" => some {} | "user" => some { a1 := true } | "user2" => some { a2 := true }
  | "both" => some { a1 := true, a2 := true }
  -- WithAcceptable(nil): alone it installs nothing; before a real function likewise; AFTER a real function the
  -- pinned code installs `pre(err) || nil(err)` (see `nilAfter` below)
  | "nil" => some {} | "niluser" => some { a1 := true } | "usernil" => some { a1 := true }
  | _ => none

/-- `-` | `c<k>` | `d<k>` → (cancelAt, deadline) -/
def parseCancel (s : String) : Option (Option Nat × Bool) :=
  match s.toList with
  | ['-'] => some (none, false)
  | 'c' :: ds => (String.ofList ds).toNat?.map fun k => (some k, false)
  | 'd' :: ds => (String.ofList ds).toNat?.map fun k => (some k, true)
  | _ => none

structure Op where
  api : String
  f   : Faults
  b   : Body
  brkAllow : Bool
  oq : String := ""        -- "goexit" / "nilpanic": an exit of the body outside the property's quantifier
  inst : Nat := 0          -- which SqlConn instance of the section the call goes to
  cform : String := "-"    -- form of the Commit / Rollback error value (coverage only)
  rform : String := "-"
  endKind : String := "ok"  -- the `end=` token (coverage: which kind of value the body panicked with / returned)
  letters : String := ""
  raw : Option RawEnd := none   -- the body ends the raw *sql.Tx itself after its statements (round 5c)
  deriving Repr

def parseOp (op : List String) : Option Op :=
  match op with
  | "tx" :: rest => do
    let api ← kv? rest "api"
    if !(["plain", "ctx", "ctxdone", "ctxdead"].contains api) then none
    let bg ← parseOk (← kv? rest "begin")
    let bad ← (← kv? rest "bad").toNat?
    let cm ← parseEndAns (← kv? rest "commit")
    let rb ← parseEndAns (← kv? rest "rollback")
    let st ← parseStmts (← kv? rest "stmts")
    let en ← parseEnd (← kv? rest "end")
    let cn ← parseCancel (← kv? rest "cancel")
    -- only a TransactCtx body has a context that can end under it; the position is inside the body
    if cn.1.isSome && api != "ctx" then none
    if (cn.1.getD 0) > st.length then none
    let brk ← (match (← kv? rest "brk") with
      | "allow" => some true | "reject" => some false | _ => none)
    let oq := (match (← kv? rest "end") with
      | "goexit" => "goexit" | "panicnil1" => "nilpanic" | _ => "")
    if oq != "" && (cm.2.1 || rb.2.1) then none
    -- raw=<c|C|r|R>: after its statements the body commits (c/C) / rolls back (r/R) the raw *sql.Tx itself; capital =
    -- the driver refuses that call
    let raw ← (match kv? rest "raw" with
      | none => some none | some "-" => some none
      | some "c" => some (some { commit := true, ok := true : RawEnd })
      | some "C" => some (some { commit := true, ok := false : RawEnd })
      | some "r" => some (some { commit := false, ok := true : RawEnd })
      | some "R" => some (some { commit := false, ok := false : RawEnd })
      | _ => none)
    if raw.isSome && (oq != "" || cn.1.isSome) then none
    let inst ← (match kv? rest "inst" with
      | none => some 0 | some "0" => some 0 | some "1" => some 1 | _ => none)
    pure { api := api,
           f := { begin := bg, commit := cm.1, rollback := rb.1, badConn := bad, commitPanics := cm.2.1,
                  rollbackPanics := rb.2.1, commitCls := cm.2.2.1, rollbackCls := rb.2.2.1 },
           b := { stmts := st, fin := en, cancelAt := cn.1, deadline := cn.2 },
           brkAllow := brk, oq := oq, inst := inst, cform := cm.2.2.2, rform := rb.2.2.2,
           endKind := (← kv? rest "end"), letters := (← kv? rest "stmts"), raw := raw }
  | _ => none

def isBreakerReject (r : Result) : Bool :=
  r.ret == some (Err.of .breaker)

def runSection (r : Report) (s : Section) : Report := Id.run do
  let via := kvStr s.cfg "via" "?"
  let accept := kvStr s.cfg "accept" "none"
  let accept1 := kvStr s.cfg "accept1" accept      -- the second SqlConn instance of the section (ops with inst=1)
  let mut r := r
  if !(["fromdb", "named", "namedbad", "onconn", "cached"].contains via) || (parseUA accept).isNone
      || (parseUA accept1).isNone then
    return r.mismatch s.idx 0 "bad-cfg" (joinSp s.cfg)
  let ua0 := (parseUA accept).getD {}
  let ua1 := (parseUA accept1).getD {}
  for l in s.lines do
    match parseOp l.op with
    | none => r := r.mismatch s.idx l.idx "bad-op" (joinSp l.op)
    | some op =>
      r := { r with ops := r.ops + 1 }
      let impl := joinSp l.obs
      -- exits outside the quantifier (Goexit, nil panic under GODEBUG=panicnil=1): informational. The code
      -- either commits (recover() != nil saw nothing) or rolls back (completion flag); both are followed.
      let ctxDone := op.api == "ctxdone" || op.api == "ctxdead"
      let ua := if op.inst == 1 then ua1 else ua0
      let envOq : Env := { ctxDone := ctxDone, brkAllow := op.brkAllow,
                           connOk := via != "namedbad", userAccept := ua }
      -- FINDING (informational, like the exits outside the quantifier): options `WithAcceptable(f), WithAcceptable(nil)`.
      -- The pinned code then calls the nil function whenever f says "not acceptable": the call leaves by a nil-call
      -- panic AFTER the transaction has ended as the model says.  With fixes/not-applied/C14-withacceptable-nil.patch the nil
      -- option is ignored and the op is checked like any other.  Both are followed.
      let nilAfter := (if op.inst == 1 then accept1 else accept) == "usernil"
      if nilAfter && via != "onconn" && kvStr l.obs "ret" "?" == "nilcall" then
        let envN : Env := { envOq with ctxDead := op.api == "ctxdead" }
        -- (an exit outside the quantifier either commits or rolls back: both are candidates)
        let cands := if op.oq == "" then [transactCtx envN op.f op.b]
          else [transactCtx envN op.f { op.b with fin := .ok }, transactCtx envN op.f { op.b with fin := .panic }]
        if kvStr l.obs "esc" "?" == "1" && cands.any (fun mN => mN.mark == some false &&
            kvStr l.obs "log" "?" == renderLog mN.log && kvStr l.obs "runs" "?" == toString mN.runs) then
          r := r.addCover "finding-nil-option-after-function-PANICS-after-transaction-ended"
          r := { r with ops := r.ops }
        else
          r := r.mismatch s.idx l.idx "a nil-call panic only where the verdict chain reaches the nil function" impl
          r := r.violation s.idx l.idx s!"clauses=[no-orderly-return] impl=[{impl}] op=[{joinSp l.op}]"
        continue
      if nilAfter then r := r.addCover "nil-option-after-function-not-reached-or-ignored"
      if op.oq != "" && (via == "onconn" || envOq.admitted) && op.f.opens
          && (runStmts op.b.cancelAt op.b.deadline 0 op.b.stmts).2.isNone
          && kvStr l.obs "ret" "?" != "is:breaker/says:-" then
        let lg := kvStr l.obs "log" "?"
        let bd := kvStr l.obs "body" "?"
        let mc := transactOnConn op.f { op.b with fin := .ok }
        let mr := transactOnConn op.f { op.b with fin := .panic }
        if bd != op.oq || kvStr l.obs "runs" "?" != "1" then
          r := r.mismatch s.idx l.idx s!"body={op.oq} runs=1" impl
        else if lg == renderLog mc.log then r := r.addCover s!"outside-quantifier-{op.oq}-COMMITTED"
        else if lg == renderLog mr.log then r := r.addCover s!"outside-quantifier-{op.oq}-rolled-back"
        else r := r.mismatch s.idx l.idx s!"log={renderLog mc.log} or log={renderLog mr.log}" impl
        continue
      -- a Transact[Ctx] of a connection made from the transaction's own session must refuse (errCantNestTx);
      -- the harness marks the error of a nested body that ran
      if (((kvStr l.obs "body" "") ++ (kvStr l.obs "ret" "")).splitOn "nestran").length > 1 then
        r := r.mismatch s.idx l.idx "nested-transact-refused" impl
        r := r.violation s.idx l.idx s!"clauses=[nested-transaction-refused] impl=[{impl}] op=[{joinSp l.op}]"
        continue
      -- a statement that must yield an error (driver fault, nested Transact) yielded none: the body had no chance to
      -- return it (the harness marks this `lost`)
      if (((kvStr l.obs "body" "") ++ (kvStr l.obs "ret" "")).splitOn "lost").length > 1 then
        r := r.mismatch s.idx l.idx "statement-error-reaches-body" impl
        r := r.violation s.idx l.idx s!"clauses=[statement-error-reaches-body] impl=[{impl}] op=[{joinSp l.op}]"
        continue
      -- RawDB() of a connection made from the transaction's session must be refused (errNoRawDBFromTx)
      if (((kvStr l.obs "body" "") ++ (kvStr l.obs "ret" "")).splitOn "rawdbleak").length > 1 then
        r := r.mismatch s.idx l.idx "raw-db-refused" impl
        r := r.violation s.idx l.idx s!"clauses=[raw-db-refused] impl=[{impl}] op=[{joinSp l.op}]"
        continue
      -- a statement of the body that reached a connection with no transaction open on it (the harness driver logs
      -- O<i>) did not run inside the transaction
      -- (evaluated with the model's `outsideTx`, which `Props.statements_inside_the_transaction` proves empty)
      if (match ((kvStr l.obs "log" "").splitOn ",").mapM parseEvC with
          | some tagged => !(outsideTx none tagged).isEmpty
          | none => ((kvStr l.obs "log" "").splitOn ",").any (fun t => t.startsWith "O")) then
        r := r.mismatch s.idx l.idx "statements-inside-the-transaction" impl
        r := r.violation s.idx l.idx s!"clauses=[statement-outside-transaction] impl=[{impl}] op=[{joinSp l.op}]"
        continue
      match parseObs l.obs with
      | none =>
        -- e.g. the call panicked out of Transact: not explainable by the model, and a violation of
        -- "the panic is reported as an error"
        r := r.mismatch s.idx l.idx "unparsable-observation" impl
        r := r.violation s.idx l.idx s!"clauses=[no-orderly-return] impl=[{impl}] op=[{joinSp l.op}]"
      | some (obs, markSeen) =>
        -- the real breaker's admission is an environment input: follow what was observed
        let realReject := op.brkAllow && !ctxDone && via != "onconn" && isBreakerReject obs
        if realReject then r := r.addCover "breaker-real-reject"
        let env : Env := { ctxDone := ctxDone, brkAllow := op.brkAllow && !realReject,
                           connOk := via != "namedbad", userAccept := ua,
                           ctxDead := op.api == "ctxdead" }
        let bx : BodyX := { base := op.b, raw := op.raw }
        let m := if op.raw.isSome then
                   (if via == "onconn" then transactOnConnX op.f bx else transactCtxX env op.f bx)
                 else if via == "onconn" then transactOnConn op.f op.b else transactCtx env op.f op.b
        -- what the request handed to the breaker returned (`core=`; `?` when the harness cannot see it, `-` when
        -- it did not run / did not return)
        let coreObs := kvStr l.obs "core" "?"
        let coreWant := if via == "onconn" || !(!env.ctxDone && env.brkAllow) || m.escaped then "-"
                        else renderRet (transactFnX env.connOk op.f bx).ret
        let implCore := if coreObs == "?" then impl else impl ++ " core=" ++ coreObs
        let implMain := joinSp (l.obs.filter fun t => !t.startsWith "core=" && !t.startsWith "cv=")
        -- the context the body is handed: the caller's (TransactCtx / transactOnConn: it carries the caller's
        -- value), none through Transact
        let cvObs := kvStr l.obs "cv" "?"
        let cvWant := if obs.runs == 0 || op.api == "plain" then "-" else "1"
        if cvObs != "?" && cvObs != cvWant then r := r.mismatch s.idx l.idx s!"cv={cvWant}" impl
        if cvObs != "?" then r := r.addCover s!"body-context-cv-{cvObs}"
        let want := m.render markSeen
        if want ≠ implMain then r := r.mismatch s.idx l.idx want impl
        else if coreObs != "?" && coreObs != coreWant then r := r.mismatch s.idx l.idx (want ++ " core=" ++ coreWant) impl
        let _ := implCore
        -- the wrapper hands the caller exactly what the request (transact) returned to the breaker
        let coreBad := coreObs != "?" && coreObs != "-" && !obs.escaped && coreObs != renderRet obs.ret
        -- a body that ends the raw Tx itself takes the choice of the end away from go-zero: the go-zero-side clauses
        let bad := (if op.raw.isSome then Spec.violatedX obs else Spec.violated obs) ++
          (if markSeen && !Spec.breakerTold env.userAccept obs then ["breaker-told"] else []) ++
          (if coreBad then ["wrapper-returns-core-error"] else []) ++
          (if cvObs == "0" then ["body-gets-callers-context"] else [])
        if !bad.isEmpty then
          r := r.violation s.idx l.idx s!"clauses=[{",".intercalate bad}] impl=[{impl}] op=[{joinSp l.op}]"
        -- coverage
        r := r.addCover ("via-" ++ via)
        r := r.addCover ("api-" ++ op.api)
        r := r.addCover ("body-" ++ (match m.body with
          | .notRun => "notrun" | .nil => "nil" | .panic => "panic"
          | .err e => "err-" ++ (match e.is with | [.stmt _] => "stmt" | [.nest] => "nest" | _ => "own")))
        r := r.addCover ("end-" ++ (match m.log.getLast? with
          | some e => e.render | none => "none"))
        r := r.addCover ("ret-" ++ (match m.ret with
          | none => "nil"
          | some e => renderSrcs (e.is.map fun | .stmt _ => .stmt 0 | x => x) ++ "/" ++
                      renderSrcs (e.says.map fun | .stmt _ => .stmt 0 | x => x)))
        r := r.addCover ("mark-" ++ renderMark m.mark)
        -- round 5: kinds of values a body ends with, ErrBadConn inside the transaction, more session methods
        if m.runs == 1 then
          match m.body with
          | .panic => r := r.addCover s!"body-panic-kind-{op.endKind}-rollback-{if op.f.rollbackOk then "ok" else "fails"}"
          | .err _ => if op.endKind == "err:tnil" then r := r.addCover "body-error-typed-nil-pointer"
          | _ => pure ()
        for (c, name) in [('b', "stmt-exec-fault-ErrBadConn"), ('B', "stmt-query-fault-ErrBadConn"),
            ('k', "stmt-prepare-refused-in-tx"), ('a', "stmt-QueryRowsPartial"), ('A', "stmt-QueryRowPartial-norows"),
            ('d', "stmt-RawDB-of-session-conn-refused")] do
          if op.letters.toList.contains c then r := r.addCover name
        if m.runs == 1 && op.letters.toList.any (fun c => c == 'b' || c == 'B') &&
            (match m.body with | .err e => (match e.is with | [.stmt _] => true | _ => false) | _ => false) then
          r := r.addCover "body-returned-ErrBadConn-no-second-transaction"
        match op.raw with
        | none => pure ()
        | some re =>
          if bx.reaches op.f && m.runs == 1 then
            r := r.addCover (s!"raw-end-{if re.commit then "commit" else "rollback"}-{if re.ok then "ok" else "refused"}-body-" ++
              (match m.body with | .nil => "nil-ErrTxDone-returned" | .panic => "panic" | .err _ => "err" | .notRun => "notrun"))
          else r := r.addCover "raw-end-not-reached"
        if via == "cached" then r := r.addCover ("cached-constructor-" ++ kvStr s.cfg "cons" "cache")
        if via == "cached" && kvStr s.cfg "reuse" "0" == "1" then r := r.addCover "cached-conn-reused-over-the-section"
        -- round 4: the acceptable-error classes at every place an error can come from
        r := r.addCover ("accept-" ++ (if op.inst == 1 then accept1 else accept))
        if op.inst == 1 then r := r.addCover "second-instance"
        if coreObs != "?" && coreObs != "-" then r := r.addCover "core-error-observed"
        if m.log.contains (.commit false) && !m.escaped then
          r := r.addCover s!"commit-error-cls-{op.f.commitCls.render}-form-{op.cform}-mark-{renderMark m.mark}"
        if m.log.contains (.rollback false) && !m.escaped then
          r := r.addCover s!"rollback-error-cls-{op.f.rollbackCls.render}-form-{op.rform}-mark-{renderMark m.mark}"
        match m.body with
        | .err e =>
          match e.is with
          | [.body c] => r := r.addCover s!"body-error-cls-{c.render}-mark-{renderMark m.mark}"
          | _ => pure ()
        | _ => pure ()
        if op.b.stmts.any (fun st => st.kind == .rowq) then r := r.addCover "stmt-queryrow-norows"
        if m.mark == some true && m.ret.isSome then r := r.addCover ("acceptable-error-returned-via-" ++ via)
        if ((kv? l.op "stmts").getD "").toList.any (fun c => c == 't' || c == 'T') then
          r := r.addCover "stmt-through-NewSessionFromTx"
        r := r.addCover (s!"stmts-{min op.b.stmts.length 6}")
        if op.b.stmts.any (fun st => (st.kind == .nest || st.fails) && !st.prop) then
          r := r.addCover "stmt-error-ignored"
        if op.b.stmts.any (fun st => st.prop && !st.fails && st.kind != .nest) then
          r := r.addCover "stmt-ok-error-checked"
        if ((kv? l.op "stmts").getD "").toList.any (fun c => c == 'p' || c == 'P') then
          r := r.addCover "stmt-prepared-in-tx"
        -- the classes of fault points of this round
        if op.f.badConn > 0 then
          r := r.addCover (s!"begin-badconn-{min op.f.badConn 4}" ++ (if op.f.opens then "-then-opened" else "-not-opened"))
        if m.escaped then
          r := r.addCover ("escaped-" ++ (match m.log.getLast? with | some e => e.render | none => "none") ++
            "-body-" ++ (match m.body with | .nil => "nil" | .panic => "panic" | .err _ => "err" | .notRun => "notrun"))
        if op.f.commitPanics && !m.escaped then r := r.addCover "commit-would-panic-not-reached"
        if op.f.rollbackPanics && !m.escaped then r := r.addCover "rollback-would-panic-not-reached"
        match op.b.cancelAt with
        | none => pure ()
        | some k =>
          let kind := if op.b.deadline then "deadline" else "cancel"
          let pos := if k == 0 then "before-first" else if k == op.b.stmts.length then "before-body-end" else "mid-body"
          let out := (match m.body with
            | .notRun => "notrun" | .nil => "nil-COMMIT" | .panic => "panic-ROLLBACK"
            | .err e => "err-" ++ (match e.is with
                | [.ctx] => "ctx" | [.deadline] => "deadline" | [.stmt _] => "stmt" | [.nest] => "nest" | _ => "own") ++ "-ROLLBACK")
          r := r.addCover s!"ctx-{kind}-{pos}"
          if m.runs == 1 then r := r.addCover s!"ctx-{kind}-body-{out}"
          if m.runs == 1 then r := r.addCover ("ctx-ends-under-body-via-" ++ via)
  return r

def driver (secs : List Section) : Report := secs.foldl runSection {}

end GoZero.C14
