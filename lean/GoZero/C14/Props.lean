/-
C14 — the property theorems.  `transactCtx env f b` is the model of `commonSqlConn.TransactCtx`
(= `Transact`, `sqlc.CachedConn.Transact[Ctx]`) for an arbitrary environment `env` (context done / deadline
expired at the call, breaker admission, connection provider, installed acceptable function), an arbitrary driver
fault plan `f` (Begin answered driver.ErrBadConn any number of times before its definitive answer; Begin /
Commit / Rollback answers ok, error or — Commit / Rollback — panic) and an arbitrary body `b` (any number of
exec / query / nested-transaction statements, each ok or faulted, the fault returned or ignored by the body;
the context cancelled or its deadline expired just before any statement k or before the body ends; final
outcome nil / error / panic).  Nothing is bounded.
-/
import GoZero.C14.Proofs
namespace GoZero.C14.Props
open GoZero.C14 GoZero.C14.Spec

/-- an environment that lets the request through -/
def envOk : Env := { ctxDone := false, brkAllow := true, connOk := true, userAccept := {} }

/-- **One Begin, the body's statements, exactly one Commit/Rollback — or nothing.**
If the transaction can be opened the driver sees exactly `<Begin attempts answered ErrBadConn>, Begin,
<statement calls of the body>, end` where `end` is the single Commit or Rollback and is the last call, and the
body ran once — whatever the body does, wherever the context is cancelled, and also when the driver's
Commit/Rollback panics.  Otherwise the driver sees only refused Begin attempts (none if the request was not
admitted), no statement, no Commit, no Rollback, and the body did not run. -/
theorem ends_exactly_once (env : Env) (f : Faults) (b : Body) :
    (opened env f = true →
      (transactCtx env f b).log = badPrefix f.badConn (.begin true :: ((runBody b).1 ++ [endEvent f b])) ∧
      (runBody b).1.all isStmt = true ∧ isEnd (endEvent f b) = true ∧
      count isBegin (transactCtx env f b).log = 1 ∧ count isEnd (transactCtx env f b).log = 1 ∧
      (transactCtx env f b).log.getLast? = some (endEvent f b) ∧ (transactCtx env f b).runs = 1) ∧
    (opened env f = false →
      (transactCtx env f b).log = (if env.admitted then refusedBegins f else []) ∧
      count isBeginOk (transactCtx env f b).log = 0 ∧
      count isStmt (transactCtx env f b).log = 0 ∧ count isEnd (transactCtx env f b).log = 0 ∧
      (transactCtx env f b).runs = 0 ∧ (transactCtx env f b).body = .notRun) := by
  have hall := runBody_all b
  have h1 := filter_nil_of_all stmt_not_begin _ hall
  have h2 := filter_nil_of_all stmt_not_end _ hall
  have hend : isEnd (endEvent f b) = true := by unfold endEvent; split <;> rfl
  have hnb : isBegin (endEvent f b) = false := by unfold endEvent; split <;> rfl
  constructor
  · intro h
    rw [log_shape_ctx, runs_ctx, h]
    simp [count, filter_badPrefix isBegin rfl, filter_badPrefix isEnd rfl, getLast?_badPrefix,
      List.filter_cons, List.filter_append, h1, h2, hend, hnb, hall, getLast?_cons_snoc]
  · intro h
    rw [log_shape_ctx, runs_ctx, body_ctx, h]
    cases env.admitted <;> simp [count]
    refine ⟨?_, ?_, ?_⟩ <;> intro a ha <;> rcases mem_refusedBegins f a ha with rfl | rfl <;> rfl

example : (transactCtx envOk { begin := true, commit := true, rollback := false }
    { stmts := [⟨.exec, false, false⟩, ⟨.query, true, true⟩, ⟨.exec, false, false⟩], fin := .ok }).log
    = [.begin true, .exec 0 true, .query 1 false, .rollback false] := by decide

/-- the context is cancelled before the second statement: it never reaches the driver, the body returns
context.Canceled, the transaction is rolled back on the driver (the seeded change C14-2 loses this Rollback) -/
example : transactCtx envOk { begin := true, commit := true, rollback := true }
    { stmts := [⟨.exec, false, true⟩, ⟨.exec, false, true⟩, ⟨.exec, false, true⟩], fin := .ok, cancelAt := some 1 }
    = { log := [.begin true, .exec 0 true, .rollback true], runs := 1, body := .err (Err.of .ctx),
        ret := some (Err.of .ctx), mark := some true } := by decide

/-- two Begin attempts answered ErrBadConn, the third opens the transaction -/
example : (transactCtx envOk { begin := true, commit := true, rollback := true, badConn := 2 }
    { stmts := [], fin := .ok }).log = [.beginBad, .beginBad, .begin true, .commit true] := by decide

/-- **At most one transaction is ever opened**, however often the driver answers Begin with
driver.ErrBadConn: go-zero calls `db.Begin()` once; inside it database/sql makes at most `maxBeginAttempts`
attempts, each refused one on a connection it discards, and at most one of them opens a transaction — exactly
when `opened`. -/
theorem begins_at_most_one_transaction (env : Env) (f : Faults) (b : Body) :
    count isBeginOk (transactCtx env f b).log = (if opened env f then 1 else 0) ∧
    count isBegin (transactCtx env f b).log ≤ 1 ∧
    count isBeginBad (transactCtx env f b).log ≤ maxBeginAttempts := by
  have hall := runBody_all b
  have h0 := filter_nil_of_all stmt_not_beginOk _ hall
  have h1 := filter_nil_of_all stmt_not_begin _ hall
  have h2 := filter_nil_of_all (p := isBeginBad) (q := isStmt) (by intro e; cases e <;> simp) _ hall
  have hnb : isBegin (endEvent f b) = false := by unfold endEvent; split <;> rfl
  have hno : isBeginOk (endEvent f b) = false := by unfold endEvent; split <;> rfl
  have hnd : isBeginBad (endEvent f b) = false := by unfold endEvent; split <;> rfl
  rw [log_shape_ctx]
  cases ho : opened env f
  · cases env.admitted <;> simp [count, refusedBegins]
    unfold Faults.givesUp maxBeginAttempts
    split
    · decide
    · rename_i hg
      simp only [decide_eq_true_eq] at hg
      refine ⟨?_, ?_, ?_⟩
      · intro a ha
        rcases mem_badPrefix_or _ _ _ ha with rfl | h
        · rfl
        · simp at h; subst h; rfl
      · rw [filter_badPrefix isBegin rfl]; simp [List.filter_cons]
      · rw [count_bad_badPrefix]; simp; omega
  · have hg : f.badConn < maxBeginAttempts := by
      have := (opened_iff env f).mp ho
      simpa [Faults.givesUp] using this.2.2.2.1
    simp [count, filter_badPrefix isBeginOk rfl, filter_badPrefix isBegin rfl, count_bad_badPrefix,
      List.filter_cons, List.filter_append, h0, h1, h2, hnb, hno, hnd]
    omega

example : (transactCtx envOk { begin := false, commit := true, rollback := true, badConn := 2 }
    { stmts := [⟨.exec, false, true⟩], fin := .ok }) =
    { log := [.beginBad, .beginBad, .begin false], runs := 0, body := .notRun, ret := some (Err.of .begin),
      mark := some false } := by decide

/-- **The body is not run if the transaction cannot begin** (and runs exactly once if it can). -/
theorem body_runs_iff_begun (env : Env) (f : Faults) (b : Body) :
    (transactCtx env f b).runs = (if opened env f then 1 else 0) ∧
    ((transactCtx env f b).body = .notRun ↔ opened env f = false) := by
  refine ⟨runs_ctx env f b, ?_⟩
  rw [body_ctx]
  cases opened env f <;> simp
  exact runBody_ne_notRun b

example : (transactCtx envOk { begin := false, commit := true, rollback := true }
    { stmts := [⟨.exec, false, false⟩], fin := .ok }).runs = 0 := by decide
example : (transactCtx envOk { begin := true, commit := true, rollback := true, badConn := 3 }
    { stmts := [⟨.exec, false, false⟩], fin := .ok }) =
    { log := [.beginBad, .beginBad, .beginBad], runs := 0, body := .notRun, ret := some (Err.of .badConn),
      mark := some false } := by decide

/-- **Commit if and only if the body returned nil.** -/
theorem commit_iff_body_ok (env : Env) (f : Faults) (b : Body) :
    (∃ c, Ev.commit c ∈ (transactCtx env f b).log) ↔ (opened env f = true ∧ (runBody b).2 = .nil) := by
  have hall := runBody_all b
  rw [log_shape_ctx]
  cases ho : opened env f
  · cases env.admitted <;> simp [refusedBegins]
    split <;> simp [mem_badPrefix]
  · have hn : ∀ c, Ev.commit c ∉ (runBody b).1 := fun c => not_mem_of_all hall _ rfl
    simp [hn, endEvent, mem_badPrefix]
    cases (runBody b).2 <;> simp

example : (∃ c, Ev.commit c ∈ (transactCtx envOk { begin := true, commit := false, rollback := true }
    { stmts := [], fin := .ok }).log) := ⟨false, by decide⟩

/-- **Rollback if (and only if) the body returned an error or panicked.** -/
theorem rollback_iff_body_failed (env : Env) (f : Faults) (b : Body) :
    (∃ c, Ev.rollback c ∈ (transactCtx env f b).log) ↔
      (opened env f = true ∧ ((runBody b).2 = .panic ∨ ∃ e, (runBody b).2 = .err e)) := by
  have hall := runBody_all b
  rw [log_shape_ctx]
  cases ho : opened env f
  · cases env.admitted <;> simp [refusedBegins]
    split <;> simp [mem_badPrefix]
  · have hn : ∀ c, Ev.rollback c ∉ (runBody b).1 := fun c => not_mem_of_all hall _ rfl
    have hne := runBody_ne_notRun b
    simp [hn, endEvent, mem_badPrefix]
    cases h : (runBody b).2 <;> simp_all

example : Ev.rollback true ∈ (transactCtx envOk { begin := true, commit := true, rollback := true }
    { stmts := [⟨.exec, true, true⟩], fin := .ok }).log := by decide

/-- **A context that ends while the body runs changes nothing about the ending**: the statements made after
it never reach the driver, and the transaction is still ended by exactly the one Commit (body returned nil) or
Rollback (body returned the context's error, any other error, or panicked) that reaches the driver. -/
theorem cancelled_body_still_ends (env : Env) (f : Faults) (b : Body) (k : Nat)
    (ho : opened env f = true) (hc : b.cancelAt = some k) :
    (transactCtx env f b).log = badPrefix f.badConn (.begin true :: ((runBody b).1 ++ [endEvent f b])) ∧
    (∀ i ok, k ≤ i → Ev.exec i ok ∉ (runBody b).1 ∧ Ev.query i ok ∉ (runBody b).1) ∧
    ((runBody b).2 = .nil → endEvent f b = .commit f.commitOk) ∧
    ((runBody b).2 ≠ .nil → endEvent f b = .rollback f.rollbackOk) := by
  refine ⟨?_, ?_, ?_, ?_⟩
  · rw [log_shape_ctx, ho]; simp
  · intro i ok hik
    have key : ∀ (l : List Stmt) (j : Nat) (e : Ev), e ∈ (runStmts (some k) b.deadline j l).1 →
        (∃ i ok, (e = .exec i ok ∨ e = .query i ok) ∧ i < k) := by
      intro l
      induction l with
      | nil => intro j e he; simp [runStmts] at he
      | cons s rest ih =>
        intro j e he
        have hev : ∀ e, e ∈ stmtEvAt (some k) j s → ∃ i ok, (e = .exec i ok ∨ e = .query i ok) ∧ i < k := by
          intro e he
          unfold stmtEvAt cancelled at he
          cases hk : s.kind <;> simp [hk] at he
          · obtain ⟨h1, h2⟩ := he; exact ⟨j, !s.fails, Or.inl h2, by omega⟩
          · obtain ⟨h1, h2⟩ := he; exact ⟨j, !s.fails, Or.inr h2, by omega⟩
          · obtain ⟨h1, h2⟩ := he; exact ⟨j, !s.fails, Or.inr h2, by omega⟩
        unfold runStmts at he
        split at he
        · exact hev e he
        · simp only [List.mem_append] at he
          rcases he with he | he
          · exact hev e he
          · exact ih (j + 1) e he
    have hrb : (runBody b).1 = (runStmts (some k) b.deadline 0 b.stmts).1 := by
      unfold runBody; rw [hc]; split <;> rfl
    rw [hrb]
    constructor
    · intro hm
      obtain ⟨i', ok', h, hlt⟩ := key _ _ _ hm
      rcases h with h | h <;> cases h
      omega
    · intro hm
      obtain ⟨i', ok', h, hlt⟩ := key _ _ _ hm
      rcases h with h | h <;> cases h
      omega
  · intro h; simp [endEvent, h]
  · intro h; unfold endEvent; split <;> simp_all

/-- **A panic of the body is rolled back and reported as an error** (never swallowed as success, never
committed); a failing rollback is reachable in the returned error as well.  (If the driver's Rollback itself
panics, that panic leaves the call: see `driver_panic_escapes`.) -/
theorem panic_is_error_and_rolled_back (env : Env) (f : Faults) (b : Body)
    (ho : opened env f = true) (hp : (runBody b).2 = .panic) :
    (transactCtx env f b).log = badPrefix f.badConn (.begin true :: ((runBody b).1 ++ [.rollback f.rollbackOk])) ∧
    (∀ c, Ev.commit c ∉ (transactCtx env f b).log) ∧
    (f.rollbackPanics = false →
      (∃ e, (transactCtx env f b).ret = some e ∧ e.mentions .panic = true ∧
            (f.rollback = false → .rollback f.rollbackCls ∈ e.is)) ∧
      (transactCtx env f b).escaped = false ∧
      (transactCtx env f b).mark = some (!f.rollback && clsAcceptable env.userAccept f.rollbackCls)) := by
  have hall := runBody_all b
  have hn : ∀ c, Ev.commit c ∉ (runBody b).1 := fun c => not_mem_of_all hall _ rfl
  refine ⟨?_, ?_, ?_⟩
  · rw [log_shape_ctx, ho]; simp [endEvent, hp]
  · rw [log_shape_ctx, ho]; simp [endEvent, hp, hn, mem_badPrefix]
  · intro hrp
    have ho' := (opened_iff env f).mp ho
    have hesc : (transactCtx env f b).escaped = false := by rw [escaped_ctx, hp, hrp]; simp
    refine ⟨?_, hesc, ?_⟩
    · rw [ret_opened env f b ho, hp, hrp]
      cases f.rollback <;> simp [Err.mentions]
    · rw [mark_ctx, hesc, ret_opened env f b ho, hp, hrp]
      cases f.rollback <;> simp [ho', acceptable, srcAcceptable]

example : (transactCtx envOk { begin := true, commit := true, rollback := false }
    { stmts := [⟨.exec, false, false⟩], fin := .panic }).ret
    = some { is := [.rollback .plain], says := [.panic] } := by decide

/-- **The returned error is nil only when the commit succeeded** — and exactly then:
nil ⇔ a successful Commit reached the driver ⇔ opened ∧ body returned nil ∧ the driver accepted Commit
(without panicking).  A call that leaves by a panic of the driver never counts as nil. -/
theorem nil_only_if_commit_ok (env : Env) (f : Faults) (b : Body) :
    ((transactCtx env f b).ret = none ↔ Ev.commit true ∈ (transactCtx env f b).log) ∧
    ((transactCtx env f b).ret = none ↔ (opened env f = true ∧ (runBody b).2 = .nil ∧ f.commitOk = true)) ∧
    ((transactCtx env f b).escaped = true → (transactCtx env f b).ret ≠ none) := by
  have hall := runBody_all b
  have hn : Ev.commit true ∉ (runBody b).1 := not_mem_of_all hall _ rfl
  have hne := runBody_ne_notRun b
  rw [log_shape_ctx, escaped_ctx]
  cases ho : opened env f
  · rw [ret_not_opened env f b ho]
    cases env.admitted <;> simp [refusedBegins]
    split <;> simp [mem_badPrefix]
  · rw [ret_opened env f b ho]
    cases h : (runBody b).2 <;> cases hc : f.commit <;> cases hp : f.commitPanics <;> cases hq : f.rollbackPanics <;>
      simp_all [endEvent, mem_badPrefix, Faults.commitOk, Faults.rollbackOk]

example : (transactCtx envOk { begin := true, commit := false, rollback := true }
    { stmts := [], fin := .ok }).ret = some (Err.of (.commit .plain)) := by decide
/-- the context expired before the last statement, the body ignored every error and returned nil: committed, nil -/
example : transactCtx envOk { begin := true, commit := true, rollback := true }
    { stmts := [⟨.exec, false, false⟩, ⟨.query, false, false⟩], fin := .ok, cancelAt := some 1, deadline := true }
    = { log := [.begin true, .exec 0 true, .commit true], runs := 1, body := .nil, ret := none,
        mark := some true } := by decide

/-- **Commit and rollback failures are reported to the caller**: whenever the driver refused the Commit
(Rollback) — by an error or by panicking — the caller does not get nil and the driver's error is reachable in
the returned chain (`errors.Is`), respectively is the panic value the call leaves with. -/
theorem termination_failures_reported (env : Env) (f : Faults) (b : Body) :
    (Ev.commit false ∈ (transactCtx env f b).log →
        ∃ e, (transactCtx env f b).ret = some e ∧
          Src.commit (if f.commitPanics then .plain else f.commitCls) ∈ e.is) ∧
    (Ev.rollback false ∈ (transactCtx env f b).log →
        ∃ e, (transactCtx env f b).ret = some e ∧
          Src.rollback (if f.rollbackPanics then .plain else f.rollbackCls) ∈ e.is) := by
  have hall := runBody_all b
  have hn1 : Ev.commit false ∉ (runBody b).1 := not_mem_of_all hall _ rfl
  have hn2 : Ev.rollback false ∉ (runBody b).1 := not_mem_of_all hall _ rfl
  have hne := runBody_ne_notRun b
  rw [log_shape_ctx]
  cases ho : opened env f
  · cases env.admitted <;> simp [refusedBegins] <;> split <;> simp [mem_badPrefix]
  · rw [ret_opened env f b ho]
    cases h : (runBody b).2 <;> cases hc : f.commit <;> cases hr : f.rollback <;> cases hp : f.commitPanics <;>
      cases hq : f.rollbackPanics <;>
      simp_all [endEvent, Err.of, mem_badPrefix, Faults.commitOk, Faults.rollbackOk]

example : (transactCtx envOk { begin := true, commit := true, rollback := false }
    { stmts := [], fin := .err .noRows }).ret
    = some { is := [.rollback .plain], says := [.body .noRows] } := by decide

/-- **A panic of the driver's own Commit / Rollback is the only way the call does not return**: it happens
exactly when a transaction was opened and the ending call the body's outcome selects panics; the driver saw
that one ending call (so the transaction was still ended exactly once, by `ends_exactly_once`), the panic value
is the driver's, and `acceptable` is not consulted (the breaker books a failure in its deferred function). -/
theorem driver_panic_escapes (env : Env) (f : Faults) (b : Body) :
    ((transactCtx env f b).escaped = true ↔
      (opened env f = true ∧ (((runBody b).2 = .nil ∧ f.commitPanics = true) ∨
                              ((runBody b).2 ≠ .nil ∧ f.rollbackPanics = true)))) ∧
    ((transactCtx env f b).escaped = true →
      (transactCtx env f b).mark = none ∧
      (((runBody b).2 = .nil ∧ (transactCtx env f b).ret = some (Err.of (.commit .plain)) ∧
          (transactCtx env f b).log.getLast? = some (.commit false)) ∨
       ((runBody b).2 ≠ .nil ∧ (transactCtx env f b).ret = some (Err.of (.rollback .plain)) ∧
          (transactCtx env f b).log.getLast? = some (.rollback false)))) := by
  have hne := runBody_ne_notRun b
  constructor
  · rw [escaped_ctx]
    cases opened env f <;> cases h : (runBody b).2 <;> simp_all
  · intro hesc
    have hm := mark_ctx env f b
    rw [hesc] at hm
    rw [escaped_ctx] at hesc
    simp only [Bool.and_eq_true] at hesc
    obtain ⟨ho, hp⟩ := hesc
    have ho' := (opened_iff env f).mp ho
    refine ⟨?_, ?_⟩
    · rw [hm]; simp [ho']
    · rw [ret_opened env f b ho, log_shape_ctx, ho]
      cases h : (runBody b).2 <;>
        simp_all [endEvent, getLast?_badPrefix, getLast?_cons_snoc, Faults.commitOk, Faults.rollbackOk]

example : transactCtx envOk { begin := true, commit := true, rollback := true, commitPanics := true }
    { stmts := [⟨.exec, false, true⟩], fin := .ok }
    = { log := [.begin true, .exec 0 true, .commit false], runs := 1, body := .nil,
        ret := some (Err.of (.commit .plain)), mark := none, escaped := true } := by decide

/-- **The body's error is what the caller gets** when the rollback works (same identity), and is still
told (in the message) when the rollback fails too. -/
theorem body_error_returned (env : Env) (f : Faults) (b : Body) (e : Err)
    (ho : opened env f = true) (hb : (runBody b).2 = .err e) (hq : f.rollbackPanics = false) :
    (f.rollback = true → (transactCtx env f b).ret = some e) ∧
    (f.rollback = false → (transactCtx env f b).ret = some { is := [.rollback f.rollbackCls], says := e.is ++ e.says }) := by
  rw [ret_opened env f b ho, hb, hq]
  cases f.rollback <;> simp

example : (transactCtx envOk { begin := true, commit := true, rollback := true }
    { stmts := [⟨.exec, false, false⟩, ⟨.exec, true, true⟩, ⟨.exec, false, false⟩], fin := .ok }).ret
    = some (Err.of (.stmt 1)) := by decide

/-- **Statements run in order, each once, and nothing runs after a statement whose error the body
returned**, for bodies of every length (statements refused because the context is done make no driver call). -/
theorem statements_in_order (b : Body) :
    (runBody b).1 = eventsOf b.cancelAt 0 (executed b.cancelAt 0 b.stmts) := by
  unfold runBody
  split <;> exact runStmts_executed _ _ b.stmts 0

example : (runBody { stmts := [⟨.exec, false, false⟩, ⟨.nest, true, true⟩, ⟨.exec, false, false⟩], fin := .ok }).1
    = [.exec 0 true] := by decide

/-- **What the breaker is told**: `acceptable` is consulted exactly when the request was admitted and the
call returned; it then says success exactly when the returned error is nil or carries something acceptable
(sql.ErrNoRows, sql.ErrTxDone, context.Canceled, acceptableError, WithAcceptable) in its chain.  In particular a
failed Begin (also after ErrBadConn retries), Commit or Rollback, a deadline and a panic always count as
failures, a body that stops with context.Canceled does not. -/
theorem breaker_told (env : Env) (f : Faults) (b : Body) :
    (transactCtx env f b).mark =
      (if env.ctxDone || !env.brkAllow then none
       else if !env.connOk then some false
       else if (transactCtx env f b).escaped then none
       else some (acceptable env.userAccept (transactCtx env f b).ret)) ∧
    breakerTold env.userAccept (transactCtx env f b) = true ∧
    (Ev.begin false ∈ (transactCtx env f b).log → (transactCtx env f b).mark ≠ some true) ∧
    (Ev.commit false ∈ (transactCtx env f b).log → (transactCtx env f b).mark =
       if f.commitPanics then none else some (clsAcceptable env.userAccept f.commitCls)) ∧
    (Ev.rollback false ∈ (transactCtx env f b).log → (transactCtx env f b).mark =
       if f.rollbackPanics then none else some (clsAcceptable env.userAccept f.rollbackCls)) ∧
    ((transactCtx env f b).ret = some (Err.of .badConn) ∨ (transactCtx env f b).ret = some (Err.of .deadline) →
       (transactCtx env f b).mark ≠ some true) := by
  have hall := runBody_all b
  have hn0 : Ev.begin false ∉ (runBody b).1 := not_mem_of_all hall _ rfl
  have hn1 : Ev.commit false ∉ (runBody b).1 := not_mem_of_all hall _ rfl
  have hn2 : Ev.rollback false ∉ (runBody b).1 := not_mem_of_all hall _ rfl
  have hne := runBody_ne_notRun b
  refine ⟨mark_ctx env f b, breakerTold_ctx env f b, ?_, ?_, ?_, ?_⟩
  · rw [mark_ctx, escaped_ctx, log_shape_ctx]
    cases ho : opened env f
    · rw [ret_not_opened env f b ho]
      unfold opened Env.admitted at ho
      cases h1 : env.ctxDone <;> cases h2 : env.brkAllow <;> cases h3 : env.connOk <;> cases h4 : f.givesUp <;>
        simp_all [Env.admitted, acceptable, Err.of, srcAcceptable, refusedBegins, mem_badPrefix]
    · simp [mem_badPrefix, hn0, endEvent]
      cases (runBody b).2 <;> simp
  · rw [mark_ctx, escaped_ctx, log_shape_ctx]
    cases ho : opened env f
    · cases env.admitted <;> simp [refusedBegins] <;> split <;> simp [mem_badPrefix]
    · rw [ret_opened env f b ho]
      have ho' := (opened_iff env f).mp ho
      cases h : (runBody b).2 <;> cases hc : f.commit <;> cases hp : f.commitPanics <;>
        simp_all [endEvent, Err.of, acceptable, srcAcceptable, mem_badPrefix, Faults.commitOk, Faults.rollbackOk]
  · rw [mark_ctx, escaped_ctx, log_shape_ctx]
    cases ho : opened env f
    · cases env.admitted <;> simp [refusedBegins] <;> split <;> simp [mem_badPrefix]
    · rw [ret_opened env f b ho]
      have ho' := (opened_iff env f).mp ho
      cases h : (runBody b).2 <;> cases hr : f.rollback <;> cases hq : f.rollbackPanics <;>
        simp_all [endEvent, acceptable, srcAcceptable, mem_badPrefix, Faults.commitOk, Faults.rollbackOk]
  · have hb := breakerTold_ctx env f b
    unfold breakerTold at hb
    intro hret hm
    rw [hm] at hb
    rcases hret with hret | hret <;> rw [hret] at hb <;> simp [acceptable, Err.of, srcAcceptable] at hb

example : (transactCtx envOk { begin := true, commit := true, rollback := true }
    { stmts := [], fin := .err .noRows }).mark = some true := by decide
example : (transactCtx envOk { begin := true, commit := true, rollback := false }
    { stmts := [], fin := .err .noRows }).mark = some false := by decide
/-- the body stops with the deadline's error: rolled back, and a failure for the breaker -/
example : transactCtx envOk { begin := true, commit := true, rollback := true }
    { stmts := [⟨.query, false, true⟩], fin := .ok, cancelAt := some 0, deadline := true }
    = { log := [.begin true, .rollback true], runs := 1, body := .err (Err.of .deadline),
        ret := some (Err.of .deadline), mark := some false } := by decide

/-- a Commit refused with sql.ErrTxDone (class `txDone`): reported to the caller with its identity, and — this
is what `acceptable` does with ErrTxDone — booked as a success by the breaker -/
example : transactCtx envOk { begin := true, commit := false, rollback := true, commitCls := .txDone }
    { stmts := [], fin := .ok }
    = { log := [.begin true, .commit false], runs := 1, body := .nil, ret := some (Err.of (.commit .txDone)),
        mark := some true } := by decide
/-- a Rollback refused with an error only the SECOND WithAcceptable function accepts -/
example : (transactCtx { envOk with userAccept := { a1 := true, a2 := true } }
    { begin := true, commit := true, rollback := false, rollbackCls := .userOk2 }
    { stmts := [], fin := .panic }).mark = some true := by decide
example : (transactCtx { envOk with userAccept := { a1 := true } }
    { begin := true, commit := true, rollback := false, rollbackCls := .userOk2 }
    { stmts := [], fin := .panic }).mark = some false := by decide

/-! ### the breaker wrapper never changes what the transaction core returned -/

/-- `commonSqlConn.TransactCtx` is exactly `brk.DoWithAcceptableCtx(ctx, transact, db.acceptable)`. -/
theorem transactCtx_is_wrapped_transact (env : Env) (f : Faults) (b : Body) :
    transactCtx env f b =
      brkDo env.ctxDone env.ctxDead env.brkAllow (acceptable env.userAccept) (transactFn env.connOk f b) := by
  unfold transactCtx brkDo transactFn markOf
  cases env.ctxDone <;> cases env.brkAllow <;> cases env.connOk <;> simp [acceptable, Err.of, srcAcceptable]

/-- **The error returned by the wrapper is the transaction core's error, for every verdict of the breaker except
reject** — for EVERY acceptable function `acc` (so for `db.acceptable` with any `WithAcceptable` composition, and
whatever it answers: success, failure, or not consulted because the core left by a panic): the driver-call log,
the body runs, the body's outcome, the returned error and the escaping panic are those of `transact`.  Only a
context that is already done or a rejecting breaker replace it — by ctx.Err() / ErrServiceUnavailable, and then
nothing ran.  (The seeded change C14-4 — `acceptable` applied inside the request, acceptable errors turned into
nil — is the negation of the first conjunct.) -/
theorem wrapper_returns_core_error (ctxDone ctxDead brkAllow : Bool) (acc : Option Err → Bool) (core : Result) :
    (ctxDone = false → brkAllow = true →
      (brkDo ctxDone ctxDead brkAllow acc core).ret = core.ret ∧
      (brkDo ctxDone ctxDead brkAllow acc core).log = core.log ∧
      (brkDo ctxDone ctxDead brkAllow acc core).runs = core.runs ∧
      (brkDo ctxDone ctxDead brkAllow acc core).body = core.body ∧
      (brkDo ctxDone ctxDead brkAllow acc core).escaped = core.escaped ∧
      (brkDo ctxDone ctxDead brkAllow acc core).mark = (if core.escaped then none else some (acc core.ret))) ∧
    (ctxDone = false → brkAllow = false →
      brkDo ctxDone ctxDead brkAllow acc core =
        { log := [], runs := 0, body := .notRun, ret := some (Err.of .breaker), mark := none }) ∧
    (ctxDone = true →
      brkDo ctxDone ctxDead brkAllow acc core =
        { log := [], runs := 0, body := .notRun, ret := some (Err.of (ctxSrc ctxDead)), mark := none }) := by
  refine ⟨?_, ?_, ?_⟩
  · intro h1 h2; subst h1; subst h2; simp [brkDo]
  · intro h1 h2; subst h1; subst h2; simp [brkDo]
  · intro h1; subst h1; simp [brkDo]

/-- … instantiated: `Transact*` returns exactly what `transact` returned whenever the request was let through,
in particular never nil for an error the breaker finds acceptable. -/
theorem transact_returns_core_error (env : Env) (f : Faults) (b : Body)
    (hc : env.ctxDone = false) (ha : env.brkAllow = true) :
    (transactCtx env f b).ret = (transactFn env.connOk f b).ret ∧
    (transactCtx env f b).log = (transactFn env.connOk f b).log ∧
    (transactCtx env f b).runs = (transactFn env.connOk f b).runs ∧
    (transactCtx env f b).escaped = (transactFn env.connOk f b).escaped ∧
    ((transactCtx env f b).mark = some true → (transactCtx env f b).ret = (transactFn env.connOk f b).ret) ∧
    ((transactFn env.connOk f b).ret ≠ none → (transactCtx env f b).ret ≠ none) := by
  rw [transactCtx_is_wrapped_transact]
  have h := (wrapper_returns_core_error env.ctxDone env.ctxDead env.brkAllow (acceptable env.userAccept)
    (transactFn env.connOk f b)).1 hc ha
  obtain ⟨h1, h2, h3, -, h5, -⟩ := h
  exact ⟨h1, h2, h3, h5, fun _ => h1, fun hne => by rw [h1]; exact hne⟩

/-- the body returned ErrNotFound after a QueryRow that found no row: rolled back, ErrNotFound returned (not nil),
success for the breaker -/
example : transactCtx envOk { begin := true, commit := true, rollback := true }
    { stmts := [⟨.exec, false, true⟩, ⟨.rowq, false, true⟩, ⟨.exec, false, true⟩], fin := .ok }
    = { log := [.begin true, .exec 0 true, .query 1 true, .rollback true], runs := 1,
        body := .err (Err.of (.body .noRows)), ret := some (Err.of (.body .noRows)), mark := some true } := by decide

/-! ### WithAcceptable options compose -/

/-- **Every installed WithAcceptable function is consulted, none is dropped**: applying any number of
`WithAcceptable` options in order to a connection leaves `accept` nil when there are none, and otherwise a
function that answers `f1(err) || f2(err) || …` over all of them (and the function that was there before). -/
theorem withAcceptable_composes (fs : List (Option Err → Bool)) (cur : AccFn) (e : Option Err) :
    (fs.foldl withAcceptable cur).map (· e) =
      match cur with
      | none => if fs.isEmpty then none else some (fs.any (· e))
      | some g => some (g e || fs.any (· e)) := by
  induction fs generalizing cur with
  | nil => cases cur <;> simp
  | cons f fs ih =>
    rw [List.foldl_cons, ih]
    cases cur <;> simp [withAcceptable, Bool.or_assoc]

/-- the model's user function of a configuration is that composition of the installed functions -/
theorem uaFn_is_composition (ua : UA) (e : Option Err) :
    (uaFn ua).map (· e) = (ua.installed.foldl withAcceptable none).map (· e) := by
  obtain ⟨a1, a2⟩ := ua
  cases a1 <;> cases a2 <;> simp [uaFn, UA.installed, withAcceptable, userFn1, userFn2]

example : (([userFn1, userFn2].foldl withAcceptable none).map (· (some (Err.of (.body .userOk2))))) = some true := by
  decide

/-! ### every anchored entry point -/

/-- the entry points the property anchors: `commonSqlConn.Transact` / `TransactCtx`, `sqlc.CachedConn.Transact` /
`TransactCtx` (delegating), and `Transact[Ctx]` of a connection made from a transaction's session
(`NewSqlConnFromSession`, `CachedConn.WithSession`, also over `NewSessionFromTx`) -/
inductive Entry
  | transact | transactCtx | cachedTransact | cachedTransactCtx | nested | nestedCtx
  deriving DecidableEq, Repr

/-- what each entry point does, read off its wiring (Tie: tie_wire_*, and semantically tie_forwarding_sem: the
typed argument lists of every hop composed for all caller contexts and bodies): the ctx-less ones call `TransactCtx` with
`context.Background()` — never done, nothing to cancel under the body —, the cached ones delegate unchanged, the
nested ones return `errCantNestTx` without touching anything. -/
def runEntry (ep : Entry) (env : Env) (f : Faults) (b : Body) : Result :=
  match ep with
  | .transactCtx | .cachedTransactCtx => transactCtx env f b
  | .transact | .cachedTransact =>
    transactCtx { env with ctxDone := false, ctxDead := false } f { b with cancelAt := none }
  | .nested | .nestedCtx => { log := [], runs := 0, body := .notRun, ret := some (Err.of .nest) }

/-- **End to end, every clause at every entry point**: call site → (delegation) → breaker wrapper →
`transact` → `transactOnConn`: all eleven clauses of the property and the breaker clause hold of what the entry
point does, for every environment, fault plan and body. -/
theorem every_entry_point_holds (ep : Entry) (env : Env) (f : Faults) (b : Body) :
    holds (runEntry ep env f b) = true ∧ violated (runEntry ep env f b) = [] ∧
    breakerTold env.userAccept (runEntry ep env f b) = true := by
  cases ep
  case nested =>
    exact ⟨by simp only [runEntry]; decide, by simp only [runEntry]; decide, by simp [runEntry, breakerTold]⟩
  case nestedCtx =>
    exact ⟨by simp only [runEntry]; decide, by simp only [runEntry]; decide, by simp [runEntry, breakerTold]⟩
  all_goals
    first
    | exact ⟨holds_ctx env f b, violated_nil_of_holds _ (holds_ctx env f b), breakerTold_ctx env f b⟩
    | exact ⟨holds_ctx _ f _, violated_nil_of_holds _ (holds_ctx _ f _),
        breakerTold_ctx { env with ctxDone := false, ctxDead := false } f _⟩

example : runEntry .cachedTransact { envOk with ctxDone := true } { begin := true, commit := true, rollback := true }
    { stmts := [⟨.exec, false, true⟩], fin := .ok, cancelAt := some 0 }
    = { log := [.begin true, .exec 0 true, .commit true], runs := 1, body := .nil, ret := none, mark := some true } := by
  decide

/-- **The executable monitor is sound**: every clause the driver evaluates on the real code's observations
holds of the model, for `TransactCtx` and for `transactOnConn`. -/
theorem monitor_sound (env : Env) (f : Faults) (b : Body) :
    holds (transactCtx env f b) = true ∧ holds (transactOnConn f b) = true ∧
    violated (transactCtx env f b) = [] ∧ violated (transactOnConn f b) = [] ∧
    breakerTold env.userAccept (transactCtx env f b) = true :=
  ⟨holds_ctx env f b, holds_onConn f b, violated_nil_of_holds _ (holds_ctx env f b),
   violated_nil_of_holds _ (holds_onConn f b), breakerTold_ctx env f b⟩

example : holds (transactCtx { envOk with userAccept := { a1 := true } } { begin := true, commit := false, rollback := false }
    { stmts := [⟨.query, true, false⟩, ⟨.nest, true, false⟩], fin := .err .userOk }) = true := by decide

/-- the monitor is not vacuous: what the seeded change C14-2 does (body returned an error under a done context,
no Rollback) violates ends-exactly-once and rollback-iff-body-failed -/
example : violated
    { log := [.begin true, .exec 0 true], runs := 1, body := .err (Err.of .ctx),
      ret := some (Err.of .ctx), mark := some true } = ["ends-exactly-once", "rollback-iff-body-failed"] := by decide

/-! ### round 5: the whole configuration space, no retry, sequences of calls -/

/-- the part of `commonSqlConn.acceptable` that does not depend on options -/
def builtinAcceptable (e : Option Err) : Bool :=
  e.isNone || hasCls e .noRows || hasCls e .txDone || hasCls e .canceled || hasCls e .accType

/-- `db.acceptable` of a connection built with ANY list of `WithAcceptable` options, in option order:
`db.accept` is what the option closures leave (`foldl withAcceptable none`); nil means "not acceptable" -/
def acceptableOf (fs : List (Option Err → Bool)) (e : Option Err) : Bool :=
  builtinAcceptable e ||
    match fs.foldl withAcceptable none with
    | none => false
    | some g => g e

theorem acceptableOf_eq (fs : List (Option Err → Bool)) (e : Option Err) :
    acceptableOf fs e = (builtinAcceptable e || fs.any (· e)) := by
  have h := withAcceptable_composes fs none e
  unfold acceptableOf
  cases hf : fs.foldl withAcceptable none with
  | none =>
    rw [hf] at h
    cases fs with
    | nil => simp
    | cons a l => simp at h
  | some g =>
    rw [hf] at h
    cases fs with
    | nil => simp at h
    | cons a l =>
      simp at h
      simp [h]

theorem brkDo_mark_only (cd dd ba : Bool) (acc acc' : Option Err → Bool) (core : Result) :
    brkDo cd dd ba acc core = { brkDo cd dd ba acc' core with mark := (brkDo cd dd ba acc core).mark } := by
  unfold brkDo; cases cd <;> cases ba <;> simp

/-- **Every option set, every constructor argument.**  For a connection built by either constructor with ANY
list `fs` of `WithAcceptable` functions (arbitrary functions of the error, any number, any order), any connection
provider answer, any breaker verdict and context state: `TransactCtx` = the breaker wrapper around `transact`
with `db.acceptable` satisfies all eleven clauses, returns exactly what the configuration-free model returns
(log, runs, body, error, escaping panic: options never change the transaction), and the breaker is told
`nil ∨ builtin-acceptable ∨ f₁(err) ∨ … ∨ fₙ(err)` — every installed function is consulted. -/
theorem all_option_sets_hold (fs : List (Option Err → Bool)) (env : Env) (f : Faults) (b : Body) :
    holds (brkDo env.ctxDone env.ctxDead env.brkAllow (acceptableOf fs) (transactFn env.connOk f b)) = true ∧
    violated (brkDo env.ctxDone env.ctxDead env.brkAllow (acceptableOf fs) (transactFn env.connOk f b)) = [] ∧
    brkDo env.ctxDone env.ctxDead env.brkAllow (acceptableOf fs) (transactFn env.connOk f b) =
      { transactCtx env f b with
        mark := (brkDo env.ctxDone env.ctxDead env.brkAllow (acceptableOf fs) (transactFn env.connOk f b)).mark } ∧
    (∀ m, (brkDo env.ctxDone env.ctxDead env.brkAllow (acceptableOf fs) (transactFn env.connOk f b)).mark = some m →
      m = (builtinAcceptable (transactCtx env f b).ret || fs.any (· (transactCtx env f b).ret))) := by
  have hw := transactCtx_is_wrapped_transact env f b
  have hm := brkDo_mark_only env.ctxDone env.ctxDead env.brkAllow (acceptableOf fs) (acceptable env.userAccept)
    (transactFn env.connOk f b)
  rw [← hw] at hm
  have hh : holds (brkDo env.ctxDone env.ctxDead env.brkAllow (acceptableOf fs) (transactFn env.connOk f b)) = true := by
    rw [hm, holds_mark]; exact holds_ctx env f b
  refine ⟨hh, violated_nil_of_holds _ hh, hm, ?_⟩
  intro m hmk
  have hret : (transactCtx env f b).ret =
      (brkDo env.ctxDone env.ctxDead env.brkAllow (acceptableOf fs) (transactFn env.connOk f b)).ret := by
    rw [hm]
  rw [hret]
  unfold brkDo at hmk ⊢
  cases h1 : env.ctxDone <;> cases h2 : env.brkAllow <;> simp [h1, h2] at hmk ⊢
  obtain ⟨_, h⟩ := hmk
  rw [← h, acceptableOf_eq]

/-- the model's two-function configurations are instances of it -/
theorem acceptable_is_acceptableOf (ua : UA) (e : Option Err) :
    acceptable ua e = acceptableOf ua.installed e := by
  rw [acceptable_probes, acceptableOf_eq]
  obtain ⟨a1, a2⟩ := ua
  cases a1 <;> cases a2 <;> simp [builtinAcceptable, UA.installed, userFn1, userFn2, Bool.or_assoc]

example : acceptableOf [fun e => hasCls e .userOk2, fun _ => false] (some (Err.of (.rollback .userOk2))) = true := by
  decide

/-- **No second transaction, no second run of the body — at every entry point**, whatever error any fault point
produced (the model has no retry: a statement, Commit or Rollback answered driver.ErrBadConn is an ordinary
error; the seeded change C14-7 re-ran `transactOnConn` on such an error). -/
theorem no_second_transaction (ep : Entry) (env : Env) (f : Faults) (b : Body) :
    (runEntry ep env f b).runs ≤ 1 ∧ count isBeginOk (runEntry ep env f b).log ≤ 1 ∧
    count isBegin (runEntry ep env f b).log ≤ 1 ∧ count isEnd (runEntry ep env f b).log ≤ 1 := by
  have key : ∀ (env : Env) (b : Body), (transactCtx env f b).runs ≤ 1 ∧ count isBeginOk (transactCtx env f b).log ≤ 1 ∧
      count isBegin (transactCtx env f b).log ≤ 1 ∧ count isEnd (transactCtx env f b).log ≤ 1 := by
    intro env b
    have h1 := begins_at_most_one_transaction env f b
    have h2 := body_runs_iff_begun env f b
    have h3 := ends_exactly_once env f b
    refine ⟨?_, ?_, h1.2.1, ?_⟩
    · rw [h2.1]; split <;> omega
    · rw [h1.1]; split <;> omega
    · cases ho : opened env f
      · rw [(h3.2 ho).2.2.2.1]; omega
      · rw [(h3.1 ho).2.2.2.2.1]; omega
  cases ep
  case nested => simp [runEntry, count]
  case nestedCtx => simp [runEntry, count]
  all_goals exact key _ _

/-- what the seeded change C14-7 did (statement answered ErrBadConn, rolled back, everything done again) -/
example : violated
    { log := [.begin true, .exec 0 false, .rollback true, .begin true, .exec 0 false, .rollback true],
      runs := 2, body := .err (Err.of (.stmt 0)), ret := some (Err.of (.stmt 0)), mark := some false }
    = ["begins-once", "ends-exactly-once", "body-runs-iff-begun"] := by decide

/-- what the seeded change C14-6 did (a non-error panic swallowed by a wrapper around the body: committed, nil) -/
example : violated { log := [.begin true, .commit true], runs := 1, body := .panic, ret := none }
    = ["commit-iff-body-ok", "rollback-iff-body-failed", "panic-reported"] := by decide

/-! ### sequences of calls on several connections -/

/-- one call of a section: entry point, which of the two connections, environment, fault plan, body -/
structure Call where
  ep : Entry
  second : Bool
  env : Env
  f : Faults
  b : Body

/-- the calls of a section, in order, on two connections built with their own options: each call sees the options
of ITS connection; nothing else is carried from one call to the next (the breaker's history is the `brkAllow`
input of each call) -/
def runCalls (ua0 ua1 : UA) (cs : List Call) : List Result :=
  cs.map fun c => runEntry c.ep { c.env with userAccept := if c.second then ua1 else ua0 } c.f c.b

/-- **Every call of every sequence**, on either connection, through any entry point, after any history: all
clauses hold and the breaker is told what the connection's OWN options say. -/
theorem call_sequences_hold (ua0 ua1 : UA) (cs : List Call) :
    (runCalls ua0 ua1 cs).all (fun r => holds r) = true ∧
    (runCalls ua0 ua1 cs).length = cs.length ∧
    ∀ c ∈ cs, breakerTold (if c.second then ua1 else ua0)
      (runEntry c.ep { c.env with userAccept := if c.second then ua1 else ua0 } c.f c.b) = true := by
  refine ⟨?_, by simp [runCalls], ?_⟩
  · simp only [runCalls, List.all_map, List.all_eq_true]
    intro c _
    exact (every_entry_point_holds c.ep _ c.f c.b).1
  · intro c _
    exact (every_entry_point_holds c.ep { c.env with userAccept := if c.second then ua1 else ua0 } c.f c.b).2.2

example : (runCalls { a1 := true } {} [⟨.transact, false, envOk, { begin := true, commit := true, rollback := true }, { stmts := [], fin := .err .userOk }⟩,
    ⟨.transact, true, envOk, { begin := true, commit := true, rollback := true }, { stmts := [], fin := .err .userOk }⟩]).map (·.mark)
    = [some true, some false] := by decide

/-- **A statement's error reaches the body, and a body that returns it stops there**: a nested Transact / RawDB
of a session connection (never reaches the driver), a QueryRow that finds no row, a driver fault (also one that
wraps driver.ErrBadConn, also a refused Prepare) and any statement made under a done context yield an error; if
the body returns it, that error is the body's outcome, only the driver calls up to this statement were made and
nothing after it runs — whatever follows in the body. -/
theorem statement_errors_reach_the_body (c : Option Nat) (dl : Bool) (i : Nat) (s : Stmt) (rest : List Stmt) :
    ((s.kind = .nest ∨ s.kind = .rowq ∨ s.fails = true ∨ cancelled c i = true) → s.failingAt c i = true) ∧
    (s.kind = .nest → stmtEvAt c i s = []) ∧
    (s.failingAt c i = true → s.prop = true →
      runStmts c dl i (s :: rest) = (stmtEvAt c i s, some (stmtSrcAt c dl i s))) ∧
    (s.failingAt c i = false → (runStmts c dl i (s :: rest)).2 = (runStmts c dl (i + 1) rest).2) := by
  refine ⟨?_, ?_, ?_, ?_⟩
  · intro h
    unfold Stmt.failingAt
    rcases h with h | h | h | h <;> simp [h]
  · intro h; simp [stmtEvAt, h]
  · intro h1 h2; simp [runStmts, h1, h2]
  · intro h; simp [runStmts, h]

example : (runBody { stmts := [⟨.exec, false, true⟩, ⟨.exec, true, true⟩, ⟨.query, false, true⟩], fin := .ok }) =
    ([.exec 0 true, .exec 1 false], .err (Err.of (.stmt 1))) := by decide

/-! ### round 5 finding: `WithAcceptable(f), WithAcceptable(nil)` -/

/-- **Finding (round 5).**  Options `WithAcceptable(f), WithAcceptable(nil)`: the pinned option closure installs
`pre(err) || nil(err)`; for every error `f` does not accept the verdict evaluation calls the nil function. -/
theorem witness_nil_option_is_called (e : Option Err) (h : userFn1 e = false) :
    (([liftFn userFn1, none].foldl withAcceptablePinned none).map (· e)) = some none := by
  simp [withAcceptablePinned, liftFn, h]

/-- … so `Transact` leaves by a panic although the transaction ended in an orderly way (rolled back, the body's
error known): the clause orderly-return is violated on the pinned code. -/
theorem witness_nil_option_violates_orderly_return :
    violated (brkDoP (fun e => match [liftFn userFn1, none].foldl withAcceptablePinned none with
                               | some g => g e | none => some false)
      (transactFn true { begin := true, commit := true, rollback := true } { stmts := [], fin := .err .plain }))
      = ["orderly-return"] := by decide

/-- alone or BEFORE a real function a nil argument is harmless also in the pinned code -/
theorem pinned_nil_first_is_harmless (g : Option Err → Bool) :
    [none, liftFn g].foldl withAcceptablePinned none = liftFn g ∧
    [none].foldl withAcceptablePinned none = (none : AccFnP) := by
  simp [withAcceptablePinned, liftFn]

theorem fixed_step (cur : AccFn) (g : Option Err → Bool) :
    withAcceptableFixed (liftAcc cur) (liftFn g) = liftAcc (withAcceptable cur g) := by
  cases cur with
  | none => rfl
  | some pre =>
    simp only [withAcceptableFixed, liftFn, withAcceptablePinned, liftAcc, withAcceptable, Option.map]
    congr 1
    funext e
    cases pre e <;> rfl

/-- **With the patch every nil option is ignored**: for any list of options, nil ones anywhere, the installed
verdict function is the composition (`withAcceptable`) of the non-nil ones in order — never a nil call; so
`all_option_sets_hold` applies to every option list. -/
theorem fixed_nil_options_ignored (fs : List (Option (Option Err → Bool))) (cur : AccFn) :
    (fs.map (fun o => o.elim none liftFn)).foldl withAcceptableFixed (liftAcc cur) =
      liftAcc ((fs.filterMap id).foldl withAcceptable cur) := by
  induction fs generalizing cur with
  | nil => rfl
  | cons o fs ih =>
    cases o with
    | none =>
      simp only [List.map_cons, List.foldl_cons, Option.elim, List.filterMap_cons, id]
      have : withAcceptableFixed (liftAcc cur) none = liftAcc cur := rfl
      rw [this]; exact ih cur
    | some g =>
      simp only [List.map_cons, List.foldl_cons, Option.elim, List.filterMap_cons, id]
      rw [fixed_step]; exact ih _

example : ([some userFn1, none, some userFn2].map (fun o => o.elim none liftFn)).foldl withAcceptableFixed none
    = liftAcc ([userFn1, userFn2].foldl withAcceptable none) := fixed_nil_options_ignored _ none

/-- without nil arguments the pinned and the patched closure are the same -/
theorem pinned_eq_fixed_without_nil (cur : AccFnP) (g : Option Err → Option Bool) :
    withAcceptablePinned cur (some g) = withAcceptableFixed cur (some g) := rfl

/-! ### round 5c: the whole end-error domain — the body may end the raw Tx itself -/

theorem count_beginOk_le (l : List Ev) : count isBeginOk l ≤ count isBegin l := by
  induction l with
  | nil => simp [count]
  | cons e l ih =>
    unfold count at *
    cases e <;> (try (rename_i ok; cases ok)) <;> simp [List.filter_cons] <;> omega

theorem holdsX_of_holds (r : Result) (h : holds r = true) : holdsX r = true := by
  unfold holds at h
  simp only [Bool.and_eq_true] at h
  obtain ⟨⟨⟨⟨⟨⟨⟨⟨⟨⟨h1, h2⟩, h3⟩, _⟩, _⟩, h6⟩, h7⟩, _⟩, h9⟩, h10⟩, h11⟩ := h
  have h7' : nilOnlyIfCommitOk r = true := by
    unfold nilIffCommitOk at h7; unfold nilOnlyIfCommitOk
    cases hr : r.ret.isNone <;> simp_all
  simp [holdsX, h1, h2, h3, h6, h7', h9, h10, h11]

theorem holdsX_badPrefix (r : Result) (n : Nat) (hne : r.log ≠ []) (hb : r.log.any isBegin = true) :
    holdsX { r with log := badPrefix n r.log } = holdsX r := by
  have e1 : beginsOnce { r with log := badPrefix n r.log } = beginsOnce r := by
    simp only [beginsOnce, count, filter_badPrefix isBegin rfl, dropWhile_badPrefix] <;> rfl
  have e2 : endsExactlyOnce { r with log := badPrefix n r.log } = endsExactlyOnce r := by
    simp only [endsExactlyOnce, begun, count, filter_badPrefix isEnd rfl, filter_badPrefix isStmt rfl,
      any_badPrefix isBeginOk rfl, getLast?_badPrefix n r.log hne] <;> rfl
  have e3 : bodyRunsIffBegun { r with log := badPrefix n r.log } = bodyRunsIffBegun r := by
    simp only [bodyRunsIffBegun, begun, any_badPrefix isBeginOk rfl] <;> rfl
  have e6 : panicReported { r with log := badPrefix n r.log } = panicReported r := rfl
  have e7 : nilOnlyIfCommitOk { r with log := badPrefix n r.log } = nilOnlyIfCommitOk r := by
    simp only [nilOnlyIfCommitOk, contains_badPrefix (.commit true) (by simp)] <;> rfl
  have e9 : bodyErrorReported { r with log := badPrefix n r.log } = bodyErrorReported r := rfl
  have e11 : beginFailureReported { r with log := badPrefix n r.log } = beginFailureReported r := by
    simp [beginFailureReported, retIs, mem_badPrefix (.begin false) (by simp : Ev.begin false ≠ .beginBad),
      any_badPrefix isBegin rfl, hb]
  have e10 : orderlyReturn { r with log := badPrefix n r.log } = orderlyReturn r := by
    simp only [orderlyReturn, getLast?_badPrefix n r.log hne] <;> rfl
  simp only [holdsX, e1, e2, e3, e6, e7, e9, e10, e11]

/-- the run in which the body ended the raw Tx, without the retried Begin attempts in front -/
def rawRun (b : Body) (r : RawEnd) : Result :=
  { log := .begin true :: ((runBody b).1 ++ [rawEv r]), runs := 1, body := (runBody b).2,
    ret := some (retAfterRawEnd (runBody b).2) }

theorem holdsX_rawRun (b : Body) (r : RawEnd) : holdsX (rawRun b r) = true := by
  have hall := runBody_all b
  have h1 := filter_nil_of_all stmt_not_begin _ hall
  have h2 := all_notBeginish _ hall
  have h3 := filter_nil_of_all stmt_not_end _ hall
  have h4 := any_false_of_all stmt_not_beginOk _ hall
  have h5 : Ev.begin false ∉ (runBody b).1 := not_mem_of_all hall _ rfl
  have hne := runBody_ne_notRun b
  obtain ⟨cm, ok⟩ := r
  unfold holdsX rawRun beginsOnce endsExactlyOnce bodyRunsIffBegun panicReported nilOnlyIfCommitOk
    bodyErrorReported orderlyReturn beginFailureReported count begun rawEv retAfterRawEnd
  generalize (runBody b).1 = evs at *
  generalize (runBody b).2 = out at *
  cases cm <;> cases out <;>
    simp_all [List.filter_cons, List.filter_append, List.all_append, getLast?_cons_snoc, Err.mentions, Err.of,
      reports, retIs] <;>
    (intro s hs; simp [hs])

theorem transactOnConnX_reached (f : Faults) (b : BodyX) (r : RawEnd) (hr : b.raw = some r)
    (h : b.reaches f = true) :
    transactOnConnX f b = { rawRun b.base r with log := badPrefix f.badConn (rawRun b.base r).log } := by
  unfold transactOnConnX; rw [hr]; simp [h, rawRun]

theorem transactOnConnX_not_reached (f : Faults) (b : BodyX) (h : b.reaches f = false) :
    transactOnConnX f b = transactOnConn f b.base := by
  unfold transactOnConnX
  cases hr : b.raw with
  | none => rfl
  | some r => simp [h]

theorem holdsX_onConnX (f : Faults) (b : BodyX) : holdsX (transactOnConnX f b) = true := by
  cases h : b.reaches f
  · rw [transactOnConnX_not_reached f b h]; exact holdsX_of_holds _ (holds_onConn f b.base)
  · have hs : b.raw.isSome = true := by
      unfold BodyX.reaches at h; simp only [Bool.and_eq_true] at h; exact h.1.1
    obtain ⟨r, hr⟩ := Option.isSome_iff_exists.mp hs
    rw [transactOnConnX_reached f b r hr h,
      holdsX_badPrefix _ _ (by simp [rawRun]) (by simp [rawRun])]
    exact holdsX_rawRun b.base r

theorem holdsX_mark (r : Result) (m : Option Bool) : holdsX { r with mark := m } = holdsX r := rfl

/-- **All go-zero-side clauses over the WHOLE domain** — every environment, fault plan (Commit / Rollback errors
of every class incl. sql.ErrTxDone bare or wrapped, panics), every body incl. bodies that commit or roll back the
raw `*sql.Tx` themselves and then return nil / an error / panic: one Begin, exactly one end of the transaction at
the driver (as the last call), the body runs iff begun, a panic is reported, nil ONLY when a Commit succeeded, the
body's error is told, orderly return, Begin failures reported. -/
theorem monitor_sound_full (env : Env) (f : Faults) (b : BodyX) :
    holdsX (transactCtxX env f b) = true ∧ holdsX (transactOnConnX f b) = true := by
  refine ⟨?_, holdsX_onConnX f b⟩
  unfold transactCtxX brkDo transactFnX
  cases h1 : env.ctxDone <;> cases h2 : env.brkAllow <;> cases h3 : env.connOk <;> cases h4 : env.ctxDead <;>
    simp only [Bool.not_true, Bool.not_false, Bool.false_eq_true, if_false, if_true] <;>
    first
      | decide
      | exact (holdsX_mark _ _).trans (holdsX_onConnX f b)
      | exact (holdsX_mark { log := [], runs := 0, body := .notRun, ret := some (Err.of .conn) } _).trans (by decide)

/-- without a raw end the extended model IS the model of the other theorems -/
theorem x_agrees_without_raw_end (env : Env) (f : Faults) (b : Body) :
    transactCtxX env f { base := b } = transactCtx env f b := by
  rw [transactCtx_is_wrapped_transact]
  unfold transactCtxX transactFnX transactFn transactOnConnX
  rfl

/-- **The returned error is nil only when the commit succeeded — over the whole domain.**
(1) literal direction: nil ⇒ a successful Commit reached the driver; (2) exactly: nil ⇔ the body did not end the
Tx itself ∧ a transaction was opened ∧ the body returned nil ∧ the driver accepted go-zero's Commit; (3) once the
body has ended the raw Tx — by Commit or Rollback, accepted or refused by the driver, whatever it returns
afterwards — `Transact` NEVER returns nil: it returns sql.ErrTxDone (the refused `tx.Commit()`), or wraps it
(`rollback failed: %w`), reachable by errors.Is; the breaker books that as a success (ErrTxDone is acceptable);
(4) a Commit the DRIVER refuses with sql.ErrTxDone (bare or wrapped) is returned with its identity.
The seeded change C14-8 (ErrTxDone dropped at the commit site) negates (3) and (4). -/
theorem nil_only_if_commit_ok_full (env : Env) (f : Faults) (b : BodyX) :
    ((transactCtxX env f b).ret = none → Ev.commit true ∈ (transactCtxX env f b).log) ∧
    ((transactCtxX env f b).ret = none ↔
      (b.reaches f = false ∧ opened env f = true ∧ (runBody b.base).2 = .nil ∧ f.commitOk = true)) ∧
    (env.admitted = true → b.reaches f = true →
      (∃ e, (transactCtxX env f b).ret = some e ∧ hasCls (some e) .txDone = true) ∧
      (transactCtxX env f b).mark = some true ∧ (transactCtxX env f b).escaped = false ∧
      ((runBody b.base).2 = .nil → (transactCtxX env f b).ret = some (Err.of (.commit .txDone)))) ∧
    (opened env f = true → b.reaches f = false → (runBody b.base).2 = .nil → f.commit = false →
      f.commitPanics = false → (transactCtxX env f b).ret = some (Err.of (.commit f.commitCls))) := by
  have hsound := (monitor_sound_full env f b).1
  have hlit : (transactCtxX env f b).ret = none → Ev.commit true ∈ (transactCtxX env f b).log := by
    intro hn
    unfold holdsX at hsound
    simp only [Bool.and_eq_true] at hsound
    have := hsound.1.1.1.2
    unfold nilOnlyIfCommitOk at this
    simpa [hn] using this
  have hnr : b.reaches f = false → transactCtxX env f b = transactCtx env f b.base := by
    intro h
    rw [transactCtx_is_wrapped_transact]
    unfold transactCtxX transactFnX transactFn
    rw [transactOnConnX_not_reached f b h]
  have hreach : env.admitted = true → b.reaches f = true →
      transactCtxX env f b =
        { transactOnConnX f b with mark := some (acceptable env.userAccept (transactOnConnX f b).ret) } ∧
      ∃ r, b.raw = some r ∧
        transactOnConnX f b = { rawRun b.base r with log := badPrefix f.badConn (rawRun b.base r).log } := by
    intro ha h
    have hs : b.raw.isSome = true := by
      unfold BodyX.reaches at h; simp only [Bool.and_eq_true] at h; exact h.1.1
    obtain ⟨r, hr⟩ := Option.isSome_iff_exists.mp hs
    have hx := transactOnConnX_reached f b r hr h
    refine ⟨?_, r, hr, hx⟩
    unfold Env.admitted at ha
    simp only [Bool.and_eq_true, Bool.not_eq_true'] at ha
    unfold transactCtxX brkDo transactFnX
    simp [ha.1.1, ha.1.2, ha.2, hx, rawRun]
  refine ⟨hlit, ?_, ?_, ?_⟩
  · cases h : b.reaches f
    · rw [hnr h]
      have := (nil_only_if_commit_ok env f b.base).2.1
      simpa using this
    · constructor
      · intro hn
        exfalso
        cases ha : env.admitted
        · -- not admitted: the wrapper's own error
          unfold Env.admitted at ha
          unfold transactCtxX brkDo transactFnX at hn
          cases h1 : env.ctxDone <;> cases h2 : env.brkAllow <;> cases h3 : env.connOk <;> simp_all
        · obtain ⟨h1, r, _, h2⟩ := hreach ha h
          rw [h1, h2] at hn
          simp [rawRun] at hn
      · intro hc; simp at hc
  · intro ha h
    obtain ⟨h1, r, _, h2⟩ := hreach ha h
    rw [h1, h2]
    refine ⟨?_, ?_, ?_, ?_⟩
    · cases ho : (runBody b.base).2 <;> simp [rawRun, retAfterRawEnd, ho, hasCls, srcCls, Err.of]
    · cases ho : (runBody b.base).2 <;> simp [rawRun, retAfterRawEnd, ho, acceptable, srcAcceptable, clsAcceptable, Err.of]
    · simp [rawRun]
    · intro ho; simp [rawRun, retAfterRawEnd, ho]
  · intro ho h hb hc hp
    rw [hnr h, ret_opened env f b.base ho, hb]
    simp [hc, hp]

/-- the body rolled the raw Tx back and returned nil: nothing was committed, sql.ErrTxDone is returned (the seeded
change C14-8 returns nil here) -/
example : transactCtxX envOk { begin := true, commit := true, rollback := true }
    { base := { stmts := [⟨.exec, false, true⟩], fin := .ok }, raw := some { commit := false, ok := true } }
    = { log := [.begin true, .exec 0 true, .rollback true], runs := 1, body := .nil,
        ret := some (Err.of (.commit .txDone)), mark := some true } := by decide

/-- … and what C14-8 returned there violates the literal clause -/
example : violatedX { log := [.begin true, .exec 0 true, .rollback true], runs := 1, body := .nil, ret := none }
    = ["nil-only-if-commit-ok"] := by decide

/-- **Exactly one end of the transaction reaches the driver over the whole domain**: the body's own raw end, or
go-zero's — never both, never none. -/
theorem ends_exactly_once_full (env : Env) (f : Faults) (b : BodyX) (ho : opened env f = true) :
    count isEnd (transactCtxX env f b).log = 1 ∧
    (∃ e, (transactCtxX env f b).log.getLast? = some e ∧ isEnd e = true) ∧
    count isBeginOk (transactCtxX env f b).log = 1 ∧ (transactCtxX env f b).runs = 1 := by
  have hsound := (monitor_sound_full env f b).1
  unfold holdsX at hsound
  simp only [Bool.and_eq_true] at hsound
  have he := hsound.1.1.1.1.1.1.2
  have hb := hsound.1.1.1.1.1.2
  have hbo := hsound.1.1.1.1.1.1.1
  have hbeg : begun (transactCtxX env f b) = true := by
    cases h : b.reaches f
    · have hnr : transactCtxX env f b = transactCtx env f b.base := by
        rw [transactCtx_is_wrapped_transact]
        unfold transactCtxX transactFnX transactFn
        rw [transactOnConnX_not_reached f b h]
      rw [hnr]
      have := (begins_at_most_one_transaction env f b.base).1
      rw [ho] at this
      unfold begun
      rw [List.any_eq_true]
      simp only [count] at this
      have hne : (List.filter isBeginOk (transactCtx env f b.base).log) ≠ [] := by
        intro h0; rw [h0] at this; simp at this
      obtain ⟨x, hx⟩ := List.exists_mem_of_ne_nil _ hne
      exact ⟨x, (List.mem_filter.mp hx).1, (List.mem_filter.mp hx).2⟩
    · have ha : env.admitted = true := by
        unfold opened at ho; simp only [Bool.and_eq_true] at ho; exact ho.1
      have hs : b.raw.isSome = true := by
        unfold BodyX.reaches at h; simp only [Bool.and_eq_true] at h; exact h.1.1
      obtain ⟨r, hr⟩ := Option.isSome_iff_exists.mp hs
      have hx := transactOnConnX_reached f b r hr h
      unfold Env.admitted at ha
      simp only [Bool.and_eq_true, Bool.not_eq_true'] at ha
      unfold transactCtxX brkDo transactFnX begun
      simp [ha.1.1, ha.1.2, ha.2, hx, rawRun, any_badPrefix isBeginOk rfl]
  unfold endsExactlyOnce at he
  rw [hbeg] at he
  simp only [if_true, Bool.and_eq_true, decide_eq_true_eq] at he
  unfold bodyRunsIffBegun at hb
  rw [hbeg] at hb
  simp only [if_true, Bool.and_eq_true, decide_eq_true_eq] at hb
  refine ⟨he.1, ?_, ?_, hb.1⟩
  · cases hl : (transactCtxX env f b).log.getLast? with
    | none => rw [hl] at he; simp at he
    | some e => rw [hl] at he; exact ⟨e, rfl, by simpa using he.2⟩
  · -- exactly one successful Begin: at least one (begun), at most one Begin at all
    unfold beginsOnce at hbo
    simp only [Bool.and_eq_true, decide_eq_true_eq] at hbo
    have hle : count isBeginOk (transactCtxX env f b).log ≤ count isBegin (transactCtxX env f b).log := by
      exact count_beginOk_le _
    have hge : 1 ≤ count isBeginOk (transactCtxX env f b).log := by
      unfold begun at hbeg
      rw [List.any_eq_true] at hbeg
      obtain ⟨x, hx1, hx2⟩ := hbeg
      unfold count
      exact List.length_pos_of_mem (List.mem_filter.mpr ⟨hx1, hx2⟩)
    omega

/-! ### round 5c: the session of the body (clauses statement-outside-transaction, raw-db-refused,
nested-transaction-refused, statement-error-reaches-body, body-gets-callers-context) -/

theorem outsideTx_badPrefix (w : Wiring) (st : Option Nat) (n : Nat) (l : List Ev) :
    outsideTx st (tagLog w (badPrefix n l)) = outsideTx st (tagLog w l) := by
  induction n with
  | zero => rfl
  | succ n ih => simpa [badPrefix, tagLog, outsideTx] using ih

theorem outsideTx_stmts (w : Wiring) (evs rest : List Ev) (h : evs.all isStmt = true) :
    outsideTx (some 0) (tagLog w (evs ++ rest)) =
      (if w.stmtConn = 0 then [] else evs) ++ outsideTx (some 0) (tagLog w rest) := by
  induction evs with
  | nil => simp
  | cons e evs ih =>
    simp only [List.all_cons, Bool.and_eq_true] at h
    have ih' := ih h.2
    simp only [tagLog] at ih' ⊢
    cases e <;> simp [isStmt] at h <;>
      (simp only [List.cons_append, List.map_cons, outsideTx, ih']
       by_cases hc : w.stmtConn = 0
       · simp [hc]
       · have hc' : ¬ (0 = w.stmtConn) := fun h => hc h.symm
         simp [hc, hc'])

theorem outsideTx_refused (w : Wiring) (f : Faults) : outsideTx none (tagLog w (refusedBegins f)) = [] := by
  unfold refusedBegins
  split <;> rw [outsideTx_badPrefix] <;> simp [tagLog, outsideTx]

/-- the log of every run has the shape the connection argument needs -/
theorem logX_shape (env : Env) (f : Faults) (b : BodyX) :
    (∃ n evs e, (transactCtxX env f b).log = badPrefix n (.begin true :: (evs ++ [e])) ∧
        evs.all isStmt = true ∧ isEnd e = true ∧ evs = (runBody b.base).1) ∨
    (transactCtxX env f b).log = refusedBegins f ∨ (transactCtxX env f b).log = [] := by
  have hall := runBody_all b.base
  cases h : b.reaches f
  · have hnr : transactCtxX env f b = transactCtx env f b.base := by
      rw [transactCtx_is_wrapped_transact]
      unfold transactCtxX transactFnX transactFn
      rw [transactOnConnX_not_reached f b h]
    rw [hnr, log_shape_ctx]
    cases ho : opened env f
    · cases env.admitted <;> simp
    · refine Or.inl ⟨f.badConn, (runBody b.base).1, endEvent f b.base, by simp, hall, ?_, rfl⟩
      unfold endEvent; split <;> rfl
  · have hs : b.raw.isSome = true := by
      unfold BodyX.reaches at h; simp only [Bool.and_eq_true] at h; exact h.1.1
    obtain ⟨r, hr⟩ := Option.isSome_iff_exists.mp hs
    have hx := transactOnConnX_reached f b r hr h
    unfold transactCtxX brkDo transactFnX
    cases h1 : env.ctxDone <;> cases h2 : env.brkAllow <;> cases h3 : env.connOk <;> simp
    refine Or.inl ⟨f.badConn, (runBody b.base).1, rawEv r, by rw [hx]; simp [rawRun], by simpa using hall, ?_, rfl⟩
    unfold rawEv; split <;> rfl

/-- **No statement of the body runs outside the transaction** — with the session wiring of the code (the body is
handed the transaction's session, whose statement methods use its own `t.Tx`) every statement reaches the driver on
the connection that holds the open transaction, between Begin and the one end; for every environment, fault plan
and body, incl. bodies that end the raw Tx themselves.  With ANY other wiring (the body handed a session on the
pool, or a statement method that goes to the pool) exactly the body's statements run outside it. -/
theorem statements_inside_the_transaction (w : Wiring) (env : Env) (f : Faults) (b : BodyX) :
    (w.stmtConn = 0 → outsideTx none (tagLog w (transactCtxX env f b).log) = []) ∧
    outsideTx none (tagLog codeWiring (transactCtxX env f b).log) = [] ∧
    (w.stmtConn ≠ 0 → opened env f = true → b.raw = none →
      outsideTx none (tagLog w (transactCtxX env f b).log) = (runBody b.base).1) := by
  have key : ∀ w : Wiring, ∀ n evs e, evs.all isStmt = true → isEnd e = true →
      outsideTx none (tagLog w (badPrefix n (.begin true :: (evs ++ [e])))) = if w.stmtConn = 0 then [] else evs := by
    intro w n evs e hs he
    rw [outsideTx_badPrefix]
    have : outsideTx none (tagLog w (.begin true :: (evs ++ [e]))) = outsideTx (some 0) (tagLog w (evs ++ [e])) := by
      simp [tagLog, outsideTx]
    rw [this, outsideTx_stmts w evs [e] hs]
    cases e <;> simp [isEnd, isCommit, isRollback] at he <;> simp [tagLog, outsideTx]
  have hcode : ∀ w : Wiring, w.stmtConn = 0 → outsideTx none (tagLog w (transactCtxX env f b).log) = [] := by
    intro w hw
    rcases logX_shape env f b with ⟨n, evs, e, hl, hs, he, _⟩ | hl | hl
    · rw [hl, key w n evs e hs he]; simp [hw]
    · rw [hl]; exact outsideTx_refused w f
    · rw [hl]; rfl
  refine ⟨hcode w, hcode codeWiring rfl, ?_⟩
  intro hw ho hr
  have hb : b = { base := b.base } := by cases b; simp_all
  rw [hb, x_agrees_without_raw_end, log_shape_ctx, ho]
  simp only [if_true]
  have hend : isEnd (endEvent f b.base) = true := by unfold endEvent; split <;> rfl
  rw [key w _ _ _ (runBody_all b.base) hend]; simp [hw]

/-- the body handed a session on the pool (mutation M23): its statement runs outside the transaction -/
example : outsideTx none (tagLog { codeWiring with bodySession := .pool }
    (transactCtx envOk { begin := true, commit := true, rollback := true } { stmts := [⟨.exec, false, false⟩], fin := .ok }).log)
    = [.exec 0 true] := by decide

/-- **What a connection made from the body's session answers** (code wiring): `Transact[Ctx]` on it makes no
driver call, does not run its body and yields an error — exactly the model's `SK.nest` statement; `RawDB()` yields
an error and no *sql.DB.  A wiring that does not refuse begins a SECOND transaction inside the first: begins-once is
violated (mutation M12). -/
theorem session_conn_refuses :
    codeWiring.nestOutcome = ([], true, false) ∧ codeWiring.rawDBOutcome = (true, false) ∧
    (∀ c i p, stmtEvAt c i ⟨.nest, true, p⟩ = codeWiring.nestOutcome.1 ∧
              (Stmt.failingAt c i ⟨.nest, true, p⟩) = codeWiring.nestOutcome.2.1) ∧
    (∀ w : Wiring, w.nestRefused = false →
      beginsOnce { log := .begin true :: (w.nestOutcome.1 ++ [.commit true]), runs := 1, body := .nil, ret := none }
        = false) := by
  refine ⟨rfl, rfl, ?_, ?_⟩
  · intro c i p; simp [stmtEvAt, Stmt.failingAt, codeWiring, Wiring.nestOutcome]
  · intro w hw; simp [Wiring.nestOutcome, hw, beginsOnce, count, List.filter_cons]

/-- **A failed statement's error is seen by the body, and the context a statement reaches database/sql with is the
entry point's**: with the code wiring a statement made through a …Ctx method under `TransactCtx(c, …)` carries `c`
(so database/sql refuses it once `c` is done: the model's `cancelAt`), under `Transact` and through a context-less
method `context.Background()` (never refused). -/
theorem statement_context_and_errors :
    (∀ failed, codeWiring.stmtErrSeen failed = failed) ∧
    codeWiring.ctxAtDriver .callers true = .callers ∧
    codeWiring.ctxAtDriver .background true = .background ∧
    (∀ entry, codeWiring.ctxAtDriver entry false = .background) ∧
    (∀ w : Wiring, w.bodyCtx = .background → w.ctxAtDriver .callers true = .background) := by
  refine ⟨?_, rfl, rfl, ?_, ?_⟩
  · intro f; cases f <;> rfl
  · intro e; cases e <;> rfl
  · intro w h; simp [Wiring.ctxAtDriver, composeCtx, h]

/-- what the seeded change C14-9 did (body panics, Rollback fails; an outer recover builds a fresh error and the
rollback failure assigned while panicking is lost): the clause "rollback failures are reported" is violated -/
example : violated
    { log := [.begin true, .rollback false], runs := 1, body := .panic,
      ret := some { is := [], says := [.panic] }, mark := some false } = ["end-failures-reported"] := by decide

/-! ### round 5c: two transactions in flight on one connection pool -/

open GoZero.C14.Conc in
/-- **Two transactions in flight on one pool, every interleaving, every body length, every choice of the pool**:
at every point each call has begun at most one transaction and ended it at most once, never before beginning it;
the two open transactions never share a connection; no statement of a call ever runs on the other call's
connection or outside its own transaction; and a call that is done has begun exactly one transaction and ended it
exactly once. -/
theorem concurrent_transactions_end_their_own (n : Bool → Nat) (sched : List (Bool × Nat)) :
    let s := run n init sched
    (∀ t, s.begins t ≤ 1 ∧ s.ends t ≤ s.begins t ∧ s.stray t = 0 ∧
          (s.pc t = .done → s.begins t = 1 ∧ s.ends t = 1 ∧ s.conn t = none)) ∧
    (s.conn true ≠ none → s.conn true ≠ s.conn false) := by
  intro s
  obtain ⟨h1, h2, h3⟩ := inv_run n sched init inv_init
  refine ⟨?_, h3⟩
  intro t
  have ht := h1 t
  have hs := h2 t
  cases hpc : (run n init sched).pc t <;> rw [hpc] at ht <;> simp_all [s]

/-- both calls get through when the schedule is long enough: an example interleaving -/
def concExampleRun : Conc.St := Conc.run (fun t => if t then 2 else 1) Conc.init
  [(true, 7), (false, 7), (false, 8), (true, 0), (false, 0), (true, 0), (false, 0), (true, 0)]

open GoZero.C14.Conc in
example : (concExampleRun.begins true, concExampleRun.ends true, concExampleRun.begins false, concExampleRun.ends false,
    concExampleRun.pc true, concExampleRun.pc false, concExampleRun.stray true) = (1, 1, 1, 1, PC.done, PC.done, 0) := by decide

end GoZero.C14.Props
