/-
C14 — the property theorems.  `transactCtx env f b` is the model of `commonSqlConn.TransactCtx`
(= `Transact`, `sqlc.CachedConn.Transact[Ctx]`) for an arbitrary environment `env` (context state, breaker
admission, connection provider, installed acceptable function), an arbitrary driver fault plan `f`
(Begin / Commit / Rollback answers) and an arbitrary body `b` (any number of statements, each ok or faulted,
the fault returned or ignored by the body; final outcome nil / error / panic).  Nothing is bounded.
-/
import GoZero.C14.Proofs
namespace GoZero.C14.Props
open GoZero.C14 GoZero.C14.Spec

/-- **One Begin, the body's statements, exactly one Commit/Rollback — or nothing.**
If the transaction can be opened the driver sees exactly `Begin, <statement calls of the body>, end` where
`end` is the single Commit or Rollback and is the last call, and the body ran once.  Otherwise the driver
sees at most one (refused) Begin, no statement, no Commit, no Rollback, and the body did not run. -/
theorem ends_exactly_once (env : Env) (f : Faults) (b : Body) :
    (opened env f = true →
      (transactCtx env f b).log = .begin true :: ((runBody b).1 ++ [endEvent f b]) ∧
      (runBody b).1.all isStmt = true ∧ isEnd (endEvent f b) = true ∧
      count isBegin (transactCtx env f b).log = 1 ∧ count isEnd (transactCtx env f b).log = 1 ∧
      (transactCtx env f b).log.getLast? = some (endEvent f b) ∧ (transactCtx env f b).runs = 1) ∧
    (opened env f = false →
      (transactCtx env f b).log = (if env.admitted then [.begin false] else []) ∧
      count isStmt (transactCtx env f b).log = 0 ∧ count isEnd (transactCtx env f b).log = 0 ∧
      (transactCtx env f b).runs = 0 ∧ (transactCtx env f b).body = .notRun) := by
  have hall := runBody_all b
  have h1 := filter_nil_of_all stmt_not_begin _ hall
  have h2 := filter_nil_of_all stmt_not_end _ hall
  have hend : isEnd (endEvent f b) = true := by unfold endEvent; split <;> rfl
  have hnb : isBegin (endEvent f b) = false := by unfold endEvent; split <;> rfl
  constructor
  · intro h
    rw [log_shape_ctx, runs_ctx, h]
    simp [count, List.filter_cons, List.filter_append, h1, h2, hend, hnb, hall, getLast?_cons_snoc]
  · intro h
    rw [log_shape_ctx, runs_ctx, body_ctx, h]
    cases env.admitted <;> simp [count, List.filter_cons]

example : (transactCtx ⟨false, true, true, false⟩ ⟨true, true, false⟩
    ⟨[⟨.exec, false, false⟩, ⟨.query, true, true⟩, ⟨.exec, false, false⟩], .ok⟩).log
    = [.begin true, .exec 0 true, .query 1 false, .rollback false] := by decide

/-- **The body is not run if the transaction cannot begin** (and runs exactly once if it can). -/
theorem body_runs_iff_begun (env : Env) (f : Faults) (b : Body) :
    (transactCtx env f b).runs = (if opened env f then 1 else 0) ∧
    ((transactCtx env f b).body = .notRun ↔ opened env f = false) := by
  refine ⟨runs_ctx env f b, ?_⟩
  rw [body_ctx]
  cases opened env f <;> simp
  exact runBody_ne_notRun b

example : (transactCtx ⟨false, true, true, false⟩ ⟨false, true, true⟩ ⟨[⟨.exec, false, false⟩], .ok⟩).runs = 0 := by
  decide

/-- **Commit if and only if the body returned nil.** -/
theorem commit_iff_body_ok (env : Env) (f : Faults) (b : Body) :
    (∃ c, Ev.commit c ∈ (transactCtx env f b).log) ↔ (opened env f = true ∧ (runBody b).2 = .nil) := by
  have hall := runBody_all b
  rw [log_shape_ctx]
  cases ho : opened env f
  · cases env.admitted <;> simp
  · have hn : ∀ c, Ev.commit c ∉ (runBody b).1 := fun c => not_mem_of_all hall _ rfl
    simp [hn, endEvent]
    cases (runBody b).2 <;> simp

example : (∃ c, Ev.commit c ∈ (transactCtx ⟨false, true, true, false⟩ ⟨true, false, true⟩ ⟨[], .ok⟩).log) :=
  ⟨false, by decide⟩

/-- **Rollback if (and only if) the body returned an error or panicked.** -/
theorem rollback_iff_body_failed (env : Env) (f : Faults) (b : Body) :
    (∃ c, Ev.rollback c ∈ (transactCtx env f b).log) ↔
      (opened env f = true ∧ ((runBody b).2 = .panic ∨ ∃ e, (runBody b).2 = .err e)) := by
  have hall := runBody_all b
  rw [log_shape_ctx]
  cases ho : opened env f
  · cases env.admitted <;> simp
  · have hn : ∀ c, Ev.rollback c ∉ (runBody b).1 := fun c => not_mem_of_all hall _ rfl
    have hne := runBody_ne_notRun b
    simp [hn, endEvent]
    cases h : (runBody b).2 <;> simp_all

example : Ev.rollback true ∈ (transactCtx ⟨false, true, true, false⟩ ⟨true, true, true⟩
    ⟨[⟨.exec, true, true⟩], .ok⟩).log := by decide

/-- **A panic of the body is rolled back and reported as an error** (never swallowed as success, never
committed); a failing rollback is reachable in the returned error as well. -/
theorem panic_is_error_and_rolled_back (env : Env) (f : Faults) (b : Body)
    (ho : opened env f = true) (hp : (runBody b).2 = .panic) :
    (transactCtx env f b).log = .begin true :: ((runBody b).1 ++ [.rollback f.rollback]) ∧
    (∀ c, Ev.commit c ∉ (transactCtx env f b).log) ∧
    (∃ e, (transactCtx env f b).ret = some e ∧ e.mentions .panic = true ∧
          (f.rollback = false → .rollback ∈ e.is)) ∧
    (transactCtx env f b).mark = some false := by
  have hall := runBody_all b
  have hn : ∀ c, Ev.commit c ∉ (runBody b).1 := fun c => not_mem_of_all hall _ rfl
  refine ⟨?_, ?_, ?_, ?_⟩
  · rw [log_shape_ctx, ho]; simp [endEvent, hp]
  · rw [log_shape_ctx, ho]; simp [endEvent, hp, hn]
  · rw [ret_opened env f b ho, hp]
    cases f.rollback <;> simp [Err.mentions]
  · rw [mark_ctx, ret_opened env f b ho, hp]
    have ho' := (opened_iff env f).mp ho
    cases f.rollback <;> simp [ho', acceptable, srcAcceptable]

example : (transactCtx ⟨false, true, true, false⟩ ⟨true, true, false⟩ ⟨[⟨.exec, false, false⟩], .panic⟩).ret
    = some { is := [.rollback], says := [.panic] } := by decide

/-- **The returned error is nil only when the commit succeeded** — and exactly then:
nil ⇔ a successful Commit reached the driver ⇔ opened ∧ body returned nil ∧ the driver accepted Commit. -/
theorem nil_only_if_commit_ok (env : Env) (f : Faults) (b : Body) :
    ((transactCtx env f b).ret = none ↔ Ev.commit true ∈ (transactCtx env f b).log) ∧
    ((transactCtx env f b).ret = none ↔ (opened env f = true ∧ (runBody b).2 = .nil ∧ f.commit = true)) := by
  have hall := runBody_all b
  have hn : Ev.commit true ∉ (runBody b).1 := not_mem_of_all hall _ rfl
  have hne := runBody_ne_notRun b
  rw [log_shape_ctx]
  cases ho : opened env f
  · rw [ret_not_opened env f b ho]
    cases env.admitted <;> simp
  · rw [ret_opened env f b ho]
    cases h : (runBody b).2 <;> cases hc : f.commit <;> simp_all [endEvent]

example : (transactCtx ⟨false, true, true, false⟩ ⟨true, false, true⟩ ⟨[], .ok⟩).ret = some (Err.of .commit) := by
  decide

/-- **Commit and rollback failures are reported to the caller**: whenever the driver refused the Commit
(Rollback), the returned error is non-nil and the driver's error is reachable in its chain (`errors.Is`). -/
theorem termination_failures_reported (env : Env) (f : Faults) (b : Body) :
    (Ev.commit false ∈ (transactCtx env f b).log →
        ∃ e, (transactCtx env f b).ret = some e ∧ Src.commit ∈ e.is) ∧
    (Ev.rollback false ∈ (transactCtx env f b).log →
        ∃ e, (transactCtx env f b).ret = some e ∧ Src.rollback ∈ e.is) := by
  have hall := runBody_all b
  have hn1 : Ev.commit false ∉ (runBody b).1 := not_mem_of_all hall _ rfl
  have hn2 : Ev.rollback false ∉ (runBody b).1 := not_mem_of_all hall _ rfl
  have hne := runBody_ne_notRun b
  rw [log_shape_ctx]
  cases ho : opened env f
  · cases env.admitted <;> simp
  · rw [ret_opened env f b ho]
    cases h : (runBody b).2 <;> cases hc : f.commit <;> cases hr : f.rollback <;> simp_all [endEvent, Err.of]

example : (transactCtx ⟨false, true, true, false⟩ ⟨true, true, false⟩ ⟨[], .err .noRows⟩).ret
    = some { is := [.rollback], says := [.body .noRows] } := by decide

/-- **The body's error is what the caller gets** when the rollback works (same identity), and is still
told (in the message) when the rollback fails too. -/
theorem body_error_returned (env : Env) (f : Faults) (b : Body) (e : Err)
    (ho : opened env f = true) (hb : (runBody b).2 = .err e) :
    (f.rollback = true → (transactCtx env f b).ret = some e) ∧
    (f.rollback = false → (transactCtx env f b).ret = some { is := [.rollback], says := e.is ++ e.says }) := by
  rw [ret_opened env f b ho, hb]
  cases f.rollback <;> simp

example : (transactCtx ⟨false, true, true, false⟩ ⟨true, true, true⟩
    ⟨[⟨.exec, false, false⟩, ⟨.exec, true, true⟩, ⟨.exec, false, false⟩], .ok⟩).ret = some (Err.of (.stmt 1)) := by
  decide

/-- **Statements run in order, each once, and nothing runs after a statement whose error the body
returned**, for bodies of every length. -/
theorem statements_in_order (b : Body) :
    (runBody b).1 = eventsOf 0 (executed b.stmts) := by
  unfold runBody
  split <;> exact runStmts_executed b.stmts 0

example : (runBody ⟨[⟨.exec, false, false⟩, ⟨.nest, true, true⟩, ⟨.exec, false, false⟩], .ok⟩).1 = [.exec 0 true] := by
  decide

/-- **What the breaker is told**: success exactly when the request was admitted and the returned error is
nil or carries something `acceptable` accepts in its chain.  In particular a failed Begin, Commit or Rollback
and a panic always count as failures. -/
theorem breaker_told (env : Env) (f : Faults) (b : Body) :
    (transactCtx env f b).mark =
      (if env.ctxDone || !env.brkAllow then none
       else some (env.connOk && acceptable env.userAccept (transactCtx env f b).ret)) ∧
    (Ev.begin false ∈ (transactCtx env f b).log ∨ Ev.commit false ∈ (transactCtx env f b).log ∨
       Ev.rollback false ∈ (transactCtx env f b).log → (transactCtx env f b).mark = some false) := by
  have hall := runBody_all b
  have hn0 : Ev.begin false ∉ (runBody b).1 := not_mem_of_all hall _ rfl
  have hn1 : Ev.commit false ∉ (runBody b).1 := not_mem_of_all hall _ rfl
  have hn2 : Ev.rollback false ∉ (runBody b).1 := not_mem_of_all hall _ rfl
  have hne := runBody_ne_notRun b
  constructor
  · unfold transactCtx
    cases env.ctxDone <;> cases env.brkAllow <;> cases env.connOk <;> simp
  · rw [mark_ctx, log_shape_ctx]
    cases ho : opened env f
    · rw [ret_not_opened env f b ho]
      unfold opened Env.admitted at ho
      cases h1 : env.ctxDone <;> cases h2 : env.brkAllow <;> cases h3 : env.connOk <;>
        simp_all [Env.admitted, acceptable, Err.of, srcAcceptable]
    · rw [ret_opened env f b ho]
      have ho' := (opened_iff env f).mp ho
      cases h : (runBody b).2 <;> cases hc : f.commit <;> cases hr : f.rollback <;>
        simp_all [endEvent, Err.of, acceptable, srcAcceptable]

example : (transactCtx ⟨false, true, true, false⟩ ⟨true, true, true⟩ ⟨[], .err .noRows⟩).mark = some true := by decide
example : (transactCtx ⟨false, true, true, false⟩ ⟨true, true, false⟩ ⟨[], .err .noRows⟩).mark = some false := by decide

/-- **The executable monitor is sound**: every clause the driver evaluates on the real code's observations
holds of the model, for `TransactCtx` and for `transactOnConn`. -/
theorem monitor_sound (env : Env) (f : Faults) (b : Body) :
    holds (transactCtx env f b) = true ∧ holds (transactOnConn f b) = true ∧
    violated (transactCtx env f b) = [] ∧ violated (transactOnConn f b) = [] :=
  ⟨holds_ctx env f b, holds_onConn f b, violated_nil_of_holds _ (holds_ctx env f b),
   violated_nil_of_holds _ (holds_onConn f b)⟩

example : holds (transactCtx ⟨false, true, true, true⟩ ⟨true, false, false⟩
    ⟨[⟨.query, true, false⟩, ⟨.nest, true, false⟩], .err .userOk⟩) = true := by decide

end GoZero.C14.Props
