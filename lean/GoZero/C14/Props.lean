import GoZero.C14.Spec
namespace GoZero.C14.Props
open GoZero.C14

theorem getLast?_cons_snoc {α} (a : α) (l : List α) (x : α) : (a :: (l ++ [x])).getLast? = some x := by
  have : a :: (l ++ [x]) = (a :: l) ++ [x] := rfl
  rw [this, List.getLast?_append]; simp

/-- stage 0: the returned error is nil exactly when a successful Commit is the last driver call. -/
theorem nil_iff_commit_ok_onConn (f : Faults) (b : Body) :
    ((transactOnConn f b).ret = none) ↔ (transactOnConn f b).log.getLast? = some (.commit true) := by
  unfold transactOnConn
  cases hb : f.begin <;> simp
  split <;> cases hr : f.rollback <;> cases hc : f.commit <;> simp [getLast?_cons_snoc]

end GoZero.C14.Props
