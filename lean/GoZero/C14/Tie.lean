/-
C14 — Tie: what the extractor read from core/stores/sqlx/{tx,sqlconn}.go and core/stores/sqlc/cachedsql.go
*now* equals what the model was written against.  A failing obligation = the code moved away from the model.
-/
import GoZero.Extracted.C14
import GoZero.C14.TieSem
import GoZero.C14.Proofs
namespace GoZero.C14.Tie
set_option linter.unusedSimpArgs false
open GoZero.C14 GoZero.C14.TieSem
open GoZero.Extracted.C14

theorem extraction_clean : extractionErrors = [] := by decide

/-- **Semantic tie of the deferred decision.**  The control-flow term read from `transactOnConn` *now*
(begin guard, deferred closure with `recover()`, the three branches with their `fmt.Errorf` verbs, `tx.Commit()`,
`return fn(ctx, tx)`), run under the semantics of `TieSem`, gives exactly the model's driver-call log, body
runs and returned error — for every driver fault plan and every body (any length, any outcome); it is never
stuck and lets no panic escape.  Swapping Commit/Rollback, inverting a condition, dropping the begin guard,
moving the body call, turning `%w` into `%s` (or back) all break this theorem. -/
theorem tie_transactOnConn_sem (f : Faults) (b : Body) :
    outcome (run ⟨f, (runBody b).1, .ret (runBody b).2⟩ transactOnConnBlk {}) =
      some ((transactOnConn f b).log, (transactOnConn f b).runs, (transactOnConn f b).ret,
            (transactOnConn f b).escaped) := by
  unfold transactOnConn transactOnce
  generalize (runBody b).1 = evs
  generalize (runBody b).2 = out
  obtain ⟨bg, cm, rb, bc, cp, rp, cc, rc⟩ := f
  cases hg : Faults.givesUp ⟨bg, cm, rb, bc, cp, rp, cc, rc⟩ <;>
  cases bg <;> cases cp <;> cases rp <;> cases out <;>
    simp [transactOnConnBlk, run, outcome, assign, doInit, evalCond, doRet, callBody, fmtErr, argVal, Err.of, hg,
      badPrefix_append] <;> cases cm <;> cases rb <;> simp

/-- the tree carries one of the two analysed versions of `transactOnConn`: the pinned one or the one with
fixes/C14-commit-on-goexit-or-nil-panic.patch applied -/
theorem tie_pinned_or_fixed : transactOnConnBlk = pinnedBlk ∨ transactOnConnBlk = fixedBlk := by decide

/-- **Outside the property's quantifier** (kept as a finding, see the report): a body that leaves through
`runtime.Goexit()` or through `panic(nil)` under GODEBUG=panicnil=1 is invisible to `recover() != nil`.
The pinned code then takes the success branch and *commits* (and, for the nil panic, returns the commit's
result — nil); the patched code rolls back and reports an error.  Witnesses on the pinned term: -/
theorem witness_pinned_goexit_commits (evs : List Ev) (cm rb : Bool) :
    (run ⟨{ begin := true, commit := cm, rollback := rb }, evs, .goexit⟩ pinnedBlk {}).log =
      .begin true :: (evs ++ [.commit cm]) := by
  simp [pinnedBlk, run, assign, doInit, evalCond, doRet, callBody, Faults.givesUp, maxBeginAttempts, badPrefix]

theorem witness_pinned_nilpanic_commits_returns_nil (evs : List Ev) :
    outcome (run ⟨{ begin := true, commit := true, rollback := true }, evs, .nilPanic⟩ pinnedBlk {}) =
      some (.begin true :: (evs ++ [.commit true]), 1, none, false) := by
  simp [pinnedBlk, run, outcome, assign, doInit, evalCond, doRet, callBody, Faults.givesUp, maxBeginAttempts,
    badPrefix]

/-- … and the patched term rolls both back (and turns the nil panic into an error): -/
theorem fixed_goexit_rolls_back (evs : List Ev) (cm rb : Bool) :
    (run ⟨{ begin := true, commit := cm, rollback := rb }, evs, .goexit⟩ fixedBlk {}).log =
      .begin true :: (evs ++ [.rollback rb]) := by
  cases rb <;>
    simp [fixedBlk, run, assign, doInit, evalCond, doRet, callBody, fmtErr, argVal, Faults.givesUp,
      maxBeginAttempts, badPrefix]

theorem fixed_nilpanic_rolled_back_and_reported (evs : List Ev) (cm rb : Bool) :
    ∃ e, outcome (run ⟨{ begin := true, commit := cm, rollback := rb }, evs, .nilPanic⟩ fixedBlk {}) =
      some (.begin true :: (evs ++ [.rollback rb]), 1, some e, false) := by
  cases rb <;>
    simp [fixedBlk, run, outcome, assign, doInit, evalCond, doRet, callBody, fmtErr, argVal, Faults.givesUp,
      maxBeginAttempts, badPrefix]

/-- the decision is made on the *named* result `err` (the deferred closure assigns to it) -/
theorem tie_namedResult : transactOnConnBlkResults = "err" ∧ transactBlkResults = "err" := by decide

/-- `transact`: the connection provider first; on failure `onError` and the error, nothing else;
otherwise exactly `transactOnConn` with the same `b` and `fn`. -/
theorem tie_transactBlk : transactBlk =
    (.assignErr (.call "db.connProv()") <|
     .ifc "" "err != nil" (.other "db.onError(ctx, err)" <| .ret (.other "err")) .done <|
     .ret (.call "transactOnConn(ctx, conn, b, fn)")) := by decide

/-- the standard sentinels `acceptable` accepts: exactly `Cls.noRows`, `Cls.txDone`, `Cls.canceled` -/
theorem tie_acceptSentinels : acceptSentinels = ["sql.ErrNoRows", "sql.ErrTxDone", "context.Canceled"] := by decide

/-- `transact`: connection provider first; its failure is reported and nothing else happens. -/
theorem tie_transactShape : transactShape =
    ["call db.connProv", "if err != nil {", "call db.onError", "return", "}", "call transactOnConn", "return"] := by
  decide

theorem tie_beginShape : beginShape = ["call db.Begin", "if err != nil {", "return", "}", "return"] := by decide

/-- `TransactCtx`: the whole of `transact` runs inside the breaker with `db.acceptable`. -/
theorem tie_transactCtxShape : transactCtxShape =
    ["call startSpan", "defer{", "func{", "call endSpan", "}", "call func", "}",
     "func{", "call transact", "return", "}", "call db.brk.DoWithAcceptableCtx",
     "if errors.Is(err, breaker.ErrServiceUnavailable) {", "call metricReqErr.Inc", "}", "return"] := by decide

theorem tie_transactPlainShape : transactPlainShape =
    ["call context.Background", "func{", "call fn", "return", "}", "call db.TransactCtx", "return"] := by decide

/-- `acceptable`: nil / ErrNoRows / ErrTxDone / Canceled, then acceptableError, then the user function. -/
theorem tie_acceptableShape : acceptableShape =
    ["if err == nil || errorx.In(err, sql.ErrNoRows, sql.ErrTxDone, context.Canceled) {", "return", "}",
     "if errors.As(err, &e) {", "return", "}", "if db.accept == nil {", "return", "}",
     "call db.accept", "return"] := by decide

theorem tie_cachedTransactCtxShape : cachedTransactCtxShape = ["call cc.db.TransactCtx", "return"] := by decide

theorem tie_cachedTransactShape : cachedTransactShape =
    ["func{", "call fn", "return", "}", "call context.Background", "call cc.TransactCtx", "return"] := by decide

/-- nested transactions never reach the driver -/
theorem tie_txConnShapes : txConnTransactShape = ["return"] ∧ txConnTransactCtxShape = ["return"] := by decide

/-! ### every entry point anchored by the property is wired to `transactOnConn` the way the model assumes
(callee *and* arguments of each hop; a changed context, begin function, acceptable function, body or callee
breaks the obligation) -/

/-- `commonSqlConn.Transact` = `TransactCtx` with a background context and the same body -/
theorem tie_wire_Transact : wireTransact =
    ["return db.TransactCtx(context.Background(), func(_ context.Context, session Session) error { return fn(session) })",
     "func:return fn(session)", "func:call fn(session)"] := by decide

/-- `commonSqlConn.TransactCtx`: the span's context goes to the breaker and to `transact`; the request is
`transact` with the connection's own begin function and the caller's body; the verdict function is
`db.acceptable`; the breaker's answer is returned (named result, bare return) -/
theorem tie_wire_TransactCtx : wireTransactCtx =
    ["call startSpan(ctx, \"Transact\")",
     "call db.brk.DoWithAcceptableCtx(ctx, func() error { return transact(ctx, db, db.beginTx, fn) }, db.acceptable)",
     "func:return transact(ctx, db, db.beginTx, fn)", "return "] := by decide

theorem tie_wire_transact : wireTransactFn =
    ["call db.connProv()", "return err", "return transactOnConn(ctx, conn, b, fn)"] := by decide

/-- `begin` opens the transaction with `db.Begin()` — it is NOT bound to the caller's context: database/sql
never rolls it back on its own when that context ends (what the model's `cancelAt` relies on) -/
theorem tie_wire_begin : wireBegin =
    ["call db.Begin()", "return nil, err", "return txSession{ Tx: tx, }, nil"] := by decide

/-- both constructors install `begin` and a real breaker -/
theorem tie_constructors :
    litNewSqlConn = ["connProv: func", "onError: func", "beginTx: begin", "brk: breaker.NewBreaker()"] ∧
    litNewSqlConnFromDB = ["connProv: func", "onError: func", "beginTx: begin", "brk: breaker.NewBreaker()"] := by
  decide

/-- `sqlc.CachedConn.Transact[Ctx]` delegate to the wrapped SqlConn's `TransactCtx` with the same context/body -/
theorem tie_wire_cached :
    wireCachedTransact = ["func:return fn(session)", "return cc.TransactCtx(context.Background(), fnCtx)"] ∧
    wireCachedTransactCtx = ["return cc.db.TransactCtx(ctx, fn)"] := by decide

/-- the Session helpers: a SqlConn / CachedConn made from a transaction's session is a `txConn`, whose
`Transact[Ctx]` returns `errCantNestTx` and nothing else (model: `SK.nest`) -/
theorem tie_wire_session_helpers :
    wireWithSession = ["return CachedConn{ db: sqlx.NewSqlConnFromSession(session), cache: cc.cache, }"] ∧
    wireFromSession = ["return txConn{ Session: session, }"] ∧
    wireTxConnTransact = ["return errCantNestTx"] ∧ wireTxConnTransactCtx = ["return errCantNestTx"] ∧
    errCantNestTxInit = "errors.New(\"cannot nest transactions\")" := by decide

/-! ### round 4: semantic ties of the decision-making conditions on the path -/

/-- **Semantic tie of `commonSqlConn.acceptable`.**  Its decision chain, translated from the source *now*
(`err == nil || errorx.In(err, sql.ErrNoRows, sql.ErrTxDone, context.Canceled)` → true; `errors.As(err, &e)` with
`var e acceptableError` → true; `db.accept == nil` → false; else `db.accept(err)`), evaluated with short-circuit
`||`, equals the model's `acceptable` for EVERY error and every WithAcceptable configuration.  A dropped or added
sentinel, `&&` for `||`, an inverted nil test, a changed default, a different type for `e` break it. -/
theorem tie_acceptable_sem (ua : UA) (e : Option Err) :
    evalRC { err := e, fns := [("db.accept", uaFn ua)] } acceptableRC = some (acceptable ua e) := by
  rw [acceptable_probes]
  obtain ⟨a1, a2⟩ := ua
  cases a1 <;> cases a2 <;> cases h0 : e.isNone <;> cases h1 : hasCls e .noRows <;> cases h2 : hasCls e .txDone <;>
    cases h3 : hasCls e .canceled <;> cases h4 : hasCls e .accType <;>
    simp [acceptableRC, evalRC, evalBX, sentinelCls, uaFn, List.lookup, h0, h1, h2, h3, h4]

/-- **Semantic tie of `WithAcceptable`.**  Its option closure, translated: the condition is `conn.accept == nil`;
then the given function is installed as it is; otherwise the previous function is kept (`pre := conn.accept`)
and the installed closure answers `pre(err) || acceptable(err)` for every error — i.e. the model's
`withAcceptable`.  Dropping `pre`, `&&` for `||`, an inverted condition break it. -/
theorem tie_withAcceptable_sem :
    withAcceptableParam = "acceptable" ∧
    (∀ cur : AccFn, evalBX { err := none, fns := [("conn.accept", cur)] } withAcceptableCond = some cur.isNone) ∧
    withAcceptableThen = .name "acceptable" ∧
    withAcceptableLets = [("pre", .name "conn.accept")] ∧
    (∃ body, withAcceptableElse = .lam body ∧
      ∀ (pre new : Option Err → Bool) (e : Option Err),
        evalBX { err := e, fns := [("pre", some pre), ("acceptable", some new)] } body = some (pre e || new e) ∧
        withAcceptable (some pre) new = some (fun e => pre e || new e) ∧ withAcceptable none new = some new) := by
  refine ⟨by decide, ?_, by decide, by decide, ⟨_, rfl, ?_⟩⟩
  · intro cur; cases cur <;> simp [withAcceptableCond, evalBX, List.lookup]
  · intro pre new e
    refine ⟨?_, rfl, rfl⟩
    cases h1 : pre e <;> cases h2 : new e <;> simp [evalBX, List.lookup, h1, h2]

/-- what one `WithAcceptable` option does to the connection in the tree as it is now: the pinned closure (a nil
argument is installed / later CALLED: finding, `Props.witness_nil_option_violates_orderly_return`) or the one with
fixes/not-applied/C14-withacceptable-nil.patch (leading `if acceptable == nil { return }`: `Props.fixed_nil_options_ignored`) -/
def optionStep : AccFnP → AccFnP → AccFnP :=
  if withAcceptableNilGuard then withAcceptableFixed else withAcceptablePinned

theorem tie_withAcceptable_nil_guard :
    (withAcceptableNilGuard = false ∧ optionStep = withAcceptablePinned) ∨
    (withAcceptableNilGuard = true ∧ optionStep = withAcceptableFixed) := by
  unfold optionStep
  cases h : withAcceptableNilGuard <;> simp

/-- the constructors apply the options in order to the connection they return (`for _, opt := range opts
{ opt(conn) }`), after the literal is built -/
theorem tie_option_loops :
    wireNewSqlConn = ["func:return getSqlConn(driverName, datasource)", "call opt(conn)", "return conn"] ∧
    wireNewSqlConnFromDB = ["func:return db, nil", "call opt(conn)", "return conn"] ∧
    newSqlConnFromDBShape = ["func{", "return", "}", "func{", "}", "call breaker.NewBreaker", "range opts {",
      "call opt", "}", "return"] := by decide

/-- **Semantic tie of `transact`.**  Its control-flow term, read from the source now and run under `runOuter`
(connection provider; on failure `onError` and that error; else the run of the term of `transactOnConn`),
gives exactly the model's `transactFn` — log, body runs, returned error, escaping driver panic — for every
provider answer, fault plan and body. -/
theorem tie_transact_sem (connOk : Bool) (f : Faults) (b : Body) :
    outcome (runOuter ⟨f, (runBody b).1, .ret (runBody b).2⟩ connOk transactOnConnBlk transactBlk {}) =
      some ((transactFn connOk f b).log, (transactFn connOk f b).runs, (transactFn connOk f b).ret,
            (transactFn connOk f b).escaped) := by
  have h := tie_transactOnConn_sem f b
  cases connOk
  · simp [transactBlk, runOuter, evalCond, outcome, transactFn, Err.of]
  · have hr : runOuter ⟨f, (runBody b).1, .ret (runBody b).2⟩ true transactOnConnBlk transactBlk {} =
        { run ⟨f, (runBody b).1, .ret (runBody b).2⟩ transactOnConnBlk {} with returned := true } := by
      simp [transactBlk, runOuter, evalCond]
    rw [hr]
    simpa [outcome, transactFn] using h

/-! ### round 5: forwarded arguments, composed along the path, for ALL arguments -/

/-- what `transactOnConn(ctx, conn, b, fn)` hands to the begin function and to the body -/
def onConnHands (actuals : List V) : List V × List V := (evalFwd fwdOnConnBegin actuals, evalFwd fwdOnConnBody actuals)

/-- `commonSqlConn.TransactCtx(c, f)` followed down to the two calls `b(conn)` and `fn(ctx, tx)` -/
def pathFromTransactCtx (actuals : List V) : List V × List V :=
  onConnHands (evalFwd fwdTransactFn (evalFwd fwdTransactCtxThunk actuals))

/-- **Semantic tie of the forwarding, end to end, for every context `c` and body `f` of the caller.**
Composing the typed argument lists read from the source now: through every entry point the body that runs is the
caller's body `f` (through `Transact`: adapted by dropping the context), it is handed the transaction `tx` and
the CALLER's context `c` (through `Transact`: `context.Background()`, which never ends), the begin function is
the connection's `beginTx` applied to the provider's `conn`, the breaker gets that same context, the thunk around
`transact`, and `db.acceptable`; the cached entry points pass (c, f) on unchanged.  A dropped, swapped or replaced
argument at any hop breaks this theorem (and shows in the harness as `cv=0` / a statement that ignores a
cancellation). -/
theorem tie_forwarding_sem (c f : Nat) :
    -- callees of every hop
    [fwdCachedTransact.callee, fwdCachedTransactCtx.callee, fwdTransact.callee, fwdTransactCtx.callee,
      fwdTransactCtxThunk.callee, fwdTransactFn.callee, fwdOnConnBegin.callee, fwdOnConnBody.callee] =
      ["cc.TransactCtx", "cc.db.TransactCtx", "db.TransactCtx", "db.brk.DoWithAcceptableCtx", "transact",
       "transactOnConn", "b", "fn"] ∧
    -- TransactCtx(c, f): breaker arguments, and what reaches begin / the body
    evalFwd fwdTransactCtx [V.ctx c, V.body f false] = [V.ctx c, V.thunk, V.acceptFn] ∧
    evalFwd fwdTransactCtxThunk [V.ctx c, V.body f false] = [V.ctx c, V.db, V.beginFn, V.body f false] ∧
    pathFromTransactCtx [V.ctx c, V.body f false] = ([V.conn], [V.ctx c, V.tx]) ∧
    (evalFwd fwdTransactFn (evalFwd fwdTransactCtxThunk [V.ctx c, V.body f false])).getD 3 V.unknown = V.body f false ∧
    (evalFwd fwdTransactFn (evalFwd fwdTransactCtxThunk [V.ctx c, V.body f false])).getD 2 V.unknown = V.beginFn ∧
    -- Transact(f) = TransactCtx(Background, adapted f)
    evalFwd fwdTransact [V.body f false] = [V.bgCtx, V.body f true] ∧
    pathFromTransactCtx (evalFwd fwdTransact [V.body f false]) = ([V.conn], [V.bgCtx, V.tx]) ∧
    -- the cached entry points
    evalFwd fwdCachedTransactCtx [V.ctx c, V.body f false] = [V.ctx c, V.body f false] ∧
    evalFwd fwdCachedTransact [V.body f false] = [V.bgCtx, V.body f true] ∧
    -- parameter orders the positions above refer to
    fwdTransactCtxParams = ["ctx", "fn"] ∧ fwdTransactFnParams = ["ctx", "db", "b", "fn"] ∧
    fwdOnConnBodyParams = ["ctx", "conn", "b", "fn"] ∧ fwdCachedTransactCtxParams = ["ctx", "fn"] ∧
    fwdTransactParams = ["fn"] ∧ fwdCachedTransactParams = ["fn"] := by
  refine ⟨by decide, ?_, ?_, ?_, ?_, ?_, ?_, ?_, ?_, ?_, by decide, by decide, by decide, by decide, by decide, by decide⟩ <;>
    simp [pathFromTransactCtx, onConnHands, evalFwd, evalArg, fwdTransactCtx, fwdTransactCtxThunk, fwdTransactFn,
      fwdOnConnBegin, fwdOnConnBody, fwdTransact, fwdCachedTransactCtx, fwdCachedTransact, List.getD]

/-- `begin`: `db.Begin()`; its error is returned with a nil transaction; else the session around the new Tx -/
theorem tie_beginBlk : beginBlk =
    (.assignErr (.call "db.Begin()") <|
     .ifc "" "err != nil" (.other "return nil, err" .done) .done <|
     .other "return txSession{ Tx: tx, }, nil" .done) := by decide

/-- **Every statement method of the transaction's session hands the caller's context, the session's OWN
transaction `t.Tx` and the caller's query / destination / arguments, unchanged and in order, to database/sql**
(`exec`, `query`, `Tx.PrepareContext`) — for all contexts `c` and values `v q a`; the context-less methods call
their `…Ctx` twin with `context.Background()` and everything else unchanged.  A statement made with another
context, on another handle, or with swapped arguments breaks this. -/
theorem tie_txSession_forwarding_sem (c v q a : Nat) :
    evalFwd fwdTxExecCtx [V.ctx c, V.val q, V.val a] = [V.ctx c, V.tx, V.val q, V.val a] ∧
    evalFwd fwdTxPrepareCtx [V.ctx c, V.val q] = [V.ctx c, V.val q] ∧
    (∀ h ∈ [fwdTxQueryRowCtx, fwdTxQueryRowPartialCtx, fwdTxQueryRowsCtx, fwdTxQueryRowsPartialCtx],
      h.callee = "query" ∧
      evalFwd h [V.ctx c, V.val v, V.val q, V.val a] = [V.ctx c, V.tx, V.unknown, V.val q, V.val a]) ∧
    evalFwd fwdTxExec [V.val q, V.val a] = [V.bgCtx, V.val q, V.val a] ∧
    evalFwd fwdTxPrepare [V.val q] = [V.bgCtx, V.val q] ∧
    (∀ h ∈ [fwdTxQueryRow, fwdTxQueryRowPartial, fwdTxQueryRows, fwdTxQueryRowsPartial],
      evalFwd h [V.val v, V.val q, V.val a] = [V.bgCtx, V.val v, V.val q, V.val a]) ∧
    [fwdTxExecCtx.callee, fwdTxPrepareCtx.callee, fwdTxExec.callee, fwdTxPrepare.callee, fwdTxQueryRow.callee,
      fwdTxQueryRowPartial.callee, fwdTxQueryRows.callee, fwdTxQueryRowsPartial.callee] =
      ["exec", "t.Tx.PrepareContext", "t.ExecCtx", "t.PrepareCtx", "t.QueryRowCtx", "t.QueryRowPartialCtx",
       "t.QueryRowsCtx", "t.QueryRowsPartialCtx"] ∧
    -- the scanner each query method passes: strict for QueryRow[s], partial for the …Partial twins
    [fwdTxQueryRowCtx.args.getD 2 .thunk, fwdTxQueryRowPartialCtx.args.getD 2 .thunk,
      fwdTxQueryRowsCtx.args.getD 2 .thunk, fwdTxQueryRowsPartialCtx.args.getD 2 .thunk] =
      [.other "func(rows *sql.Rows) error { return unmarshalRow(v, rows, true) }",
       .other "func(rows *sql.Rows) error { return unmarshalRow(v, rows, false) }",
       .other "func(rows *sql.Rows) error { return unmarshalRows(v, rows, true) }",
       .other "func(rows *sql.Rows) error { return unmarshalRows(v, rows, false) }"] := by
  refine ⟨?_, ?_, ?_, ?_, ?_, ?_, by decide, by decide⟩ <;>
    simp [evalFwd, evalArg, fwdTxExecCtx, fwdTxPrepareCtx, fwdTxQueryRowCtx, fwdTxQueryRowPartialCtx,
      fwdTxQueryRowsCtx, fwdTxQueryRowsPartialCtx, fwdTxExec, fwdTxPrepare, fwdTxQueryRow, fwdTxQueryRowPartial,
      fwdTxQueryRows, fwdTxQueryRowsPartial, List.getD]

/-! ### round 5c: the session wiring of the model, derived from the source now -/

/-- **Semantic tie of the statement methods' result.**  The control-flow term of every `…Ctx` statement method of
the transaction's session, run under `runMethod`, returns exactly the error of its one call into database/sql
(nil when that call worked) — for EVERY error.  A swallowed or replaced error (mutation M15: ErrBadConn turned
into nil) breaks it. -/
theorem tie_stmt_methods_return_callee_error (e : Option Err) :
    returnsCalleeError txExecCtxBlk e = true ∧ returnsCalleeError txQueryRowCtxBlk e = true ∧
    returnsCalleeError txQueryRowPartialCtxBlk e = true ∧ returnsCalleeError txQueryRowsCtxBlk e = true ∧
    returnsCalleeError txQueryRowsPartialCtxBlk e = true ∧ returnsCalleeError txPrepareCtxBlk e = true := by
  have h1 : classify txExecCtxBlk = [.span, .deferEndSpan, .callAssign, .retNone] := by simp [classify, txExecCtxBlk]
  have h2 : classify txQueryRowCtxBlk = [.span, .deferEndSpan, .retCall] := by simp [classify, txQueryRowCtxBlk]
  have h3 : classify txQueryRowPartialCtxBlk = [.span, .deferEndSpan, .retCall] := by simp [classify, txQueryRowPartialCtxBlk]
  have h4 : classify txQueryRowsCtxBlk = [.span, .deferEndSpan, .retCall] := by simp [classify, txQueryRowsCtxBlk]
  have h5 : classify txQueryRowsPartialCtxBlk = [.span, .deferEndSpan, .retCall] := by simp [classify, txQueryRowsPartialCtxBlk]
  have h6 : classify txPrepareCtxBlk =
      [.span, .deferEndSpan, .callAssign, .ifErr [.retNilErr] [], .retValNil] := by simp [classify, txPrepareCtxBlk]
  unfold returnsCalleeError
  rw [h1, h2, h3, h4, h5, h6]
  cases e <;> simp [runOps]

def ctxArgOf : V → Option CtxArg
  | .ctx 0 => some .callers
  | .bgCtx => some .background
  | _ => none

def handleOf : V → Option Handle
  | .tx => some .tx
  | .conn => some .pool
  | .db => some .pool
  | _ => none

/-- what `transactOnConn` hands to the body -/
def xHands : List V := evalFwd fwdOnConnBody [V.ctx 0, V.conn, V.beginFn, V.body 0 false]
/-- what each `…Ctx` statement method hands to database/sql -/
def xCtxMethods : List (List V) :=
  [fwdTxExecCtx, fwdTxQueryRowCtx, fwdTxQueryRowPartialCtx, fwdTxQueryRowsCtx, fwdTxQueryRowsPartialCtx].map
    fun h => evalFwd h [V.ctx 0, V.val 1, V.val 2, V.val 3]
def xPrepareCtx : List V := evalFwd fwdTxPrepareCtx [V.ctx 0, V.val 1]
/-- … each context-less one -/
def xPlainMethods : List (List V) :=
  [fwdTxExec, fwdTxPrepare, fwdTxQueryRow, fwdTxQueryRowPartial, fwdTxQueryRows, fwdTxQueryRowsPartial].map
    fun h => evalFwd h [V.val 1, V.val 2, V.val 3]

/-- the session wiring computed from the typed forwarding terms, the wiring strings and the statement-method terms
the extractor read NOW (`none`: something on the path is not understood) -/
def extractedWiring : Option Wiring :=
  match handleOf (xHands.getD 1 .unknown), ctxArgOf (xHands.getD 0 .unknown) with
  | some bodySession, some bodyCtx =>
    if xCtxMethods.all (fun a => handleOf (a.getD 1 .unknown) == some .tx) &&
       (xPrepareCtx :: xCtxMethods).all (fun a => ctxArgOf (a.getD 0 .unknown) == some .callers) &&
       xPlainMethods.all (fun a => ctxArgOf (a.getD 0 .unknown) == some .background) &&
       fwdTxPrepareCtx.callee == "t.Tx.PrepareContext" then
      some { bodySession, bodyCtx, stmtHandle := .tx, stmtCtx := .callers, plainStmtCtx := .background,
             rawDBRefused := decide (wireTxConnRawDB = ["return nil, errNoRawDBFromTx"]),
             nestRefused := decide (wireTxConnTransact = ["return errCantNestTx"] ∧
               wireTxConnTransactCtx = ["return errCantNestTx"] ∧ txConnTransactShape = ["return"] ∧
               txConnTransactCtxShape = ["return"] ∧ wireFromSession = ["return txConn{ Session: session, }"]),
             stmtErrReturned :=
               [txExecCtxBlk, txQueryRowCtxBlk, txQueryRowPartialCtxBlk, txQueryRowsCtxBlk,
                txQueryRowsPartialCtxBlk, txPrepareCtxBlk].all fun b =>
                 returnsCalleeError b (some (Err.of (.stmt 0))) && returnsCalleeError b none }
    else none
  | _, _ => none

/-- **The session wiring the theorems are about is the wiring of the source**: the body is handed the
transaction's session and the caller's context; every statement method goes to its own `t.Tx` with the context it
was given (context-less: Background) and returns database/sql's error; a connection made from the session refuses
`Transact[Ctx]` and `RawDB`.  (`Props.statements_inside_the_transaction`, `session_conn_refuses`,
`statement_context_and_errors` are stated for `codeWiring`.) -/
theorem tie_session_wiring : extractedWiring = some codeWiring := by
  have hh : xHands = [V.ctx 0, V.tx] := by
    simp [xHands, evalFwd, evalArg, fwdOnConnBody]
  have hc : xCtxMethods = [[V.ctx 0, V.tx, V.val 1, V.val 2], [V.ctx 0, V.tx, V.unknown, V.val 2, V.val 3],
      [V.ctx 0, V.tx, V.unknown, V.val 2, V.val 3], [V.ctx 0, V.tx, V.unknown, V.val 2, V.val 3],
      [V.ctx 0, V.tx, V.unknown, V.val 2, V.val 3]] := by
    simp [xCtxMethods, evalFwd, evalArg, fwdTxExecCtx, fwdTxQueryRowCtx, fwdTxQueryRowPartialCtx, fwdTxQueryRowsCtx,
      fwdTxQueryRowsPartialCtx, List.getD]
  have hp : xPrepareCtx = [V.ctx 0, V.val 1] := by simp [xPrepareCtx, evalFwd, evalArg, fwdTxPrepareCtx, List.getD]
  have hq : xPlainMethods = [[V.bgCtx, V.val 1, V.val 2], [V.bgCtx, V.val 1], [V.bgCtx, V.val 1, V.val 2, V.val 3],
      [V.bgCtx, V.val 1, V.val 2, V.val 3], [V.bgCtx, V.val 1, V.val 2, V.val 3], [V.bgCtx, V.val 1, V.val 2, V.val 3]] := by
    simp [xPlainMethods, evalFwd, evalArg, fwdTxExec, fwdTxPrepare, fwdTxQueryRow, fwdTxQueryRowPartial, fwdTxQueryRows,
      fwdTxQueryRowsPartial, List.getD]
  have he := tie_stmt_methods_return_callee_error (some (Err.of (.stmt 0)))
  have hn := tie_stmt_methods_return_callee_error none
  have hcal : (fwdTxPrepareCtx.callee == "t.Tx.PrepareContext") = true := by decide
  have hr : decide (wireTxConnRawDB = ["return nil, errNoRawDBFromTx"]) = true := by decide
  have hnest : decide (wireTxConnTransact = ["return errCantNestTx"] ∧
      wireTxConnTransactCtx = ["return errCantNestTx"] ∧ txConnTransactShape = ["return"] ∧
      txConnTransactCtxShape = ["return"] ∧ wireFromSession = ["return txConn{ Session: session, }"]) = true := by decide
  unfold extractedWiring
  rw [hh, hc, hp, hq, hcal, hr, hnest]
  simp [handleOf, ctxArgOf, codeWiring, he, hn]

/-- **Semantic tie of `begin`.**  Its control-flow term, read from the source now and run under `runBegin`, is
exactly what the semantics of `transactOnConn` assumes of `tx, err = b(conn)`: the same driver calls (ONE
`db.Begin()` with database/sql's retried attempts inside), the same error, and a transaction exactly when one was
opened — for every fault plan.  A second Begin after a failed one (mutation M10), a swallowed error, a transaction
handed back together with an error break it. -/
theorem tie_begin_sem (f : Faults) :
    (runBegin f beginBlk {}).stuck = false ∧ (runBegin f beginBlk {}).returned = true ∧
    (runBegin f beginBlk {}).log = (assign ⟨f, [], .ret .nil⟩ {} (.call "b(conn)")).log ∧
    (runBegin f beginBlk {}).err = (assign ⟨f, [], .ret .nil⟩ {} (.call "b(conn)")).err ∧
    (runBegin f beginBlk {}).tx = f.opens ∧
    ((runBegin f beginBlk {}).tx = true ↔ (runBegin f beginBlk {}).err = none) := by
  obtain ⟨bg, cm, rb, bc, cp, rp, cc, rc⟩ := f
  cases hg : Faults.givesUp ⟨bg, cm, rb, bc, cp, rp, cc, rc⟩ <;> cases bg <;>
    simp [beginBlk, runBegin, assign, hg, Faults.opens, Err.of]

/-- the statement methods a body uses inside the transaction all go to the transaction's own `*sql.Tx` with the
context they were given (ctx-less ones: `context.Background()`); a Session built from a raw Tx
(`NewSessionFromTx`) is the same `txSession`; `ErrNotFound` is `sql.ErrNoRows` in both packages -/
theorem tie_wire_txSession :
    wireTxExec = ["return t.ExecCtx(context.Background(), q, args...)", "call t.ExecCtx(context.Background(), q, args...)"] ∧
    wireTxQueryRow = ["return t.QueryRowCtx(context.Background(), v, q, args...)",
                      "call t.QueryRowCtx(context.Background(), v, q, args...)"] ∧
    wireTxQueryRows = ["return t.QueryRowsCtx(context.Background(), v, q, args...)",
                       "call t.QueryRowsCtx(context.Background(), v, q, args...)"] ∧
    wireTxPrepare = ["return t.PrepareCtx(context.Background(), q)", "call t.PrepareCtx(context.Background(), q)"] ∧
    wireTxQueryRowCtx.take 2 =
      ["return query(ctx, t.Tx, func(rows *sql.Rows) error { return unmarshalRow(v, rows, true) }, q, args...)",
       "call query(ctx, t.Tx, func(rows *sql.Rows) error { return unmarshalRow(v, rows, true) }, q, args...)"] ∧
    wireTxQueryRowsCtx.take 2 =
      ["return query(ctx, t.Tx, func(rows *sql.Rows) error { return unmarshalRows(v, rows, true) }, q, args...)",
       "call query(ctx, t.Tx, func(rows *sql.Rows) error { return unmarshalRows(v, rows, true) }, q, args...)"] ∧
    wireTxQueryRowPartialCtx.take 1 =
      ["return query(ctx, t.Tx, func(rows *sql.Rows) error { return unmarshalRow(v, rows, false) }, q, args...)"] ∧
    wireTxQueryRowsPartialCtx.take 1 =
      ["return query(ctx, t.Tx, func(rows *sql.Rows) error { return unmarshalRows(v, rows, false) }, q, args...)"] ∧
    wireTxPrepareCtx = ["call t.Tx.PrepareContext(ctx, q)", "return nil, err",
                        "return statement{ query: q, stmt: stmt, brk: breaker.NopBreaker(), }, nil"] ∧
    wireNewSessionFromTx = ["return txSession{Tx: tx}"] ∧
    wireTxConnRawDB = ["return nil, errNoRawDBFromTx"] ∧
    errNotFoundInit = "sql.ErrNoRows" ∧ cachedErrNotFoundInit = "sqlx.ErrNotFound" := by decide

/-- a `CachedConn` keeps the SqlConn it was given (every cached constructor ends in `NewConnWithCache`) -/
theorem tie_cached_constructors :
    litNewConnWithCache = ["db: db", "cache: c"] ∧ wireNewConn = ["return NewConnWithCache(db, cc)"] ∧
    wireNewNodeConn = ["return NewConnWithCache(db, c)"] := by decide

/-- a statement of the body made with a context goes to `sql.Tx.ExecContext` with that context (it is
database/sql that refuses it once the context is done) -/
theorem tie_wire_txExecCtx : wireTxExecCtx = ["call exec(ctx, t.Tx, q, args...)", "return "] := by decide

/-! ### round 5c: Goexit in the body -/

open GoZero.C14.Spec in
/-- the driver calls of a `transactOnConn` whose body leaves through `runtime.Goexit()` (the deferred closure runs,
the function never returns): the pinned code takes the success branch, the patched one rolls back -/
def goexitLog (fixed : Bool) (f : Faults) (evs : List Ev) : List Ev :=
  if f.givesUp then badPrefix maxBeginAttempts []
  else if !f.begin then badPrefix f.badConn [.begin false]
  else badPrefix f.badConn (.begin true :: (evs ++ [if fixed then .rollback f.rollbackOk else .commit f.commitOk]))

open GoZero.C14.Spec in
/-- **Goexit in the body, semantically tied**: the term read from the source now, run with a body that calls
`runtime.Goexit()`, makes exactly these driver calls — for every fault plan (incl. panicking Commit / Rollback
and retried Begins) and every list of statement calls -/
theorem tie_goexit_sem (f : Faults) (evs : List Ev) :
    (run ⟨f, evs, .goexit⟩ transactOnConnBlk {}).log = goexitLog (decide (transactOnConnBlk = fixedBlk)) f evs := by
  rcases tie_pinned_or_fixed with h | h
  · have hne : decide (transactOnConnBlk = fixedBlk) = false := by rw [h]; decide
    rw [hne, h]
    obtain ⟨bg, cm, rb, bc, cp, rp, cc, rc⟩ := f
    cases hg : Faults.givesUp ⟨bg, cm, rb, bc, cp, rp, cc, rc⟩ <;> cases bg <;> cases cp <;> cases cm <;>
      simp [pinnedBlk, goexitLog, run, assign, doInit, evalCond, doRet, callBody, hg, badPrefix_append,
        Faults.commitOk]
  · have hne : decide (transactOnConnBlk = fixedBlk) = true := by rw [h]; decide
    rw [hne, h]
    obtain ⟨bg, cm, rb, bc, cp, rp, cc, rc⟩ := f
    cases hg : Faults.givesUp ⟨bg, cm, rb, bc, cp, rp, cc, rc⟩ <;> cases bg <;> cases rp <;> cases rb <;>
      simp [fixedBlk, goexitLog, run, assign, doInit, evalCond, doRet, callBody, fmtErr, argVal, hg, badPrefix_append,
        Faults.rollbackOk]

open GoZero.C14.Spec in
/-- **Even when the body leaves through Goexit the transaction is begun at most once and ended exactly once** (by
a Commit in the pinned code — the documented finding —, by a Rollback with the patch), as the last driver call. -/
theorem goexit_still_ends_exactly_once (fixed : Bool) (f : Faults) (b : Body) :
    endsExactlyOnce { log := goexitLog fixed f (runBody b).1, runs := 1, body := .nil, ret := none } = true ∧
    beginsOnce { log := goexitLog fixed f (runBody b).1, runs := 1, body := .nil, ret := none } = true := by
  have hall := runBody_all b
  have h1 := filter_nil_of_all stmt_not_begin _ hall
  have h2 := all_notBeginish _ hall
  have h3 := filter_nil_of_all stmt_not_end _ hall
  have h4 := any_false_of_all stmt_not_beginOk _ hall
  generalize (runBody b).1 = evs at *
  unfold goexitLog endsExactlyOnce beginsOnce begun count
  cases hg : f.givesUp <;> cases hb : f.begin <;> cases fixed <;>
    simp [filter_badPrefix isEnd rfl, filter_badPrefix isStmt rfl, filter_badPrefix isBegin rfl,
      any_badPrefix isBeginOk rfl, dropWhile_badPrefix, getLast?_badPrefix, List.filter_cons, List.filter_append,
      List.all_append, getLast?_cons_snoc, h1, h2, h3, h4, maxBeginAttempts, badPrefix] <;>
    try decide

end GoZero.C14.Tie
