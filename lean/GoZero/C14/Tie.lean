/-
C14 — Tie: what the extractor read from core/stores/sqlx/{tx,sqlconn}.go and core/stores/sqlc/cachedsql.go
*now* equals what the model was written against.  A failing obligation = the code moved away from the model.
-/
import GoZero.Extracted.C14
import GoZero.C14.TieSem
import GoZero.C14.Proofs
namespace GoZero.C14.Tie
set_option linter.unusedSimpArgs false
open GoZero.C14 GoZero.C14.TieSem
open GoZero.Extracted.C14

theorem extraction_clean : extractionErrors = [] := by decide

/-- **Semantic tie of the deferred decision.**  The control-flow term read from `transactOnConn` *now*
(begin guard, deferred closure with `recover()`, the three branches with their `fmt.Errorf` verbs, `tx.Commit()`,
`return fn(ctx, tx)`), run under the semantics of `TieSem`, gives exactly the model's driver-call log, body
runs and returned error — for every driver fault plan and every body (any length, any outcome); it is never
stuck and lets no panic escape.  Swapping Commit/Rollback, inverting a condition, dropping the begin guard,
moving the body call, turning `%w` into `%s` (or back) all break this theorem. -/
theorem tie_transactOnConn_sem (f : Faults) (b : Body) :
    outcome (run ⟨f, (runBody b).1, .ret (runBody b).2⟩ transactOnConnBlk {}) =
      some ((transactOnConn f b).log, (transactOnConn f b).runs, (transactOnConn f b).ret,
            (transactOnConn f b).escaped) := by
  unfold transactOnConn transactOnce
  generalize (runBody b).1 = evs
  generalize (runBody b).2 = out
  obtain ⟨bg, cm, rb, bc, cp, rp, cc, rc⟩ := f
  cases hg : Faults.givesUp ⟨bg, cm, rb, bc, cp, rp, cc, rc⟩ <;>
  cases bg <;> cases cp <;> cases rp <;> cases out <;>
    simp [transactOnConnBlk, run, outcome, assign, doInit, evalCond, doRet, callBody, fmtErr, argVal, Err.of, hg,
      badPrefix_append] <;> cases cm <;> cases rb <;> simp

/-- the tree carries one of the two analysed versions of `transactOnConn`: the pinned one or the one with
fixes/C14-commit-on-goexit-or-nil-panic.patch applied -/
theorem tie_pinned_or_fixed : transactOnConnBlk = pinnedBlk ∨ transactOnConnBlk = fixedBlk := by decide

/-- **Outside the property's quantifier** (kept as a finding, see the report): a body that leaves through
`runtime.Goexit()` or through `panic(nil)` under GODEBUG=panicnil=1 is invisible to `recover() != nil`.
The pinned code then takes the success branch and *commits* (and, for the nil panic, returns the commit's
result — nil); the patched code rolls back and reports an error.  Witnesses on the pinned term: -/
theorem witness_pinned_goexit_commits (evs : List Ev) (cm rb : Bool) :
    (run ⟨{ begin := true, commit := cm, rollback := rb }, evs, .goexit⟩ pinnedBlk {}).log =
      .begin true :: (evs ++ [.commit cm]) := by
  simp [pinnedBlk, run, assign, doInit, evalCond, doRet, callBody, Faults.givesUp, maxBeginAttempts, badPrefix]

theorem witness_pinned_nilpanic_commits_returns_nil (evs : List Ev) :
    outcome (run ⟨{ begin := true, commit := true, rollback := true }, evs, .nilPanic⟩ pinnedBlk {}) =
      some (.begin true :: (evs ++ [.commit true]), 1, none, false) := by
  simp [pinnedBlk, run, outcome, assign, doInit, evalCond, doRet, callBody, Faults.givesUp, maxBeginAttempts,
    badPrefix]

/-- … and the patched term rolls both back (and turns the nil panic into an error): -/
theorem fixed_goexit_rolls_back (evs : List Ev) (cm rb : Bool) :
    (run ⟨{ begin := true, commit := cm, rollback := rb }, evs, .goexit⟩ fixedBlk {}).log =
      .begin true :: (evs ++ [.rollback rb]) := by
  cases rb <;>
    simp [fixedBlk, run, assign, doInit, evalCond, doRet, callBody, fmtErr, argVal, Faults.givesUp,
      maxBeginAttempts, badPrefix]

theorem fixed_nilpanic_rolled_back_and_reported (evs : List Ev) (cm rb : Bool) :
    ∃ e, outcome (run ⟨{ begin := true, commit := cm, rollback := rb }, evs, .nilPanic⟩ fixedBlk {}) =
      some (.begin true :: (evs ++ [.rollback rb]), 1, some e, false) := by
  cases rb <;>
    simp [fixedBlk, run, outcome, assign, doInit, evalCond, doRet, callBody, fmtErr, argVal, Faults.givesUp,
      maxBeginAttempts, badPrefix]

/-- the decision is made on the *named* result `err` (the deferred closure assigns to it) -/
theorem tie_namedResult : transactOnConnBlkResults = "err" ∧ transactBlkResults = "err" := by decide

/-- `transact`: the connection provider first; on failure `onError` and the error, nothing else;
otherwise exactly `transactOnConn` with the same `b` and `fn`. -/
theorem tie_transactBlk : transactBlk =
    (.assignErr (.call "db.connProv()") <|
     .ifc "" "err != nil" (.other "db.onError(ctx, err)" <| .ret (.other "err")) .done <|
     .ret (.call "transactOnConn(ctx, conn, b, fn)")) := by decide

/-- the standard sentinels `acceptable` accepts: exactly `Cls.noRows`, `Cls.txDone`, `Cls.canceled` -/
theorem tie_acceptSentinels : acceptSentinels = ["sql.ErrNoRows", "sql.ErrTxDone", "context.Canceled"] := by decide

/-- `transact`: connection provider first; its failure is reported and nothing else happens. -/
theorem tie_transactShape : transactShape =
    ["call db.connProv", "if err != nil {", "call db.onError", "return", "}", "call transactOnConn", "return"] := by
  decide

theorem tie_beginShape : beginShape = ["call db.Begin", "if err != nil {", "return", "}", "return"] := by decide

/-- `TransactCtx`: the whole of `transact` runs inside the breaker with `db.acceptable`. -/
theorem tie_transactCtxShape : transactCtxShape =
    ["call startSpan", "defer{", "func{", "call endSpan", "}", "call func", "}",
     "func{", "call transact", "return", "}", "call db.brk.DoWithAcceptableCtx",
     "if errors.Is(err, breaker.ErrServiceUnavailable) {", "call metricReqErr.Inc", "}", "return"] := by decide

theorem tie_transactPlainShape : transactPlainShape =
    ["call context.Background", "func{", "call fn", "return", "}", "call db.TransactCtx", "return"] := by decide

/-- `acceptable`: nil / ErrNoRows / ErrTxDone / Canceled, then acceptableError, then the user function. -/
theorem tie_acceptableShape : acceptableShape =
    ["if err == nil || errorx.In(err, sql.ErrNoRows, sql.ErrTxDone, context.Canceled) {", "return", "}",
     "if errors.As(err, &e) {", "return", "}", "if db.accept == nil {", "return", "}",
     "call db.accept", "return"] := by decide

theorem tie_cachedTransactCtxShape : cachedTransactCtxShape = ["call cc.db.TransactCtx", "return"] := by decide

theorem tie_cachedTransactShape : cachedTransactShape =
    ["func{", "call fn", "return", "}", "call context.Background", "call cc.TransactCtx", "return"] := by decide

/-- nested transactions never reach the driver -/
theorem tie_txConnShapes : txConnTransactShape = ["return"] ∧ txConnTransactCtxShape = ["return"] := by decide

/-! ### every entry point anchored by the property is wired to `transactOnConn` the way the model assumes
(callee *and* arguments of each hop; a changed context, begin function, acceptable function, body or callee
breaks the obligation) -/

/-- `commonSqlConn.Transact` = `TransactCtx` with a background context and the same body -/
theorem tie_wire_Transact : wireTransact =
    ["return db.TransactCtx(context.Background(), func(_ context.Context, session Session) error { return fn(session) })",
     "func:return fn(session)", "func:call fn(session)"] := by decide

/-- `commonSqlConn.TransactCtx`: the span's context goes to the breaker and to `transact`; the request is
`transact` with the connection's own begin function and the caller's body; the verdict function is
`db.acceptable`; the breaker's answer is returned (named result, bare return) -/
theorem tie_wire_TransactCtx : wireTransactCtx =
    ["call startSpan(ctx, \"Transact\")",
     "call db.brk.DoWithAcceptableCtx(ctx, func() error { return transact(ctx, db, db.beginTx, fn) }, db.acceptable)",
     "func:return transact(ctx, db, db.beginTx, fn)", "return "] := by decide

theorem tie_wire_transact : wireTransactFn =
    ["call db.connProv()", "return err", "return transactOnConn(ctx, conn, b, fn)"] := by decide

/-- `begin` opens the transaction with `db.Begin()` — it is NOT bound to the caller's context: database/sql
never rolls it back on its own when that context ends (what the model's `cancelAt` relies on) -/
theorem tie_wire_begin : wireBegin =
    ["call db.Begin()", "return nil, err", "return txSession{ Tx: tx, }, nil"] := by decide

/-- both constructors install `begin` and a real breaker -/
theorem tie_constructors :
    litNewSqlConn = ["connProv: func", "onError: func", "beginTx: begin", "brk: breaker.NewBreaker()"] ∧
    litNewSqlConnFromDB = ["connProv: func", "onError: func", "beginTx: begin", "brk: breaker.NewBreaker()"] := by
  decide

/-- `sqlc.CachedConn.Transact[Ctx]` delegate to the wrapped SqlConn's `TransactCtx` with the same context/body -/
theorem tie_wire_cached :
    wireCachedTransact = ["func:return fn(session)", "return cc.TransactCtx(context.Background(), fnCtx)"] ∧
    wireCachedTransactCtx = ["return cc.db.TransactCtx(ctx, fn)"] := by decide

/-- the Session helpers: a SqlConn / CachedConn made from a transaction's session is a `txConn`, whose
`Transact[Ctx]` returns `errCantNestTx` and nothing else (model: `SK.nest`) -/
theorem tie_wire_session_helpers :
    wireWithSession = ["return CachedConn{ db: sqlx.NewSqlConnFromSession(session), cache: cc.cache, }"] ∧
    wireFromSession = ["return txConn{ Session: session, }"] ∧
    wireTxConnTransact = ["return errCantNestTx"] ∧ wireTxConnTransactCtx = ["return errCantNestTx"] ∧
    errCantNestTxInit = "errors.New(\"cannot nest transactions\")" := by decide

/-- a statement of the body made with a context goes to `sql.Tx.ExecContext` with that context (it is
database/sql that refuses it once the context is done) -/
theorem tie_wire_txExecCtx : wireTxExecCtx = ["call exec(ctx, t.Tx, q, args...)", "return "] := by decide

end GoZero.C14.Tie
