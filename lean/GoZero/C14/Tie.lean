/-
C14 — Tie: what the extractor read from core/stores/sqlx/{tx,sqlconn}.go and core/stores/sqlc/cachedsql.go
*now* equals what the model was written against.  A failing obligation = the code moved away from the model.
-/
import GoZero.Extracted.C14
import GoZero.C14.TieSem
namespace GoZero.C14.Tie
open GoZero.C14 GoZero.C14.TieSem
open GoZero.Extracted.C14

theorem extraction_clean : extractionErrors = [] := by decide

/-- **Semantic tie of the deferred decision.**  The control-flow term read from `transactOnConn` *now*
(begin guard, deferred closure with `recover()`, the three branches with their `fmt.Errorf` verbs, `tx.Commit()`,
`return fn(ctx, tx)`), run under the semantics of `TieSem`, gives exactly the model's driver-call log, body
runs and returned error — for every driver fault plan and every body (any length, any outcome); it is never
stuck and lets no panic escape.  Swapping Commit/Rollback, inverting a condition, dropping the begin guard,
moving the body call, turning `%w` into `%s` (or back) all break this theorem. -/
theorem tie_transactOnConn_sem (f : Faults) (b : Body) :
    outcome (run ⟨f, (runBody b).1, (runBody b).2⟩ transactOnConnBlk {}) =
      some ((transactOnConn f b).log, (transactOnConn f b).runs, (transactOnConn f b).ret) := by
  unfold transactOnConn
  generalize (runBody b).1 = evs
  generalize (runBody b).2 = out
  obtain ⟨bg, cm, rb⟩ := f
  cases bg <;> cases cm <;> cases rb <;> cases out <;>
    first
    | rfl
    | simp [transactOnConnBlk, run, outcome, assign, doInit, evalCond, doRet, fmtErr, argVal, Err.of]

/-- the decision is made on the *named* result `err` (the deferred closure assigns to it) -/
theorem tie_namedResult : transactOnConnBlkResults = "err" ∧ transactBlkResults = "err" := by decide

/-- `transact`: the connection provider first; on failure `onError` and the error, nothing else;
otherwise exactly `transactOnConn` with the same `b` and `fn`. -/
theorem tie_transactBlk : transactBlk =
    (.assignErr (.call "db.connProv()") <|
     .ifc "" "err != nil" (.other "db.onError(ctx, err)" <| .ret (.other "err")) .done <|
     .ret (.call "transactOnConn(ctx, conn, b, fn)")) := by decide

/-- the standard sentinels `acceptable` accepts: exactly `Cls.noRows`, `Cls.txDone`, `Cls.canceled` -/
theorem tie_acceptSentinels : acceptSentinels = ["sql.ErrNoRows", "sql.ErrTxDone", "context.Canceled"] := by decide

/-- `transactOnConn`: begin guard (no body, no deferred decision when Begin fails), then the deferred
decision  recover → Rollback | err ≠ nil → Rollback | else Commit, then the body. -/
theorem tie_transactOnConnShape : transactOnConnShape =
    ["call b", "if err != nil {", "return", "}",
     "defer{", "func{", "recover", "if p != nil {", "call tx.Rollback", "if e != nil {", "}", "else{", "}", "}",
     "else{", "if err != nil {", "call tx.Rollback", "if e != nil {", "}", "}",
     "else{", "call tx.Commit", "}", "}", "}", "call func", "}",
     "call fn", "return"] := by decide

/-- `transact`: connection provider first; its failure is reported and nothing else happens. -/
theorem tie_transactShape : transactShape =
    ["call db.connProv", "if err != nil {", "call db.onError", "return", "}", "call transactOnConn", "return"] := by
  decide

theorem tie_beginShape : beginShape = ["call db.Begin", "if err != nil {", "return", "}", "return"] := by decide

/-- `TransactCtx`: the whole of `transact` runs inside the breaker with `db.acceptable`. -/
theorem tie_transactCtxShape : transactCtxShape =
    ["call startSpan", "defer{", "func{", "call endSpan", "}", "call func", "}",
     "func{", "call transact", "return", "}", "call db.brk.DoWithAcceptableCtx",
     "if errors.Is(err, breaker.ErrServiceUnavailable) {", "call metricReqErr.Inc", "}", "return"] := by decide

theorem tie_transactPlainShape : transactPlainShape =
    ["call context.Background", "func{", "call fn", "return", "}", "call db.TransactCtx", "return"] := by decide

/-- `acceptable`: nil / ErrNoRows / ErrTxDone / Canceled, then acceptableError, then the user function. -/
theorem tie_acceptableShape : acceptableShape =
    ["if err == nil || errorx.In(err, sql.ErrNoRows, sql.ErrTxDone, context.Canceled) {", "return", "}",
     "if errors.As(err, &e) {", "return", "}", "if db.accept == nil {", "return", "}",
     "call db.accept", "return"] := by decide

theorem tie_cachedTransactCtxShape : cachedTransactCtxShape = ["call cc.db.TransactCtx", "return"] := by decide

theorem tie_cachedTransactShape : cachedTransactShape =
    ["func{", "call fn", "return", "}", "call context.Background", "call cc.TransactCtx", "return"] := by decide

/-- nested transactions never reach the driver -/
theorem tie_txConnShapes : txConnTransactShape = ["return"] ∧ txConnTransactCtxShape = ["return"] := by decide

end GoZero.C14.Tie
