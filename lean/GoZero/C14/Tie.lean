import GoZero.Extracted.C14
import GoZero.C14.Model
namespace GoZero.C14.Tie
open GoZero.Extracted.C14

theorem extraction_clean : extractionErrors = [] := by decide

end GoZero.C14.Tie
