/-
C14 — meaning of the control-flow term the extractor reads from `transactOnConn` (Extracted.C14.Blk).

This is the (small, trusted) semantics of the Go constructs the function uses: sequential statements, `if` with
init statement, a deferred closure that runs when the function exits (by `return` or by a panic of the
body), `recover()` (non-nil exactly while panicking, and it stops the panic), assignment to the named result
`err`, `fmt.Errorf` with `%w` (keeps the chain) versus any other verb (text only); a panic raised by
`tx.Commit()` / `tx.Rollback()` inside the deferred closure abandons the rest of the closure and leaves the
function (`escaping`).  The driver's answers (including the Begin attempts database/sql retries inside the one
`b(conn)` call), the statement calls of the body and the body's outcome are inputs.  Anything the semantics does not know makes
the run `stuck`, which the Tie theorem excludes.
-/
import GoZero.Extracted.C14
import GoZero.C14.Model
namespace GoZero.C14.TieSem
open GoZero.C14
open GoZero.Extracted.C14

/-- how control leaves the body: the property's quantifier (`ret`: nil / error / panic seen by `recover()`),
and the two exits outside it that `recover() != nil` cannot see: `runtime.Goexit()` and a `panic(nil)` under
GODEBUG=panicnil=1 (there `recover()` returns nil although the goroutine is panicking). -/
inductive Exit
  | ret (o : BodyOut)
  | goexit
  | nilPanic
  deriving DecidableEq, Repr

structure Inp where
  f   : Faults
  evs : List Ev       -- driver calls made by the body
  out : Exit          -- how the body ends

structure St where
  err       : Option Err := none     -- the named result
  e         : Option Err := none     -- `e := tx.Rollback()`
  p         : Bool := false          -- `p != nil` after `p := recover()`
  panicking : Bool := false
  nilp      : Bool := false          -- the panic value is nil and the runtime hands it to recover() as nil
  exiting   : Bool := false          -- runtime.Goexit in progress: deferred calls run, the function never returns
  completed : Bool := false          -- a local flag `completed` (if the function has one)
  returned  : Bool := false
  escaping  : Option Src := none     -- a panic of the driver's Commit/Rollback is leaving the function
  stuck     : Bool := false
  log       : List Ev := []
  runs      : Nat := 0
  deriving Repr

/-- (chain, text-only) content of the value of a format argument -/
def argVal (s : St) : String → Option (List Src × List Src)
  | "p" => some ([], [.panic])
  | "e" => s.e.map fun x => (x.is, x.says)
  | "err" => s.err.map fun x => (x.is, x.says)
  | _ => none

/-- `fmt.Errorf`: `%w` keeps the argument's chain reachable, every other verb only prints it -/
def fmtErr (s : St) : List (String × String) → Option Err
  | [] => some { is := [], says := [] }
  | (verb, arg) :: rest =>
    match argVal s arg, fmtErr s rest with
    | some (is, says), some r =>
      if verb = "%w" then (if arg = "p" then none else some { is := is ++ r.is, says := says ++ r.says })
      else some { is := r.is, says := is ++ says ++ r.says }
    | _, _ => none

def evalCond (s : St) : String → Option Bool
  | "err != nil" => some s.err.isSome
  | "p != nil" => some s.p
  | "e != nil" => some s.e.isSome
  | "p != nil || !completed" => some (s.p || !s.completed)
  | _ => none

def doInit (i : Inp) (s : St) : String → St
  | "" => s
  | "p := recover()" => { s with p := s.panicking && !s.nilp, panicking := false }
  | "e := tx.Rollback()" =>
    if i.f.rollbackPanics then
      { s with log := s.log ++ [.rollback false], escaping := some (.rollback .plain), returned := true }
    else
    { s with log := s.log ++ [.rollback i.f.rollback],
             e := if i.f.rollback then none else some (Err.of (.rollback i.f.rollbackCls)) }
  | _ => { s with stuck := true }

/-- calling the body: its driver calls, then the way it ends; an abnormal exit skips the rest of the function -/
def callBody (i : Inp) (s : St) : St :=
  match i.out with
  | .ret .panic => { s with log := s.log ++ i.evs, runs := s.runs + 1, returned := true, panicking := true }
  | .ret (.err e) => { s with log := s.log ++ i.evs, runs := s.runs + 1, err := some e }
  | .ret _ => { s with log := s.log ++ i.evs, runs := s.runs + 1, err := none }
  | .goexit => { s with log := s.log ++ i.evs, runs := s.runs + 1, returned := true, exiting := true }
  | .nilPanic => { s with log := s.log ++ i.evs, runs := s.runs + 1, returned := true, panicking := true, nilp := true }

def assign (i : Inp) (s : St) : Rhs → St
  | .call "fn(ctx, tx)" => callBody i s
  | .call "b(conn)" =>
    -- one `db.Begin()`: the attempts answered ErrBadConn, then (unless database/sql gave up) the definitive one
    if i.f.givesUp then { s with log := s.log ++ badPrefix maxBeginAttempts [], err := some (Err.of .badConn) }
    else { s with log := s.log ++ badPrefix i.f.badConn [.begin i.f.begin],
                  err := if i.f.begin then none else some (Err.of .begin) }
  | .call "tx.Commit()" =>
    if i.f.commitPanics then
      { s with log := s.log ++ [.commit false], escaping := some (.commit .plain), returned := true }
    else
    { s with log := s.log ++ [.commit i.f.commit],
             err := if i.f.commit then none else some (Err.of (.commit i.f.commitCls)) }
  | .errorf verbs =>
    match fmtErr s verbs with
    | some e => { s with err := some e }
    | none => { s with stuck := true }
  | _ => { s with stuck := true }

def doRet (i : Inp) (s : St) : Rhs → St
  | .none => { s with returned := true }
  | .call "fn(ctx, tx)" => { callBody i s with returned := true }
  | .other "err" => { s with returned := true }
  | _ => { s with stuck := true }

def run (i : Inp) : Blk → St → St
  | .done, s => s
  | .assignErr r k, s => if s.returned || s.stuck then s else run i k (assign i s r)
  | .ifc init cond thn els k, s =>
    if s.returned || s.stuck then s else
    match evalCond (doInit i s init) cond with
    | none => { s with stuck := true }
    | some true => run i k (run i thn (doInit i s init))
    | some false => run i k (run i els (doInit i s init))
  | .deferFn d k, s =>
    if s.returned || s.stuck then s else
    -- the closure runs when the rest of the function has returned or panicked
    run i d { run i k s with returned := false }
  | .ret r, s => if s.returned || s.stuck then s else doRet i s r
  | .other src k, s =>
    if s.returned || s.stuck then s else
    if src = "completed := false" then run i k { s with completed := false }
    else if src = "completed = true" then run i k { s with completed := true }
    else { s with stuck := true }

/-- what a caller of the function sees: driver-call log, body runs, returned error (or the value of the
driver's panic the function leaves with, flagged) — provided the run is understood (`stuck = false`) and no
panic of the body escapes. -/
def outcome (s : St) : Option (List Ev × Nat × Option Err × Bool) :=
  if s.stuck || s.panicking || s.exiting then none else
  match s.escaping with
  | some src => some (s.log, s.runs, some (Err.of src), true)
  | none => some (s.log, s.runs, s.err, false)

/-! ### `transact`: the connection provider in front of `transactOnConn` -/

/-- meaning of the control-flow term of `transact` (`connOk`: `db.connProv()` yields a *sql.DB): `db.onError` has
no effect on the outcome, `return transactOnConn(ctx, conn, b, fn)` is the run of `inner` (the term extracted
from `transactOnConn`); anything else is `stuck`. -/
def runOuter (i : Inp) (connOk : Bool) (inner : Blk) : Blk → St → St
  | .assignErr (.call "db.connProv()") k, s =>
    if s.returned || s.stuck then s
    else runOuter i connOk inner k { s with err := if connOk then none else some (Err.of .conn) }
  | .ifc "" cond thn els k, s =>
    if s.returned || s.stuck then s else
    match evalCond s cond with
    | none => { s with stuck := true }
    | some true => runOuter i connOk inner k (runOuter i connOk inner thn s)
    | some false => runOuter i connOk inner k (runOuter i connOk inner els s)
  | .other "db.onError(ctx, err)" k, s => if s.returned || s.stuck then s else runOuter i connOk inner k s
  | .ret (.other "err"), s => if s.returned || s.stuck then s else { s with returned := true }
  | .ret (.call "transactOnConn(ctx, conn, b, fn)"), s =>
    if s.returned || s.stuck then s else { run i inner s with returned := true }
  | .done, s => s
  | _, s => { s with stuck := true }

/-! ### the decision chains of `acceptable` and `WithAcceptable` (terms BX / RC / FX) -/

/-- the class a sentinel named in the source stands for -/
def sentinelCls : String → Option Cls
  | "sql.ErrNoRows" => some .noRows
  | "sql.ErrTxDone" => some .txDone
  | "context.Canceled" => some .canceled
  | _ => none

structure AEnv where
  err  : Option Err
  vars : List (String × String) := []      -- declared variables and their types
  fns  : List (String × AccFn) := []       -- function-valued names in scope

def evalBX (a : AEnv) : BX → Option Bool
  | .lit b => some b
  | .isNil v => if v = "err" then some a.err.isNone else (a.fns.lookup v).map Option.isNone
  | .errIn ss => (ss.mapM sentinelCls).map fun cs => cs.any (hasCls a.err)
  | .errAs v => if a.vars.lookup v = some "acceptableError" then some (hasCls a.err .accType) else none
  | .call f =>
    match a.fns.lookup f with
    | some (some g) => some (g a.err)
    | _ => none                               -- unknown name, or a call of a nil function
  | .not x => (evalBX a x).map (!·)
  | .or x y =>
    match evalBX a x with
    | some true => some true                  -- short-circuit: the right operand is not evaluated
    | some false => evalBX a y
    | none => none
  | .and x y =>
    match evalBX a x with
    | some false => some false
    | some true => evalBX a y
    | none => none
  | .other _ => none

def evalRC (a : AEnv) : RC → Option Bool
  | .ifRet c v k =>
    match evalBX a c with
    | some true => evalBX a v
    | some false => evalRC a k
    | none => none
  | .ret v => evalBX a v
  | .decl v ty k => evalRC { a with vars := (v, ty) :: a.vars } k
  | _ => none

/-! ### round 5: `begin` — what `b(conn)` stands for -/

structure BSt where
  log      : List Ev := []
  err      : Option Err := none
  tx       : Bool := false        -- a non-nil transaction is handed back
  returned : Bool := false
  stuck    : Bool := false
  deriving Repr

/-- meaning of the control-flow term of `begin`: ONE `db.Begin()` (inside it the attempts database/sql retries
on driver.ErrBadConn, as for `b(conn)` in `assign`), `if err != nil { return nil, err }`, else the session around
the new Tx with a nil error; anything else — a second `db.Begin()`, `BeginTx`, a changed guard — is `stuck`. -/
def runBegin (f : Faults) : Blk → BSt → BSt
  | .done, s => s
  | .assignErr (.call "db.Begin()") k, s =>
    if s.returned || s.stuck then s
    else if s.log ≠ [] then { s with stuck := true }       -- Begin is called once
    else if f.givesUp then
      runBegin f k { s with log := badPrefix maxBeginAttempts [], err := some (Err.of .badConn) }
    else runBegin f k { s with log := badPrefix f.badConn [.begin f.begin],
                               err := if f.begin then none else some (Err.of .begin) }
  | .ifc "" "err != nil" thn els k, s =>
    if s.returned || s.stuck then s
    else if s.err.isSome then runBegin f k (runBegin f thn s) else runBegin f k (runBegin f els s)
  | .other "return nil, err" _, s => if s.returned || s.stuck then s else { s with returned := true, tx := false }
  | .other "return txSession{ Tx: tx, }, nil" _, s =>
    if s.returned || s.stuck then s else { s with returned := true, tx := true, err := none }
  | _, s => { s with stuck := true }

/-! ### round 5: what travels down the path (typed forwarding terms `Fwd`) -/

/-- the values the hops of the path hand on: the caller's context `c` (wrapping it in a span keeps its Done /
Err / values: still `c`), the background context, the caller's body `f` (as given, or adapted from
`func(Session) error` by a literal that drops the context and passes the session on), and the connection's parts -/
inductive V
  | ctx (c : Nat)
  | bgCtx
  | body (f : Nat) (ctxless : Bool)
  | conn | beginFn | acceptFn | db | thunk | tx
  | val (n : Nat)                     -- any other argument (query text, destination, arguments), by identity
  | unknown
  deriving DecidableEq, Repr

/-- meaning of one forwarded argument, given the values of the enclosing function's parameters -/
def evalArg (actuals : List V) : Arg → V
  | .param i => actuals.getD i .unknown
  | .rebound i rhs =>
    -- the only re-binding the path knows: ctx, span := startSpan(ctx, …) — a child of the same context
    match actuals.getD i .unknown with
    | .ctx c => if rhs.startsWith "startSpan(ctx, " then .ctx c else .unknown
    | .bgCtx => if rhs.startsWith "startSpan(ctx, " then .bgCtx else .unknown
    | _ => .unknown
  | .bg => .bgCtx
  | .recvField "db.beginTx" => .beginFn
  | .recvField "db.acceptable" => .acceptFn
  | .recvField "t.Tx" => .tx               -- the session's own transaction
  | .recvField _ => .unknown
  | .recv => .db
  | .local "conn" => .conn
  | .local "tx" => .tx
  | .local _ => .unknown
  | .adapt 2 k [1] =>
    -- func(_ context.Context, session Session) error { return fn(session) }: the caller's ctx-less body
    match actuals.getD k .unknown with
    | .body f false => .body f true
    | _ => .unknown
  | .adapt _ _ _ => .unknown
  | .thunk => .thunk
  | .other _ => .unknown

def evalFwd (h : Fwd) (actuals : List V) : List V := h.args.map (evalArg actuals)

/-! ### round 5c: a statement method of the transaction's session — what it returns -/

/-- the statements of a `…Ctx` statement method, classified (a closed computation on the extracted term) -/
inductive MOp
  | span          -- ctx, span := startSpan(ctx, …)
  | deferEndSpan  -- defer func() { endSpan(span, err) }()
  | callAssign    -- …, err = / := <the one call into database/sql: exec( / t.Tx.PrepareContext(>
  | retNone       -- return            (named result err)
  | retCall       -- return query(ctx, t.Tx, …)
  | retNilErr     -- return nil, err
  | retValNil     -- return statement{…}, nil
  | ifErr (thn els : List MOp)   -- if err != nil { thn } else { els }
  | bad (src : String)
  deriving Repr

def classify : Blk → List MOp
  | .done => []
  | .other src k =>
    (if src.startsWith "ctx, span := startSpan(ctx, " then MOp.span
     else if src = "return nil, err" then .retNilErr
     else if src = "return statement{ query: q, stmt: stmt, brk: breaker.NopBreaker(), }, nil" then .retValNil
     else .bad src) :: classify k
  | .deferFn (.other "endSpan(span, err)" .done) k => .deferEndSpan :: classify k
  | .assignErr (.call c) k =>
    (if c.startsWith "exec(ctx, t.Tx, " || c.startsWith "t.Tx.PrepareContext(ctx, " then MOp.callAssign else .bad c)
      :: classify k
  | .ifc "" "err != nil" thn els k => .ifErr (classify thn) (classify els) :: classify k
  | .ret .none => [.retNone]
  | .ret (.call c) => [if c.startsWith "query(ctx, t.Tx, " then MOp.retCall else .bad c]
  | _ => [.bad "?"]

structure MSt where
  err   : Option Err := none               -- the named result `err`
  ret   : Option (Option Err) := none      -- the error the method returned (none: still running)
  stuck : Bool := false

/-- meaning of the classified statements: span and the deferred endSpan do not touch the result; the one call
into database/sql yields `callee` (its error), assigned to `err` or returned directly; `return` / `return nil,
err` hand back `err`, `return <value>, nil` hands back nil; anything else is `stuck`. -/
def runOps (callee : Option Err) (fuel : Nat) : List MOp → MSt → MSt
  | [], s => s
  | op :: k, s =>
    if s.ret.isSome || s.stuck then s else
    match fuel with
    | 0 => { s with stuck := true }
    | fuel + 1 =>
      match op with
      | .span => runOps callee fuel k s
      | .deferEndSpan => runOps callee fuel k s
      | .callAssign => runOps callee fuel k { s with err := callee }
      | .retNone => { s with ret := some s.err }
      | .retCall => { s with err := callee, ret := some callee }
      | .retNilErr => { s with ret := some s.err }
      | .retValNil => { s with ret := some none }
      | .ifErr thn els =>
        runOps callee fuel k (if s.err.isSome then runOps callee fuel thn s else runOps callee fuel els s)
      | .bad _ => { s with stuck := true }

/-- the method hands its caller exactly the error of its one call into database/sql -/
def returnsCalleeError (b : Blk) (callee : Option Err) : Bool :=
  !(runOps callee 16 (classify b) {}).stuck && (runOps callee 16 (classify b) {}).ret == some callee

/-- `transactOnConn` as pinned when this check was built (completion of the body is inferred from
`recover() != nil` alone) -/
def pinnedBlk : Blk :=
  .assignErr (.call "b(conn)") <|
  .ifc "" "err != nil" (.ret .none) .done <|
  .deferFn
    (.ifc "p := recover()" "p != nil"
      (.ifc "e := tx.Rollback()" "e != nil"
        (.assignErr (.errorf [("%#v", "p"), ("%w", "e")]) .done)
        (.assignErr (.errorf [("%#v", "p")]) .done) .done)
      (.ifc "" "err != nil"
        (.ifc "e := tx.Rollback()" "e != nil"
          (.assignErr (.errorf [("%s", "err"), ("%w", "e")]) .done)
          .done .done)
        (.assignErr (.call "tx.Commit()") .done) .done) .done) <|
  .ret (.call "fn(ctx, tx)")

/-- `transactOnConn` with fixes/C14-commit-on-goexit-or-nil-panic.patch (a `completed` flag set after the body
returned; the deferred closure rolls back unless it is set) -/
def fixedBlk : Blk :=
  .assignErr (.call "b(conn)") <|
  .ifc "" "err != nil" (.ret .none) .done <|
  .other "completed := false" <|
  .deferFn
    (.ifc "p := recover()" "p != nil || !completed"
      (.ifc "e := tx.Rollback()" "e != nil"
        (.assignErr (.errorf [("%#v", "p"), ("%w", "e")]) .done)
        (.assignErr (.errorf [("%#v", "p")]) .done) .done)
      (.ifc "" "err != nil"
        (.ifc "e := tx.Rollback()" "e != nil"
          (.assignErr (.errorf [("%s", "err"), ("%w", "e")]) .done)
          .done .done)
        (.assignErr (.call "tx.Commit()") .done) .done) .done) <|
  .assignErr (.call "fn(ctx, tx)") <|
  .other "completed = true" <|
  .ret (.other "err")

end GoZero.C14.TieSem
