/-
C14 — executable model of go-zero's SQL transaction wrapper (core Lean only).

Modelled code (core/stores/sqlx/tx.go, sqlconn.go; core/stores/sqlc/cachedsql.go):

  transactOnConn(ctx, conn, b, fn):   tx, err = b(conn); if err != nil { return }
                                      defer { if p := recover(); p != nil { Rollback … "recover from %#v[, rollback failed: %w]" }
                                              else if err != nil     { Rollback … "transaction failed: %s, rollback failed: %w" }
                                              else                   { err = tx.Commit() } }
                                      return fn(ctx, tx)
  transact(ctx, db, b, fn):           conn, err := db.connProv(); if err != nil { onError; return err }; transactOnConn
  commonSqlConn.TransactCtx:          brk.DoWithAcceptableCtx(ctx, transact, db.acceptable)
  commonSqlConn.Transact, CachedConn.Transact/TransactCtx: ctx-less / delegating entry points
  txConn.Transact/TransactCtx:        errCantNestTx

The world outside go-zero is a parameter: the database driver answers Begin / statement / Commit /
Rollback with `ok` or a fault (`Faults`, and the `fails` flag of each statement), the body is a program
(`Body`: statements, reactions to statement errors, final outcome), the breaker's admission decision and the
context's state are inputs (`Env`).  The result records the driver-call log, how often the body ran, how it ended,
the returned error (identity chain as seen by `errors.Is` + what is only mentioned in the message) and what
the breaker was told.
-/
namespace GoZero.C14

/-- how `commonSqlConn.acceptable` classifies an error value created by the body -/
inductive Cls
  | plain      -- an ordinary error
  | noRows     -- errors.Is(err, sql.ErrNoRows)
  | txDone     -- errors.Is(err, sql.ErrTxDone)
  | canceled   -- errors.Is(err, context.Canceled)
  | accType    -- an `acceptableError` value (errors.As)
  | userOk     -- accepted by the function installed with `WithAcceptable`
  deriving DecidableEq, Repr, Inhabited

/-- where an error value (or a value mentioned in a message) originated -/
inductive Src
  | begin                -- the driver refused Begin
  | body (c : Cls)       -- the body's own error
  | stmt (i : Nat)       -- the driver's fault on the i-th statement
  | commit               -- the driver's fault on Commit
  | rollback             -- the driver's fault on Rollback
  | conn                 -- connProv failed (no *sql.DB)
  | ctx                  -- the context was done before the breaker was asked
  | breaker              -- breaker.ErrServiceUnavailable
  | nest                 -- errCantNestTx
  | panic                -- the recovered panic value (only ever mentioned)
  deriving DecidableEq, Repr, Inhabited

/-- a returned `error`: `is` = the chain `errors.Is`/`errors.As` can reach (outermost first, `%w`),
`says` = values that only appear in the message text (`%s`, `%#v`). -/
structure Err where
  is   : List Src
  says : List Src := []
  deriving DecidableEq, Repr, Inhabited

def Err.of (s : Src) : Err := { is := [s] }

/-- everything an error tells its reader, reachable or only in text -/
def Err.mentions (e : Err) (s : Src) : Bool := e.is.contains s || e.says.contains s

/-- one call that reached the database driver -/
inductive Ev
  | begin (ok : Bool)
  | exec (i : Nat) (ok : Bool)
  | query (i : Nat) (ok : Bool)
  | commit (ok : Bool)
  | rollback (ok : Bool)
  deriving DecidableEq, Repr, Inhabited

inductive SK
  | exec | query | nest
  deriving DecidableEq, Repr, Inhabited

/-- one statement of the body: what it calls, whether the driver faults it, and whether the body
returns the statement's error (`prop`) or carries on.  A nested `Transact` never reaches the driver
and always yields `errCantNestTx`. -/
structure Stmt where
  kind  : SK
  fails : Bool
  prop  : Bool
  deriving DecidableEq, Repr, Inhabited

/-- how the body ends when no statement error made it return early -/
inductive End
  | ok
  | err (c : Cls)
  | panic
  deriving DecidableEq, Repr, Inhabited

structure Body where
  stmts : List Stmt
  fin   : End
  deriving DecidableEq, Repr, Inhabited

/-- how the body ended -/
inductive BodyOut
  | notRun
  | nil
  | err (e : Err)
  | panic
  deriving DecidableEq, Repr, Inhabited

structure Faults where
  begin    : Bool      -- true = the driver answers ok
  commit   : Bool
  rollback : Bool
  deriving DecidableEq, Repr, Inhabited

structure Result where
  log  : List Ev
  runs : Nat
  body : BodyOut
  ret  : Option Err
  mark : Option Bool := none     -- what the breaker was told (`some true` = success); none = not asked
  deriving DecidableEq, Repr, Inhabited

def Stmt.failing (s : Stmt) : Bool := s.kind == .nest || s.fails

def stmtEv (i : Nat) (s : Stmt) : List Ev :=
  match s.kind with
  | .exec => [.exec i (!s.fails)]
  | .query => [.query i (!s.fails)]
  | .nest => []

def stmtSrc (i : Nat) (s : Stmt) : Src :=
  match s.kind with
  | .nest => .nest
  | _ => .stmt i

/-- the statements of the body from index `i` on: driver calls made, and the statement error the body
returned early with (if any). -/
def runStmts : Nat → List Stmt → List Ev × Option Src
  | _, [] => ([], none)
  | i, s :: rest =>
    if s.failing && s.prop then (stmtEv i s, some (stmtSrc i s))
    else ((stmtEv i s) ++ (runStmts (i + 1) rest).1, (runStmts (i + 1) rest).2)

def runBody (b : Body) : List Ev × BodyOut :=
  match (runStmts 0 b.stmts).2 with
  | some s => ((runStmts 0 b.stmts).1, .err (Err.of s))
  | none =>
    ((runStmts 0 b.stmts).1,
      match b.fin with
      | .ok => .nil
      | .err c => .err (Err.of (.body c))
      | .panic => .panic)

/-- `transactOnConn` with the real `begin`. -/
def transactOnConn (f : Faults) (b : Body) : Result :=
  if !f.begin then
    { log := [.begin false], runs := 0, body := .notRun, ret := some (Err.of .begin) }
  else
    match (runBody b).2 with
    | .panic =>
      -- recover() ≠ nil: Rollback; the error mentions the panic value and wraps a rollback failure
      { log := .begin true :: ((runBody b).1 ++ [.rollback f.rollback]), runs := 1, body := .panic,
        ret := some { is := if f.rollback then [] else [.rollback], says := [.panic] } }
    | .err e =>
      -- err ≠ nil: Rollback; a rollback failure is wrapped, the body's error then only mentioned (%s)
      { log := .begin true :: ((runBody b).1 ++ [.rollback f.rollback]), runs := 1, body := .err e,
        ret := some (if f.rollback then e else { is := [.rollback], says := e.is ++ e.says }) }
    | _ =>
      -- err = nil: the result is Commit's
      { log := .begin true :: ((runBody b).1 ++ [.commit f.commit]), runs := 1, body := .nil,
        ret := if f.commit then none else some (Err.of .commit) }

/-- the environment of `commonSqlConn.TransactCtx` -/
structure Env where
  ctxDone    : Bool     -- ctx.Done() is closed when DoWithAcceptableCtx looks
  brkAllow   : Bool     -- the breaker admits the request
  connOk     : Bool     -- connProv yields a *sql.DB
  userAccept : Bool     -- a WithAcceptable function is installed (it accepts exactly `Cls.userOk`)
  deriving DecidableEq, Repr, Inhabited

def clsAcceptable (userAccept : Bool) : Cls → Bool
  | .plain => false
  | .noRows => true
  | .txDone => true
  | .canceled => true
  | .accType => true
  | .userOk => userAccept

def srcAcceptable (userAccept : Bool) : Src → Bool
  | .body c => clsAcceptable userAccept c
  | _ => false

/-- `commonSqlConn.acceptable`: nil, or something acceptable reachable in the chain -/
def acceptable (userAccept : Bool) : Option Err → Bool
  | none => true
  | some e => e.is.any (srcAcceptable userAccept)

/-- `commonSqlConn.TransactCtx` (and `Transact`, `CachedConn.Transact[Ctx]`, which delegate to it). -/
def transactCtx (env : Env) (f : Faults) (b : Body) : Result :=
  if env.ctxDone then { log := [], runs := 0, body := .notRun, ret := some (Err.of .ctx), mark := none }
  else if !env.brkAllow then { log := [], runs := 0, body := .notRun, ret := some (Err.of .breaker), mark := none }
  else if !env.connOk then { log := [], runs := 0, body := .notRun, ret := some (Err.of .conn), mark := some false }
  else { transactOnConn f b with mark := some (acceptable env.userAccept (transactOnConn f b).ret) }

/-- the request got past context check, breaker and connection provider -/
def Env.admitted (env : Env) : Bool := !env.ctxDone && env.brkAllow && env.connOk

/-- a transaction was opened on the driver -/
def opened (env : Env) (f : Faults) : Bool := env.admitted && f.begin

/-- the one call that ends an opened transaction: decided by how the body ended -/
def endEvent (f : Faults) (b : Body) : Ev :=
  match (runBody b).2 with
  | .nil => .commit f.commit
  | _ => .rollback f.rollback

/-- the statements that are executed: up to and including the first one whose error the body returns -/
def executed : List Stmt → List Stmt
  | [] => []
  | s :: rest => if s.failing && s.prop then [s] else s :: executed rest

/-- driver calls of a list of statements that all run, numbered from `i` -/
def eventsOf : Nat → List Stmt → List Ev
  | _, [] => []
  | i, s :: rest => stmtEv i s ++ eventsOf (i + 1) rest

end GoZero.C14
