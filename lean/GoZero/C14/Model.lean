/-
C14 — executable model of go-zero's SQL transaction wrapper (core Lean only).

Modelled code (core/stores/sqlx/tx.go, sqlconn.go; core/stores/sqlc/cachedsql.go):

  begin(db):                          tx, err := db.Begin()            -- NOT BeginTx(ctx): the sql.Tx is bound to
                                                                       -- context.Background(), never to the caller's ctx
  transactOnConn(ctx, conn, b, fn):   tx, err = b(conn); if err != nil { return }
                                      defer { if p := recover(); p != nil { Rollback … "recover from %#v[, rollback failed: %w]" }
                                              else if err != nil     { Rollback … "transaction failed: %s, rollback failed: %w" }
                                              else                   { err = tx.Commit() } }
                                      return fn(ctx, tx)
  transact(ctx, db, b, fn):           conn, err := db.connProv(); if err != nil { onError; return err }; transactOnConn
  commonSqlConn.TransactCtx:          brk.DoWithAcceptableCtx(ctx, transact, db.acceptable)
  commonSqlConn.Transact, CachedConn.Transact/TransactCtx: ctx-less / delegating entry points
  txConn.Transact/TransactCtx (NewSqlConnFromSession, CachedConn.WithSession): errCantNestTx

The world outside go-zero is a parameter:
  * the database driver answers Begin / statement / Commit / Rollback with `ok` or a fault (`Faults`, and the
    `fails` flag of each statement); Begin may first be answered `driver.ErrBadConn` any number of times
    (`Faults.badConn`; database/sql then retries on a fresh connection, at most `maxBeginAttempts` attempts in
    all, inside the single `db.Begin()` go-zero makes); Commit / Rollback of the driver may panic
    (`commitPanics`, `rollbackPanics`: nothing in go-zero recovers a panic raised inside the deferred closure,
    it leaves Transact as a panic);
  * the body is a program (`Body`: statements, reactions to statement errors, final outcome) and the context it
    was given may be cancelled / run into its deadline just before its k-th statement (`cancelAt`, `deadline`):
    from then on database/sql refuses every statement made with that context with ctx.Err() *before* the driver
    is reached; because the sql.Tx is not bound to the context, nothing is rolled back behind go-zero's back and
    Commit / Rollback still reach the driver;
  * the breaker's admission decision and the context's state at the call are inputs (`Env`);
  * every error value has a class for `commonSqlConn.acceptable` (`Cls`): the body's own error, the error of a
    QueryRow that finds no row (`SK.rowq`: sqlx.ErrNotFound = sql.ErrNoRows), and — round 4 — the error a failing
    Commit / Rollback returns (`Faults.commitCls` / `rollbackCls`, `Src.commit c` / `Src.rollback c`); which user
    functions `WithAcceptable` installed is `UA` (two functions, composed by `withAcceptable`);
  * `TransactCtx` is `brkDo … (acceptable ua) (transactFn …)`: the breaker's DoWithAcceptableCtx around `transact`
    (`Props.transactCtx_is_wrapped_transact`); `brkDo` is stated for an arbitrary acceptable function.
The result records the driver-call log, how often the body ran, how it ended, the returned error (identity
chain as seen by `errors.Is` + what is only mentioned in the message), whether the call left by a panic of the
driver instead of returning (`escaped`), and what the breaker was told.
-/
namespace GoZero.C14

/-- how `commonSqlConn.acceptable` classifies an error value created by the body -/
inductive Cls
  | plain      -- an ordinary error
  | noRows     -- errors.Is(err, sql.ErrNoRows)
  | txDone     -- errors.Is(err, sql.ErrTxDone)
  | canceled   -- errors.Is(err, context.Canceled)
  | accType    -- an `acceptableError` value (errors.As)
  | userOk     -- accepted by the (first) function installed with `WithAcceptable`
  | userOk2    -- accepted by a second function installed with a second `WithAcceptable` option
  deriving DecidableEq, Repr, Inhabited

/-- where an error value (or a value mentioned in a message) originated -/
inductive Src
  | begin                -- the driver refused Begin
  | body (c : Cls)       -- the body's own error
  | stmt (i : Nat)       -- the driver's fault on the i-th statement
  | commit (c : Cls)     -- the driver's fault on Commit (an error of class `c`, or — `.plain` — the value it panicked with)
  | rollback (c : Cls)   -- the driver's fault on Rollback (likewise)
  | conn                 -- connProv failed (no *sql.DB)
  | ctx                  -- context.Canceled: from the breaker's context check, or from database/sql refusing a statement
  | breaker              -- breaker.ErrServiceUnavailable
  | nest                 -- errCantNestTx
  | panic                -- the recovered panic value (only ever mentioned)
  | deadline             -- context.DeadlineExceeded (same two places as `ctx`)
  | badConn              -- driver.ErrBadConn: database/sql gave up retrying Begin
  deriving DecidableEq, Repr, Inhabited

/-- a returned `error`: `is` = the chain `errors.Is`/`errors.As` can reach (outermost first, `%w`),
`says` = values that only appear in the message text (`%s`, `%#v`). -/
structure Err where
  is   : List Src
  says : List Src := []
  deriving DecidableEq, Repr, Inhabited

def Err.of (s : Src) : Err := { is := [s] }

/-- everything an error tells its reader, reachable or only in text -/
def Err.mentions (e : Err) (s : Src) : Bool := e.is.contains s || e.says.contains s

/-- one call that reached the database driver -/
inductive Ev
  | begin (ok : Bool)
  | exec (i : Nat) (ok : Bool)
  | query (i : Nat) (ok : Bool)
  | commit (ok : Bool)           -- `false`: the driver returned an error or panicked
  | rollback (ok : Bool)
  | beginBad                     -- Begin answered driver.ErrBadConn (database/sql retries on a fresh connection)
  deriving DecidableEq, Repr, Inhabited

inductive SK
  | exec | query | nest
  | rowq     -- a QueryRow[Partial][Ctx] whose query finds no row: the driver answers ok, sqlx yields ErrNotFound (= sql.ErrNoRows)
  deriving DecidableEq, Repr, Inhabited

/-- one statement of the body: what it calls, whether the driver faults it, and whether the body
returns the statement's error (`prop`) or carries on.  A nested `Transact` never reaches the driver
and always yields `errCantNestTx`. -/
structure Stmt where
  kind  : SK
  fails : Bool
  prop  : Bool
  deriving DecidableEq, Repr, Inhabited

/-- how the body ends when no statement error made it return early -/
inductive End
  | ok
  | err (c : Cls)
  | panic
  deriving DecidableEq, Repr, Inhabited

structure Body where
  stmts : List Stmt
  fin   : End
  /-- the context handed to the body is done from just before statement `k` on (`k` = number of statements:
  done when the body is about to end) -/
  cancelAt : Option Nat := none
  /-- it ended by its deadline (context.DeadlineExceeded) rather than by cancellation (context.Canceled) -/
  deadline : Bool := false
  deriving DecidableEq, Repr, Inhabited

/-- how the body ended -/
inductive BodyOut
  | notRun
  | nil
  | err (e : Err)
  | panic
  deriving DecidableEq, Repr, Inhabited

structure Faults where
  begin    : Bool      -- true = the driver answers ok (to the attempt that is not answered ErrBadConn)
  commit   : Bool
  rollback : Bool
  badConn  : Nat := 0           -- Begin is answered driver.ErrBadConn this many times first
  commitPanics   : Bool := false  -- the driver's Commit panics
  rollbackPanics : Bool := false  -- the driver's Rollback panics
  commitCls   : Cls := .plain     -- how `acceptable` classifies the error a failing Commit returns
  rollbackCls : Cls := .plain     -- … a failing Rollback returns
  deriving DecidableEq, Repr, Inhabited

structure Result where
  log  : List Ev
  runs : Nat
  body : BodyOut
  ret  : Option Err
  mark : Option Bool := none     -- what `acceptable` told the breaker (`some true` = success); none = not asked
  /-- the call did not return: a panic of the driver's Commit/Rollback left it (`ret` is then the panic value) -/
  escaped : Bool := false
  deriving DecidableEq, Repr, Inhabited

/-- database/sql: `maxBadConnRetries` (2) attempts on cached-or-new connections plus one on a new connection -/
def maxBeginAttempts : Nat := 3

/-- `n` Begin attempts answered driver.ErrBadConn in front of the rest of the log -/
def badPrefix : Nat → List Ev → List Ev
  | 0, l => l
  | n + 1, l => .beginBad :: badPrefix n l

/-- database/sql gives up: every attempt was answered ErrBadConn -/
def Faults.givesUp (f : Faults) : Bool := decide (maxBeginAttempts ≤ f.badConn)

/-- a transaction gets opened on the driver -/
def Faults.opens (f : Faults) : Bool := !f.givesUp && f.begin

def Faults.commitOk (f : Faults) : Bool := f.commit && !f.commitPanics
def Faults.rollbackOk (f : Faults) : Bool := f.rollback && !f.rollbackPanics

/-- the context of the body is done when statement `i` is made -/
def cancelled (c : Option Nat) (i : Nat) : Bool :=
  match c with
  | some k => decide (k ≤ i)
  | none => false

/-- the statement yields an error: nested transaction, driver fault, or refused by database/sql (context done) -/
def Stmt.failingAt (c : Option Nat) (i : Nat) (s : Stmt) : Bool :=
  s.kind == .nest || s.kind == .rowq || s.fails || cancelled c i

/-- driver calls of statement `i`: none for a nested transaction and none once the context is done -/
def stmtEvAt (c : Option Nat) (i : Nat) (s : Stmt) : List Ev :=
  match s.kind with
  | .exec => if cancelled c i then [] else [.exec i (!s.fails)]
  | .query => if cancelled c i then [] else [.query i (!s.fails)]
  | .rowq => if cancelled c i then [] else [.query i (!s.fails)]
  | .nest => []

def ctxSrc (dl : Bool) : Src := if dl then .deadline else .ctx

def stmtSrcAt (c : Option Nat) (dl : Bool) (i : Nat) (s : Stmt) : Src :=
  match s.kind with
  | .nest => .nest
  | .rowq => if cancelled c i then ctxSrc dl else if s.fails then .stmt i else .body .noRows
  | _ => if cancelled c i then ctxSrc dl else .stmt i

/-- the statements of the body from index `i` on: driver calls made, and the statement error the body
returned early with (if any). -/
def runStmts (c : Option Nat) (dl : Bool) : Nat → List Stmt → List Ev × Option Src
  | _, [] => ([], none)
  | i, s :: rest =>
    if s.failingAt c i && s.prop then (stmtEvAt c i s, some (stmtSrcAt c dl i s))
    else ((stmtEvAt c i s) ++ (runStmts c dl (i + 1) rest).1, (runStmts c dl (i + 1) rest).2)

def runBody (b : Body) : List Ev × BodyOut :=
  match (runStmts b.cancelAt b.deadline 0 b.stmts).2 with
  | some s => ((runStmts b.cancelAt b.deadline 0 b.stmts).1, .err (Err.of s))
  | none =>
    ((runStmts b.cancelAt b.deadline 0 b.stmts).1,
      match b.fin with
      | .ok => .nil
      | .err c => .err (Err.of (.body c))
      | .panic => .panic)

/-- `transactOnConn` from the Begin attempt that database/sql does not retry. -/
def transactOnce (f : Faults) (b : Body) : Result :=
  if !f.begin then
    { log := [.begin false], runs := 0, body := .notRun, ret := some (Err.of .begin) }
  else
    match (runBody b).2 with
    | .panic =>
      -- recover() ≠ nil: Rollback; the error mentions the panic value and wraps a rollback failure
      if f.rollbackPanics then
        { log := .begin true :: ((runBody b).1 ++ [.rollback false]), runs := 1, body := .panic,
          ret := some (Err.of (.rollback .plain)), escaped := true }
      else
      { log := .begin true :: ((runBody b).1 ++ [.rollback f.rollback]), runs := 1, body := .panic,
        ret := some { is := if f.rollback then [] else [.rollback f.rollbackCls], says := [.panic] } }
    | .err e =>
      -- err ≠ nil: Rollback; a rollback failure is wrapped, the body's error then only mentioned (%s)
      if f.rollbackPanics then
        { log := .begin true :: ((runBody b).1 ++ [.rollback false]), runs := 1, body := .err e,
          ret := some (Err.of (.rollback .plain)), escaped := true }
      else
      { log := .begin true :: ((runBody b).1 ++ [.rollback f.rollback]), runs := 1, body := .err e,
        ret := some (if f.rollback then e else { is := [.rollback f.rollbackCls], says := e.is ++ e.says }) }
    | _ =>
      -- err = nil: the result is Commit's
      if f.commitPanics then
        { log := .begin true :: ((runBody b).1 ++ [.commit false]), runs := 1, body := .nil,
          ret := some (Err.of (.commit .plain)), escaped := true }
      else
      { log := .begin true :: ((runBody b).1 ++ [.commit f.commit]), runs := 1, body := .nil,
        ret := if f.commit then none else some (Err.of (.commit f.commitCls)) }

/-- `transactOnConn` with the real `begin` (one `db.Begin()`, inside which database/sql retries ErrBadConn). -/
def transactOnConn (f : Faults) (b : Body) : Result :=
  if f.givesUp then
    { log := badPrefix maxBeginAttempts [], runs := 0, body := .notRun, ret := some (Err.of .badConn) }
  else
    { transactOnce f b with log := badPrefix f.badConn (transactOnce f b).log }

/-- the `WithAcceptable` options the connection was built with, in option order: the first installed function
accepts exactly `Cls.userOk`, the second exactly `Cls.userOk2` (`WithAcceptable` composes them: `pre(err) ||
acceptable(err)`; with none installed `db.accept == nil`) -/
structure UA where
  a1 : Bool := false
  a2 : Bool := false
  deriving DecidableEq, Repr, Inhabited

/-- the environment of `commonSqlConn.TransactCtx` -/
structure Env where
  ctxDone    : Bool     -- ctx.Done() is closed when DoWithAcceptableCtx looks
  brkAllow   : Bool     -- the breaker admits the request
  connOk     : Bool     -- connProv yields a *sql.DB
  userAccept : UA       -- the WithAcceptable functions installed
  ctxDead    : Bool := false   -- … and it is done by its deadline (ctx.Err() = DeadlineExceeded)
  deriving DecidableEq, Repr, Inhabited

def clsAcceptable (userAccept : UA) : Cls → Bool
  | .plain => false
  | .noRows => true
  | .txDone => true
  | .canceled => true
  | .accType => true
  | .userOk => userAccept.a1
  | .userOk2 => userAccept.a2

def srcAcceptable (userAccept : UA) : Src → Bool
  | .body c => clsAcceptable userAccept c
  | .commit c => clsAcceptable userAccept c      -- a Commit / Rollback error is classified like any other error:
  | .rollback c => clsAcceptable userAccept c    -- e.g. a Commit refused with sql.ErrTxDone is "acceptable"
  | .ctx => true                -- errors.Is(err, context.Canceled)
  | _ => false

/-- the class an `errors.Is` / `errors.As` probe finds an error source under -/
def srcCls : Src → Option Cls
  | .body c => some c
  | .commit c => some c
  | .rollback c => some c
  | .ctx => some .canceled
  | _ => none

/-- `errors.Is(err, <sentinel of class c>)` / `errors.As(err, <type of class c>)` -/
def hasCls (e : Option Err) (c : Cls) : Bool :=
  match e with
  | none => false
  | some e => e.is.any (fun s => srcCls s == some c)

/-- a function value of type `func(error) bool`; `none` = nil -/
abbrev AccFn := Option (Option Err → Bool)

/-- `db.accept` of a connection built with the WithAcceptable functions `ua` (in option order): nil with none
installed, else `f1(err) || f2(err)` over the installed ones — the first function accepts exactly the class
`userOk`, the second exactly `userOk2`. -/
def uaFn (ua : UA) : AccFn :=
  if !ua.a1 && !ua.a2 then none
  else some fun e => (ua.a1 && hasCls e .userOk) || (ua.a2 && hasCls e .userOk2)

/-- `WithAcceptable(new)` applied to a connection whose `accept` is `cur`: install `new` when nothing is
installed yet, else keep the previous function and consult both (`pre(err) || new(err)`). -/
def withAcceptable (cur : AccFn) (new : Option Err → Bool) : AccFn :=
  match cur with
  | none => some new
  | some pre => some fun e => pre e || new e

/-- the functions the harness installs: the first accepts exactly class `userOk`, the second exactly `userOk2` -/
def userFn1 : Option Err → Bool := fun e => hasCls e .userOk
def userFn2 : Option Err → Bool := fun e => hasCls e .userOk2

/-- the WithAcceptable options of a configuration, in option order -/
def UA.installed (ua : UA) : List (Option Err → Bool) :=
  (if ua.a1 then [userFn1] else []) ++ (if ua.a2 then [userFn2] else [])

/-- `commonSqlConn.acceptable`: nil, or something acceptable reachable in the chain -/
def acceptable (userAccept : UA) : Option Err → Bool
  | none => true
  | some e => e.is.any (srcAcceptable userAccept)

/-- what the breaker hears of a finished `transact`: the verdict of `acceptable` — unless the call left by a
panic (then `acceptable` is not consulted; the real breaker books a failure in its deferred function). -/
def markOf (userAccept : UA) (r : Result) : Option Bool :=
  if r.escaped then none else some (acceptable userAccept r.ret)

/-- `commonSqlConn.TransactCtx` (and `Transact`, `CachedConn.Transact[Ctx]`, which delegate to it). -/
def transactCtx (env : Env) (f : Faults) (b : Body) : Result :=
  if env.ctxDone then
    { log := [], runs := 0, body := .notRun, ret := some (Err.of (ctxSrc env.ctxDead)), mark := none }
  else if !env.brkAllow then { log := [], runs := 0, body := .notRun, ret := some (Err.of .breaker), mark := none }
  else if !env.connOk then { log := [], runs := 0, body := .notRun, ret := some (Err.of .conn), mark := some false }
  else { transactOnConn f b with mark := markOf env.userAccept (transactOnConn f b) }

/-- `transact(ctx, db, b, fn)`: the connection provider first (its failure is the result, the driver is never
reached), then `transactOnConn` — the "transact core" the breaker wraps. -/
def transactFn (connOk : Bool) (f : Faults) (b : Body) : Result :=
  if !connOk then { log := [], runs := 0, body := .notRun, ret := some (Err.of .conn) }
  else transactOnConn f b

/-- `Breaker.DoWithAcceptableCtx(ctx, req, acc)` as `TransactCtx` uses it: the context check first, then the
breaker's admission; an admitted request runs once and ITS result is the result — `acc` (any function of the
returned error) only decides what is booked, and is not consulted when the request leaves by a panic. -/
def brkDo (ctxDone ctxDead brkAllow : Bool) (acc : Option Err → Bool) (req : Result) : Result :=
  if ctxDone then
    { log := [], runs := 0, body := .notRun, ret := some (Err.of (ctxSrc ctxDead)), mark := none }
  else if !brkAllow then { log := [], runs := 0, body := .notRun, ret := some (Err.of .breaker), mark := none }
  else { req with mark := if req.escaped then none else some (acc req.ret) }

/-- the request got past context check, breaker and connection provider -/
def Env.admitted (env : Env) : Bool := !env.ctxDone && env.brkAllow && env.connOk

/-- a transaction was opened on the driver -/
def opened (env : Env) (f : Faults) : Bool := env.admitted && f.opens

/-- the one call that ends an opened transaction: decided by how the body ended -/
def endEvent (f : Faults) (b : Body) : Ev :=
  match (runBody b).2 with
  | .nil => .commit f.commitOk
  | _ => .rollback f.rollbackOk

/-- the Begin attempts the driver sees when `db.Begin()` does not open a transaction -/
def refusedBegins (f : Faults) : List Ev :=
  if f.givesUp then badPrefix maxBeginAttempts [] else badPrefix f.badConn [.begin false]

/-- the statements that are executed: up to and including the first one whose error the body returns -/
def executed (c : Option Nat) : Nat → List Stmt → List Stmt
  | _, [] => []
  | i, s :: rest => if s.failingAt c i && s.prop then [s] else s :: executed c (i + 1) rest

/-- driver calls of a list of statements that all run, numbered from `i` -/
def eventsOf (c : Option Nat) : Nat → List Stmt → List Ev
  | _, [] => []
  | i, s :: rest => stmtEvAt c i s ++ eventsOf c (i + 1) rest

/-! ### round 5c: the body ends the raw `*sql.Tx` itself

A body can reach the transaction's raw `*sql.Tx` (its session is a `txSession`; other ORMs are handed it through
`NewSessionFromTx`) and call `Commit()` / `Rollback()` on it.  database/sql marks the Tx done BEFORE it calls the
driver, whatever the driver answers; from then on go-zero's own `tx.Commit()` / `tx.Rollback()` in the deferred
closure is refused with the bare `sql.ErrTxDone` WITHOUT reaching the driver.  So the driver still sees exactly one
end of the transaction (the body's), and `Transact` returns `sql.ErrTxDone` (body returned nil: the result of
`tx.Commit()`), or the body's error / panic with `rollback failed: %w` of `sql.ErrTxDone` — never nil. -/

structure RawEnd where
  commit : Bool     -- `tx.Commit()` on the raw Tx (else `tx.Rollback()`)
  ok     : Bool     -- the driver's answer to it
  deriving DecidableEq, Repr, Inhabited

/-- a body that, after its statements (if no statement error made it return early), may end the raw Tx itself
and then ends as `base.fin` says -/
structure BodyX where
  base : Body
  raw  : Option RawEnd := none
  deriving DecidableEq, Repr, Inhabited

def rawEv (r : RawEnd) : Ev := if r.commit then .commit r.ok else .rollback r.ok

/-- the body gets as far as its raw end: a transaction was opened and no statement error was returned before -/
def BodyX.reaches (f : Faults) (b : BodyX) : Bool :=
  b.raw.isSome && f.opens && (runStmts b.base.cancelAt b.base.deadline 0 b.base.stmts).2.isNone

/-- what go-zero's deferred closure returns once the Tx is already done: `tx.Commit()` = sql.ErrTxDone (body
returned nil), else the body's error / panic with the refused Rollback wrapped -/
def retAfterRawEnd : BodyOut → Err
  | .nil => Err.of (.commit .txDone)
  | .err e => { is := [.rollback .txDone], says := e.is ++ e.says }
  | _ => { is := [.rollback .txDone], says := [.panic] }

/-- `transactOnConn` over the extended body domain -/
def transactOnConnX (f : Faults) (b : BodyX) : Result :=
  match b.raw with
  | none => transactOnConn f b.base
  | some r =>
    if b.reaches f then
      { log := badPrefix f.badConn (.begin true :: ((runBody b.base).1 ++ [rawEv r])), runs := 1,
        body := (runBody b.base).2, ret := some (retAfterRawEnd (runBody b.base).2) }
    else transactOnConn f b.base

/-- `transact` and `TransactCtx` over the extended domain: the same wrappers around `transactOnConnX` -/
def transactFnX (connOk : Bool) (f : Faults) (b : BodyX) : Result :=
  if !connOk then { log := [], runs := 0, body := .notRun, ret := some (Err.of .conn) }
  else transactOnConnX f b

def transactCtxX (env : Env) (f : Faults) (b : BodyX) : Result :=
  brkDo env.ctxDone env.ctxDead env.brkAllow (acceptable env.userAccept) (transactFnX env.connOk f b)

/-! ### round 5c: the session the body is given — which connection its statements run on, what a connection made
from the session answers, which context reaches the body and database/sql

`Wiring` is what the code decides (the Tie derives it from the source on every run: `Tie.extractedWiring`);
`codeWiring` is the code the theorems are about.  The driver-call log of the model is then placed on connections:
the transaction lives on connection 0; a statement made on the pool (`*sql.DB`) is given ANOTHER connection by
database/sql (the transaction's own is checked out) and runs outside the transaction. -/

inductive Handle
  | tx      -- the transaction's own *sql.Tx
  | pool    -- the *sql.DB
  deriving DecidableEq, Repr, Inhabited

inductive CtxArg
  | callers      -- the context the function was called with (or a child of it: startSpan)
  | background   -- context.Background()
  deriving DecidableEq, Repr, Inhabited

structure Wiring where
  bodySession     : Handle   -- what backs the Session `transactOnConn` hands to the body
  stmtHandle      : Handle   -- what a statement method of that session hands to database/sql (`.tx`: its own t.Tx)
  bodyCtx         : CtxArg   -- the context `transactOnConn` hands to the body, relative to its own
  stmtCtx         : CtxArg   -- the context a …Ctx statement method hands to database/sql, relative to the one it got
  plainStmtCtx    : CtxArg   -- … a context-less statement method
  rawDBRefused    : Bool     -- `txConn.RawDB` returns (nil, errNoRawDBFromTx)
  nestRefused     : Bool     -- `txConn.Transact[Ctx]` returns errCantNestTx without calling the body
  stmtErrReturned : Bool     -- a statement method returns the error of exec / query / PrepareContext unchanged
  deriving DecidableEq, Repr, Inhabited

def codeWiring : Wiring :=
  { bodySession := .tx, stmtHandle := .tx, bodyCtx := .callers, stmtCtx := .callers, plainStmtCtx := .background,
    rawDBRefused := true, nestRefused := true, stmtErrReturned := true }

/-- the connection a statement of the body arrives on -/
def Wiring.stmtConn (w : Wiring) : Nat :=
  match w.bodySession, w.stmtHandle with
  | .tx, .tx => 0
  | _, _ => 1

/-- the log on connections: Begin / Commit / Rollback on the transaction's connection 0 -/
def tagLog (w : Wiring) (l : List Ev) : List (Nat × Ev) :=
  l.map fun e => (match e with | .exec _ _ => w.stmtConn | .query _ _ => w.stmtConn | _ => 0, e)

/-- the statements that arrive on a connection with no transaction open on it (the harness driver logs them
`O<i>`); `st`: the connection that has one -/
def outsideTx : Option Nat → List (Nat × Ev) → List Ev
  | _, [] => []
  | st, (c, e) :: rest =>
    match e with
    | .begin true => outsideTx (some c) rest
    | .commit _ => outsideTx none rest
    | .rollback _ => outsideTx none rest
    | .exec _ _ => (if st == some c then [] else [e]) ++ outsideTx st rest
    | .query _ _ => (if st == some c then [] else [e]) ++ outsideTx st rest
    | _ => outsideTx st rest

def composeCtx : CtxArg → CtxArg → CtxArg
  | .callers, c => c
  | .background, _ => .background

/-- the context database/sql is handed for a statement of the body, relative to the context of the ENTRY point
(`viaCtx`: the body uses the …Ctx methods with the context it was given) -/
def Wiring.ctxAtDriver (w : Wiring) (entry : CtxArg) (viaCtx : Bool) : CtxArg :=
  if viaCtx then composeCtx entry (composeCtx w.bodyCtx w.stmtCtx) else w.plainStmtCtx

/-- what a `Transact` / `RawDB` on a connection made from the body's session does: (driver calls, an error comes
back, a *sql.DB / a run of the nested body comes back) -/
def Wiring.nestOutcome (w : Wiring) : List Ev × Bool × Bool :=
  if w.nestRefused then ([], true, false) else ([.begin true, .commit true], false, true)

def Wiring.rawDBOutcome (w : Wiring) : Bool × Bool :=      -- (an error comes back, a *sql.DB comes back)
  if w.rawDBRefused then (true, false) else (false, true)

/-- what the body sees of a statement the driver (or database/sql) failed -/
def Wiring.stmtErrSeen (w : Wiring) (failed : Bool) : Bool := failed && w.stmtErrReturned

/-! ### round 5: a nil function given to `WithAcceptable` (finding; fixes/not-applied/C14-withacceptable-nil.patch) -/

/-- a verdict function whose evaluation may call a nil function value: `none` = that call (a nil-call panic) -/
abbrev AccFnP := Option (Option Err → Option Bool)

/-- `WithAcceptable(new)` exactly as the pinned code has it, for a possibly nil `new`: installed as it is when
nothing is installed yet (a nil stays nil: harmless); otherwise the closure `pre(err) || new(err)` — which CALLS
the nil function whenever `pre` says false -/
def withAcceptablePinned (cur new : AccFnP) : AccFnP :=
  match cur with
  | none => new
  | some pre => some fun e =>
    match pre e with
    | some true => some true
    | some false => (match new with | some g => g e | none => none)
    | none => none

/-- with fixes/not-applied/C14-withacceptable-nil.patch: a nil argument leaves the connection as it is -/
def withAcceptableFixed (cur new : AccFnP) : AccFnP :=
  match new with
  | none => cur
  | some _ => withAcceptablePinned cur new

def liftFn (g : Option Err → Bool) : AccFnP := some fun e => some (g e)
def liftAcc (a : AccFn) : AccFnP := a.map fun g e => some (g e)

/-- the breaker wrapper when the verdict function can panic: an admitted request that returned is judged by
`acc`; if that evaluation calls a nil function the call leaves by that panic — after the request (the whole
transaction) has run -/
def brkDoP (acc : Option Err → Option Bool) (req : Result) : Result :=
  if req.escaped then { req with mark := none }
  else match acc req.ret with
    | some m => { req with mark := some m }
    | none => { req with escaped := true, ret := some (Err.of .panic), mark := none }

namespace Conc

/-! ### round 5c: two `Transact` calls in flight on one connection pool (small interleaving model)

Each call is `transactOnConn`: Begin (database/sql hands it a connection that no open transaction holds — the
pool never gives out a checked-out connection; which one is the scheduler's / pool's choice `c`), then its
statements one by one, then its one end, all on ITS connection (`tx` is a local of the call: the wiring of
`Props.statements_inside_the_transaction`).  The two calls interleave arbitrarily. -/

inductive PC
  | idle                  -- not begun
  | running (left : Nat)  -- transaction open, `left` statements to go
  | done                  -- ended
  deriving DecidableEq, Repr

structure St where
  pc     : Bool → PC
  conn   : Bool → Option Nat       -- the connection that holds the call's open transaction
  begins : Bool → Nat              -- Begins / ends of the call's transaction seen by the driver
  ends   : Bool → Nat
  /-- statements of call `t` that ran on a connection held by the OTHER call's transaction or by none -/
  stray  : Bool → Nat

def upd {α} (f : Bool → α) (t : Bool) (v : α) : Bool → α := fun x => if x = t then v else f x

/-- one step of call `t`; `c`: the connection the pool offers for a Begin; `n`: the length of the body -/
def step (n : Bool → Nat) (s : St) (t : Bool) (c : Nat) : Option St :=
  match s.pc t with
  | .idle =>
    -- the pool does not hand out a connection that holds an open transaction
    if s.conn (!t) = some c then none
    else some { s with pc := upd s.pc t (.running (n t)), conn := upd s.conn t (some c), begins := upd s.begins t (s.begins t + 1) }
  | .running (k + 1) =>
    -- a statement: on the call's own connection
    some { s with pc := upd s.pc t (.running k),
                  stray := upd s.stray t (s.stray t + (if s.conn t = none ∨ s.conn t = s.conn (!t) then 1 else 0)) }
  | .running 0 =>
    -- the one Commit / Rollback; the connection goes back to the pool
    some { s with pc := upd s.pc t .done, conn := upd s.conn t none, ends := upd s.ends t (s.ends t + 1) }
  | .done => none

def init : St :=
  { pc := fun _ => .idle, conn := fun _ => none, begins := fun _ => 0, ends := fun _ => 0, stray := fun _ => 0 }

/-- every schedule: a list of (call, offered connection) choices; steps that are not enabled are skipped -/
def run (n : Bool → Nat) : St → List (Bool × Nat) → St
  | s, [] => s
  | s, (t, c) :: rest =>
    match step n s t c with
    | some s' => run n s' rest
    | none => run n s rest

end Conc

end GoZero.C14
