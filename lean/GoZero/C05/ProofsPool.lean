/-
C05 — helper lemmas about `syncx.Pool`: the pool together with its users as a transition system
(any number of users, any order of Get/Put, any clock readings), its invariant, exclusivity.
-/
import GoZero.C05.Model
namespace GoZero.C05

/-- the pool and who currently uses which resource. -/
structure PSys where
  pool  : Pool
  inUse : List (Tid × Nat)

inductive POp where
  | get (t : Tid) (now : Nat)
  | put (t : Tid) (x : Nat) (now : Nat)
  deriving Repr, DecidableEq

/-- one atomic operation (Get and Put hold `p.lock` throughout; a Get that has to wait leaves the pool as it
found it after discarding expired resources, and retries later as a new `get`).
`none`: the caller broke the contract (Put of a resource it does not hold) — outside the property. -/
def PSys.step (s : PSys) : POp → Option PSys
  | .get t now =>
    match (s.pool.get now).2 with
    | .got item _ _ => some { pool := (s.pool.get now).1, inUse := (t, item) :: s.inUse }
    | .wait _ => some { pool := (s.pool.get now).1, inUse := s.inUse }
  | .put t x now =>
    if (t, x) ∈ s.inUse then some { pool := s.pool.put x now, inUse := s.inUse.erase (t, x) } else none

def PSys.init (limit maxAge : Nat) : PSys := { pool := Pool.init limit maxAge, inUse := [] }

inductive PReach (limit maxAge : Nat) : PSys → Prop where
  | init : PReach limit maxAge (PSys.init limit maxAge)
  | step {s s' : PSys} (op : POp) : PReach limit maxAge s → s.step op = some s' → PReach limit maxAge s'

structure PInv (limit : Nat) (s : PSys) : Prop where
  lim      : s.pool.limit = limit
  count    : s.pool.created = (s.pool.idle.length : Int) + (s.inUse.length : Int)
  le_limit : s.pool.created ≤ (limit : Int)
  idleND   : (s.pool.idle.map (·.item)).Nodup
  useND    : (s.inUse.map (·.2)).Nodup
  disjoint : ∀ x ∈ s.pool.idle.map (·.item), x ∉ s.inUse.map (·.2)
  freshI   : ∀ x ∈ s.pool.idle.map (·.item), x < s.pool.next
  freshU   : ∀ x ∈ s.inUse.map (·.2), x < s.pool.next

/-- what one run of the `for` loop of `Get` does. -/
theorem getLoop_spec (limit maxAge now next : Nat) (l : List PNode) (c : Int) (d : List Nat) :
    (getLoop limit maxAge now next l c d).1.limit = limit ∧
    (getLoop limit maxAge now next l c d).1.maxAge = maxAge ∧
    match (getLoop limit maxAge now next l c d).2 with
    | .got item false _ =>
      ∃ pre nd, l = pre ++ nd :: (getLoop limit maxAge now next l c d).1.idle ∧ nd.item = item ∧
        (getLoop limit maxAge now next l c d).1.created = c - (pre.length : Int) ∧
        (getLoop limit maxAge now next l c d).1.next = next
    | .got item true _ =>
      (getLoop limit maxAge now next l c d).1.idle = [] ∧ item = next ∧
        (getLoop limit maxAge now next l c d).1.next = next + 1 ∧
        (getLoop limit maxAge now next l c d).1.created = c - (l.length : Int) + 1 ∧ c - (l.length : Int) < (limit : Int)
    | .wait _ =>
      (getLoop limit maxAge now next l c d).1.idle = [] ∧
        (getLoop limit maxAge now next l c d).1.next = next ∧
        (getLoop limit maxAge now next l c d).1.created = c - (l.length : Int) ∧ ¬ (c - (l.length : Int) < (limit : Int)) := by
  induction l generalizing c d with
  | nil =>
    simp only [getLoop]
    split <;> simp_all
  | cons nd rest ih =>
    simp only [getLoop]
    split
    · have := ih (c - 1) (d ++ [nd.item])
      refine ⟨this.1, this.2.1, ?_⟩
      have h3 := this.2.2
      revert h3
      generalize getLoop limit maxAge now next rest (c - 1) (d ++ [nd.item]) = r
      obtain ⟨p', res⟩ := r
      cases res with
      | got item fresh dd =>
        cases fresh with
        | false =>
          simp only
          rintro ⟨pre, nd', h1, h2, h3, h4⟩
          refine ⟨nd :: pre, nd', by simp [h1], h2, ?_, h4⟩
          simp only [List.length_cons]; omega
        | true =>
          simp only
          rintro ⟨h1, h2, h3, h4, h5⟩
          refine ⟨h1, h2, h3, ?_, ?_⟩ <;> simp only [List.length_cons] <;> omega
      | wait dd =>
        simp only
        rintro ⟨h1, h2, h3, h4⟩
        refine ⟨h1, h2, ?_, ?_⟩ <;> simp only [List.length_cons] <;> omega
    · exact ⟨rfl, rfl, [], nd, by simp, rfl, by simp, rfl⟩

theorem nodup_map_erase_not_mem {α β : Type} [BEq α] [LawfulBEq α] (f : α → β) (l : List α) (a : α)
    (hnd : (l.map f).Nodup) (ha : a ∈ l) : f a ∉ (l.erase a).map f := by
  induction l with
  | nil => cases ha
  | cons b t ih =>
    have hc := List.nodup_cons.mp (show (f b :: t.map f).Nodup from hnd)
    by_cases hab : b = a
    · subst hab
      simp only [List.erase_cons_head]
      exact hc.1
    · have hat : a ∈ t := by
        rcases List.mem_cons.mp ha with h | h
        · exact absurd h.symm hab
        · exact h
      rw [List.erase_cons_tail (by simpa using hab)]
      simp only [List.map_cons, List.mem_cons, not_or]
      refine ⟨?_, ih hc.2 hat⟩
      intro heq
      apply hc.1
      rw [← heq]
      exact List.mem_map_of_mem hat

theorem pinv_init (limit maxAge : Nat) : PInv limit (PSys.init limit maxAge) := by
  refine ⟨rfl, by simp [PSys.init, Pool.init], by simp [PSys.init, Pool.init], ?_, ?_, ?_, ?_, ?_⟩ <;>
    simp [PSys.init, Pool.init]

theorem pinv_step {limit : Nat} {s s' : PSys} (op : POp) (hi : PInv limit s) (hs : s.step op = some s') :
    PInv limit s' := by
  obtain ⟨hlim, hcount, hle, hind, hund, hdis, hfi, hfu⟩ := hi
  cases op with
  | put t x now =>
    simp only [PSys.step] at hs
    split at hs
    next hmem =>
      injection hs with hs; subst hs
      have hx : x ∈ s.inUse.map (·.2) := List.mem_map_of_mem (f := (·.2)) hmem
      have hsub : (s.inUse.erase (t, x)).Sublist s.inUse := List.erase_sublist
      refine ⟨hlim, ?_, hle, ?_, ?_, ?_, ?_, ?_⟩
      · simp only [Pool.put, List.length_cons]
        rw [List.length_erase_of_mem hmem]
        have : 0 < s.inUse.length := List.length_pos_of_mem hmem
        simp only [hcount]; omega
      · simp only [Pool.put, List.map_cons]
        refine List.nodup_cons.mpr ⟨?_, hind⟩
        intro h; exact hdis x h hx
      · exact hund.sublist (hsub.map _)
      · intro y hy
        simp only [Pool.put, List.map_cons, List.mem_cons] at hy
        rcases hy with rfl | hy
        · have := nodup_map_erase_not_mem (fun x : Tid × Nat => x.2) s.inUse (t, y) hund hmem
          simpa using this
        · intro h; exact hdis y hy ((hsub.map _).subset h)
      · intro y hy
        simp only [Pool.put, List.map_cons, List.mem_cons] at hy
        rcases hy with rfl | hy
        · exact hfu y hx
        · exact hfi y hy
      · intro y hy; exact hfu y ((hsub.map _).subset hy)
    next => cases hs
  | get t now =>
    simp only [PSys.step, Pool.get] at hs
    have spec := getLoop_spec s.pool.limit s.pool.maxAge now s.pool.next s.pool.idle s.pool.created []
    revert spec hs
    generalize getLoop s.pool.limit s.pool.maxAge now s.pool.next s.pool.idle s.pool.created [] = r
    obtain ⟨p', res⟩ := r
    intro hs spec
    cases res with
    | wait dd =>
      simp only at hs spec
      injection hs with hs; subst hs
      obtain ⟨h1, _, h3, h4, h5, h6⟩ := spec
      refine ⟨by simp only; rw [h1, hlim], ?_, ?_, ?_, hund, ?_, ?_, ?_⟩
      · simp only [h3, h5, List.length_nil]; omega
      · simp only [h5]; omega
      · simp [h3]
      · simp [h3]
      · simp [h3]
      · simp only [h4]; exact hfu
    | got item fresh dd =>
      cases fresh with
      | true =>
        simp only at hs spec
        injection hs with hs; subst hs
        obtain ⟨h1, _, h3, h4, h5, h6, h7⟩ := spec
        subst h4
        refine ⟨by simp only; rw [h1, hlim], ?_, ?_, ?_, ?_, ?_, ?_, ?_⟩
        · simp only [h3, h6, List.length_nil, List.length_cons]; omega
        · simp only [h6]; rw [hlim] at h7; omega
        · simp [h3]
        · simp only [List.map_cons]
          refine List.nodup_cons.mpr ⟨?_, hund⟩
          intro h; exact Nat.lt_irrefl _ (hfu _ h)
        · simp [h3]
        · simp [h3]
        · intro y hy
          simp only [List.map_cons, List.mem_cons] at hy
          rw [h5]
          rcases hy with rfl | hy
          · omega
          · have := hfu y hy; omega
      | false =>
        simp only at hs spec
        injection hs with hs; subst hs
        obtain ⟨h1, _, pre, nd, h3, h4, h5, h6⟩ := spec
        subst h4
        have hmapeq : s.pool.idle.map (·.item) = pre.map (·.item) ++ nd.item :: p'.idle.map (·.item) := by
          rw [h3]; simp
        have hnd' := hind
        rw [hmapeq] at hnd'
        have hnd2 := (List.nodup_append.mp hnd').2.1
        have hnd3 := List.nodup_cons.mp hnd2
        have hsubI : ∀ y ∈ p'.idle.map (·.item), y ∈ s.pool.idle.map (·.item) := by
          intro y hy; rw [hmapeq]; simp [hy]
        have hitem : nd.item ∈ s.pool.idle.map (·.item) := by rw [hmapeq]; simp
        refine ⟨by simp only; rw [h1, hlim], ?_, ?_, hnd3.2, ?_, ?_, ?_, ?_⟩
        · simp only [h5, List.length_cons]
          have : s.pool.idle.length = pre.length + 1 + p'.idle.length := by
            rw [h3]; simp; omega
          omega
        · simp only [h5]; omega
        · simp only [List.map_cons]
          exact List.nodup_cons.mpr ⟨hdis _ hitem, hund⟩
        · intro y hy
          simp only [List.map_cons, List.mem_cons, not_or]
          refine ⟨?_, hdis y (hsubI y hy)⟩
          intro heq; subst heq; exact hnd3.1 hy
        · intro y hy; rw [h6]; exact hfi y (hsubI y hy)
        · intro y hy
          simp only [List.map_cons, List.mem_cons] at hy
          rw [h6]
          rcases hy with rfl | hy
          · exact hfi _ hitem
          · exact hfu y hy

theorem preach_inv {limit maxAge : Nat} {s : PSys} (h : PReach limit maxAge s) : PInv limit s := by
  induction h with
  | init => exact pinv_init limit maxAge
  | step op _ hs ih => exact pinv_step op ih hs

theorem nodup_map_inj {α β : Type} (f : α → β) (l : List α) (hnd : (l.map f).Nodup) (a b : α)
    (ha : a ∈ l) (hb : b ∈ l) (hf : f a = f b) : a = b := by
  induction l with
  | nil => cases ha
  | cons c t ih =>
    have hc := List.nodup_cons.mp (show (f c :: t.map f).Nodup from hnd)
    rcases List.mem_cons.mp ha with rfl | ha' <;> rcases List.mem_cons.mp hb with rfl | hb'
    · rfl
    · exact absurd (hf ▸ List.mem_map_of_mem (f := f) hb') hc.1
    · exact absurd (hf ▸ List.mem_map_of_mem (f := f) ha') hc.1
    · exact ih hc.2 ha' hb'

theorem nodup_of_nodup_map {α β : Type} (f : α → β) (l : List α) (hnd : (l.map f).Nodup) : l.Nodup := by
  induction l with
  | nil => exact List.nodup_nil
  | cons c t ih =>
    have hc := List.nodup_cons.mp (show (f c :: t.map f).Nodup from hnd)
    exact List.nodup_cons.mpr ⟨fun h => hc.1 (List.mem_map_of_mem (f := f) h), ih hc.2⟩

def GetResult.destroyed : GetResult → List Nat
  | .got _ _ d => d
  | .wait d => d

/-- the resources one `Get` destroys are exactly the leading expired idle nodes it walked over. -/
theorem getLoop_destroyed (limit maxAge now next : Nat) (l : List PNode) (c : Int) (d : List Nat) :
    ∃ pre, pre <+: l ∧ (∀ nd ∈ pre, expired maxAge now nd = true) ∧
      (match (getLoop limit maxAge now next l c d).2 with
       | .got _ _ dd => dd = d ++ pre.map (·.item)
       | .wait dd => dd = d ++ pre.map (·.item)) ∧
      (match (getLoop limit maxAge now next l c d).2 with
       | .got item false _ => ∃ nd, nd ∈ l ∧ nd.item = item ∧ expired maxAge now nd = false
       | _ => True) := by
  induction l generalizing c d with
  | nil =>
    refine ⟨[], List.prefix_refl _, by simp, ?_, ?_⟩ <;> simp only [getLoop] <;>
      by_cases hc : c < (limit : Int) <;> simp [hc]
  | cons nd rest ih =>
    simp only [getLoop]
    by_cases hexp : expired maxAge now nd = true
    · simp only [hexp, if_true]
      obtain ⟨pre, hp, he, hd, hg⟩ := ih (c - 1) (d ++ [nd.item])
      refine ⟨nd :: pre, ?_, ?_, ?_, ?_⟩
      · exact List.cons_prefix_cons.mpr ⟨rfl, hp⟩
      · intro x hx
        rcases List.mem_cons.mp hx with rfl | hx
        · exact hexp
        · exact he x hx
      · revert hd
        generalize (getLoop limit maxAge now next rest (c - 1) (d ++ [nd.item])).2 = res
        cases res <;> simp
      · revert hg
        generalize (getLoop limit maxAge now next rest (c - 1) (d ++ [nd.item])).2 = res
        cases res with
        | wait dd => simp
        | got item fresh dd =>
          cases fresh <;> simp
          rintro x hx h1 h2
          exact Or.inr ⟨x, hx, h1, h2⟩
    · simp only [hexp]
      refine ⟨[], List.nil_prefix, by simp, by simp, ?_⟩
      exact ⟨nd, by simp, rfl, by simpa using hexp⟩

end GoZero.C05
