/-
C05 — round 5c: the explicit TimeoutLimit + Cond model REFINES the generic, source-tied site program, so the
TimeoutLimit clauses are corollaries of the theorems about every disciplined site program (`sem_cap`,
`sem_used_counts_holders`, `sem_no_spurious_error`) instead of resting on a separate invariant proof.
(TimeoutLimit has no wait group: `sem_wait_means_free` has no counterpart here.)
-/
import GoZero.C05.ProofsSim
import GoZero.C05.Props
import GoZero.C05.ProofsWG
import GoZero.C05.ModelCond
import GoZero.C05.ModelOpts
namespace GoZero.C05

/-- **Simulation.**  Every reachable state of ModelTL (any capacity, any number of callers, any order of
TryBorrow / park / timer / Signal delivered or lost / retry / Return) is the image, under the location → row map
`Loc.row`, of a reachable state of `Programs.timeoutLimitClient` — the table whose tokens AND instructions are tied to
`TimeoutLimit.Borrow/Return` (`tie_timeoutLimit`, `tie_eff_timeoutLimit`) — with the same channel length. -/
theorem tl_refines_site_program (n : Nat) (s : TLSt) (h : TLReach n s) :
    ∃ σ, Reach Programs.timeoutLimitClient n σ ∧ σ.cap = s.cap ∧ σ.used = s.used
      ∧ (∀ t, σ.pc t = (s.pc t).row) ∧ (∀ t, s.pc t = .errReturn → σ.err t = true) := by
  obtain ⟨σ, hr, hR⟩ := sim_reach h
  exact ⟨σ, hr, hR.cap, hR.used, hR.pc, hR.err⟩

/-- a location owns a permit exactly when its row of the site program does. -/
theorem holds_row (l : Loc) : H Programs.timeoutLimitClient l.row = holdsL l := by
  cases l <;> rfl

/-- **The cap for TimeoutLimit, as a corollary of `sites_cap`** (through the simulation). -/
theorem tl_cap_via_sites (n : Nat) (s : TLSt) (h : TLReach n s) (l : List Tid) (hl : l.Nodup)
    (hin : ∀ t ∈ l, s.pc t = .holding) : l.length ≤ n := by
  obtain ⟨σ, hr, hR⟩ := sim_reach h
  refine sites_cap "syncx.TimeoutLimit" _ (by decide) n σ hr l hl ?_
  intro t ht
  have : σ.pc t = 7 := by rw [hR.pc, hin t ht]; rfl
  simp [inCrit, this, Programs.timeoutLimitClient, isUser]

/-- **No leak for TimeoutLimit, as a corollary of `sem_used_counts_holders`**: nobody inside ⇒ the channel is
empty, whatever borrowers are parked, timed out or about to signal. -/
theorem tl_no_leak_via_sites (n : Nat) (s : TLSt) (h : TLReach n s) (hq : ∀ t, s.pc t ≠ .holding) :
    s.used = 0 ∧ s.cap = n := by
  obtain ⟨σ, hr, hR⟩ := sim_reach h
  obtain ⟨_, hs, _, hmem, hlen⟩ := sem_used_counts_holders _ (by decide) n σ hr
  have hnil : hs = [] := by
    cases hs with
    | nil => rfl
    | cons t _ =>
      exfalso
      have hH := (hmem t).2 (List.mem_cons_self ..)
      rw [hR.pc, holds_row] at hH
      have := hq t
      cases hl : s.pc t <;> simp [hl, holdsL] at hH this
  rw [hnil] at hlen
  exact ⟨by rw [← hR.used]; exact hlen.symm, by rw [← hR.cap]; exact reach_cap hr⟩

/-- **No spurious ErrLimitReturn for TimeoutLimit, as a corollary of `sem_no_spurious_error`.** -/
theorem tl_no_spurious_error_via_sites (n : Nat) (s : TLSt) (h : TLReach n s) (t : Tid) : s.pc t ≠ .errReturn := by
  obtain ⟨σ, hr, hR⟩ := sim_reach h
  intro he
  have := sem_no_spurious_error _ (by decide) n σ hr t
  rw [hR.err t he] at this
  cases this

/-- **Progress (no deadlock)**: in every state (reachable or not) every caller that has not finished has an enabled action
of its own — a parked borrower always has its timer, a holder can always return (its permit is in the channel),
a signaller is never blocked (delivered to a parked waiter or dropped).  This is the liveness that DOES hold;
what does not hold is "every Return is followed by a waiting Borrow proceeding" (`tl_lost_wakeup_window`: a Signal
sent while the only waiter stands between its failed TryBorrow and its `select` is dropped). -/
theorem tl_no_deadlock (s : TLSt) (t : Tid) (hnf : finishedL (s.pc t) = false) :
    ∃ a s', a.actor = t ∧ TLStep s a s' := by
  cases hl : s.pc t with
  | idle => rw [hl] at hnf; cases hnf
  | timedOut => rw [hl] at hnf; cases hnf
  | refused => rw [hl] at hnf; cases hnf
  | done => rw [hl] at hnf; cases hnf
  | errReturn => rw [hl] at hnf; cases hnf
  | preWait => exact ⟨.park t, _, rfl, .park hl⟩
  | waiting => exact ⟨.timer t, _, rfl, .timer hl⟩
  | tryAgain left =>
    by_cases hf : s.used < s.cap
    · exact ⟨.retry t, _, rfl, .retryOk hl hf⟩
    · cases left
      · exact ⟨.retry t, _, rfl, .retryTimedOut hl hf⟩
      · exact ⟨.retry t, _, rfl, .retryWaitAgain hl hf⟩
  | holding =>
    by_cases hp : 0 < s.used
    · exact ⟨.leave t, _, rfl, .leaveOk hl hp⟩
    · exact ⟨.leave t, _, rfl, .leaveErr hl (by omega)⟩
  | signal =>
    by_cases hw : ∃ w, s.pc w = .waiting
    · obtain ⟨w, hw⟩ := hw
      exact ⟨.deliver t w true, _, rfl, .deliver hl hw⟩
    · exact ⟨.signalLost t, _, rfl, .signalLost hl (fun w hw' => hw ⟨w, hw'⟩)⟩

/-- **A Signal is dropped only in the window**: when a returning caller's Signal is lost while a permit is free
and some borrower has not been served, that borrower stands between its failed `TryBorrow` and its `select`
(`preWait`) or is about to retry (`tryAgain`) — never parked. -/
theorem tl_signal_lost_only_unparked {s s' : TLSt} {u : Tid} (hs : TLStep s (.signalLost u) s') (t : Tid) :
    s.pc t ≠ .waiting := by
  cases hs with
  | signalLost _ hno => exact hno t

/-- non-vacuity of the simulation: the run of `tl_signal_wins_race` (a parked borrower woken by a Return takes the
permit) has an image in the site program with one permit out. -/
example : ∃ s, TLReach 1 s ∧ s.pc 1 = .holding ∧ s.used = 1 :=
  ⟨_, .step (.retry 1) (.step (.deliver 0 1 false) (.step (.leave 0) (.step (.park 1) (.step (.borrow 1)
    (.step (.borrow 0) .init (.borrowOk rfl (by decide))) (.borrowFull rfl (by decide))) (.park rfl))
    (.leaveOk rfl (by decide))) (.deliver rfl rfl)) (.retryOk rfl (by decide)), rfl, rfl⟩

/-! ## `WorkerGroup.Start` as the real program: the spawn loop is a model step -/

/-- **The cap of `WorkerGroup`, for the real program.**  `Start` with `workers = w` (any Go `int`, also 0 or
negative): in every reachable state — any schedule of the `Start` call and of any number of goroutines, jobs ending
by return, panic or Goexit in any order — the goroutines that are running are at most `w` (none for `w ≤ 0`), each
of them was spawned by the loop (`j < i`), and the loop variable never passes `w`.  (`workerGroup_cap` assumed
"only k threads act"; here that is a consequence of the spawn loop.) -/
theorem workerGroup_cap_real (w : Int) (s : WGSt) (h : WGReach w s) (l : List Tid) (hl : l.Nodup)
    (hin : ∀ t ∈ l, s.job t = .running) : l.length ≤ w.toNat ∧ (s.i ≤ w ∨ s.i = 0) := by
  have hi := wgreach_inv h
  refine ⟨nodup_lt_length hl ?_, hi.ile⟩
  intro t ht
  have hrun := hin t ht
  have h1 := hi.ile
  have h2 := hi.inn
  have key : ∀ k : Nat, s.job k = .running → k < w.toNat := by
    intro k hk
    have hlt : (k : Int) < s.i := by
      apply Classical.byContradiction
      intro hge
      have := hi.fresh k (by omega)
      rw [hk] at this; cases this
    omega
  exact key t hrun

/-- the wait-group counter is exactly the number of running goroutines. -/
theorem workerGroup_wg_counts (w : Int) (s : WGSt) (h : WGReach w s) :
    ∃ rs : List Tid, rs.Nodup ∧ (∀ t, isRunning (s.job t) = true ↔ t ∈ rs) ∧ rs.length = s.wg :=
  (wgreach_inv h).tracks

/-- **`Start` returns only after exactly `workers` jobs were started and every one of them has ended**: when
`group.Wait()` has returned, goroutines `0 … w-1` have all ended, no other goroutine was ever started, none is running. -/
theorem workerGroup_start_returns_after_all_real (w : Int) (s : WGSt) (h : WGReach w s) (hr : s.start = .returned) :
    (∀ j : Nat, (j : Int) < w → s.job j = .ended) ∧ (∀ j : Nat, w ≤ (j : Int) → s.job j = .notStarted)
    ∧ ∀ j, s.job j ≠ .running := by
  have hi := wgreach_inv h
  have hnl : s.start ≠ .loop := by rw [hr]; simp
  have hex := hi.exited hnl
  have hz := hi.ret hr
  have hnorun : ∀ j, s.job j ≠ .running := by
    intro j hj
    have := tracks_pos hi.tracks j (by rw [hj]; rfl)
    omega
  refine ⟨?_, ?_, hnorun⟩
  · intro j hj
    have hb := hi.below j (by have := hi.ile; have := hi.inn; omega)
    have hn := hnorun j
    cases hjj : s.job j <;> simp_all
  · intro j hj
    exact hi.fresh j (by have := hi.ile; have := hi.inn; omega)

/-- the `Start` call is never stuck before its `Wait`, and a running goroutine can always end: the loop either
spawns or exits. -/
theorem workerGroup_loop_progress (s : WGSt) (hl : s.start = .loop) : ∃ s', WGStep s s' := by
  cases ht : wgLoopTest s.i s.workers
  · exact ⟨_, .loopExit hl ht⟩
  · exact ⟨_, .spawn hl ht⟩

/-- non-vacuity: `workers = 2`: both goroutines running at once, then both end (one "by panic": the same step),
`Wait` returns. -/
example : ∃ s, WGReach 2 s ∧ s.job 0 = .running ∧ s.job 1 = .running ∧ s.wg = 2 :=
  ⟨_, .step (.step .init (.spawn rfl rfl)) (.spawn rfl rfl), rfl, rfl, rfl⟩

example : ∃ s, WGReach 0 s ∧ s.start = .returned :=
  ⟨_, .step (.step .init (.loopExit rfl rfl)) (.waitReturns rfl rfl), rfl⟩

/-! ## `syncx.Cond`: Wait / WaitWithTimeout / Signal -/

/-- **A Signal wakes exactly one parked waiter, which proceeds**: the receiver leaves its `Wait` /
`WaitWithTimeout` (with `ok = true`), every other goroutine stays where it is. -/
theorem cond_signal_wakes_exactly_one {s s' : CSt} {t : Tid} {e : Int} (h : CStep s (.signalTo t e) s') :
    isParked (s t) = true ∧ (∃ r, s' t = .proceeded r true) ∧ ∀ u, u ≠ t → s' u = s u := by
  cases h with
  | toWait ht => exact ⟨by rw [ht]; rfl, ⟨0, by simp [upd]⟩, fun u hu => by simp [upd, hu]⟩
  | toTimed ht =>
    refine ⟨by rw [ht]; rfl, ?_, fun u hu => by simp [upd, hu]⟩
    simp only [upd, if_true, waitResult]
    exact ⟨_, rfl⟩

/-- **`Signal` never blocks** and is lost exactly when nobody is parked (the channel is unbuffered: nothing is stored
for a later waiter — `tie_cond_channel`). -/
theorem cond_signal_never_blocks (s : CSt) :
    (∃ t e s', CStep s (.signalTo t e) s') ∨ (CStep s .signalLost s ∧ ∀ t, isParked (s t) = false) := by
  by_cases h : ∃ t, isParked (s t) = true
  · obtain ⟨t, ht⟩ := h
    left
    cases hl : s t with
    | parkedWait => exact ⟨t, 0, _, .toWait hl⟩
    | parkedTimed d => exact ⟨t, 0, _, .toTimed hl⟩
    | idle => rw [hl] at ht; cases ht
    | proceeded _ _ => rw [hl] at ht; cases ht
  · right
    have hn : ∀ t, isParked (s t) = false := by
      intro t
      cases hp : isParked (s t)
      · rfl
      · exact absurd ⟨t, hp⟩ h
    exact ⟨.lost hn, hn⟩

theorem cond_signal_lost_changes_nothing {s s' : CSt} (h : CStep s .signalLost s') :
    s' = s ∧ ∀ t, isParked (s t) = false := by
  cases h with
  | lost hn => exact ⟨rfl, hn⟩

/-- **What `WaitWithTimeout(timeout)` returns.**  Signalled: `(timeout − elapsed, true)`; timer: `(0, false)`.
With `elapsed ≥ 0` the remaining time never exceeds the timeout, and it is non-negative EXACTLY when the signal was
received within the timeout.  It CAN be negative (`cond_remaining_can_be_negative`): `select` picks at random between a
ready signal and a fired timer, and the clock is read after the receive — "never negative" is not what the code
guarantees; its only caller on the property's path, `TimeoutLimit.Borrow`, treats `timeout <= 0` as expired
(`tie_timeoutLimit_conds`), so a negative value is an immediate `ErrTimeout` unless the retry gets a permit. -/
theorem cond_wait_result (timeout elapsed : Int) (he : 0 ≤ elapsed) :
    waitResult timeout (.signalled elapsed) = (timeout - elapsed, true)
    ∧ (waitResult timeout (.signalled elapsed)).1 ≤ timeout
    ∧ (0 ≤ (waitResult timeout (.signalled elapsed)).1 ↔ elapsed ≤ timeout)
    ∧ waitResult timeout .timerFired = (0, false) := by
  refine ⟨rfl, ?_, ?_, rfl⟩ <;> simp only [waitResult] <;> omega

theorem cond_remaining_can_be_negative : waitResult 5 (.signalled 7) = (-2, true) := by decide

/-- a `Borrow` that is woken k times has, after the k-th wake-up, its original timeout minus the time spent parked:
the remaining timeouts handed from round to round are the model's `waitResult` values. -/
def remainAfter (timeout : Int) : List Int → Int
  | [] => timeout
  | e :: es => remainAfter (waitResult timeout (.signalled e)).1 es

theorem borrow_time_budget (timeout : Int) (es : List Int) : remainAfter timeout es = timeout - es.sum := by
  induction es generalizing timeout with
  | nil => simp [remainAfter]
  | cons e es ih => simp only [remainAfter, waitResult, ih, List.sum_cons]; omega

/-! ## the edges of the quantifier: capacity 0, a panicking `create` callback -/

/-- **n = 0** (outside "for all capacities n ≥ 1", but the models do not need the bound): with capacity 0 nobody is
ever inside the guarded region of any site, a `TryBorrow` / `ScheduleImmediately` / request is refused, a blocking
acquire blocks, `Return` reports `ErrLimitReturn` — "requests beyond the cap are refused or blocked, never admitted"
with every request beyond the cap.  (`NewPool(0)` panics, `WithWorkers(0)` is floored to 1, `MaxConnsHandler(0)` is
no limiter at all: `tie_pool_conds`, `effWorkers_spec`, `engineCap_spec`.) -/
theorem zero_capacity_admits_nothing :
    (∀ name p, (name, p) ∈ Programs.all → ∀ s, Reach p 0 s → ∀ t, inCrit p s t = false)
    ∧ (Sem.init 0).step .tryBorrow = (Sem.init 0, .refused)
    ∧ (Sem.init 0).step .borrow = (Sem.init 0, .blocked)
    ∧ (Sem.init 0).step .ret = (Sem.init 0, .errReturn) := by
  refine ⟨?_, rfl, rfl, rfl⟩
  intro name p hx s h t
  cases hc : inCrit p s t
  · rfl
  · have := sites_cap name p hx 0 s h [t] (by simp) (by simpa using hc)
    simp at this

/-- `k` consecutive `Get` calls whose `create` callback panics. -/
def createPanicsTimes : Nat → Pool → Pool
  | 0, p => p
  | k + 1, p => createPanicsTimes k (p.getCreatePanics 0).1

theorem createPanics_once (limit maxAge next : Nat) (c : Nat) (h : c < limit) :
    (({ limit := limit, maxAge := maxAge, created := (c : Int), idle := [], next := next } : Pool).getCreatePanics 0).1
      = { limit := limit, maxAge := maxAge, created := ((c + 1 : Nat) : Int), idle := [], next := next } := by
  have hc : ((c : Int) < (limit : Int)) := by omega
  simp [Pool.getCreatePanics, Pool.get, getLoop, hc]

theorem createPanics_many (limit maxAge next : Nat) (k c : Nat) (h : c + k ≤ limit) :
    createPanicsTimes k { limit := limit, maxAge := maxAge, created := (c : Int), idle := [], next := next }
      = { limit := limit, maxAge := maxAge, created := ((c + k : Nat) : Int), idle := [], next := next } := by
  induction k generalizing c with
  | zero => rfl
  | succ k ih =>
    simp only [createPanicsTimes]
    rw [createPanics_once limit maxAge next c (by omega), ih (c + 1) (by omega)]
    congr 2
    omega

/-- **A panicking `create` callback (decision: OUTSIDE the property's quantifier — "panics inside holders": the
caller never became a holder — but modelled as the code is).**  `Pool.Get` has run `p.created++` before it calls
`create`; a panic leaves through the deferred `Unlock` and nothing takes the increment back.  Consequence, for every
limit: after `limit` such calls on a fresh pool the counter is at the limit with NO resource alive, and the next `Get`
waits for ever although nothing is in use.  Whoever wants the property to cover this case needs a deferred decrement
on the create path (robustness proposal, not claimed as a defect). -/
theorem pool_create_panics_exhaust (limit maxAge : Nat) :
    (createPanicsTimes limit (Pool.init limit maxAge)).created = limit
    ∧ (createPanicsTimes limit (Pool.init limit maxAge)).idle = []
    ∧ ((createPanicsTimes limit (Pool.init limit maxAge)).get 0).2 = .wait [] := by
  have h := createPanics_many limit maxAge 0 limit 0 (by omega)
  simp only [Nat.zero_add] at h
  have h0 : (Pool.init limit maxAge) = { limit := limit, maxAge := maxAge, created := ((0 : Nat) : Int), idle := [], next := 0 } := rfl
  rw [h0, h]
  refine ⟨rfl, rfl, ?_⟩
  simp [Pool.get, getLoop]

/-! ## delegating entry points -/

/-- **Every entry point that hands on its own `opts...` at every hop gets the capacity of ITS caller's options**
(whatever the list: none, several `WithWorkers`, values ≤ 0, `UnlimitedWorkers`).  The chains of the real entry points
are read from the source (`tie_entry_chains`). -/
theorem entry_cap_own (chain : List Fwd) (h : ∀ f ∈ chain, f = .own) (opts : List WOpt) :
    capThrough chain opts = streamCap opts := by
  unfold capThrough
  congr 1
  induction chain generalizing opts with
  | nil => rfl
  | cons f fs ih =>
    have hf := h f (List.mem_cons_self ..)
    subst hf
    exact ih (fun g hg => h g (List.mem_cons_of_mem _ hg)) opts

/-- a hop that drops the options gives every caller the default of 16 workers, whatever was asked for: with
`WithWorkers(4)` five mappers can be inside at once (seeded change C05-11, mutation m4). -/
theorem entry_cap_dropped (pre post : List Fwd) (hpost : ∀ f ∈ post, f = .own) (opts : List WOpt) :
    capThrough (pre ++ .nothing :: post) opts = some 16 := by
  unfold capThrough
  rw [List.foldl_append, List.foldl_cons]
  have : ∀ (l : List Fwd), (∀ f ∈ l, f = .own) → ∀ o, l.foldl (fun o f => f.apply o) o = o := by
    intro l
    induction l with
    | nil => intros; rfl
    | cons f fs ih =>
      intro hl o
      have hf := hl f (List.mem_cons_self ..)
      subst hf
      exact ih (fun g hg => hl g (List.mem_cons_of_mem _ hg)) o
  rw [this post hpost]
  rfl

/-- `Finish` / `FinishVoid` with k functions: the capacity is `max k 1`, whatever else is in the chain below. -/
theorem entry_cap_finish (k : Int) (post : List Fwd) (hpost : ∀ f ∈ post, f = .own) (opts : List WOpt) :
    capThrough (.fixed k :: post) opts = streamCap [.withWorkers k] :=
  entry_cap_own post hpost _

example : capThrough [.own, .own] [.withWorkers 4] = some 4 ∧ capThrough [.nothing, .own] [.withWorkers 4] = some 16 := by
  decide

end GoZero.C05
