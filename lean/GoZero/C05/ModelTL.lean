/-
C05 — `syncx.TimeoutLimit` together with `syncx.Cond`, modelled EXPLICITLY (core Lean only).

The generic site program `Programs.timeoutLimitClient` (Model.lean) treats the wake-up of
`Cond.WaitWithTimeout` as an arbitrary choice of the environment.  Here the condition variable is what the
code is: an UNBUFFERED channel `cond.signal` (`make(chan lang.PlaceholderType)`, tied), on which

* `WaitWithTimeout` is `select { case <-cond.signal: …  case <-timer.C: … }` — a waiter is either not yet
  parked in that `select` (`preWait`: the window between the failed `TryBorrow` and the `select`), or parked
  (`waiting`);
* `Signal` is `select { case cond.signal <- x:  default: }` — a rendezvous with ONE parked receiver if there
  is one (Go takes a ready communication before `default`), otherwise nothing happens (the signal is lost).

Locations of one caller (`Borrow(timeout)` … guarded work … deferred `Return()`), rows of
`Programs.timeoutLimitClient` in brackets:

  idle → [0] first `l.TryBorrow()` → holding [7]            (permit free)
                                   → preWait [2] → waiting [2]   (full)
  waiting → timer fires → `0,false` → skips the TryBorrow, `timeout <= 0` → timedOut [6,12] (ErrTimeout)
  waiting → receives a Signal → tryAgain left [3]   (`left`: remaining timeout > 0)
  tryAgain → `ok && l.TryBorrow()` → holding | (full again: a barger took it) left → preWait, else timedOut
  holding → the guarded work ends (return or panic), deferred `l.limit.Return()` [8]: receive → signal [11]
                                                                  | empty → errReturn [10] (ErrLimitReturn)
  signal → `l.cond.Signal()` → done [12]   (delivered to one parked waiter, or lost)
-/
import GoZero.C05.Model
namespace GoZero.C05

inductive Loc where
  | idle | preWait | waiting
  | tryAgain (left : Bool)
  | holding | signal | errReturn | timedOut | refused | done
  deriving Repr, DecidableEq

structure TLSt where
  cap  : Nat
  used : Nat                    -- `len(l.limit.pool)`
  pc   : Tid → Loc

def TLSt.init (n : Nat) : TLSt := { cap := n, used := 0, pc := fun _ => .idle }

/-- the caller is inside the guarded region / owns a permit. -/
def holdsL : Loc → Bool
  | .holding => true
  | _ => false

/-- the call has ended (or never started) without owning anything. -/
def finishedL : Loc → Bool
  | .idle | .timedOut | .refused | .done | .errReturn => true
  | _ => false

inductive TLAct where
  | borrow (t : Tid)                        -- `Borrow`: the first `l.TryBorrow()`
  | tryOnly (t : Tid)                       -- `TimeoutLimit.TryBorrow()` used by itself
  | park (t : Tid)                          -- enters the `select` of `WaitWithTimeout`
  | timer (t : Tid)                         -- `<-timer.C`
  | deliver (u t : Tid) (left : Bool)       -- `Signal` of `u` received by the parked `t`
  | signalLost (u : Tid)                    -- `Signal` of `u`, nobody parked: `default:`
  | retry (t : Tid)                         -- `ok && l.TryBorrow()`, then `if timeout <= 0`
  | leave (t : Tid)                         -- guarded work ends (return / panic): `l.limit.Return()`
  deriving Repr, DecidableEq

/-- the goroutine that performs the action. -/
def TLAct.actor : TLAct → Tid
  | .borrow t | .tryOnly t | .park t | .timer t | .signalLost t | .retry t | .leave t => t
  | .deliver u _ _ => u

inductive TLStep : TLSt → TLAct → TLSt → Prop where
  | borrowOk {s : TLSt} {t : Tid} : s.pc t = .idle → s.used < s.cap →
      TLStep s (.borrow t) { s with used := s.used + 1, pc := upd s.pc t .holding }
  | borrowFull {s : TLSt} {t : Tid} : s.pc t = .idle → ¬ s.used < s.cap →
      TLStep s (.borrow t) { s with pc := upd s.pc t .preWait }
  | tryOk {s : TLSt} {t : Tid} : s.pc t = .idle → s.used < s.cap →
      TLStep s (.tryOnly t) { s with used := s.used + 1, pc := upd s.pc t .holding }
  | tryFull {s : TLSt} {t : Tid} : s.pc t = .idle → ¬ s.used < s.cap →
      TLStep s (.tryOnly t) { s with pc := upd s.pc t .refused }
  | park {s : TLSt} {t : Tid} : s.pc t = .preWait →
      TLStep s (.park t) { s with pc := upd s.pc t .waiting }
  | timer {s : TLSt} {t : Tid} : s.pc t = .waiting →
      TLStep s (.timer t) { s with pc := upd s.pc t .timedOut }
  | deliver {s : TLSt} {u t : Tid} {left : Bool} : s.pc u = .signal → s.pc t = .waiting →
      TLStep s (.deliver u t left) { s with pc := upd (upd s.pc u .done) t (.tryAgain left) }
  | signalLost {s : TLSt} {u : Tid} : s.pc u = .signal → (∀ t, s.pc t ≠ .waiting) →
      TLStep s (.signalLost u) { s with pc := upd s.pc u .done }
  | retryOk {s : TLSt} {t : Tid} {left : Bool} : s.pc t = .tryAgain left → s.used < s.cap →
      TLStep s (.retry t) { s with used := s.used + 1, pc := upd s.pc t .holding }
  | retryWaitAgain {s : TLSt} {t : Tid} : s.pc t = .tryAgain true → ¬ s.used < s.cap →
      TLStep s (.retry t) { s with pc := upd s.pc t .preWait }
  | retryTimedOut {s : TLSt} {t : Tid} : s.pc t = .tryAgain false → ¬ s.used < s.cap →
      TLStep s (.retry t) { s with pc := upd s.pc t .timedOut }
  | leaveOk {s : TLSt} {t : Tid} : s.pc t = .holding → 0 < s.used →
      TLStep s (.leave t) { s with used := s.used - 1, pc := upd s.pc t .signal }
  | leaveErr {s : TLSt} {t : Tid} : s.pc t = .holding → s.used = 0 →
      TLStep s (.leave t) { s with pc := upd s.pc t .errReturn }

inductive TLReach (n : Nat) : TLSt → Prop where
  | init : TLReach n (TLSt.init n)
  | step {s s' : TLSt} (a : TLAct) : TLReach n s → TLStep s a s' → TLReach n s'

/-- which row of the (source-tied) site program `Programs.timeoutLimitClient` a location stands at. -/
def Loc.row : Loc → Nat
  | .idle => 0
  | .preWait | .waiting => 2
  | .tryAgain _ => 3
  | .holding => 7
  | .signal => 11
  | .errReturn => 10
  | .timedOut => 6
  | .refused | .done => 12

end GoZero.C05
