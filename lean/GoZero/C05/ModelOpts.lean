/-
C05 — option handling of the worker pools (`core/fx/stream.go`, `core/mr/mapreduce.go`): where the capacity
`n` of `walkLimited` / `executeMappers` COMES FROM.  Core Lean only (the driver uses `streamCap`).

1. the pure reading: `buildOptions opts = opts.foldl applyOpt newOptions`, `streamCap opts` = the capacity of
   the `pool` channel of the stream that was given exactly `opts` (`none` = `UnlimitedWorkers`: `Walk` takes
   `walkUnlimited`, no pool at all).
2. the code as it is: `buildOptions` ALLOCATES (`newOptions()` returns `&rxOptions{workers: defaultWorkers}`),
   then applies the option closures one by one THROUGH THE POINTER, then the caller reads the struct.  `BSt` is a
   heap with any number of threads (= streams, also concurrent ones) each running its own `buildOptions` call;
   `shared = true` is the variant with ONE package-level struct handed to everybody (what a "no need to
   allocate" optimisation turns the code into) — kept to show what the allocation is needed for.
-/
import GoZero.C05.Model
namespace GoZero.C05

/-- `fx.WithWorkers(k)` / `mr.WithWorkers(k)` / `fx.UnlimitedWorkers()` (mr has no `unlimited`). -/
inductive WOpt where
  | withWorkers (k : Int)
  | unlimited
  deriving Repr, DecidableEq

/-- `fx.rxOptions` (for `mr.mapReduceOptions` the flag stays `false`; its `ctx` field is irrelevant here). -/
structure RxOptions where
  unlimited : Bool
  workers   : Int
  deriving Repr, DecidableEq

/-- `defaultWorkers` of both packages. -/
def defaultWorkers : Int := 16

/-- `newOptions()`: `&rxOptions{workers: defaultWorkers}`. -/
def newOptions : RxOptions := { unlimited := false, workers := defaultWorkers }

/-- the closure an option constructor returns, applied to the struct behind the pointer. -/
def applyOpt (o : RxOptions) : WOpt → RxOptions
  | .withWorkers k => { o with workers := effWorkers k }
  | .unlimited => { o with unlimited := true }

/-- `buildOptions(opts...)` read as a function of ITS OWN arguments. -/
def buildOptions (opts : List WOpt) : RxOptions := opts.foldl applyOpt newOptions

/-- what bounds the workers of a stream built with `opts`: `some n` = `walkLimited`/`executeMappers` with
`pool := make(chan _, n)`; `none` = `walkUnlimited`. -/
def capOf (o : RxOptions) : Option Nat := if o.unlimited then none else some o.workers.toNat

def streamCap (opts : List WOpt) : Option Nat := capOf (buildOptions opts)

/-! ### the construction: heap, pointers, any number of concurrent `buildOptions` calls -/

structure BSt where
  heap : Nat → RxOptions          -- address ↦ struct
  next : Nat                      -- next address the allocator hands out
  ptr  : Tid → Option Nat         -- the local `options` of call `t` (none: `newOptions()` not yet called)
  todo : Tid → List WOpt          -- option closures not yet applied by call `t`

/-- address 0 holds what a package-level `var defaultOptions = newOptions()` would hold. -/
def BSt.init (opts : Tid → List WOpt) : BSt :=
  { heap := fun _ => newOptions, next := 1, ptr := fun _ => none, todo := opts }

/-- one atomic action of call `t`.  `shared = false`: the code that exists (fresh struct per call).
`shared = true`: `options := defaultOptions` (everybody gets address 0). -/
def bstep (shared : Bool) (s : BSt) (t : Tid) : Option BSt :=
  match s.ptr t with
  | none =>
    if shared then some { s with ptr := upd s.ptr t (some 0) }
    else some { s with heap := fun a => if a = s.next then newOptions else s.heap a,
                       next := s.next + 1, ptr := upd s.ptr t (some s.next) }
  | some a =>
    match s.todo t with
    | [] => none                                           -- `return options`
    | o :: rest =>
      some { s with heap := fun b => if b = a then applyOpt (s.heap a) o else s.heap b, todo := upd s.todo t rest }

def brun (shared : Bool) (s : BSt) : List Tid → Option BSt
  | [] => some s
  | t :: l => match bstep shared s t with
    | some s' => brun shared s' l
    | none => none

/-- what call `t` gets back when it has applied all its options (`none` while it is still running). -/
def BSt.result (s : BSt) (t : Tid) : Option RxOptions :=
  match s.ptr t, s.todo t with
  | some a, [] => some (s.heap a)
  | _, _ => none

/-- the sequence of streams of ONE process as the driver replays it: stream `i` is bounded by the cap of its own
option list, whatever the streams before it were given. -/
def seqCaps (streams : List (List WOpt)) : List (Option Nat) := streams.map streamCap

/-! ### delegating entry points: what reaches `buildOptions` -/

/-- what a delegating entry point puts in the option position of the call it delegates to: its OWN `opts...`,
nothing at all (the slip of seeded change C05-11 / mutation m4), or a fixed `WithWorkers(k)` (`Finish`, `FinishVoid`:
`k = len(fns)`). -/
inductive Fwd where
  | own | nothing | fixed (k : Int)
  deriving Repr, DecidableEq

def Fwd.apply : Fwd → List WOpt → List WOpt
  | .own, o => o
  | .nothing, _ => []
  | .fixed k, _ => [.withWorkers k]

/-- the capacity a stream gets when the caller's option list travels through a chain of delegating calls (outermost
first) down to `buildOptions`. -/
def capThrough (chain : List Fwd) (opts : List WOpt) : Option Nat :=
  streamCap (chain.foldl (fun o f => f.apply o) opts)

end GoZero.C05
