/-
C05 — executable monitors: the property evaluated on what the IMPLEMENTATION did (core Lean only).

* `SeqMon`   sequential runs of one limiting object: counts the permits the implementation itself said it
             handed out and took back; alarms when it admits beyond `n`, accepts an over-return, reports an
             error/refusal although permits are outstanding/free, or when the measured free capacity is not
             `n − outstanding`.
* `HistMon`  concurrent histories (events stamped by one atomic counter inside the guarded region):
             at no prefix more than `n` threads inside; a thread is inside at most once; at the end nobody
             inside and the measured free capacity is `n` again.
* `PoolMon`  `syncx.Pool` histories: no resource handed to two holders, at most `limit` resources alive,
             a destroyed resource is never handed out again.
-/
import GoZero.C05.Model
namespace GoZero.C05

/-! ### sequential monitor -/

inductive SeqEv where
  | grant            -- a borrow/try/schedule/request was admitted
  | refuse           -- refused (false / 503 / ErrTaskRunnerBusy / timeout / blocked)
  | retOk            -- a permit was given back without error
  | retErr           -- ErrLimitReturn / nothing to finish
  | free (k : Nat)   -- measured number of free permits
  | drained          -- every admitted task was let finish (TaskRunner.Wait blocked until then)
  deriving Repr, DecidableEq

structure SeqMon where
  cap  : Nat
  held : Nat
  deriving Repr, DecidableEq

/-- `none` = fine, `some msg` = the property fails here. -/
def SeqMon.check (m : SeqMon) : SeqEv → Option String
  | .grant => if m.held < m.cap then none else some s!"admitted beyond the cap: {m.held} holders already inside, n={m.cap}"
  | .refuse => if m.held < m.cap then some s!"refused although only {m.held} of n={m.cap} permits are out (capacity lost)" else none
  | .retOk => if 0 < m.held then none else some "over-return accepted without error (nothing was borrowed)"
  | .retErr => if 0 < m.held then some s!"return reported an error although {m.held} permits are out" else none
  | .drained => none
  | .free k => if k + m.held = m.cap then none
               else if k + m.held < m.cap then some s!"capacity leaked: free={k} outstanding={m.held} n={m.cap}"
               else some s!"capacity raised: free={k} outstanding={m.held} n={m.cap}"

def SeqMon.step (m : SeqMon) : SeqEv → SeqMon
  | .grant => { m with held := m.held + 1 }
  | .retOk => { m with held := m.held - 1 }
  | .drained => { m with held := 0 }
  | _ => m

/-- the events a model run produces. -/
def evOf : SemOp → SemObs → SeqEv
  | .borrow, .ok => .grant
  | .tryBorrow, .ok => .grant
  | .ret, .ok => .retOk
  | .recv, .ok => .retOk
  | .ret, _ => .retErr
  | .recv, _ => .retErr
  | _, _ => .refuse

/-! ### concurrent histories -/

inductive HEv where
  | enter (t : Nat)
  | exit (t : Nat)          -- normal exit or exit by panic
  | refused (t : Nat)
  | retErr (t : Nat)        -- a holder's own Return reported ErrLimitReturn
  deriving Repr, DecidableEq

structure HistMon where
  cap     : Nat
  inside  : List Nat
  peak    : Nat := 0
  deriving Repr, DecidableEq

inductive Verdict where
  | ok
  | malformed (msg : String)     -- the history itself is not well formed (harness problem → mismatch)
  | violation (msg : String)     -- the property fails
  deriving Repr, DecidableEq

def HistMon.step (m : HistMon) : HEv → HistMon × Verdict
  | .enter t =>
    if t ∈ m.inside then (m, .malformed s!"thread {t} entered twice")
    else
      let m' := { m with inside := t :: m.inside, peak := max m.peak (m.inside.length + 1) }
      if m.inside.length < m.cap then (m', .ok)
      else (m', .violation s!"cap exceeded: {m.inside.length + 1} holders inside the guarded region, n={m.cap}")
  | .exit t =>
    if t ∈ m.inside then ({ m with inside := m.inside.erase t }, .ok)
    else (m, .malformed s!"thread {t} left without entering")
  | .refused _ => (m, .ok)
  | .retErr t => (m, .violation s!"holder {t} got ErrLimitReturn for its own permit (accounting broken)")

/-- end of a run in which every thread finished. -/
def HistMon.final (m : HistMon) (free : Nat) : Verdict :=
  if m.inside ≠ [] then .malformed s!"threads still inside at the end: {m.inside}"
  else if free < m.cap then .violation s!"capacity leaked: free={free} after all holders finished, n={m.cap}"
  else if m.cap < free then .violation s!"capacity raised: free={free} after all holders finished, n={m.cap}"
  else .ok

/-! ### pool histories -/

inductive PEv where
  | create (r : Nat)
  | destroy (r : Nat)
  | get (t r : Nat)
  | put (t r : Nat)
  deriving Repr, DecidableEq

structure PoolMon where
  limit   : Nat
  alive   : List Nat              -- created and not destroyed
  held    : List (Nat × Nat)      -- (holder, resource)
  dead    : List Nat
  deriving Repr, DecidableEq

def PoolMon.step (m : PoolMon) : PEv → PoolMon × Verdict
  | .create r =>
    let m' := { m with alive := r :: m.alive }
    if r ∈ m.alive ∨ r ∈ m.dead then (m', .malformed s!"create yielded resource {r} twice (harness contract)")
    else if m.alive.length < m.limit then (m', .ok)
    else (m', .violation s!"more than limit={m.limit} resources alive: {m.alive.length + 1}")
  | .destroy r =>
    let m' := { m with alive := m.alive.erase r, dead := r :: m.dead }
    if (m.held.any fun h => h.2 = r) then (m', .violation s!"resource {r} destroyed while in use")
    else if r ∈ m.alive then (m', .ok)
    else (m', .violation s!"resource {r} destroyed twice or never created")
  | .get t r =>
    let m' := { m with held := (t, r) :: m.held }
    if (m.held.any fun h => h.2 = r) then (m', .violation s!"resource {r} handed to two holders at once")
    else if r ∈ m.dead then (m', .violation s!"destroyed resource {r} handed out")
    else if r ∉ m.alive then (m', .violation s!"resource {r} handed out but never created")
    else if m.held.length < m.limit then (m', .ok)
    else (m', .violation s!"more than limit={m.limit} resources in use: {m.held.length + 1}")
  | .put t r =>
    if (t, r) ∈ m.held then ({ m with held := m.held.erase (t, r) }, .ok)
    else (m, .malformed s!"holder {t} put resource {r} it does not hold")

end GoZero.C05
