/-
C05 — round 5: every way of leaving the guarded function, the order release → Done → panic report, and the
typed effect lists of the site programs.

* `ExitKind`: normal return, panic with a string value, panic with an error value, `runtime.Goexit`.  Go runs the
  deferred calls for all of them; in the IR every abnormal kind is the choice `true` of the `user onPanic` row.
  `sites_cap_every_exit` / `sites_no_leak_every_exit` restate the cap and the no-leak clause over schedules whose
  steps are labelled with exit kinds (any thread, any kind, any order), for every site of go-zero.
* `sem_wait_means_free`: for EVERY program obeying the three static disciplines (permits, wait-group, "holding
  implies counted"), `wg = 0` (a `Wait` may return) implies that every permit is free and nobody is inside —
  the general statement behind `runner_wait_means_idle`.
* the counter-model of seeded change C05-8 (`Programs.runnerDoneFirst`: Done first, panic report, release last):
  rejected by `holdsWithinWg`, and a reachable state with `wg = 0` (Wait returns) and a slot still taken exists.
* `report_after_cleanup`: at the row of every site program that writes the panic report (`rescue.Recover`) no
  permit is held and the wait group has been left: what the harness observes with the report kept waiting.
-/
import GoZero.C05.Props
namespace GoZero.C05

/-! ## 1. exit kinds -/

/-- a schedule whose steps carry the exit kind the environment picks if the step is the end of a guarded
function (ignored by the other rows except `branch`, where `true`/`false` is the environment's branch). -/
def runExits (p : Prog) (s : St) (sched : List (Tid × ExitKind)) : Option St :=
  runSched p s (sched.map fun x => (x.1, x.2.choice))

theorem reach_runExits {p : Prog} {n : Nat} {s : St} (sched : List (Tid × ExitKind))
    (h : runExits p (St.init n) sched = some s) : Reach p n s :=
  reach_runSched Reach.init _ h

/-- **The cap, whatever way the holders leave**: for every site of go-zero, every capacity, every schedule of any
number of threads in which each guarded function ends by return, panic (string or error value) or Goexit. -/
theorem sites_cap_every_exit (name : String) (p : Prog) (hx : (name, p) ∈ Programs.all) (n : Nat)
    (sched : List (Tid × ExitKind)) (s : St) (h : runExits p (St.init n) sched = some s)
    (l : List Tid) (hl : l.Nodup) (hin : ∀ t ∈ l, inCrit p s t = true) : l.length ≤ n :=
  sites_cap name p hx n s (reach_runExits sched h) l hl hin

/-- **No leak, whatever way the holders left**: once every thread has finished, the full capacity is back. -/
theorem sites_no_leak_every_exit (name : String) (p : Prog) (hx : (name, p) ∈ Programs.all) (n : Nat)
    (sched : List (Tid × ExitKind)) (s : St) (h : runExits p (St.init n) sched = some s)
    (hq : ∀ t, idle p s t = true) : s.used = 0 ∧ s.cap = n :=
  sites_no_leak name p hx n s (reach_runExits sched h) hq

/-- every abnormal exit kind takes the panic exit of the `user` row (the deferred code), the normal one the next
row — nothing else distinguishes them in the model. -/
theorem exit_kinds_two_exits (k : ExitKind) : k.choice = (k != .ret) := by cases k <;> rfl

/-- non-vacuity: three MaxConns requests (n = 2): one ends by Goexit, one by a panic with an error value, one
is refused meanwhile; afterwards the latch is empty. -/
example :
    (runExits Programs.maxConns (St.init 2)
        [(0, .ret), (0, .ret), (1, .ret), (1, .ret), (2, .ret), (2, .ret),
         (0, .goexit), (0, .ret), (0, .ret), (1, .panicError), (1, .ret), (1, .ret)]).map
      (fun s => (idle Programs.maxConns s 0, idle Programs.maxConns s 1, idle Programs.maxConns s 2, s.used))
      = some (true, true, true, 0) := by decide

/-! ## 2. `Wait` returning means every permit is free — for every disciplined program -/

/-- **General form of `runner_wait_means_idle`.**  For every program that obeys the permit discipline, the
wait-group discipline and "a permit is held only between Add and Done" (release BEFORE Done): whenever the
wait-group count is 0 — i.e. whenever a `Wait` call may return — no permit is out and nobody is inside the
guarded region; any capacity, any number of threads, any schedule, any exits. -/
theorem sem_wait_means_free (p : Prog) (hp : okProg p = true) (hw : okProgWg p = true)
    (hh : holdsWithinWg p = true) (n : Nat) (s : St) (h : Reach p n s) (hz : s.wg = 0) :
    s.used = 0 ∧ ∀ t, inCrit p s t = false := by
  have hwg := reach_wg hw h
  have hnoW : ∀ t, W p (s.pc t) = false := by
    intro t
    cases hc : W p (s.pc t)
    · rfl
    · have := tracks_pos hwg t hc
      omega
  have hnoH : ∀ t, H p (s.pc t) = false := by
    intro t
    cases hc : H p (s.pc t)
    · rfl
    · have := holds_imp_inWg hh _ hc
      rw [hnoW t] at this
      cases this
  refine ⟨tracks_zero (reach_inv hp h).tracks hnoH, ?_⟩
  intro t
  cases hc : inCrit p s t
  · rfl
  · have := inCrit_holds hp hc
    rw [hnoH t] at this
    cases this

/-- the TaskRunner obeys all three disciplines (so `sem_wait_means_free` applies to it). -/
theorem runner_disciplines :
    okProg Programs.runner = true ∧ okProgWg Programs.runner = true ∧ holdsWithinWg Programs.runner = true := by
  decide

/-- **Counter-model (seeded change C05-8)**: `Done` as the clean-up of `rescue.Recover`, the slot given back by an
outer defer.  The permit and wait-group disciplines still hold (no leak in the end!), but "holding implies
counted" does not … -/
theorem done_first_rejected :
    okProg Programs.runnerDoneFirst = true ∧ okProgWg Programs.runnerDoneFirst = true
    ∧ holdsWithinWg Programs.runnerDoneFirst = false := by decide

/-- … and it really breaks the property: one task that panics reaches a state in which the wait group is 0
(`Wait` returns: "all holders have finished") while its slot is still taken (`used = 1 = n`: the next
`ScheduleImmediately` is refused although nothing runs) — the state in which the panic report is written. -/
theorem done_first_wait_sees_taken_slot :
    ∃ s, Reach Programs.runnerDoneFirst 1 s ∧ s.wg = 0 ∧ s.used = 1
      ∧ (Programs.runnerDoneFirst[s.pc 0]?).map (·.tags) = some [reportTag] := by
  have hr : ∃ s, runSched Programs.runnerDoneFirst (St.init 1)
      [(0, true), (0, false), (0, false), (0, false), (0, false), (0, true), (0, false)] = some s := ⟨_, rfl⟩
  obtain ⟨s, hs⟩ := hr
  refine ⟨s, reach_runSched Reach.init _ hs, ?_, ?_, ?_⟩ <;>
    (simp only [runSched, step, exec, Programs.runnerDoneFirst, St.init] at hs
     injection hs with hs
     subst hs
     decide)

/-! ## 3. the panic report comes after the clean-ups -/

/-- the rows of a program that write the panic report. -/
def reportRows (p : Prog) : List Nat :=
  (List.range p.length).filter fun q => match p[q]? with
    | some r => r.tags.contains reportTag
    | none => false

/-- **At the instant the panic report of a TaskRunner task is written, its slot has been given back and `Done`
has been called** (rows 9 and 21 of `Programs.runner`, the `call rescue.Recover` token: `rescue.Recover` runs its
clean-ups first — tied by `tie_rescue`).  This is what the `finish … held` operations observe on the real code
with the report kept waiting in the log writer. -/
theorem report_after_cleanup :
    reportRows Programs.runner = [9, 21]
    ∧ ∀ q ∈ reportRows Programs.runner, H Programs.runner q = false ∧ W Programs.runner q = false := by decide

/-- in the counter-model the report row still holds the slot. -/
theorem done_first_report_holds_slot :
    ∀ q ∈ reportRows Programs.runnerDoneFirst, H Programs.runnerDoneFirst q = true ∧ W Programs.runnerDoneFirst q = false := by
  decide

/-! ## 4. typed effect lists (what the Tie compares with the effects extracted from the Go source) -/

/-- every effect row of a site program carries skeleton tokens (so that its position in the source is pinned by
the skeleton Tie), except the guarded user call of the two client programs, which is the caller's code. -/
theorem effect_rows_have_tags :
    ∀ x ∈ Programs.all, x.1 ≠ "syncx.Limit" → x.1 ≠ "syncx.TimeoutLimit" →
      ∀ r ∈ x.2, r.instr.eff.isSome = true → r.tags ≠ [] := by decide

/-! ## 4b. `syncx.Pool`: the `destroy` callback panics -/

/-- **A panicking `destroy` leaks nothing**: `Pool.Get` decrements `created` and unlinks the node BEFORE it calls
`destroy`, so when the callback panics (the panic leaves `Get` through the deferred `Unlock`) the counter still is
"idle + in use" (`k` = resources in use), the limit is unchanged, the resource dropped is one that was idle and
expired, and nothing is handed out — whatever the state and the clock.  (Contrast `pool_create_panic_keeps_slot`:
a panicking `create` does leave the counter one too high.) -/
theorem pool_destroy_panic_keeps_count (p : Pool) (now : Nat) (k : Int) (h : p.created = (p.idle.length : Int) + k) :
    ((p.getDestroyPanics now).1.created = (((p.getDestroyPanics now).1.idle.length : Nat) : Int) + k)
    ∧ (p.getDestroyPanics now).1.limit = p.limit
    ∧ (∀ x, (p.getDestroyPanics now).2 = some x →
        ∃ nd rest, p.idle = nd :: rest ∧ nd.item = x ∧ expired p.maxAge now nd = true
          ∧ (p.getDestroyPanics now).1.idle = rest)
    ∧ ((p.getDestroyPanics now).2 = none → (p.getDestroyPanics now).1 = p) := by
  obtain ⟨limit, maxAge, created, idle, next⟩ := p
  cases idle with
  | nil =>
    refine ⟨?_, ?_, ?_, ?_⟩
    · simpa [Pool.getDestroyPanics] using h
    · simp [Pool.getDestroyPanics]
    · simp [Pool.getDestroyPanics]
    · simp [Pool.getDestroyPanics]
  | cons nd rest =>
    simp only [List.length_cons] at h
    by_cases he : expired maxAge now nd = true
    · refine ⟨?_, ?_, ?_, ?_⟩
      · simp only [Pool.getDestroyPanics, he, if_true]
        push_cast at h ⊢
        omega
      · simp [Pool.getDestroyPanics, he]
      · intro x hx
        simp only [Pool.getDestroyPanics, he, if_true, Option.some.injEq] at hx
        exact ⟨nd, rest, rfl, hx, he, by simp [Pool.getDestroyPanics, he]⟩
      · simp [Pool.getDestroyPanics, he]
    · refine ⟨?_, ?_, ?_, ?_⟩
      · simpa [Pool.getDestroyPanics, he] using h
      · simp [Pool.getDestroyPanics, he]
      · simp [Pool.getDestroyPanics, he]
      · simp [Pool.getDestroyPanics, he]

/-- non-vacuity: limit 2, maxAge 10, resources 0 (in use) and 1 (idle since t=0); at t=11 the destroy of 1 panics:
`created` goes from 2 to 1 = 0 idle + 1 in use. -/
example :
    (({ limit := 2, maxAge := 10, created := 2, idle := [⟨1, 0⟩], next := 2 } : Pool).getDestroyPanics 11)
      = ({ limit := 2, maxAge := 10, created := 1, idle := [], next := 2 }, some 1) := by decide

/-! ## 5. the REST engine as a whole: one latch per route -/

/-- **Server-wide bound of the REST engine** (what the concurrent engine sections check as `global=`): the engine
builds ONE `MaxConnsHandler(MaxConns)` per route chain, so with `routes` routes — each an independent latch of
capacity `n`, each in any reachable state of its own — the requests inside all route handlers together are at most
`routes · n` (and per route at most `n`: `sites_cap`).  `rs` pairs the state of every route's latch with any set of
distinct requests inside that route's handler. -/
theorem engine_global_bound (n : Nat) (rs : List (St × List Tid))
    (h : ∀ x ∈ rs, Reach Programs.maxConns n x.1 ∧ x.2.Nodup ∧ ∀ t ∈ x.2, inCrit Programs.maxConns x.1 t = true) :
    (rs.map (·.2.length)).sum ≤ rs.length * n := by
  induction rs with
  | nil => simp
  | cons x xs ih =>
    have hx := h x (List.mem_cons_self ..)
    have h1 := sem_cap Programs.maxConns (by decide) n x.1 hx.1 x.2 hx.2.1 hx.2.2
    have h2 := ih (fun y hy => h y (List.mem_cons_of_mem _ hy))
    simp only [List.map_cons, List.sum_cons, List.length_cons]
    rw [Nat.add_mul]
    omega

/-- non-vacuity: two routes with `MaxConns = 1`, one request inside each: two requests server-wide. -/
example :
    (runSched Programs.maxConns (St.init 1) [(0, false), (0, false)]).map
      (fun s => (inCrit Programs.maxConns s 0, s.used)) = some (true, 1) := by decide

end GoZero.C05
