/-
C05 — the explicit TimeoutLimit + Cond model (ModelTL) is SIMULATED by the generic, source-tied site program
`Programs.timeoutLimitClient`: every action of ModelTL is a (possibly empty) sequence of steps of the site
program under the location → row map `Loc.row`.
-/
import GoZero.C05.ProofsTL
namespace GoZero.C05

abbrev TLP : Prog := Programs.timeoutLimitClient

/-- the simulation relation: same channel, every caller stands at the row of its location, a caller that saw
`ErrLimitReturn` has its error flag set. -/
structure SimR (s : TLSt) (σ : St) : Prop where
  cap  : σ.cap = s.cap
  used : σ.used = s.used
  pc   : ∀ t, σ.pc t = (s.pc t).row
  err  : ∀ t, s.pc t = .errReturn → σ.err t = true

/-- reflexive-transitive closure of the site program's step. -/
inductive Steps (p : Prog) : St → St → Prop where
  | refl {σ : St} : Steps p σ σ
  | head {σ σ1 σ2 : St} (t : Tid) (c : Bool) : step p σ t c = some σ1 → Steps p σ1 σ2 → Steps p σ σ2

theorem reach_steps {p : Prog} {n : Nat} {σ σ' : St} (h : Reach p n σ) (hs : Steps p σ σ') : Reach p n σ' := by
  induction hs with
  | refl => exact h
  | head t c h1 _ ih => exact ih (Reach.step t c h h1)

theorem Steps.trans {p : Prog} {a b c : St} (h1 : Steps p a b) (h2 : Steps p b c) : Steps p a c := by
  induction h1 with
  | refl => exact h2
  | head t ch hs _ ih => exact Steps.head t ch hs (ih h2)

/-! one step of thread `t` standing at a known row `k` of the TimeoutLimit client -/

theorem tlp_row (σ : St) (t : Tid) (k : Nat) (r : Row) (hk : σ.pc t = k) (hr : TLP[k]? = some r) (c : Bool) :
    step TLP σ t c = exec r.instr σ t c := by
  unfold step
  rw [hk, hr]

/-- thread `t` moved to row `k`, channel length `u`, error flag of `t` raised iff `e`. -/
def mv (σ : St) (t : Tid) (k : Nat) (u : Nat) (e : Bool) : St :=
  { σ with used := u, pc := upd σ.pc t k, err := if e then upd σ.err t true else σ.err }

theorem upd_upd {α : Type} (f : Tid → α) (t : Tid) (a b : α) : upd (upd f t a) t b = upd f t b := by
  funext u; simp only [upd]; split <;> rfl

theorem mv_mv (σ : St) (t : Tid) (k k' u u' : Nat) (e e' : Bool) :
    mv (mv σ t k u e) t k' u' e' = mv σ t k' u' (e || e') := by
  cases e <;> cases e' <;> simp [mv, upd_upd]

theorem mv_used (σ : St) (t : Tid) (k u : Nat) (e : Bool) : (mv σ t k u e).used = u := rfl

theorem mv_pc (σ : St) (t : Tid) (k u : Nat) (e : Bool) : (mv σ t k u e).pc t = k := by simp [mv, upd]

variable {σ : St} {t : Tid} {c : Bool}

theorem s0_ok (hk : σ.pc t = 0) (h : σ.used < σ.cap) : step TLP σ t c = some (mv σ t 1 (σ.used + 1) false) := by
  rw [tlp_row σ t 0 _ hk rfl]; simp [exec, h, hk, mv]
theorem s0_full (hk : σ.pc t = 0) (h : ¬ σ.used < σ.cap) : step TLP σ t c = some (mv σ t 2 σ.used false) := by
  rw [tlp_row σ t 0 _ hk rfl]; simp [exec, h, mv]
theorem s1 (hk : σ.pc t = 1) : step TLP σ t c = some (mv σ t 7 σ.used false) := by
  rw [tlp_row σ t 1 _ hk rfl]; simp [exec, mv]
theorem s2 (hk : σ.pc t = 2) : step TLP σ t c = some (mv σ t (if c then 3 else 5) σ.used false) := by
  rw [tlp_row σ t 2 _ hk rfl]; simp [exec, mv]
theorem s3_ok (hk : σ.pc t = 3) (h : σ.used < σ.cap) : step TLP σ t c = some (mv σ t 4 (σ.used + 1) false) := by
  rw [tlp_row σ t 3 _ hk rfl]; simp [exec, h, hk, mv]
theorem s3_full (hk : σ.pc t = 3) (h : ¬ σ.used < σ.cap) : step TLP σ t c = some (mv σ t 5 σ.used false) := by
  rw [tlp_row σ t 3 _ hk rfl]; simp [exec, h, mv]
theorem s4 (hk : σ.pc t = 4) : step TLP σ t c = some (mv σ t 7 σ.used false) := by
  rw [tlp_row σ t 4 _ hk rfl]; simp [exec, mv]
theorem s5 (hk : σ.pc t = 5) : step TLP σ t c = some (mv σ t (if c then 6 else 2) σ.used false) := by
  rw [tlp_row σ t 5 _ hk rfl]; simp [exec, mv]
theorem s6 (hk : σ.pc t = 6) : step TLP σ t c = some (mv σ t 12 σ.used false) := by
  rw [tlp_row σ t 6 _ hk rfl]; simp [exec, mv]
theorem s7 (hk : σ.pc t = 7) : step TLP σ t c = some (mv σ t 8 σ.used false) := by
  rw [tlp_row σ t 7 _ hk rfl]; cases c <;> simp [exec, hk, mv]
theorem s8_ok (hk : σ.pc t = 8) (h : 0 < σ.used) : step TLP σ t c = some (mv σ t 9 (σ.used - 1) false) := by
  rw [tlp_row σ t 8 _ hk rfl]; simp [exec, h, hk, mv]
theorem s8_empty (hk : σ.pc t = 8) (h : σ.used = 0) : step TLP σ t c = some (mv σ t 9 σ.used true) := by
  rw [tlp_row σ t 8 _ hk rfl]; simp [exec, h, hk, mv]
theorem s9 (hk : σ.pc t = 9) : step TLP σ t c = some (mv σ t (if c then 10 else 11) σ.used false) := by
  rw [tlp_row σ t 9 _ hk rfl]; simp [exec, mv]
theorem s11 (hk : σ.pc t = 11) : step TLP σ t c = some (mv σ t 12 σ.used false) := by
  rw [tlp_row σ t 11 _ hk rfl]; simp [exec, hk, mv]

/-! the paths of one caller between the rows that are images of ModelTL locations -/

theorem two {σ σ1 σ2 : St} (t : Tid) (c1 c2 : Bool) (h1 : step TLP σ t c1 = some σ1) (h2 : step TLP σ1 t c2 = some σ2) :
    Steps TLP σ σ2 := .head t c1 h1 (.head t c2 h2 .refl)

theorem p_0_7 (hk : σ.pc t = 0) (h : σ.used < σ.cap) : Steps TLP σ (mv σ t 7 (σ.used + 1) false) := by
  have e2 := s1 (σ := mv σ t 1 (σ.used + 1) false) (t := t) (c := false) (mv_pc ..)
  rw [mv_used, mv_mv] at e2
  exact two t false false (s0_ok hk h) e2

theorem p_0_2 (hk : σ.pc t = 0) (h : ¬ σ.used < σ.cap) : Steps TLP σ (mv σ t 2 σ.used false) :=
  .head t false (s0_full hk h) .refl

theorem p_2_6 (hk : σ.pc t = 2) : Steps TLP σ (mv σ t 6 σ.used false) := by
  have e1 := s2 (c := false) hk
  have e2 := s5 (σ := mv σ t 5 σ.used false) (t := t) (c := true) (mv_pc ..)
  rw [mv_used, mv_mv] at e2
  exact two t false true e1 e2

theorem p_6_12 (hk : σ.pc t = 6) : Steps TLP σ (mv σ t 12 σ.used false) := .head t false (s6 hk) .refl

theorem p_2_3 (hk : σ.pc t = 2) : Steps TLP σ (mv σ t 3 σ.used false) := .head t true (s2 (c := true) hk) .refl

theorem p_11_12 (hk : σ.pc t = 11) : Steps TLP σ (mv σ t 12 σ.used false) := .head t false (s11 hk) .refl

theorem p_3_7 (hk : σ.pc t = 3) (h : σ.used < σ.cap) : Steps TLP σ (mv σ t 7 (σ.used + 1) false) := by
  have e2 := s4 (σ := mv σ t 4 (σ.used + 1) false) (t := t) (c := false) (mv_pc ..)
  rw [mv_used, mv_mv] at e2
  exact two t false false (s3_ok hk h) e2

theorem p_3_2 (hk : σ.pc t = 3) (h : ¬ σ.used < σ.cap) : Steps TLP σ (mv σ t 2 σ.used false) := by
  have e2 := s5 (σ := mv σ t 5 σ.used false) (t := t) (c := false) (mv_pc ..)
  rw [mv_used, mv_mv] at e2
  exact two t false false (s3_full hk h) e2

theorem p_3_6 (hk : σ.pc t = 3) (h : ¬ σ.used < σ.cap) : Steps TLP σ (mv σ t 6 σ.used false) := by
  have e2 := s5 (σ := mv σ t 5 σ.used false) (t := t) (c := true) (mv_pc ..)
  rw [mv_used, mv_mv] at e2
  exact two t false true (s3_full hk h) e2

theorem p_7_11 (hk : σ.pc t = 7) (h : 0 < σ.used) : Steps TLP σ (mv σ t 11 (σ.used - 1) false) := by
  have e2 := s8_ok (σ := mv σ t 8 σ.used false) (t := t) (c := false) (mv_pc ..) h
  rw [mv_used, mv_mv] at e2
  have e3 := s9 (σ := mv σ t 9 (σ.used - 1) false) (t := t) (c := false) (mv_pc ..)
  rw [mv_used, mv_mv] at e3
  exact .head t false (s7 hk) (two t false false e2 e3)

theorem p_7_10 (hk : σ.pc t = 7) (h : σ.used = 0) : Steps TLP σ (mv σ t 10 σ.used true) := by
  have e2 := s8_empty (σ := mv σ t 8 σ.used false) (t := t) (c := false) (mv_pc ..) h
  rw [mv_used, mv_mv] at e2
  have e3 := s9 (σ := mv σ t 9 σ.used true) (t := t) (c := true) (mv_pc ..)
  rw [mv_used, mv_mv] at e3
  exact .head t false (s7 hk) (two t false true e2 e3)

/-- the relation after caller `t` has moved to location `q` (its row) with channel length `u`. -/
theorem simR_mv {s : TLSt} {σ : St} (hR : SimR s σ) (t : Tid) (q : Loc) (u : Nat) (e : Bool)
    (he : q = .errReturn → e = true) :
    SimR { s with used := u, pc := upd s.pc t q } (mv σ t q.row u e) := by
  refine ⟨hR.cap, rfl, ?_, ?_⟩
  · intro x
    by_cases hx : x = t
    · subst hx; simp [mv, upd]
    · simp [mv, upd, hx, hR.pc]
  · intro x hx
    by_cases hxt : x = t
    · subst hxt
      simp only [upd, if_true] at hx
      simp [mv, upd, he hx]
    · simp only [upd, hxt, if_false] at hx
      have := hR.err x hx
      cases e <;> simp [mv, upd, hxt, this]

/-- **Simulation step**: every action of the explicit TimeoutLimit + Cond model is matched by steps of the
source-tied site program (two steps for an admitted `TryBorrow`, none for `park`, one per goroutine for a delivered
Signal, the timed-out path for a refused stand-alone `TryBorrow`, …). -/
theorem sim_step {s s' : TLSt} {a : TLAct} {σ : St} (hR : SimR s σ) (hs : TLStep s a s') :
    ∃ σ', Steps TLP σ σ' ∧ SimR s' σ' := by
  have hrow : ∀ {t : Tid} {q : Loc}, s.pc t = q → σ.pc t = q.row := fun h => by rw [hR.pc, h]
  have hlt : s.used < s.cap ↔ σ.used < σ.cap := by rw [hR.used, hR.cap]
  cases hs with
  | @borrowOk t h0 h =>
    have hp := p_0_7 (hrow h0) (hlt.1 h)
    rw [hR.used] at hp
    exact ⟨_, hp, simR_mv hR t .holding _ false (by simp)⟩
  | @borrowFull t h0 h =>
    have hp := p_0_2 (hrow h0) (fun x => h (hlt.2 x))
    rw [hR.used] at hp
    exact ⟨_, hp, simR_mv hR t .preWait _ false (by simp)⟩
  | @tryOk t h0 h =>
    have hp := p_0_7 (hrow h0) (hlt.1 h)
    rw [hR.used] at hp
    exact ⟨_, hp, simR_mv hR t .holding _ false (by simp)⟩
  | @tryFull t h0 h =>
    -- a refused stand-alone TryBorrow: the site program's refusal path (full, not signalled, no time left)
    have hp1 := p_0_2 (hrow h0) (fun x => h (hlt.2 x))
    have hp2 := p_2_6 (σ := mv σ t 2 σ.used false) (t := t) (mv_pc ..)
    rw [mv_used, mv_mv] at hp2
    have hp3 := p_6_12 (σ := mv σ t 6 σ.used false) (t := t) (mv_pc ..)
    rw [mv_used, mv_mv] at hp3
    have hp := (hp1.trans hp2).trans hp3
    rw [hR.used] at hp
    exact ⟨_, hp, simR_mv hR t .refused _ false (by simp)⟩
  | @park t h0 =>
    -- entering the `select` is not a step of the site program: same row
    refine ⟨σ, .refl, hR.cap, hR.used, ?_, ?_⟩
    · intro x
      by_cases hx : x = t
      · subst hx; simp [upd, hrow h0, Loc.row]
      · simp [upd, hx, hR.pc]
    · intro x hx
      by_cases hxt : x = t
      · subst hxt; simp [upd] at hx
      · simp only [upd, hxt, if_false] at hx; exact hR.err x hx
  | @timer t h0 =>
    have hp := p_2_6 (hrow h0)
    rw [hR.used] at hp
    exact ⟨_, hp, simR_mv hR t .timedOut _ false (by simp)⟩
  | @deliver u t left hu ht =>
    have hut : t ≠ u := by intro h; subst h; rw [hu] at ht; cases ht
    have hp1 := p_11_12 (hrow hu)
    have hR1 := simR_mv hR u .done σ.used false (by simp)
    have hk2 : (mv σ u 12 σ.used false).pc t = 2 := by
      have := hR1.pc t
      simp only [upd, hut, if_false] at this
      rw [ht] at this
      exact this
    have hp2 := p_2_3 hk2
    have hR2 := simR_mv hR1 t (.tryAgain left) σ.used false (by simp)
    refine ⟨_, hp1.trans hp2, ?_⟩
    have : ({ s with pc := upd (upd s.pc u .done) t (.tryAgain left) } : TLSt)
        = { ({ s with used := σ.used, pc := upd s.pc u .done } : TLSt) with used := σ.used, pc := upd (upd s.pc u .done) t (.tryAgain left) } := by
      rw [hR.used]
    rw [this]
    exact hR2
  | @signalLost u hu _ =>
    have hp := p_11_12 (hrow hu)
    rw [hR.used] at hp
    exact ⟨_, hp, simR_mv hR u .done _ false (by simp)⟩
  | @retryOk t left h0 h =>
    have hp := p_3_7 (hrow h0) (hlt.1 h)
    rw [hR.used] at hp
    exact ⟨_, hp, simR_mv hR t .holding _ false (by simp)⟩
  | @retryWaitAgain t h0 h =>
    have hp := p_3_2 (hrow h0) (fun x => h (hlt.2 x))
    rw [hR.used] at hp
    exact ⟨_, hp, simR_mv hR t .preWait _ false (by simp)⟩
  | @retryTimedOut t h0 h =>
    have hp := p_3_6 (hrow h0) (fun x => h (hlt.2 x))
    rw [hR.used] at hp
    exact ⟨_, hp, simR_mv hR t .timedOut _ false (by simp)⟩
  | @leaveOk t h0 h =>
    have hp := p_7_11 (hrow h0) (by rw [hR.used]; exact h)
    rw [hR.used] at hp
    exact ⟨_, hp, simR_mv hR t .signal _ false (by simp)⟩
  | @leaveErr t h0 h =>
    have hp := p_7_10 (hrow h0) (by rw [hR.used]; exact h)
    rw [hR.used] at hp
    exact ⟨_, hp, simR_mv hR t .errReturn _ true (by simp)⟩

theorem simR_init (n : Nat) : SimR (TLSt.init n) (St.init n) :=
  ⟨rfl, rfl, fun _ => rfl, fun t h => by simp [TLSt.init] at h⟩

/-- every reachable state of the explicit model is the image of a reachable state of the site program. -/
theorem sim_reach {n : Nat} {s : TLSt} (h : TLReach n s) : ∃ σ, Reach TLP n σ ∧ SimR s σ := by
  induction h with
  | init => exact ⟨_, Reach.init, simR_init n⟩
  | step a _ hs ih =>
    obtain ⟨σ, hr, hR⟩ := ih
    obtain ⟨σ', hst, hR'⟩ := sim_step hR hs
    exact ⟨σ', reach_steps hr hst, hR'⟩

end GoZero.C05
