/-
C05 — the history monitor accepts every run of every disciplined site program: the enter/exit events a
schedule of the model produces never make `HistMon` alarm, and a quiescent end passes the final check.
(So an alarm on a history of the implementation means the implementation is outside the model.)
-/
import GoZero.C05.Proofs
import GoZero.C05.Spec
namespace GoZero.C05

/-- events of one step of thread `t`: entering / leaving the guarded region. -/
def stepEvents (p : Prog) (s s' : St) (t : Tid) : List HEv :=
  if inCrit p s t = false ∧ inCrit p s' t = true then [.enter t]
  else if inCrit p s t = true ∧ inCrit p s' t = false then [.exit t]
  else []

/-- the history a schedule produces (disabled steps are skipped) and the state it ends in. -/
def histOf (p : Prog) (s : St) : List (Tid × Bool) → List HEv × St
  | [] => ([], s)
  | (t, c) :: rest =>
    match step p s t c with
    | some s' => (stepEvents p s s' t ++ (histOf p s' rest).1, (histOf p s' rest).2)
    | none => histOf p s rest

/-- feed a history to the monitor; `none` as soon as a verdict is not `ok`. -/
def HistMon.feed (m : HistMon) : List HEv → Option HistMon
  | [] => some m
  | e :: es => if (m.step e).2 = .ok then HistMon.feed (m.step e).1 es else none

theorem step_other {p : Prog} {s s' : St} {t : Tid} {c : Bool} (hs : step p s t c = some s')
    (u : Tid) (hu : u ≠ t) : s'.pc u = s.pc u := by
  unfold step at hs
  split at hs
  · unfold exec at hs
    split at hs <;> (try split at hs) <;> first
      | (injection hs with hs; subst hs; simp [upd, hu])
      | cases hs
  · cases hs

theorem inCrit_other {p : Prog} {s s' : St} {t : Tid} {c : Bool} (hs : step p s t c = some s')
    (u : Tid) (hu : u ≠ t) : inCrit p s' u = inCrit p s u := by
  unfold inCrit
  rw [step_other hs u hu]

structure MonRel (p : Prog) (s : St) (m : HistMon) : Prop where
  nd  : m.inside.Nodup
  mem : ∀ t, t ∈ m.inside ↔ inCrit p s t = true

theorem feed_sound {p : Prog} (hp : okProg p = true) {n : Nat} (sched : List (Tid × Bool)) {s : St}
    (hr : Reach p n s) (m : HistMon) (hc : m.cap = n) (hm : MonRel p s m) :
    ∃ m', m.feed (histOf p s sched).1 = some m' ∧ m'.cap = n ∧ MonRel p (histOf p s sched).2 m'
      ∧ Reach p n (histOf p s sched).2 := by
  induction sched generalizing s m with
  | nil => exact ⟨m, rfl, hc, hm, hr⟩
  | cons a rest ih =>
    obtain ⟨t, c⟩ := a
    simp only [histOf]
    split
    next s' hs =>
      have hr' : Reach p n s' := Reach.step t c hr hs
      simp only
      unfold stepEvents
      by_cases h1 : inCrit p s t = false ∧ inCrit p s' t = true
      · -- enter
        simp only [h1, and_self, if_true, List.cons_append, List.nil_append, HistMon.feed]
        have htn : t ∉ m.inside := by
          intro h; have := (hm.mem t).mp h; rw [h1.1] at this; cases this
        have hall : ∀ u ∈ t :: m.inside, inCrit p s' u = true := by
          intro u hu
          rcases List.mem_cons.mp hu with rfl | hu
          · exact h1.2
          · have hne : u ≠ t := fun h => htn (h ▸ hu)
            rw [inCrit_other hs u hne]; exact (hm.mem u).mp hu
        have hlen := sem_cap_aux hp hr' (t :: m.inside) (List.nodup_cons.mpr ⟨htn, hm.nd⟩) hall
        simp only [List.length_cons] at hlen
        have hlt : m.inside.length < m.cap := by omega
        simp only [HistMon.step, htn, if_false, hlt, if_true]
        apply ih hr'
        · exact hc
        · refine ⟨List.nodup_cons.mpr ⟨htn, hm.nd⟩, ?_⟩
          intro u
          by_cases hu : u = t
          · subst hu; simp [h1.2]
          · simp only [List.mem_cons, hu, false_or]
            rw [inCrit_other hs u hu]; exact hm.mem u
      · by_cases h2 : inCrit p s t = true ∧ inCrit p s' t = false
        · -- exit
          rw [if_neg h1, if_pos h2]
          have htin : t ∈ m.inside := (hm.mem t).mpr h2.1
          simp only [List.cons_append, List.nil_append, HistMon.feed, HistMon.step, htin, if_true]
          apply ih hr'
          · exact hc
          · refine ⟨hm.nd.erase t, ?_⟩
            intro u
            by_cases hu : u = t
            · subst hu
              simp only [h2.2]
              constructor
              · intro h; exact absurd h (List.Nodup.not_mem_erase hm.nd)
              · intro h; cases h
            · rw [List.mem_erase_of_ne hu, inCrit_other hs u hu]; exact hm.mem u
        · -- no event
          rw [if_neg h1, if_neg h2]
          simp only [List.nil_append]
          apply ih hr' m hc
          refine ⟨hm.nd, ?_⟩
          intro u
          by_cases hu : u = t
          · subst hu
            rw [hm.mem u]
            cases ha : inCrit p s u <;> cases hb : inCrit p s' u <;> simp_all
          · rw [inCrit_other hs u hu]; exact hm.mem u
    next => exact ih hr m hc hm

end GoZero.C05
