/- C05 — invariant of the WorkerGroup.Start model. -/
import GoZero.C05.ModelWG
import GoZero.C05.Proofs
namespace GoZero.C05

structure WGInv (w : Int) (s : WGSt) : Prop where
  wk      : s.workers = w
  tracks  : Tracks isRunning s.job s.wg
  inn     : 0 ≤ s.i
  ile     : s.i ≤ w ∨ s.i = 0
  below   : ∀ j : Nat, (j : Int) < s.i → s.job j ≠ .notStarted
  fresh   : ∀ j : Nat, s.i ≤ (j : Int) → s.job j = .notStarted
  exited  : s.start ≠ .loop → ¬ s.i < w
  ret     : s.start = .returned → s.wg = 0

theorem wginv_init (w : Int) : WGInv w (WGSt.init w) := by
  refine ⟨rfl, ⟨[], List.nodup_nil, ?_, rfl⟩, Int.le_refl _, Or.inr rfl, ?_, ?_, ?_, ?_⟩
  · intro t; simp [WGSt.init, isRunning]
  · intro j hj; simp only [WGSt.init] at hj; omega
  · intro j _; rfl
  · intro h; simp [WGSt.init] at h
  · intro _; rfl

theorem wginv_step {w : Int} {s s' : WGSt} (hi : WGInv w s) (hs : WGStep s s') : WGInv w s' := by
  obtain ⟨hw, htr, hnn, hle, hbelow, hfresh, hex, hret⟩ := hi
  cases hs with
  | spawn hl ht =>
    simp only [wgLoopTest, decide_eq_true_eq] at ht
    rw [hw] at ht
    have hnat : ((s.i.toNat : Nat) : Int) = s.i := Int.toNat_of_nonneg hnn
    have hns : s.job s.i.toNat = .notStarted := hfresh _ (by omega)
    refine ⟨hw, tracks_gain htr _ _ (by rw [hns]; rfl) rfl, by simp only; omega, Or.inl (by simp only; omega), ?_, ?_, ?_, ?_⟩
    · intro j hj
      simp only at hj
      by_cases hji : j = s.i.toNat
      · subst hji; simp [upd]
      · simp only [upd, hji, if_false]
        exact hbelow j (by have hji' : (j : Nat) ≠ s.i.toNat := hji; omega)
    · intro j hj
      simp only at hj
      have hji : j ≠ s.i.toNat := by
        intro h
        have h' : (j : Nat) = s.i.toNat := h
        omega
      simp only [upd, hji, if_false]
      exact hfresh j (by omega)
    · intro h; exact absurd hl h
    · intro h; simp only at h; rw [hl] at h; cases h
  | loopExit hl ht =>
    simp only [wgLoopTest, decide_eq_false_iff_not] at ht
    rw [hw] at ht
    exact ⟨hw, htr, hnn, hle, hbelow, hfresh, fun _ => ht, fun h => by cases h⟩
  | jobEnd j hj =>
    have := tracks_lose htr j JLoc.ended (by rw [hj]; rfl) rfl
    refine ⟨hw, this.2, hnn, hle, ?_, ?_, hex, ?_⟩
    · intro k hk
      by_cases hkj : k = j
      · subst hkj; simp [upd]
      · simp only [upd, hkj, if_false]; exact hbelow k hk
    · intro k hk
      have hkj : k ≠ j := by
        intro h; subst h
        have := hfresh k hk
        rw [hj] at this; cases this
      simp only [upd, hkj, if_false]; exact hfresh k hk
    · intro h
      have := hret h
      simp only
      omega
  | waitReturns hl hz =>
    exact ⟨hw, htr, hnn, hle, hbelow, hfresh, fun _ => hex (by rw [hl]; simp), fun _ => hz⟩

theorem wgreach_inv {w : Int} {s : WGSt} (h : WGReach w s) : WGInv w s := by
  induction h with
  | init => exact wginv_init w
  | step _ hs ih => exact wginv_step ih hs

end GoZero.C05
