/-
C05 — property theorems (statements, short proofs from the lemmas of Proofs*.lean, non-vacuity examples).

Interleaving theorems quantify over: every capacity `n`, an unbounded set of threads (`Tid = Nat`), every
schedule and every environment choice (panic or not inside the guarded function, wake-up kinds, source
closed, …) — `Reach p n s` is the closure of `St.init n` under `step p · t c` for ANY `t`, `c`.
-/
import GoZero.C05.Proofs
import GoZero.C05.ProofsSem
import GoZero.C05.ProofsPool
import GoZero.C05.ProofsHist
namespace GoZero.C05

/-! ## 1. every site: the cap, no leak, no spurious error -/

/-- **The cap.**  For every site program obeying the static discipline, every capacity `n`, any number of
threads and every schedule: any set of distinct threads that are inside the guarded region at the same
instant has at most `n` members. -/
theorem sem_cap (p : Prog) (hp : okProg p = true) (n : Nat) (s : St) (h : Reach p n s)
    (l : List Tid) (hl : l.Nodup) (hin : ∀ t ∈ l, inCrit p s t = true) : l.length ≤ n := by
  have hi := reach_inv hp h
  have hc := reach_cap h
  have := tracks_bound hi.tracks l hl (fun t ht => inCrit_holds hp (hin t ht))
  have := hi.le_cap
  omega

/-- the channel length is exactly the number of permit holders, and never exceeds `n`
(`hs` lists the holders: threads between their acquire and their release). -/
theorem sem_used_counts_holders (p : Prog) (hp : okProg p = true) (n : Nat) (s : St) (h : Reach p n s) :
    s.used ≤ n ∧ ∃ hs : List Tid, hs.Nodup ∧ (∀ t, H p (s.pc t) = true ↔ t ∈ hs) ∧ hs.length = s.used := by
  have hi := reach_inv hp h
  have hc := reach_cap h
  exact ⟨by have := hi.le_cap; omega, hi.tracks⟩

/-- **No leak.**  When every thread has finished (normally or through the panic exit) or never started, the
channel is empty again: the full capacity `n` is available. -/
theorem sem_no_leak (p : Prog) (hp : okProg p = true) (n : Nat) (s : St) (h : Reach p n s)
    (hq : ∀ t, idle p s t = true) : s.used = 0 ∧ s.cap = n :=
  ⟨tracks_zero (reach_inv hp h).tracks (fun t => idle_not_holds hp (hq t)), reach_cap h⟩

/-- a caller that returns only what it borrowed never sees `ErrLimitReturn`. -/
theorem sem_no_spurious_error (p : Prog) (hp : okProg p = true) (n : Nat) (s : St) (h : Reach p n s) (t : Tid) :
    s.err t = false := (reach_inv hp h).noerr t

/-- **Refusal admits nothing.**  A `tryAcquire` on a full channel moves the thread to its refusal row
(`false` / 503 / ErrTaskRunnerBusy), which holds no permit, and leaves the channel unchanged. -/
theorem sem_refusal (p : Prog) (hp : okProg p = true) (s s' : St) (t : Tid) (c : Bool) (r : Row) (els : Nat)
    (hr : p[s.pc t]? = some r) (hi : r.instr = .tryAcquire els) (hfull : ¬ s.used < s.cap)
    (hs : step p s t c = some s') :
    s'.used = s.used ∧ s'.pc t = els ∧ H p els = false ∧ inCrit p s' t = false := by
  have hok := okProg_row hp hr
  unfold okRow at hok
  rw [hi] at hok
  simp only [Bool.and_eq_true, Bool.not_eq_true'] at hok
  unfold step at hs
  rw [hr] at hs
  simp only [hi, exec, hfull, if_false] at hs
  injection hs with hs
  subst hs
  refine ⟨rfl, by simp [upd], hok.2, ?_⟩
  cases hc : inCrit p { s with pc := upd s.pc t els } t
  · rfl
  · have := inCrit_holds hp hc
    simp only [upd, if_true] at this
    rw [hok.2] at this
    cases this

/-- the blocking acquire is not enabled on a full channel: a `Borrow`/`Schedule`/dispatcher stays put. -/
theorem sem_full_blocks (p : Prog) (s : St) (t : Tid) (c : Bool) (r : Row)
    (hr : p[s.pc t]? = some r) (hi : r.instr = .acquire) (hfull : ¬ s.used < s.cap) :
    step p s t c = none := by
  unfold step
  rw [hr]
  simp only [hi, exec, hfull, if_false]

/-- below the cap the blocking acquire IS enabled (the free capacity is really available to a waiting
`Borrow` / `Schedule` / dispatcher). -/
theorem sem_not_full_admits (p : Prog) (s : St) (t : Tid) (c : Bool) (r : Row)
    (hr : p[s.pc t]? = some r) (hi : r.instr = .acquire) (hlt : s.used < s.cap) :
    ∃ s', step p s t c = some s' ∧ s'.used = s.used + 1 := by
  unfold step
  rw [hr]
  simp only [hi, exec, hlt, if_true]
  exact ⟨_, rfl, rfl⟩

/-- a holder is never blocked at its release (`<-pool`, `<-limitChan`): the channel cannot be empty while
it holds a permit — so the deferred clean-ups always get through. -/
theorem sem_holder_release_enabled (p : Prog) (hp : okProg p = true) (n : Nat) (s : St) (h : Reach p n s)
    (t : Tid) (c : Bool) (r : Row) (hr : p[s.pc t]? = some r) (hi : r.instr = .release) :
    ∃ s', step p s t c = some s' ∧ s'.used + 1 = s.used := by
  have hok := okProg_row hp hr
  unfold okRow at hok
  rw [hi] at hok
  simp only [Bool.and_eq_true, Bool.not_eq_true'] at hok
  have hpos := tracks_pos (reach_inv hp h).tracks t (by rw [H_of_row hr]; exact hok.1)
  unfold step
  rw [hr]
  simp only [hi, exec, hpos, if_true]
  exact ⟨_, rfl, by simp only; omega⟩

/-! ### the sites of go-zero (each program is tied to the source by Tie.lean) -/

def Programs.all : List (String × Prog) :=
  [("syncx.Limit", Programs.limitClient), ("syncx.TimeoutLimit", Programs.timeoutLimitClient),
   ("threading.TaskRunner", Programs.runner), ("rest/handler.MaxConnsHandler", Programs.maxConns),
   ("mr.executeMappers", Programs.executeMappers), ("fx.walkLimited", Programs.walkLimited),
   ("syncx.Guard", Programs.barrierGuard)]

/-- every site obeys the discipline: acquire before the guarded function (and before `go`), release
reachable from BOTH exits of the guarded function (release-in-defer), nothing held at the end. -/
theorem sites_disciplined : ∀ x ∈ Programs.all, okProg x.2 = true := by decide

/-- **C05 for the semaphore sites**: at no reachable instant more than `n` holders inside the guarded region. -/
theorem sites_cap (name : String) (p : Prog) (hx : (name, p) ∈ Programs.all) (n : Nat) (s : St)
    (h : Reach p n s) (l : List Tid) (hl : l.Nodup) (hin : ∀ t ∈ l, inCrit p s t = true) : l.length ≤ n :=
  sem_cap p (sites_disciplined _ hx) n s h l hl hin

/-- **… and no capacity is leaked**, whatever mixture of normal returns and panics ended the holders. -/
theorem sites_no_leak (name : String) (p : Prog) (hx : (name, p) ∈ Programs.all) (n : Nat) (s : St)
    (h : Reach p n s) (hq : ∀ t, idle p s t = true) : s.used = 0 ∧ s.cap = n :=
  sem_no_leak p (sites_disciplined _ hx) n s h hq

/-- the discipline is not vacuous: the same handler with the `Return` after the call instead of in a
`defer` is rejected (a panic in `next.ServeHTTP` would skip it) … -/
theorem no_defer_rejected : okProg Programs.maxConnsNoDefer = false := by decide

/-- … and really leaks: one request that panics leaves a permit in the channel for ever. -/
theorem no_defer_leaks :
    ∃ s, Reach Programs.maxConnsNoDefer 1 s ∧ (∀ t, idle Programs.maxConnsNoDefer s t = true) ∧ s.used = 1 := by
  have hr : ∃ s, runSched Programs.maxConnsNoDefer (St.init 1) [(0, false), (0, true)] = some s :=
    ⟨_, rfl⟩
  obtain ⟨s, hs⟩ := hr
  refine ⟨s, reach_runSched Reach.init _ hs, ?_, ?_⟩
  · intro t
    simp only [runSched, step, exec, Programs.maxConnsNoDefer, St.init] at hs
    injection hs with hs
    subst hs
    by_cases ht : t = 0 <;> simp [idle, upd, ht, Programs.maxConnsNoDefer]
  · simp only [runSched, step, exec, Programs.maxConnsNoDefer, St.init] at hs
    injection hs with hs
    subst hs
    rfl

/-- non-vacuity of `sites_cap`: with `n = 2` two threads of the Limit client are inside at once (one came
through `Borrow`, one through `TryBorrow`), a third one is refused, and after a panic and a normal exit the
channel is empty. -/
example :
    (runSched Programs.limitClient (St.init 2)
        [(0, true), (0, false), (0, false), (1, false), (1, false), (2, false), (2, false)]).map
      (fun s => (inCrit Programs.limitClient s 0, inCrit Programs.limitClient s 1, inCrit Programs.limitClient s 2,
                 s.used, s.pc 2))
      = some (true, true, false, 2, 7) := by decide

example :
    (runSched Programs.limitClient (St.init 2)
        [(0, true), (0, false), (0, false), (1, false), (1, false), (0, true), (0, false), (1, false), (1, false)]).map
      (fun s => (idle Programs.limitClient s 0, idle Programs.limitClient s 1, s.used))
      = some (true, true, 0) := by decide

/-! ## 2. TaskRunner: `Wait` -/

/-- the wait-group counter is exactly the number of calls between `Add(1)` and `Done()`. -/
theorem runner_wg_counts (n : Nat) (s : St) (h : Reach Programs.runner n s) :
    ∃ ws : List Tid, ws.Nodup ∧ (∀ t, W Programs.runner (s.pc t) = true ↔ t ∈ ws) ∧ ws.length = s.wg :=
  reach_wg (by decide) h

/-- **When `Wait` may return (`wg = 0`), no task is running and every slot is free again** — also after
panics, also with refused `ScheduleImmediately` calls in between. -/
theorem runner_wait_means_idle (n : Nat) (s : St) (h : Reach Programs.runner n s) (hz : s.wg = 0) :
    s.used = 0 ∧ ∀ t, inCrit Programs.runner s t = false := by
  have hw := reach_wg (p := Programs.runner) (by decide) h
  have hp : okProg Programs.runner = true := by decide
  have hnoW : ∀ t, W Programs.runner (s.pc t) = false := by
    intro t
    cases hc : W Programs.runner (s.pc t)
    · rfl
    · have := tracks_pos hw t hc
      omega
  have hnoH : ∀ t, H Programs.runner (s.pc t) = false := by
    intro t
    cases hc : H Programs.runner (s.pc t)
    · rfl
    · have := holds_imp_inWg (p := Programs.runner) (by decide) _ hc
      rw [hnoW t] at this
      cases this
  refine ⟨tracks_zero (reach_inv hp h).tracks hnoH, ?_⟩
  intro t
  cases hc : inCrit Programs.runner s t
  · rfl
  · have := inCrit_holds hp hc
    rw [hnoH t] at this
    cases this

/-- the same for the worker wait-groups of mr and fx: `wg.Wait()` returning means no mapper / walk
function is running (their slot is given back right after `Done`). -/
theorem workers_wait_means_none_running (p : Prog) (hp : p = Programs.executeMappers ∨ p = Programs.walkLimited)
    (n : Nat) (s : St) (h : Reach p n s) (hz : s.wg = 0) (t : Tid) : inCrit p s t = false := by
  have hokw : okProgWg p = true := by rcases hp with rfl | rfl <;> decide
  have hw := reach_wg hokw h
  cases hc : inCrit p s t
  · rfl
  · exfalso
    have hW : W p (s.pc t) = true := by
      unfold inCrit at hc
      split at hc
      next r hr =>
        rw [W_of_row hr]
        have hm : r ∈ p := List.mem_of_getElem? hr
        have key : ∀ r ∈ p, isUser r.instr = true → r.inWg = true := by
          rcases hp with rfl | rfl <;> decide
        exact key r hm hc
      next => cases hc
    have := tracks_pos hw t hW
    omega

/-! ## 2b. RoutineGroup / WorkerGroup / Barrier -/

/-- **`RoutineGroup.Wait` returning means every function started with `Run`/`RunSafe` has ended** (normally
or by panic: `Done` is deferred), for any number of calls in any interleaving. -/
theorem routineGroup_wait_means_done (n : Nat) (s : St) (h : Reach Programs.routineGroup n s) (hz : s.wg = 0)
    (t : Tid) : inCrit Programs.routineGroup s t = false := by
  have hw := reach_wg (p := Programs.routineGroup) (by decide) h
  cases hc : inCrit Programs.routineGroup s t
  · rfl
  · exfalso
    have hW : W Programs.routineGroup (s.pc t) = true := by
      unfold inCrit at hc
      split at hc
      next r hr =>
        rw [W_of_row hr]
        have key : ∀ r ∈ Programs.routineGroup, isUser r.instr = true → r.inWg = true := by decide
        exact key r (List.mem_of_getElem? hr) hc
      next => cases hc
    have := tracks_pos hw t hW
    omega

/-- **`WorkerGroup.Start` with `workers = k`**: its loop makes exactly `k` `RunSafe` calls (tied:
`for i < wg.workers`), i.e. only `k` threads of the model ever act — at no instant are more than `k` jobs
running, whatever the interleaving and whichever of them panic. -/
theorem workerGroup_cap (n k : Nat) (s : St) (h : ReachK Programs.routineGroup n k s)
    (l : List Tid) (hl : l.Nodup) (hin : ∀ t ∈ l, inCrit Programs.routineGroup s t = true) : l.length ≤ k := by
  apply nodup_lt_length hl
  intro t ht
  rcases Nat.lt_or_ge t k with hlt | hge
  · exact hlt
  · exfalso
    have h0 := reachK_untouched h t hge
    have := hin t ht
    simp [inCrit, h0, Programs.routineGroup, isUser] at this

/-- … and when its `group.Wait()` returns, all `k` jobs have ended. -/
theorem workerGroup_start_returns_after_all (n k : Nat) (s : St) (h : ReachK Programs.routineGroup n k s)
    (hz : s.wg = 0) (t : Tid) : inCrit Programs.routineGroup s t = false :=
  routineGroup_wait_means_done n s (reachK_reach h) hz t

/-- non-vacuity: three `RunSafe` calls, two jobs running at once, one of them panics, `wg` is 3 then. -/
example :
    (runSched Programs.routineGroup (St.init 1)
        [(0, false), (0, false), (0, false), (0, false), (1, false), (1, false), (1, false), (1, false),
         (2, false), (2, false), (2, false), (0, true)]).map
      (fun s => (inCrit Programs.routineGroup s 0, inCrit Programs.routineGroup s 1, s.wg))
      = some (false, true, 3) := by decide

/-- **`syncx.Barrier.Guard` / `syncx.Guard`: mutual exclusion** (a mutex is a limiter of capacity 1, released
in a `defer`): two callers are never inside `fn` at once, also after panics. -/
theorem barrier_mutual_exclusion (s : St) (h : Reach Programs.barrierGuard 1 s) (t u : Tid)
    (ht : inCrit Programs.barrierGuard s t = true) (hu : inCrit Programs.barrierGuard s u = true) : t = u := by
  apply Classical.byContradiction
  intro hne
  have := sem_cap Programs.barrierGuard (by decide) 1 s h [t, u] (by simp [hne]) (by
    intro x hx
    simp only [List.mem_cons, List.not_mem_nil, or_false] at hx
    rcases hx with rfl | rfl <;> assumption)
  simp at this

/-! ## 2c. configuration decision tables -/

/-- `WithWorkers(k)` never yields a capacity below 1 (so `n ≥ 1` holds for mr/fx whatever is configured),
is the identity from 1 on, and floors everything else to `minWorkers = 1`. -/
theorem effWorkers_spec (k : Int) :
    1 ≤ effWorkers k ∧ (1 ≤ k → effWorkers k = k) ∧ (k ≤ 0 → effWorkers k = 1) := by
  unfold effWorkers
  refine ⟨?_, ?_, ?_⟩ <;> split <;> omega

/-- the REST engine's per-route connection cap: a limit exists iff the middleware is on and
`MaxConns > 0`, and then it is exactly `MaxConns`. -/
theorem engineCap_spec (on : Bool) (m : Int) :
    (engineCap on m = none ↔ (on = false ∨ m ≤ 0)) ∧ (∀ n, engineCap on m = some n → on = true ∧ 0 < m ∧ (n : Int) = m) := by
  unfold engineCap
  constructor
  · cases on <;> simp
  · intro n h
    cases on
    · simp at h
    · simp only [if_true] at h
      split at h
      · cases h
      · injection h with h
        exact ⟨rfl, by omega, by omega⟩

/-! ## 3. the limiting object by itself: any callers, no contract -/

/-- capacity never changes and the channel never holds more than `n`, whatever is called in whatever order. -/
theorem limit_capacity_fixed (n : Nat) (ops : List SemOp) :
    ((Sem.init n).final ops).cap = n ∧ ((Sem.init n).final ops).used ≤ n :=
  ⟨Sem.final_cap _ _, Sem.final_used_le _ (Nat.zero_le _) _⟩

/-- **Over-return is an error and changes nothing**: `Return` on an object with nothing borrowed yields
`ErrLimitReturn`, state (in particular the capacity) unchanged. -/
theorem over_return_is_error (s : Sem) (h : s.used = 0) : s.step .ret = (s, .errReturn) := by
  simp [Sem.step, h]

/-- **Returns never outnumber borrows**: in every prefix of every history of calls on a fresh object, the
successful `Return`s are at most the successful borrows; the difference is what is outstanding. -/
theorem returns_le_borrows (n : Nat) (ops : List SemOp) :
    ((Sem.init n).trace ops).countP isOkReturn ≤ ((Sem.init n).trace ops).countP isOkBorrow
    ∧ ((Sem.init n).final ops).used
        = ((Sem.init n).trace ops).countP isOkBorrow - ((Sem.init n).trace ops).countP isOkReturn := by
  have := Sem.account (Sem.init n) ops
  simp only [Sem.init] at this ⊢
  omega

/-- **Refusal**: on a full object `TryBorrow` answers `false` and `Borrow` blocks; nothing is admitted. -/
theorem refusal (s : Sem) (h : s.used = s.cap) :
    s.step .tryBorrow = (s, .refused) ∧ s.step .borrow = (s, .blocked) := by
  simp [Sem.step, h]

/-- below the cap a request is admitted (the free capacity is really available). -/
theorem admission (s : Sem) (h : s.used < s.cap) :
    (s.step .tryBorrow).2 = .ok ∧ (s.step .borrow).2 = .ok ∧ (s.step .tryBorrow).1.used = s.used + 1 := by
  simp [Sem.step, h]

/-- the sequential monitor of Spec.lean never fires on a run of the model (so an alarm on a trace of the
implementation means the implementation left the model). -/
theorem seq_monitor_sound (n : Nat) (ops : List SemOp) :
    SeqMon.run { cap := n, held := 0 } (((Sem.init n).trace ops).map fun x => evOf x.1 x.2) = true :=
  seqMon_sound_aux (Sem.init n) _ rfl rfl (Nat.zero_le _) ops

example : ((Sem.init 2).trace [.tryBorrow, .borrow, .tryBorrow, .ret, .ret, .ret]).map (·.2)
    = [.ok, .ok, .refused, .ok, .ok, .errReturn] := by decide

/-- The limit of what a counting channel can report (why `sem_cap` needs the discipline "return only what you
borrowed"): with `n = 1`, A borrows, a caller B that borrowed nothing returns — no error, the channel cannot
tell B's `Return` from A's — and C is admitted while A is still inside.  Over-return is detected exactly when
the channel is empty (`over_return_is_error`, `returns_le_borrows`), not per caller. -/
example : ((Sem.init 1).trace [.tryBorrow, .ret, .tryBorrow]).map (·.2) = [.ok, .ok, .ok] := by decide

/-! ## 4. `syncx.Pool`

`PReach limit maxAge s`: `s` is reachable from the empty pool by ANY sequence of `Get`s and `Put`s of any
number of users at any clock readings, where every `Put` gives back a resource its caller got from `Get` and
has not given back yet (the caller contract), and `create` yields fresh resources. -/

/-- **Pool invariant**: `created = |idle| + |in use| ≤ limit`; idle and in-use resources are pairwise
distinct (no resource is both idle and in use, none is listed twice). -/
theorem pool_inv (limit maxAge : Nat) (s : PSys) (h : PReach limit maxAge s) :
    s.pool.created = (s.pool.idle.length : Int) + (s.inUse.length : Int)
    ∧ s.pool.created ≤ (limit : Int)
    ∧ (s.pool.idle.map (·.item) ++ s.inUse.map (·.2)).Nodup := by
  have hi := preach_inv h
  refine ⟨hi.count, hi.le_limit, List.nodup_append.mpr ⟨hi.idleND, hi.useND, ?_⟩⟩
  intro a ha b hb hab
  subst hab
  exact hi.disjoint a ha hb

/-- **At most `limit` resources are in use.** -/
theorem pool_cap (limit maxAge : Nat) (s : PSys) (h : PReach limit maxAge s) : s.inUse.length ≤ limit := by
  have hi := preach_inv h
  have h1 := hi.count
  have h2 := hi.le_limit
  omega

/-- **A pooled resource is never held by two users at once.** -/
theorem pool_exclusive (limit maxAge : Nat) (s : PSys) (h : PReach limit maxAge s) (t u : Tid) (r : Nat)
    (ht : (t, r) ∈ s.inUse) (hu : (u, r) ∈ s.inUse) : t = u := by
  have hi := preach_inv h
  have := nodup_map_inj (fun x : Tid × Nat => x.2) s.inUse hi.useND (t, r) (u, r) ht hu rfl
  exact (Prod.mk.inj this).1

/-- … and one user never holds the same resource twice. -/
theorem pool_inUse_nodup (limit maxAge : Nat) (s : PSys) (h : PReach limit maxAge s) : s.inUse.Nodup := by
  have hi := preach_inv h
  exact nodup_of_nodup_map _ _ hi.useND

/-- **Beyond the cap a `Get` waits** (reaches `cond.Wait()`), it creates and hands out nothing. -/
theorem pool_full_waits (limit maxAge : Nat) (s : PSys) (h : PReach limit maxAge s)
    (hfull : s.inUse.length = limit) (now : Nat) : (s.pool.get now).2 = .wait [] := by
  have hi := preach_inv h
  have h1 := hi.count
  have h2 := hi.le_limit
  have hz : s.pool.idle.length = 0 := by omega
  have hnil : s.pool.idle = [] := List.eq_nil_of_length_eq_zero hz
  have hc : ¬ s.pool.created < (s.pool.limit : Int) := by rw [hi.lim]; omega
  simp [Pool.get, hnil, getLoop, hc]

/-- **Below the cap the capacity is available**: `Get` hands out a resource (an idle one, or a fresh one
after discarding expired ones) — in particular after all users have put their resources back. -/
theorem pool_available (limit maxAge : Nat) (s : PSys) (h : PReach limit maxAge s)
    (hlt : s.inUse.length < limit) (now : Nat) : ∃ item fresh d, (s.pool.get now).2 = .got item fresh d := by
  have hi := preach_inv h
  have spec := getLoop_spec s.pool.limit s.pool.maxAge now s.pool.next s.pool.idle s.pool.created []
  unfold Pool.get
  revert spec
  generalize getLoop s.pool.limit s.pool.maxAge now s.pool.next s.pool.idle s.pool.created [] = r
  obtain ⟨p', res⟩ := r
  intro spec
  cases res with
  | got item fresh d => exact ⟨item, fresh, d, rfl⟩
  | wait d =>
    exfalso
    obtain ⟨_, _, _, _, _, h6⟩ := spec
    have h1 := hi.count
    rw [hi.lim] at h6
    omega

/-- **`Get` destroys only idle resources whose age exceeds `maxAge`** — never one that is in use — and a
resource it hands out again has not expired. -/
theorem pool_destroys_only_expired_idle (limit maxAge : Nat) (s : PSys) (h : PReach limit maxAge s) (now : Nat) :
    (∀ x ∈ (s.pool.get now).2.destroyed,
        (∃ nd ∈ s.pool.idle, nd.item = x ∧ expired s.pool.maxAge now nd = true) ∧ ∀ t, (t, x) ∉ s.inUse)
    ∧ (∀ item d, (s.pool.get now).2 = .got item false d →
        ∃ nd ∈ s.pool.idle, nd.item = item ∧ expired s.pool.maxAge now nd = false) := by
  have hi := preach_inv h
  obtain ⟨pre, hpre, hexp, hd, hg⟩ :=
    getLoop_destroyed s.pool.limit s.pool.maxAge now s.pool.next s.pool.idle s.pool.created []
  unfold Pool.get
  constructor
  · intro x hx
    have hx' : x ∈ pre.map (·.item) := by
      revert hd hx
      generalize (getLoop s.pool.limit s.pool.maxAge now s.pool.next s.pool.idle s.pool.created []).2 = res
      cases res <;> simp only [GetResult.destroyed, List.nil_append] <;> intro hd hx <;> rw [hd] at hx <;> exact hx
    obtain ⟨nd, hnd, rfl⟩ := List.mem_map.mp hx'
    have hin : nd ∈ s.pool.idle := hpre.subset hnd
    refine ⟨⟨nd, hin, rfl, hexp nd hnd⟩, ?_⟩
    intro t ht
    exact hi.disjoint nd.item (List.mem_map_of_mem (f := (·.item)) hin)
      (List.mem_map_of_mem (f := fun x : Tid × Nat => x.2) ht)
  · intro item d heq
    rw [heq] at hg
    obtain ⟨nd, h1, h2, h3⟩ := hg
    exact ⟨nd, h1, h2, h3⟩

/-- non-vacuity: limit 1, maxAge 10: user 0 gets resource 0 and puts it back at time 5; at time 20 user 1
asks: resource 0 has expired, it is destroyed and a fresh resource 1 is handed out; user 2 has to wait. -/
example :
    ((((PSys.init 1 10).step (.get 0 0)).bind (·.step (.put 0 0 5))).bind (·.step (.get 1 20))).map
      (fun s => (s.inUse, s.pool.created, (s.pool.get 21).2))
      = some ([(1, 1)], 1, .wait []) := by decide

example : ((Pool.init 1 10).put 0 5).get 20 = ({ limit := 1, maxAge := 10, created := 0, idle := [], next := 1 }, .got 0 true [0]) := by
  decide

/-- **A `Get` that has to wait changes nothing** (in a reachable state): it reaches `cond.Wait()` with the pool
exactly as it found it, so the waiting call is a retry of the same `Get` later — `PSys.step` taking a waking
`Get` as a fresh atomic `get` loses no behaviour. -/
theorem pool_wait_changes_nothing (limit maxAge : Nat) (s : PSys) (h : PReach limit maxAge s) (now : Nat)
    (d : List Nat) (hw : (s.pool.get now).2 = .wait d) : (s.pool.get now).1 = s.pool ∧ d = [] := by
  have hi := preach_inv h
  have spec := getLoop_spec s.pool.limit s.pool.maxAge now s.pool.next s.pool.idle s.pool.created []
  have hd := getLoop_destroyed s.pool.limit s.pool.maxAge now s.pool.next s.pool.idle s.pool.created []
  unfold Pool.get at hw ⊢
  revert spec hd hw
  generalize getLoop s.pool.limit s.pool.maxAge now s.pool.next s.pool.idle s.pool.created [] = r
  obtain ⟨p', res⟩ := r
  intro hw spec hd
  simp only at hw
  subst hw
  obtain ⟨h1, h2, h3, h4, h5, h6⟩ := spec
  obtain ⟨pre, hpre, _, hdd, _⟩ := hd
  simp only [List.nil_append] at hdd
  have hc := hi.count
  have hl := hi.le_limit
  rw [hi.lim] at h6
  have hz : s.pool.idle.length = 0 := by omega
  have hnil : s.pool.idle = [] := List.eq_nil_of_length_eq_zero hz
  have hprenil : pre = [] := by
    rw [hnil] at hpre
    exact List.prefix_nil.mp hpre
  refine ⟨?_, by rw [hdd, hprenil]; rfl⟩
  simp only at h1 h2 h3 h4 h5 ⊢
  rw [hnil] at h5
  simp only [List.length_nil] at h5
  have h5' : p'.created = s.pool.created := by omega
  cases p' with
  | mk l' m' c' i' nx' =>
    cases hs : s.pool with
    | mk l m c i nx =>
      rw [hs] at h1 h2 h4 h5' hnil
      simp only at h1 h2 h3 h4 h5' hnil
      subst h1 h2 h3 h4 h5' hnil
      rfl

/-- **Decision on a panicking `create` callback** (re-reading the property: "after all holders have finished,
including by panic, the full capacity is available again" quantifies over panics INSIDE HOLDERS; a caller
whose `create` panics never becomes a holder — it is outside the quantifier and is a broken caller contract
like a foreign `Put`).  What the code does, stated so that nobody has to guess: `p.created++` has run, the
panic leaves through the deferred `Unlock`, nothing decrements — the counter is one higher than the
number of living resources, for ever.  Witness with `limit = 1`: after one panicking create nothing is in
use, nothing is idle, and every later `Get` waits. -/
theorem pool_create_panic_keeps_slot :
    let p1 := ((Pool.init 1 0).getCreatePanics 0).1
    ((Pool.init 1 0).getCreatePanics 0).2.2 = true ∧ p1.created = 1 ∧ p1.idle = [] ∧ (p1.get 1).2 = .wait [] := by
  decide

/-- on the paths that do not call `create` (an idle resource is reused, or the call waits) a panicking
`create` makes no difference. -/
theorem pool_create_panic_only_on_create_path (p : Pool) (now : Nat) (h : (p.getCreatePanics now).2.2 = false) :
    (p.getCreatePanics now).1 = (p.get now).1 ∧ (p.getCreatePanics now).2.1 = (p.get now).2 := by
  unfold Pool.getCreatePanics at h ⊢
  generalize p.get now = r at h ⊢
  obtain ⟨p', res⟩ := r
  cases res with
  | wait d => exact ⟨rfl, rfl⟩
  | got item fresh d =>
    cases fresh with
    | false => exact ⟨rfl, rfl⟩
    | true => simp at h

/-! ## 5. the history monitor is sound for the model -/

/-- For every disciplined site program, capacity, number of threads and schedule: the history of
enter/exit events the model produces is accepted by the executable monitor `HistMon` used on the
implementation's histories (no cap alarm at any prefix), and if all threads have finished the final check
(nobody inside, measured free capacity `n`) passes too. -/
theorem hist_monitor_sound (p : Prog) (hp : okProg p = true) (n : Nat) (sched : List (Tid × Bool)) :
    ∃ m', HistMon.feed { cap := n, inside := [] } (histOf p (St.init n) sched).1 = some m' ∧
      ((∀ t, idle p (histOf p (St.init n) sched).2 t = true) →
        m'.final ((histOf p (St.init n) sched).2.cap - (histOf p (St.init n) sched).2.used) = .ok) := by
  have hm0 : MonRel p (St.init n) { cap := n, inside := [] } := by
    refine ⟨List.nodup_nil, ?_⟩
    intro t
    simp only [List.not_mem_nil, false_iff]
    intro hc
    have := inCrit_holds hp hc
    simp only [St.init] at this
    rw [okProg_zero hp] at this
    cases this
  obtain ⟨m', hf, hcap, hrel, hreach⟩ := feed_sound hp sched Reach.init { cap := n, inside := [] } rfl hm0
  refine ⟨m', hf, ?_⟩
  intro hq
  have hnl := sem_no_leak p hp n _ hreach hq
  have hempty : m'.inside = [] := by
    cases hin : m'.inside with
    | nil => rfl
    | cons a rest =>
      have ha : a ∈ m'.inside := by rw [hin]; simp
      have h1 := inCrit_holds hp ((hrel.mem a).mp ha)
      rw [idle_not_holds hp (hq a)] at h1
      cases h1
  simp [HistMon.final, hempty, hnl.1, hnl.2, hcap]

/-- non-vacuity: the history of the schedule used above (two holders inside at once with `n = 2`). -/
example : (histOf Programs.limitClient (St.init 2)
      [(0, true), (0, false), (0, false), (1, false), (1, false), (2, false), (2, false), (0, true), (1, false)]).1
    = [.enter 0, .enter 1, .exit 0, .exit 1] := by decide

end GoZero.C05
