/-
C05 — property theorems (statements, short proofs from the lemmas of Proofs*.lean, non-vacuity examples).
-/
import GoZero.C05.Proofs
namespace GoZero.C05

/-- **The cap.**  For every site program obeying the static discipline, every capacity `n`, any number of
threads and every schedule (every `Reach`able state): any set of distinct threads that are inside the guarded
region at the same instant has at most `n` members. -/
theorem sem_cap (p : Prog) (hp : okProg p = true) (n : Nat) (s : St) (h : Reach p n s)
    (l : List Tid) (hl : l.Nodup) (hin : ∀ t ∈ l, inCrit p s t = true) : l.length ≤ n := by
  have hi := reach_inv hp h
  have hc := reach_cap h
  have := tracks_bound hi.tracks l hl (fun t ht => inCrit_holds hp (hin t ht))
  have := hi.le_cap
  omega

/-- **No leak.**  When every thread has finished (normally or through the panic exit) or never started, the
channel is empty again: the full capacity is available. -/
theorem sem_no_leak (p : Prog) (hp : okProg p = true) (n : Nat) (s : St) (h : Reach p n s)
    (hq : ∀ t, idle p s t = true) : s.used = 0 ∧ s.cap = n :=
  ⟨tracks_zero (reach_inv hp h).tracks (fun t => idle_not_holds hp (hq t)), reach_cap h⟩

end GoZero.C05
