/-
C05 — `threading.WorkerGroup.Start` as the program it is (core Lean only):

    group := NewRoutineGroup()
    for i := 0; i < wg.workers; i++ { group.RunSafe(wg.job) }     -- RunSafe: waitGroup.Add(1); GoSafe(func(){ defer Done(); fn() })
    group.Wait()

ONE `Start` call (its loop variable `i`, its private RoutineGroup) and the goroutines it spawns: goroutine `j` is
the one spawned in iteration `j`.  A spawned goroutine counts as running from the `RunSafe` call that creates it
(a superset of the time it spends inside `job`) until its deferred `Done`, whichever way `job` ends.  `workers` is a
Go `int`: zero and negative values are part of the model (the loop body never runs).
-/
import GoZero.C05.Model
namespace GoZero.C05

inductive JLoc where
  | notStarted | running | ended
  deriving Repr, DecidableEq

inductive SLoc where
  | loop | waiting | returned
  deriving Repr, DecidableEq

structure WGSt where
  workers : Int
  i       : Int             -- the loop variable
  wg      : Nat             -- the RoutineGroup's wait-group counter
  start   : SLoc
  job     : Tid → JLoc

def WGSt.init (workers : Int) : WGSt :=
  { workers := workers, i := 0, wg := 0, start := .loop, job := fun _ => .notStarted }

/-- the loop test `i < wg.workers` (tied to the translated condition of the Go `for`). -/
def wgLoopTest (i workers : Int) : Bool := decide (i < workers)

def isRunning : JLoc → Bool
  | .running => true
  | _ => false

inductive WGStep : WGSt → WGSt → Prop where
  /-- one iteration: `group.RunSafe(wg.job)` (Add(1), spawn goroutine `i`), `i++` -/
  | spawn {s : WGSt} : s.start = .loop → wgLoopTest s.i s.workers = true →
      WGStep s { s with i := s.i + 1, wg := s.wg + 1, job := upd s.job s.i.toNat .running }
  /-- the loop test fails: on to `group.Wait()` -/
  | loopExit {s : WGSt} : s.start = .loop → wgLoopTest s.i s.workers = false →
      WGStep s { s with start := .waiting }
  /-- goroutine `j`: `job` ends (return, panic with any value — recovered by RunSafe —, Goexit), deferred `Done` -/
  | jobEnd {s : WGSt} (j : Tid) : s.job j = .running →
      WGStep s { s with wg := s.wg - 1, job := upd s.job j .ended }
  /-- `group.Wait()` returns: enabled iff the counter is 0 -/
  | waitReturns {s : WGSt} : s.start = .waiting → s.wg = 0 →
      WGStep s { s with start := .returned }

inductive WGReach (workers : Int) : WGSt → Prop where
  | init : WGReach workers (WGSt.init workers)
  | step {s s' : WGSt} : WGReach workers s → WGStep s s' → WGReach workers s'

end GoZero.C05
