/-
C05 — helper lemmas: the counting invariant of the interleaving semantics, for every program that obeys
the static discipline `okProg`, any capacity, any number of threads, any schedule.
-/
import GoZero.C05.Model
namespace GoZero.C05

/-! ### lists -/

theorem nodup_subset_length {l hs : List Tid} (hl : l.Nodup) (hsub : ∀ x ∈ l, x ∈ hs) :
    l.length ≤ hs.length := by
  induction l generalizing hs with
  | nil => simp
  | cons a t ih =>
    have ha : a ∈ hs := hsub a (by simp)
    have hnd := List.nodup_cons.mp hl
    have : t.length ≤ (hs.erase a).length := by
      apply ih hnd.2
      intro x hx
      have hxa : x ≠ a := by
        intro h; subst h; exact hnd.1 hx
      exact (List.mem_erase_of_ne hxa).mpr (hsub x (by simp [hx]))
    rw [List.length_erase_of_mem ha] at this
    have hpos : 0 < hs.length := List.length_pos_of_mem ha
    simp only [List.length_cons]
    omega

/-! ### reachability -/

inductive Reach (p : Prog) (n : Nat) : St → Prop where
  | init : Reach p n (St.init n)
  | step {s s' : St} (t : Tid) (c : Bool) : Reach p n s → step p s t c = some s' → Reach p n s'

/-- a counter tracks an annotation: the threads whose row carries the annotation are exactly a duplicate-free
list whose length is the counter. -/
def Tracks {L : Type} (A : L → Bool) (pc : Tid → L) (k : Nat) : Prop :=
  ∃ hs : List Tid, hs.Nodup ∧ (∀ t, A (pc t) = true ↔ t ∈ hs) ∧ hs.length = k

theorem tracks_keep {L : Type} {A : L → Bool} {pc : Tid → L} {k : Nat} (h : Tracks A pc k) (t : Tid) (q : L)
    (hq : A q = A (pc t)) : Tracks A (upd pc t q) k := by
  obtain ⟨hs, hnd, hm, hl⟩ := h
  refine ⟨hs, hnd, ?_, hl⟩
  intro u
  by_cases hu : u = t
  · subst hu; simp only [upd, if_true]; rw [hq]; exact hm u
  · simp only [upd, hu, if_false]; exact hm u

theorem tracks_gain {L : Type} {A : L → Bool} {pc : Tid → L} {k : Nat} (h : Tracks A pc k) (t : Tid) (q : L)
    (h0 : A (pc t) = false) (hq : A q = true) : Tracks A (upd pc t q) (k + 1) := by
  obtain ⟨hs, hnd, hm, hl⟩ := h
  have htn : t ∉ hs := by
    intro hin
    have := (hm t).mpr hin
    rw [h0] at this; exact Bool.noConfusion this
  refine ⟨t :: hs, List.nodup_cons.mpr ⟨htn, hnd⟩, ?_, by simp [hl]⟩
  intro u
  by_cases hu : u = t
  · subst hu; simp [upd, hq]
  · simp only [upd, hu, if_false, List.mem_cons, false_or]; exact hm u

theorem tracks_lose {L : Type} {A : L → Bool} {pc : Tid → L} {k : Nat} (h : Tracks A pc k) (t : Tid) (q : L)
    (h1 : A (pc t) = true) (hq : A q = false) : 0 < k ∧ Tracks A (upd pc t q) (k - 1) := by
  obtain ⟨hs, hnd, hm, hl⟩ := h
  have hin : t ∈ hs := (hm t).mp h1
  have hpos : 0 < hs.length := List.length_pos_of_mem hin
  refine ⟨by omega, hs.erase t, hnd.erase t, ?_, by rw [List.length_erase_of_mem hin, hl]⟩
  intro u
  by_cases hu : u = t
  · subst hu
    simp only [upd, if_true, hq]
    constructor
    · intro h; exact Bool.noConfusion h
    · intro h; exact absurd h (List.Nodup.not_mem_erase hnd)
  · simp only [upd, hu, if_false]
    rw [List.mem_erase_of_ne hu]; exact hm u

theorem tracks_pos {L : Type} {A : L → Bool} {pc : Tid → L} {k : Nat} (h : Tracks A pc k) (t : Tid)
    (h1 : A (pc t) = true) : 0 < k := by
  obtain ⟨hs, _, hm, hl⟩ := h
  have hin : t ∈ hs := (hm t).mp h1
  have := List.length_pos_of_mem hin
  omega

theorem tracks_bound {L : Type} {A : L → Bool} {pc : Tid → L} {k : Nat} (h : Tracks A pc k) (l : List Tid)
    (hl : l.Nodup) (hA : ∀ t ∈ l, A (pc t) = true) : l.length ≤ k := by
  obtain ⟨hs, _, hm, hlen⟩ := h
  rw [← hlen]
  exact nodup_subset_length hl (fun x hx => (hm x).mp (hA x hx))

theorem tracks_zero {L : Type} {A : L → Bool} {pc : Tid → L} {k : Nat} (h : Tracks A pc k)
    (hA : ∀ t, A (pc t) = false) : k = 0 := by
  obtain ⟨hs, _, hm, hlen⟩ := h
  cases hs with
  | nil => simpa using hlen.symm
  | cons a t =>
    have := (hm a).mpr (by simp)
    rw [hA a] at this; exact Bool.noConfusion this

/-! ### the static discipline gives the facts of each row -/

theorem okProg_row {p : Prog} (hp : okProg p = true) {q : Nat} {r : Row} (hr : p[q]? = some r) :
    okRow p q r = true := by
  unfold okProg at hp
  simp only [Bool.and_eq_true, List.all_eq_true, List.mem_range] at hp
  have hq : q < p.length := by
    rcases Nat.lt_or_ge q p.length with h | h
    · exact h
    · rw [List.getElem?_eq_none h] at hr; cases hr
  have := hp.2 q hq
  rw [hr] at this
  exact this

theorem okProg_zero {p : Prog} (hp : okProg p = true) : H p 0 = false := by
  unfold okProg at hp
  simp only [Bool.and_eq_true, Bool.not_eq_true'] at hp
  exact hp.1

theorem okProgWg_row {p : Prog} (hp : okProgWg p = true) {q : Nat} {r : Row} (hr : p[q]? = some r) :
    okRowWg p q r = true := by
  unfold okProgWg at hp
  simp only [Bool.and_eq_true, List.all_eq_true, List.mem_range] at hp
  have hq : q < p.length := by
    rcases Nat.lt_or_ge q p.length with h | h
    · exact h
    · rw [List.getElem?_eq_none h] at hr; cases hr
  have := hp.2 q hq
  rw [hr] at this
  exact this

theorem okProgWg_zero {p : Prog} (hp : okProgWg p = true) : W p 0 = false := by
  unfold okProgWg at hp
  simp only [Bool.and_eq_true, Bool.not_eq_true'] at hp
  exact hp.1

theorem H_of_row {p : Prog} {q : Nat} {r : Row} (hr : p[q]? = some r) : H p q = r.holds := by
  simp [H, hr]

theorem W_of_row {p : Prog} {q : Nat} {r : Row} (hr : p[q]? = some r) : W p q = r.inWg := by
  simp [W, hr]

/-! ### the permit invariant -/

structure Inv (p : Prog) (s : St) : Prop where
  tracks : Tracks (H p) s.pc s.used
  le_cap : s.used ≤ s.cap
  noerr  : ∀ t, s.err t = false

theorem inv_init (p : Prog) (hp : okProg p = true) (n : Nat) : Inv p (St.init n) := by
  refine ⟨⟨[], List.nodup_nil, ?_, rfl⟩, Nat.zero_le _, fun _ => rfl⟩
  intro t
  simp [St.init, okProg_zero hp]

theorem inv_step {p : Prog} (hp : okProg p = true) {s s' : St} {t : Tid} {c : Bool}
    (hi : Inv p s) (hs : step p s t c = some s') : Inv p s' := by
  unfold step at hs
  split at hs
  next r hr =>
    have hok := okProg_row hp hr
    have hH := H_of_row hr
    obtain ⟨htr, hle, hne⟩ := hi
    unfold okRow at hok
    unfold exec at hs
    split at hs
    -- acquire
    · next hi' =>
      rw [hi'] at hok; simp only [Bool.and_eq_true, Bool.not_eq_true'] at hok
      split at hs
      · next hlt =>
        injection hs with hs; subst hs
        exact ⟨tracks_gain htr t _ (by rw [hH]; exact hok.1) hok.2, by simp only; omega, hne⟩
      · cases hs
    -- tryAcquire
    · next els hi' =>
      rw [hi'] at hok; simp only [Bool.and_eq_true, Bool.not_eq_true'] at hok
      split at hs
      · next hlt =>
        injection hs with hs; subst hs
        exact ⟨tracks_gain htr t _ (by rw [hH]; exact hok.1.1) hok.1.2, by simp only; omega, hne⟩
      · injection hs with hs; subst hs
        exact ⟨tracks_keep htr t _ (by rw [hH, hok.2, hok.1.1]), hle, hne⟩
    -- release
    · next hi' =>
      rw [hi'] at hok; simp only [Bool.and_eq_true, Bool.not_eq_true'] at hok
      split at hs
      · injection hs with hs; subst hs
        have := tracks_lose htr t (s.pc t + 1) (by rw [hH]; exact hok.1) hok.2
        exact ⟨this.2, by simp only; omega, hne⟩
      · cases hs
    -- tryRelease
    · next hi' =>
      rw [hi'] at hok; simp only [Bool.and_eq_true, Bool.not_eq_true'] at hok
      have hpos := tracks_pos htr t (by rw [hH]; exact hok.1)
      split at hs
      · injection hs with hs; subst hs
        have := tracks_lose htr t (s.pc t + 1) (by rw [hH]; exact hok.1) hok.2
        exact ⟨this.2, by simp only; omega, hne⟩
      · next hn => exact absurd hpos hn
    -- wgAdd
    · next hi' =>
      rw [hi'] at hok; simp only [beq_iff_eq] at hok
      injection hs with hs; subst hs
      exact ⟨tracks_keep htr t _ (by rw [hH, hok]), hle, hne⟩
    -- wgDone
    · next hi' =>
      rw [hi'] at hok; simp only [beq_iff_eq] at hok
      injection hs with hs; subst hs
      exact ⟨tracks_keep htr t _ (by rw [hH, hok]), hle, hne⟩
    -- wgWait
    · next hi' =>
      rw [hi'] at hok; simp only [beq_iff_eq] at hok
      split at hs
      · injection hs with hs; subst hs
        exact ⟨tracks_keep htr t _ (by rw [hH, hok]), hle, hne⟩
      · cases hs
    -- user
    · next onP hi' =>
      rw [hi'] at hok; simp only [Bool.and_eq_true] at hok
      injection hs with hs; subst hs
      refine ⟨tracks_keep htr t _ ?_, hle, hne⟩
      rw [hH, hok.1.1]
      cases c
      · simpa using hok.1.2
      · simpa using hok.2
    -- nop
    · next hi' =>
      rw [hi'] at hok; simp only [beq_iff_eq] at hok
      injection hs with hs; subst hs
      exact ⟨tracks_keep htr t _ (by rw [hH, hok]), hle, hne⟩
    -- goto
    · next q hi' =>
      rw [hi'] at hok; simp only [beq_iff_eq] at hok
      injection hs with hs; subst hs
      exact ⟨tracks_keep htr t _ (by rw [hH, hok]), hle, hne⟩
    -- branch
    · next a b hi' =>
      rw [hi'] at hok; simp only [Bool.and_eq_true, beq_iff_eq] at hok
      injection hs with hs; subst hs
      refine ⟨tracks_keep htr t _ ?_, hle, hne⟩
      rw [hH]
      cases c
      · simpa using hok.2
      · simpa using hok.1
    -- halt
    · cases hs
  next => cases hs

theorem reach_inv {p : Prog} (hp : okProg p = true) {n : Nat} {s : St} (h : Reach p n s) : Inv p s := by
  induction h with
  | init => exact inv_init p hp n
  | step t c _ hs ih => exact inv_step hp ih hs

theorem reach_cap {p : Prog} {n : Nat} {s : St} (h : Reach p n s) : s.cap = n := by
  induction h with
  | init => rfl
  | step t c _ hs ih =>
    rename_i s0 s1
    unfold step at hs
    split at hs
    · unfold exec at hs
      split at hs <;> (try split at hs) <;> first
        | (injection hs with hs; subst hs; exact ih)
        | cases hs
    · cases hs

/-- a thread inside the guarded region holds a permit (by the discipline). -/
theorem inCrit_holds {p : Prog} (hp : okProg p = true) {s : St} {t : Tid} (h : inCrit p s t = true) :
    H p (s.pc t) = true := by
  unfold inCrit at h
  split at h
  next r hr =>
    have hok := okProg_row hp hr
    rw [H_of_row hr]
    unfold okRow at hok
    cases hi : r.instr <;> rw [hi] at h <;> simp [isUser] at h
    rw [hi] at hok
    simp only [Bool.and_eq_true] at hok
    exact hok.1.1
  next => exact Bool.noConfusion h

/-- a thread that has not started or has finished holds nothing. -/
theorem idle_not_holds {p : Prog} (hp : okProg p = true) {s : St} {t : Tid} (h : idle p s t = true) :
    H p (s.pc t) = false := by
  unfold idle at h
  simp only [Bool.or_eq_true, decide_eq_true_eq] at h
  rcases h with h | h
  · rw [h]; exact okProg_zero hp
  · split at h
    next r hr =>
      have hok := okProg_row hp hr
      rw [H_of_row hr]
      unfold okRow at hok
      simp only [decide_eq_true_eq] at h
      rw [h] at hok
      simpa using hok
    next hr => simp [H, hr]

/-! ### the wait-group invariant -/

theorem wg_step {p : Prog} (hp : okProgWg p = true) {s s' : St} {t : Tid} {c : Bool}
    (htr : Tracks (W p) s.pc s.wg) (hs : step p s t c = some s') : Tracks (W p) s'.pc s'.wg := by
  unfold step at hs
  split at hs
  next r hr =>
    have hok := okProgWg_row hp hr
    have hW := W_of_row hr
    unfold okRowWg at hok
    unfold exec at hs
    split at hs
    -- acquire
    · next hi' =>
      rw [hi'] at hok; simp only [beq_iff_eq] at hok
      split at hs
      · injection hs with hs; subst hs
        exact tracks_keep htr t _ (by rw [hW, hok])
      · cases hs
    -- tryAcquire
    · next els hi' =>
      rw [hi'] at hok; simp only [Bool.and_eq_true, beq_iff_eq] at hok
      split at hs
      · injection hs with hs; subst hs
        exact tracks_keep htr t _ (by rw [hW, hok.1])
      · injection hs with hs; subst hs
        exact tracks_keep htr t _ (by rw [hW, hok.2])
    -- release
    · next hi' =>
      rw [hi'] at hok; simp only [beq_iff_eq] at hok
      split at hs
      · injection hs with hs; subst hs
        exact tracks_keep htr t _ (by rw [hW, hok])
      · cases hs
    -- tryRelease
    · next hi' =>
      rw [hi'] at hok; simp only [beq_iff_eq] at hok
      split at hs
      · injection hs with hs; subst hs
        exact tracks_keep htr t _ (by rw [hW, hok])
      · injection hs with hs; subst hs
        exact tracks_keep htr t _ (by rw [hW, hok])
    -- wgAdd
    · next hi' =>
      rw [hi'] at hok; simp only [Bool.and_eq_true, Bool.not_eq_true'] at hok
      injection hs with hs; subst hs
      exact tracks_gain htr t _ (by rw [hW]; exact hok.1) hok.2
    -- wgDone
    · next hi' =>
      rw [hi'] at hok; simp only [Bool.and_eq_true, Bool.not_eq_true'] at hok
      injection hs with hs; subst hs
      exact (tracks_lose htr t (s.pc t + 1) (by rw [hW]; exact hok.1) hok.2).2
    -- wgWait
    · next hi' =>
      rw [hi'] at hok; simp only [Bool.and_eq_true, Bool.not_eq_true'] at hok
      split at hs
      · injection hs with hs; subst hs
        exact tracks_keep htr t _ (by rw [hW, hok.1, hok.2])
      · cases hs
    -- user
    · next onP hi' =>
      rw [hi'] at hok; simp only [Bool.and_eq_true, beq_iff_eq] at hok
      injection hs with hs; subst hs
      refine tracks_keep htr t _ ?_
      rw [hW]
      cases c
      · simpa using hok.1
      · simpa using hok.2
    -- nop
    · next hi' =>
      rw [hi'] at hok; simp only [beq_iff_eq] at hok
      injection hs with hs; subst hs
      exact tracks_keep htr t _ (by rw [hW, hok])
    -- goto
    · next q hi' =>
      rw [hi'] at hok; simp only [beq_iff_eq] at hok
      injection hs with hs; subst hs
      exact tracks_keep htr t _ (by rw [hW, hok])
    -- branch
    · next a b hi' =>
      rw [hi'] at hok; simp only [Bool.and_eq_true, beq_iff_eq] at hok
      injection hs with hs; subst hs
      refine tracks_keep htr t _ ?_
      rw [hW]
      cases c
      · simpa using hok.2
      · simpa using hok.1
    -- halt
    · cases hs
  next => cases hs

theorem reach_wg {p : Prog} (hp : okProgWg p = true) {n : Nat} {s : St} (h : Reach p n s) :
    Tracks (W p) s.pc s.wg := by
  induction h with
  | init =>
    refine ⟨[], List.nodup_nil, ?_, rfl⟩
    intro t
    simp [St.init, okProgWg_zero hp]
  | step t c _ hs ih => exact wg_step hp ih hs

theorem holds_imp_inWg {p : Prog} (hp : holdsWithinWg p = true) (q : Nat) (h : H p q = true) : W p q = true := by
  unfold H at h
  unfold W
  split at h
  next r hr =>
    unfold holdsWithinWg at hp
    simp only [List.all_eq_true, Bool.or_eq_true, Bool.not_eq_true'] at hp
    have hm : r ∈ p := List.mem_of_getElem? hr
    rcases hp r hm with h' | h'
    · rw [h] at h'; cases h'
    · exact h'
  next => cases h

/-! ### runs in which only the first `k` threads ever act (a loop that makes exactly `k` calls) -/

inductive ReachK (p : Prog) (n k : Nat) : St → Prop where
  | init : ReachK p n k (St.init n)
  | step {s s' : St} (t : Tid) (c : Bool) : t < k → ReachK p n k s → step p s t c = some s' → ReachK p n k s'

theorem reachK_reach {p : Prog} {n k : Nat} {s : St} (h : ReachK p n k s) : Reach p n s := by
  induction h with
  | init => exact Reach.init
  | step t c _ _ hs ih => exact Reach.step t c ih hs

/-- a step of thread `t` moves only `t`. -/
theorem step_pc_other {p : Prog} {s s' : St} {t : Tid} {c : Bool} (hs : step p s t c = some s') (u : Tid)
    (hu : u ≠ t) : s'.pc u = s.pc u := by
  unfold step at hs
  split at hs
  · unfold exec at hs
    split at hs <;> (try split at hs) <;> first
      | (injection hs with hs; subst hs; simp [upd, hu])
      | cases hs
  · cases hs

theorem reachK_untouched {p : Prog} {n k : Nat} {s : St} (h : ReachK p n k s) (u : Tid) (hu : k ≤ u) :
    s.pc u = 0 := by
  induction h with
  | init => rfl
  | step t c ht _ hs ih =>
    have hne : u ≠ t := by
      intro h; subst h; exact absurd ht (Nat.not_lt.mpr hu)
    rw [step_pc_other hs u hne]; exact ih

theorem nodup_lt_length {l : List Tid} {k : Nat} (hl : l.Nodup) (hlt : ∀ t ∈ l, t < k) : l.length ≤ k := by
  have := nodup_subset_length (hs := List.range k) hl (fun x hx => List.mem_range.mpr (hlt x hx))
  simpa using this

/-- the cap, in the form used by the monitor-soundness proof. -/
theorem sem_cap_aux {p : Prog} (hp : okProg p = true) {n : Nat} {s : St} (h : Reach p n s)
    (l : List Tid) (hl : l.Nodup) (hin : ∀ t ∈ l, inCrit p s t = true) : l.length ≤ n := by
  have hi := reach_inv hp h
  have hc := reach_cap h
  have := tracks_bound hi.tracks l hl (fun t ht => inCrit_holds hp (hin t ht))
  have := hi.le_cap
  omega

/-! ### schedules as lists (to exhibit concrete reachable states) -/

def runSched (p : Prog) (s : St) : List (Tid × Bool) → Option St
  | [] => some s
  | (t, c) :: rest =>
    match step p s t c with
    | some s' => runSched p s' rest
    | none => none

theorem reach_runSched {p : Prog} {n : Nat} {s s' : St} (h : Reach p n s) (l : List (Tid × Bool))
    (hr : runSched p s l = some s') : Reach p n s' := by
  induction l generalizing s with
  | nil => simp only [runSched] at hr; injection hr with hr; subst hr; exact h
  | cons a rest ih =>
    obtain ⟨t, c⟩ := a
    simp only [runSched] at hr
    split at hr
    next s1 hs1 => exact ih (Reach.step t c h hs1) hr
    next => cases hr

end GoZero.C05
