/-
C05 — property theorems about WHERE THE CAPACITY COMES FROM (option handling of fx / mr) and the end-to-end
statements "options → capacity → at most that many workers inside".

`BReach shared opts s`: `s` is reachable from the initial heap by ANY interleaving of ANY number of
`buildOptions` calls (call `t` is given the option list `opts t`).
-/
import GoZero.C05.ModelOpts
import GoZero.C05.Props
import GoZero.C05.PropsTL
namespace GoZero.C05

inductive BReach (shared : Bool) (opts : Tid → List WOpt) : BSt → Prop where
  | init : BReach shared opts (BSt.init opts)
  | step {s s' : BSt} (t : Tid) : BReach shared opts s → bstep shared s t = some s' → BReach shared opts s'

/-- ownership invariant of the allocating construction. -/
structure BInv (opts : Tid → List WOpt) (s : BSt) : Prop where
  pos   : 0 < s.next
  lt    : ∀ t a, s.ptr t = some a → a < s.next
  val   : ∀ t a, s.ptr t = some a → (s.todo t).foldl applyOpt (s.heap a) = buildOptions (opts t)
  fresh : ∀ t, s.ptr t = none → s.todo t = opts t
  inj   : ∀ t u a, s.ptr t = some a → s.ptr u = some a → t = u

theorem binv_init (opts : Tid → List WOpt) : BInv opts (BSt.init opts) :=
  ⟨by simp [BSt.init], by intro t a h; simp [BSt.init] at h, by intro t a h; simp [BSt.init] at h,
   by intro t _; rfl, by intro t u a h; simp [BSt.init] at h⟩

theorem binv_step {opts : Tid → List WOpt} {s s' : BSt} (t : Tid) (hi : BInv opts s)
    (hs : bstep false s t = some s') : BInv opts s' := by
  unfold bstep at hs
  cases hp : s.ptr t with
  | none =>
    rw [hp] at hs
    simp only [Bool.false_eq_true, if_false, Option.some.injEq] at hs
    subst hs
    refine ⟨by simp, ?_, ?_, ?_, ?_⟩
    · intro u a hu
      simp only [upd] at hu
      split at hu
      · injection hu with hu; simp only; omega
      · have := hi.lt u a hu; simp only; omega
    · intro u a hu
      simp only [upd] at hu ⊢
      split at hu
      next heq =>
        injection hu with hu
        subst hu
        subst heq
        simp only [if_true]
        rw [hi.fresh u hp]
        rfl
      next hne =>
        have hlt := hi.lt u a hu
        have hne' : a ≠ s.next := by omega
        simp only [hne', if_false]
        exact hi.val u a hu
    · intro u hu
      simp only [upd] at hu
      split at hu
      · cases hu
      · exact hi.fresh u hu
    · intro u v a hu hv
      simp only [upd] at hu hv
      split at hu <;> split at hv
      · rename_i h1 h2; rw [h1, h2]
      · injection hu with hu; have := hi.lt v a hv; omega
      · injection hv with hv; have := hi.lt u a hu; omega
      · exact hi.inj u v a hu hv
  | some a =>
    rw [hp] at hs
    simp only at hs
    cases htd : s.todo t with
    | nil => rw [htd] at hs; cases hs
    | cons o rest =>
      rw [htd] at hs
      simp only [Option.some.injEq] at hs
      subst hs
      refine ⟨hi.pos, hi.lt, ?_, ?_, hi.inj⟩
      · intro u b hu
        simp only [upd]
        by_cases hut : u = t
        · subst hut
          rw [hp] at hu
          injection hu with hu
          subst hu
          simp only [if_true]
          have := hi.val u a hp
          rw [htd] at this
          exact this
        · have hba : b ≠ a := by
            intro h
            subst h
            exact hut (hi.inj u t b hu hp)
          simp only [hut, hba, if_false]
          exact hi.val u b hu
      · intro u hu
        simp only [upd]
        have hut : u ≠ t := by
          intro h
          subst h
          simp only at hu
          rw [hp] at hu
          cases hu
        simp only [hut, if_false]
        exact hi.fresh u hu

theorem breach_inv {opts : Tid → List WOpt} {s : BSt} (h : BReach false opts s) : BInv opts s := by
  induction h with
  | init => exact binv_init opts
  | step t _ hs ih => exact binv_step t ih hs

/-! ## 1. the construction: every call sees only its own options -/

/-- **The options struct a `buildOptions` call returns is a function of ITS OWN option list**, whatever other
calls (earlier, later or concurrent ones, with whatever options) do: any number of calls, any interleaving
of their allocation and option-application steps. -/
theorem build_isolated (opts : Tid → List WOpt) (s : BSt) (h : BReach false opts s) (t : Tid) (o : RxOptions)
    (hr : s.result t = some o) : o = buildOptions (opts t) := by
  have hi := breach_inv h
  unfold BSt.result at hr
  cases hp : s.ptr t with
  | none => rw [hp] at hr; cases hr
  | some a =>
    rw [hp] at hr
    cases htd : s.todo t with
    | cons x l => rw [htd] at hr; cases hr
    | nil =>
      rw [htd] at hr
      injection hr with hr
      have := hi.val t a hp
      rw [htd] at this
      rw [← hr]
      exact this

/-- **… so the cap of a stream depends only on its own options**: it is `streamCap (opts t)`. -/
theorem stream_cap_own_options (opts : Tid → List WOpt) (s : BSt) (h : BReach false opts s) (t : Tid) (o : RxOptions)
    (hr : s.result t = some o) : capOf o = streamCap (opts t) := by
  rw [build_isolated opts s h t o hr]
  rfl

/-- in particular two calls with the same option lists get equal structs, and a call's result does not change
when the OTHER calls are given different options. -/
theorem build_ignores_other_calls (opts opts' : Tid → List WOpt) (s s' : BSt) (h : BReach false opts s)
    (h' : BReach false opts' s') (t : Tid) (heq : opts t = opts' t) (o o' : RxOptions)
    (hr : s.result t = some o) (hr' : s'.result t = some o') : o = o' := by
  rw [build_isolated opts s h t o hr, build_isolated opts' s' h' t o' hr', heq]

theorem breach_brun {shared : Bool} {opts : Tid → List WOpt} {s s' : BSt} (h : BReach shared opts s) (l : List Tid)
    (hr : brun shared s l = some s') : BReach shared opts s' := by
  induction l generalizing s with
  | nil => simp only [brun, Option.some.injEq] at hr; subst hr; exact h
  | cons t l ih =>
    simp only [brun] at hr
    split at hr
    next s1 hs1 => exact ih (BReach.step t h hs1) hr
    next => cases hr

def demoOpts : Tid → List WOpt
  | 0 => [.unlimited]
  | 1 => [.withWorkers 2]
  | 2 => [.withWorkers 40, .withWorkers 0]
  | _ => []

/-- non-vacuity: three interleaved calls + one without options; each gets its own result. -/
example :
    (brun false (BSt.init demoOpts) [0, 1, 2, 3, 1, 0, 2, 2]).map
      (fun s => (s.result 0, s.result 1, s.result 2, s.result 3))
      = some (some ⟨true, 16⟩, some ⟨false, 2⟩, some ⟨false, 1⟩, some ⟨false, 16⟩) := by decide

/-- **What the allocation is needed for** (the seeded change C05-5, `options := defaultOptions`): with ONE shared
struct, stream 0 runs with `UnlimitedWorkers()`, afterwards stream 1 asks for `WithWorkers(2)` — and is not
limited at all; stream 3 (no options) then runs with whatever the last `WithWorkers` left. -/
theorem shared_defaults_leak :
    ∃ s, BReach true demoOpts s ∧ streamCap (demoOpts 1) = some 2 ∧ (s.result 1).map capOf = some none
      ∧ streamCap (demoOpts 3) = some 16 ∧ (s.result 3).map capOf = some none := by
  have hr : ∃ s, brun true (BSt.init demoOpts) [0, 0, 1, 1, 3] = some s := ⟨_, rfl⟩
  obtain ⟨s, hs⟩ := hr
  refine ⟨s, breach_brun BReach.init _ hs, by decide, ?_, by decide, ?_⟩
  · simp only [brun, bstep, BSt.init] at hs
    injection hs with hs
    subst hs
    decide
  · simp only [brun, bstep, BSt.init] at hs
    injection hs with hs
    subst hs
    decide

/-- the other direction of the same leak: a large `WithWorkers(40)` of one stream becomes the "default" of a
later option-less stream (40 > 16 workers). -/
theorem shared_defaults_raise_default :
    (brun true (BSt.init (fun t => if t = 0 then [.withWorkers 40] else [])) [0, 0, 1]).map
      (fun s => (s.result 1).map capOf) = some (some (some 40)) := by decide

/-! ## 2. the pure decision table -/

theorem foldl_unlimited (l : List WOpt) (o : RxOptions) :
    (l.foldl applyOpt o).unlimited = (o.unlimited || l.contains .unlimited) := by
  induction l generalizing o with
  | nil => simp
  | cons x l ih =>
    simp only [List.foldl_cons, ih, List.contains_cons]
    cases x with
    | withWorkers k =>
      have hne : (WOpt.unlimited == WOpt.withWorkers k) = false := by
        rw [beq_eq_false_iff_ne]; intro h; cases h
      simp [applyOpt, hne]
    | unlimited => simp [applyOpt]

theorem foldl_workers_pos (l : List WOpt) (o : RxOptions) (h : 1 ≤ o.workers) : 1 ≤ (l.foldl applyOpt o).workers := by
  induction l generalizing o with
  | nil => exact h
  | cons x l ih =>
    simp only [List.foldl_cons]
    apply ih
    cases x with
    | withWorkers k => exact (effWorkers_spec k).1
    | unlimited => exact h

/-- **`streamCap` as a table**: no limit iff `UnlimitedWorkers()` is among the stream's own options; otherwise
a limit `n ≥ 1`; no options: `defaultWorkers = 16`; the last `WithWorkers(k)` wins and means `max(k, 1)`. -/
theorem streamCap_spec (opts : List WOpt) :
    (streamCap opts = none ↔ WOpt.unlimited ∈ opts)
    ∧ (∀ n, streamCap opts = some n → 1 ≤ n)
    ∧ streamCap [] = some 16
    ∧ (∀ k, WOpt.unlimited ∉ opts → streamCap (opts ++ [.withWorkers k]) = some (effWorkers k).toNat) := by
  refine ⟨?_, ?_, by decide, ?_⟩
  · unfold streamCap capOf buildOptions
    rw [foldl_unlimited]
    simp [newOptions]
  · intro n h
    unfold streamCap capOf at h
    split at h
    · cases h
    · injection h with h
      have := foldl_workers_pos opts newOptions (by decide)
      unfold buildOptions at h
      omega
  · intro k hk
    unfold streamCap capOf buildOptions
    rw [List.foldl_append]
    simp only [List.foldl_cons, List.foldl_nil]
    have hu : (List.foldl applyOpt newOptions opts).unlimited = false := by
      rw [foldl_unlimited]
      simp [newOptions, hk]
    simp [applyOpt, hu]

/-- in a sequence of streams of one process, the cap of stream `i` is the cap of ITS option list: the streams
before and after it do not matter (what the driver checks every stream of a `fxopts`/`mropts` section against). -/
theorem seqCaps_own (pre post : List (List WOpt)) (opts : List WOpt) :
    (seqCaps (pre ++ opts :: post))[pre.length]? = some (streamCap opts) := by
  simp [seqCaps]

/-! ## 3. end to end: options → capacity → workers inside -/

/-- **fx (`Stream.Walk` and everything built on it — Map, Filter, Parallel, …) with any options that do not
contain `UnlimitedWorkers()`**: the capacity is some `n ≥ 1` determined by the stream's own options, and at no
instant of any schedule (any number of items, panics anywhere) more than `n` walk functions are running; when
all have ended the pool is empty again. -/
theorem fx_walk_cap (opts : List WOpt) (hnu : WOpt.unlimited ∉ opts) :
    ∃ n, streamCap opts = some n ∧ 1 ≤ n ∧
      ∀ s, Reach Programs.walkLimited n s →
        (∀ l : List Tid, l.Nodup → (∀ t ∈ l, inCrit Programs.walkLimited s t = true) → l.length ≤ n)
        ∧ ((∀ t, idle Programs.walkLimited s t = true) → s.used = 0) := by
  have hsp := streamCap_spec opts
  cases hc : streamCap opts with
  | none => exact absurd (hsp.1.mp hc) hnu
  | some n =>
    refine ⟨n, rfl, hsp.2.1 n hc, ?_⟩
    intro s hs
    exact ⟨fun l hl hin => sem_cap _ (by decide) n s hs l hl hin, fun hq => (sem_no_leak _ (by decide) n s hs hq).1⟩

/-- **mr (`ForEach`, `MapReduce*`; mr has no unlimited option)**: `WithWorkers` lists only. -/
theorem mr_mappers_cap (ks : List Int) :
    ∃ n, streamCap (ks.map .withWorkers) = some n ∧ 1 ≤ n ∧
      ∀ s, Reach Programs.executeMappers n s →
        (∀ l : List Tid, l.Nodup → (∀ t ∈ l, inCrit Programs.executeMappers s t = true) → l.length ≤ n)
        ∧ ((∀ t, idle Programs.executeMappers s t = true) → s.used = 0) := by
  have hnu : WOpt.unlimited ∉ ks.map .withWorkers := by simp
  have hsp := streamCap_spec (ks.map .withWorkers)
  cases hc : streamCap (ks.map .withWorkers) with
  | none => exact absurd (hsp.1.mp hc) hnu
  | some n =>
    refine ⟨n, rfl, hsp.2.1 n hc, ?_⟩
    intro s hs
    exact ⟨fun l hl hin => sem_cap _ (by decide) n s hs l hl hin, fun hq => (sem_no_leak _ (by decide) n s hs hq).1⟩

example : streamCap [.withWorkers 5, .withWorkers (-3)] = some 1 ∧ streamCap [.withWorkers 3, .unlimited] = none
    ∧ streamCap [.unlimited, .withWorkers 3] = none ∧ seqCaps [[.unlimited], [.withWorkers 2], []] = [none, some 2, some 16] := by
  decide

/-! ## 4. the clauses of the property statement, one theorem per clause (all primitives together)

Each conjunct is for ALL capacities, thread counts, schedules and panic placements (see the theorems used). -/

/-- **Clause 1 — "at no instant are more than n holders inside the guarded region"**: every semaphore site
(Limit, TimeoutLimit client, TaskRunner, MaxConnsHandler, executeMappers, walkLimited, Guard), the explicit
TimeoutLimit+Cond model, the Pool, WorkerGroup (k = workers), and fx / mr END TO END from the option list. -/
theorem clause_cap :
    (∀ name p, (name, p) ∈ Programs.all → ∀ n s, Reach p n s → ∀ l : List Tid, l.Nodup →
        (∀ t ∈ l, inCrit p s t = true) → l.length ≤ n)
    ∧ (∀ n s, TLReach n s → ∀ l : List Tid, l.Nodup → (∀ t ∈ l, s.pc t = .holding) → l.length ≤ n)
    ∧ (∀ limit maxAge s, PReach limit maxAge s → s.inUse.length ≤ limit)
    ∧ (∀ n k s, ReachK Programs.routineGroup n k s → ∀ l : List Tid, l.Nodup →
        (∀ t ∈ l, inCrit Programs.routineGroup s t = true) → l.length ≤ k)
    ∧ (∀ opts : List WOpt, WOpt.unlimited ∉ opts → ∃ n, streamCap opts = some n ∧ 1 ≤ n ∧
        ∀ s, Reach Programs.walkLimited n s → ∀ l : List Tid, l.Nodup →
          (∀ t ∈ l, inCrit Programs.walkLimited s t = true) → l.length ≤ n)
    ∧ (∀ ks : List Int, ∃ n, streamCap (ks.map .withWorkers) = some n ∧ 1 ≤ n ∧
        ∀ s, Reach Programs.executeMappers n s → ∀ l : List Tid, l.Nodup →
          (∀ t ∈ l, inCrit Programs.executeMappers s t = true) → l.length ≤ n)
    ∧ (∀ (m : Int) (n : Nat), engineCap true m = some n → (n : Int) = m ∧
        ∀ s, Reach Programs.maxConns n s → ∀ l : List Tid, l.Nodup →
          (∀ t ∈ l, inCrit Programs.maxConns s t = true) → l.length ≤ n) := by
  refine ⟨fun name p hx n s h l hl hin => sites_cap name p hx n s h l hl hin,
    fun n s h l hl hin => tl_cap n s h l hl hin,
    fun limit maxAge s h => pool_cap limit maxAge s h,
    fun n k s h l hl hin => workerGroup_cap n k s h l hl hin, ?_, ?_, ?_⟩
  · intro opts hnu
    obtain ⟨n, h1, h2, h3⟩ := fx_walk_cap opts hnu
    exact ⟨n, h1, h2, fun s hs l hl hin => (h3 s hs).1 l hl hin⟩
  · intro ks
    obtain ⟨n, h1, h2, h3⟩ := mr_mappers_cap ks
    exact ⟨n, h1, h2, fun s hs l hl hin => (h3 s hs).1 l hl hin⟩
  · intro m n h
    refine ⟨((engineCap_spec true m).2 n h).2.2, fun s hs l hl hin => ?_⟩
    exact sem_cap Programs.maxConns (by decide) n s hs l hl hin

/-- non-vacuity of the end-to-end conjuncts: `WithWorkers(3)` gives the capacity 3, the REST engine with
`MaxConns = 5` a latch of 5. -/
example : streamCap [.withWorkers 3] = some 3 ∧ engineCap true 5 = some 5 ∧ WOpt.unlimited ∉ [WOpt.withWorkers 3] := by decide

/-- **Clause 2 — "a pooled resource is never held by two users at once".** -/
theorem clause_pool_exclusive (limit maxAge : Nat) (s : PSys) (h : PReach limit maxAge s) (t u : Tid) (r : Nat)
    (ht : (t, r) ∈ s.inUse) (hu : (u, r) ∈ s.inUse) : t = u := pool_exclusive limit maxAge s h t u r ht hu

/-- **Clause 3 — "after all holders have finished, including by panic, the full capacity is available again"**:
sites: channel empty and capacity `n`; TimeoutLimit: `used = 0` whatever waiters / timeouts are pending; Pool: with
nothing in use every `Get` is served (`created = |idle|`); TaskRunner: `Wait` may return ⇒ all slots free. -/
theorem clause_no_leak :
    (∀ name p, (name, p) ∈ Programs.all → ∀ n s, Reach p n s → (∀ t, idle p s t = true) → s.used = 0 ∧ s.cap = n)
    ∧ (∀ n s, TLReach n s → (∀ t, s.pc t ≠ .holding) → s.used = 0 ∧ s.cap = n)
    ∧ (∀ limit maxAge s, PReach limit maxAge s → s.inUse = [] → 0 < limit →
        (s.pool.created = (s.pool.idle.length : Int)) ∧ ∀ now, ∃ item fresh d, (s.pool.get now).2 = .got item fresh d)
    ∧ (∀ n s, Reach Programs.runner n s → s.wg = 0 → s.used = 0) := by
  refine ⟨fun name p hx n s h hq => sites_no_leak name p hx n s h hq, fun n s h hq => tl_no_leak n s h hq, ?_,
    fun n s h hz => (runner_wait_means_idle n s h hz).1⟩
  intro limit maxAge s h hu hl
  have hi := pool_inv limit maxAge s h
  refine ⟨by have := hi.1; rw [hu] at this; simpa using this, fun now => ?_⟩
  exact pool_available limit maxAge s h (by rw [hu]; exact hl) now

/-- **Clause 4 — "returning more than was borrowed is reported as an error and never raises the capacity".** -/
theorem clause_over_return (n : Nat) (ops : List SemOp) :
    ((Sem.init n).final ops).cap = n ∧ ((Sem.init n).final ops).used ≤ n
    ∧ ((Sem.init n).trace ops).countP isOkReturn ≤ ((Sem.init n).trace ops).countP isOkBorrow
    ∧ (((Sem.init n).final ops).used = 0 → ((Sem.init n).final ops).step .ret = ((Sem.init n).final ops, .errReturn)) :=
  ⟨(limit_capacity_fixed n ops).1, (limit_capacity_fixed n ops).2, (returns_le_borrows n ops).1,
   fun h => over_return_is_error _ h⟩

/-- **Clause 5 — "requests beyond the cap are refused or blocked, never admitted"**: the object refuses / blocks
when full; at every site a failed try ends in the refusal row holding nothing and a blocking acquire is not
enabled; a full Pool makes `Get` wait. -/
theorem clause_refusal :
    (∀ s : Sem, s.used = s.cap → s.step .tryBorrow = (s, .refused) ∧ s.step .borrow = (s, .blocked))
    ∧ (∀ name p, (name, p) ∈ Programs.all → ∀ (s s' : St) (t : Tid) (c : Bool) (r : Row) (els : Nat),
        p[s.pc t]? = some r → r.instr = .tryAcquire els → ¬ s.used < s.cap → step p s t c = some s' →
        s'.used = s.used ∧ s'.pc t = els ∧ H p els = false ∧ inCrit p s' t = false)
    ∧ (∀ (p : Prog) (s : St) (t : Tid) (c : Bool) (r : Row), p[s.pc t]? = some r → r.instr = .acquire →
        ¬ s.used < s.cap → step p s t c = none)
    ∧ (∀ limit maxAge s, PReach limit maxAge s → s.inUse.length = limit → ∀ now, (s.pool.get now).2 = .wait []) :=
  ⟨fun s h => refusal s h,
   fun name p hx s s' t c r els hr hi hfull hs => sem_refusal p (sites_disciplined _ hx) s s' t c r els hr hi hfull hs,
   fun p s t c r hr hi hfull => sem_full_blocks p s t c r hr hi hfull,
   fun limit maxAge s h hfull now => pool_full_waits limit maxAge s h hfull now⟩

end GoZero.C05
