/-
C05 — helper lemmas about the limiting object alone (any caller, no contract): accounting of borrows and
returns over arbitrary operation sequences, and soundness of the sequential monitor.
-/
import GoZero.C05.Spec
namespace GoZero.C05

/-- the (operation, observation) pairs of a sequential run. -/
def Sem.trace (s : Sem) : List SemOp → List (SemOp × SemObs)
  | [] => []
  | op :: ops => (op, (s.step op).2) :: Sem.trace (s.step op).1 ops

def Sem.final (s : Sem) : List SemOp → Sem
  | [] => s
  | op :: ops => Sem.final (s.step op).1 ops

def isOkBorrow : SemOp × SemObs → Bool
  | (.borrow, .ok) => true
  | (.tryBorrow, .ok) => true
  | _ => false

def isOkReturn : SemOp × SemObs → Bool
  | (.ret, .ok) => true
  | (.recv, .ok) => true
  | _ => false

theorem Sem.step_cap (s : Sem) (op : SemOp) : (s.step op).1.cap = s.cap := by
  cases op <;> simp only [Sem.step] <;> split <;> rfl

theorem Sem.step_used_le (s : Sem) (h : s.used ≤ s.cap) (op : SemOp) : (s.step op).1.used ≤ (s.step op).1.cap := by
  cases op <;> simp only [Sem.step] <;> split <;> simp only <;> omega

theorem Sem.final_cap (s : Sem) (ops : List SemOp) : (s.final ops).cap = s.cap := by
  induction ops generalizing s with
  | nil => rfl
  | cons op ops ih => simp only [Sem.final]; rw [ih, Sem.step_cap]

theorem Sem.final_used_le (s : Sem) (h : s.used ≤ s.cap) (ops : List SemOp) : (s.final ops).used ≤ s.cap := by
  induction ops generalizing s with
  | nil => exact h
  | cons op ops ih =>
    simp only [Sem.final]
    have := ih (s.step op).1 (Sem.step_used_le s h op)
    rwa [Sem.step_cap] at this

/-- one step: outstanding permits change by exactly what the observation says. -/
theorem Sem.step_account (s : Sem) (op : SemOp) :
    (s.step op).1.used + (if isOkReturn (op, (s.step op).2) then 1 else 0)
      = s.used + (if isOkBorrow (op, (s.step op).2) then 1 else 0) := by
  cases op <;> simp only [Sem.step] <;> split <;> simp [isOkReturn, isOkBorrow] <;> omega

theorem Sem.account (s : Sem) (ops : List SemOp) :
    (s.final ops).used + ((s.trace ops).countP isOkReturn) = s.used + ((s.trace ops).countP isOkBorrow) := by
  induction ops generalizing s with
  | nil => simp [Sem.final, Sem.trace]
  | cons op ops ih =>
    simp only [Sem.final, Sem.trace, List.countP_cons]
    have h1 := ih (s.step op).1
    have h2 := Sem.step_account s op
    omega

theorem Sem.trace_append (s : Sem) (a b : List SemOp) :
    s.trace (a ++ b) = s.trace a ++ (s.final a).trace b := by
  induction a generalizing s with
  | nil => rfl
  | cons op a ih => simp only [List.cons_append, Sem.trace, Sem.final, ih]

/-! ### the sequential monitor never fires on a run of the model -/

def SeqMon.run (m : SeqMon) : List SeqEv → Bool
  | [] => true
  | e :: es => (m.check e).isNone && SeqMon.run (m.step e) es

theorem seqMon_sound_aux (s : Sem) (m : SeqMon) (hc : m.cap = s.cap) (hh : m.held = s.used) (hle : s.used ≤ s.cap)
    (ops : List SemOp) : m.run ((s.trace ops).map fun x => evOf x.1 x.2) = true := by
  induction ops generalizing s m with
  | nil => rfl
  | cons op ops ih =>
    simp only [Sem.trace, List.map_cons, SeqMon.run, Bool.and_eq_true]
    constructor
    · cases op <;> simp only [Sem.step] <;> split <;>
        simp [evOf, SeqMon.check, hc, hh] <;> omega
    · apply ih
      · rw [Sem.step_cap]
        cases op <;> simp only [Sem.step] <;> split <;> simp [evOf, SeqMon.step, hc]
      · cases op <;> simp only [Sem.step] <;> split <;> simp [evOf, SeqMon.step, hh]
      · exact Sem.step_used_le s hle op

end GoZero.C05
