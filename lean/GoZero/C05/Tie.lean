/-
C05 — Tie: what the extractor reads from the go-zero tree NOW equals what the models were written against.

* every acquire/release site: the statement skeleton of the Go function equals the concatenation of the
  `tags` of the rows of its site program in Model.lean (row by row, syntactic order) — so the position of
  the acquire relative to `go`, of the release inside the `defer`, of `wg.Add/Done`, the non-blocking
  `select`/`default` forms and the refusal branches are all pinned to the rows whose instructions the
  theorems are about;
* the capacity of every limiting channel is the configured `n` (`make(chan _, n)`), the latch of
  `MaxConnsHandler` is created once per middleware (outside the per-request function);
* `syncx.Pool`: skeleton of Get/Put (conditions `p.created < p.limit`, the expiry test) and the direction
  of the two counter updates;
* worker-count floors (`minWorkers = 1`): the `n ≥ 1` hypothesis of the theorems holds for mr/fx.
-/
import GoZero.Extracted.C05
import GoZero.C05.Proofs
import GoZero.C05.ModelOpts
import GoZero.C05.ModelWG
import GoZero.C05.ModelCond
namespace GoZero.C05.Tie
open GoZero.C05
open GoZero.Extracted.C05

theorem extraction_clean : extractionErrors = [] := by decide

/-! ### syncx.Limit -/

theorem tie_limit_ops : Programs.limitClient.tags = borrowShape ++ tryBorrowShape ++ returnShape := by decide

/-- which value is reported on which branch: received → `nil`, empty → `ErrLimitReturn`; sent → `true`, full → `false`. -/
theorem tie_limit_results :
    returnResults = ["return nil", "return ErrLimitReturn"] ∧ tryBorrowResults = ["return true", "return false"] := by
  decide

theorem tie_limit_capacity : newLimitDetails = ["make chan lang.PlaceholderType cap=n"] := by decide

/-! ### syncx.TimeoutLimit (+ Cond) -/

theorem tie_timeoutLimit : Programs.timeoutLimitClient.tags = tlBorrowShape ++ tlReturnShape := by decide

/-- `TimeoutLimit.TryBorrow` is `Limit.TryBorrow`, and its limit is `NewLimit(n)`. -/
theorem tie_timeoutLimit_delegates :
    tlTryBorrowShape = ["call l.limit.TryBorrow", "return"]
    ∧ newTimeoutLimitDetails = ["field limit: NewLimit(n)", "call NewLimit(n)"] := by decide

/-- `TimeoutLimit.Borrow`: `nil` only after a successful TryBorrow (rows 1 and 4), `ErrTimeout` otherwise;
`TimeoutLimit.Return` passes the limit's error on. -/
theorem tie_timeoutLimit_results :
    tlBorrowResults = ["return nil", "return nil", "return ErrTimeout"]
    ∧ tlReturnResults = ["return err", "return nil"] := by decide

/-- `Cond`: waiting never touches the limit (it only receives from `cond.signal` or the timer) and
`Signal` is a non-blocking send — the wake-up is an environment choice in the model. -/
theorem tie_cond :
    condWaitShape = ["defer{", "call timer.Stop", "}", "call timex.Now", "select{", "case recv cond.signal:",
                     "call timex.Since", "return", "case recv timer.C:", "return", "}"]
    ∧ condSignalShape = ["select{", "case send cond.signal:", "default:", "}"] := by decide

/-- the condition variable is an UNBUFFERED channel (a Signal is a rendezvous with one parked receiver or is
lost — what ModelTL's `deliver` / `signalLost` are), and `WaitWithTimeout` reports `ok = true` only on the
signal branch, `0,false` on the timer branch. -/
theorem tie_cond_channel :
    newCondDetails = ["make chan lang.PlaceholderType cap=0"]
    ∧ condWaitResults = ["return remainTimeout, true", "return 0, false"] := by decide

/-! ### threading.TaskRunner -/

theorem tie_runner : Programs.runner.tags = trWaitShape ++ scheduleShape ++ scheduleImmShape := by decide

theorem tie_runner_results : scheduleImmResults = ["return ErrTaskRunnerBusy", "return nil"] := by decide

theorem tie_runner_capacity : newTaskRunnerDetails = ["make chan lang.PlaceholderType cap=concurrency"] := by decide

/-- `rescue.Recover` runs the clean-ups (release + Done) first, then recovers. -/
theorem tie_rescue : rescueRecoverShape = ["range cleanups {", "call cleanup", "}", "recover", "if p != nil {", "}"] := by
  decide

/-! ### rest/handler.MaxConnsHandler -/

def maxConnsPrefix : List String :=
  ["if n <= 0 {", "func{", "return", "}", "return", "}", "func{", "call syncx.NewLimit", "func{"]

def maxConnsSuffix : List String := ["}", "call http.HandlerFunc", "return", "}", "return"]

/-- the latch is created once per middleware instance (before the per-request `func{`), the per-request
function is the `maxConns` program. -/
theorem tie_maxConns : maxConnsShape = maxConnsPrefix ++ Programs.maxConns.tags ++ maxConnsSuffix := by decide

theorem tie_maxConns_capacity : maxConnsDetails = ["call syncx.NewLimit(n)"] := by decide

/-! ### mr.executeMappers -/

theorem tie_executeMappers : Programs.executeMappers.tags = executeMappersShape := by decide

theorem tie_executeMappers_capacity :
    executeMappersDetails = ["make chan struct{} cap=mCtx.workers"]
    ∧ "field workers: options.workers" ∈ mapReduceDetails
    ∧ "field workers: options.workers" ∈ forEachDetails := by decide

theorem tie_mr_floor :
    mrMinWorkers = 1
    ∧ mrWithWorkersShape = ["func{", "if workers < minWorkers {", "store opts.workers", "}", "else{",
                            "store opts.workers", "}", "}", "return"] := by decide

/-! ### fx.Stream.walkLimited -/

theorem tie_walkLimited : Programs.walkLimited.tags = walkLimitedShape := by decide

theorem tie_walkLimited_capacity :
    walkLimitedDetails = ["make chan any cap=option.workers", "make chan lang.PlaceholderType cap=option.workers"] := by
  decide

theorem tie_fx_floor :
    fxMinWorkers = 1
    ∧ fxWithWorkersShape = ["func{", "if workers < minWorkers {", "store opts.workers", "}", "else{",
                            "store opts.workers", "}", "}", "return"]
    ∧ walkShape = ["call buildOptions", "if option.unlimitedWorkers {", "call s.walkUnlimited", "return", "}",
                   "call s.walkLimited", "return"] := by decide

/-- `GoSafe(fn)` = `go RunSafe(fn)`, `RunSafe` = `defer rescue.Recover(); fn()` (the worker of walkLimited). -/
theorem tie_goSafe :
    goSafeShape = ["go{", "call RunSafe", "}"]
    ∧ runSafeShape = ["defer{", "call rescue.Recover", "}", "call fn"] := by decide

/-- `WorkerGroup.Start` starts exactly `wg.workers` jobs and waits for them. -/
theorem tie_workerGroup :
    workerGroupShape = ["call NewRoutineGroup", "for i < wg.workers {", "call group.RunSafe", "}", "call group.Wait"] := by
  decide

/-- `RoutineGroup.Wait/Run/RunSafe` are the rows of `Programs.routineGroup` (Add before the spawn, Done in
the spawned function's defer). -/
theorem tie_routineGroup : Programs.routineGroup.tags = rgWaitShape ++ rgRunShape ++ rgRunSafeShape := by decide

/-- `Barrier.Guard` = `Guard(&b.lock, fn)` = Lock, deferred Unlock, fn. -/
theorem tie_barrier :
    barrierGuardShape = ["call Guard"] ∧ Programs.barrierGuard.tags = guardShape := by decide

/-! ### configuration decision tables -/

/-- `WithWorkers` of mr and fx: the branch `workers < minWorkers` stores `minWorkers`, the other one the
argument; `minWorkers = 1` — this is `effWorkers`. -/
theorem tie_workers_table :
    mrWithWorkersStores = ["store opts.workers = minWorkers", "store opts.workers = workers"]
    ∧ fxWithWorkersStores = ["store opts.workers = minWorkers", "store opts.workers = workers"]
    ∧ (∀ k : Int, effWorkers k = if k < mrMinWorkers then mrMinWorkers else k)
    ∧ (∀ k : Int, effWorkers k = if k < fxMinWorkers then fxMinWorkers else k) := by
  refine ⟨by decide, by decide, ?_, ?_⟩ <;> intro k <;> unfold effWorkers <;>
    simp only [mrMinWorkers, fxMinWorkers] <;> split <;> rename_i h <;> simp [h]

/-- the REST engine installs `handler.MaxConnsHandler(ng.conf.MaxConns)` exactly under
`ng.conf.Middlewares.MaxConns` (no else branch), once per route chain; `MaxConnsHandler` is a pass-through
for `n <= 0` (first rows of `maxConnsShape`, `tie_maxConns`) — this is `engineCap`. -/
theorem tie_engine_wiring :
    engineMaxConnsWiring = ["if ng.conf.Middlewares.MaxConns then handler.MaxConnsHandler(ng.conf.MaxConns)"]
    ∧ maxConnsShape.take 6 = ["if n <= 0 {", "func{", "return", "}", "return", "}"] := by decide

/-! ### syncx.Pool -/

/-- `Pool.Get` as modelled by `getLoop`: under the lock; pop the head; expired (`maxAge > 0 ∧ lastUsed+maxAge < now`)
→ `created--`, destroy, continue; else return it; empty list: `created < limit` → `created++`, create; else wait. -/
theorem tie_poolGet :
    poolGetShape = ["call p.lock.Lock", "defer{", "call p.lock.Unlock", "}", "for {", "if p.head != nil {",
                    "store p.head", "if p.maxAge > 0 && head.lastUsed+p.maxAge < timex.Now() {", "store p.created",
                    "call p.destroy", "continue", "}", "else{", "return", "}", "}", "if p.created < p.limit {",
                    "store p.created", "call p.create", "return", "}", "call p.cond.Wait", "}"]
    ∧ poolGetDetails = ["dec p.created", "inc p.created"] := by decide

theorem tie_poolPut :
    poolPutShape = ["if x == nil {", "return", "}", "call p.lock.Lock", "defer{", "call p.lock.Unlock", "}",
                    "call timex.Now", "store p.head", "call p.cond.Signal"]
    ∧ poolPutDetails = [] := by decide

theorem tie_newPool :
    newPoolShape = ["if n <= 0 {", "panic", "}", "call sync.NewCond", "range opts {", "call opt", "}", "return"]
    ∧ newPoolDetails = ["field limit: n", "call sync.NewCond(lock)"] := by decide

/-! ## round 4: semantic ties (Go conditions / stores translated to Lean, equal to the model for ALL arguments)
and the construction facts behind `build_isolated` -/

/-- `WithWorkers(k)` of fx and mr, translated: the closure stores `effWorkers k` into `opts.workers` and nothing
else — operator (`<`), constant (`minWorkers = 1`), both stored values. This is `applyOpt _ (.withWorkers k)`. -/
theorem tie_withWorkers_semantic :
    (∀ k : Int, fxWithWorkersEff k = [("opts.workers", effWorkers k)])
    ∧ (∀ k : Int, mrWithWorkersEff k = [("opts.workers", effWorkers k)])
    ∧ (∀ (o : RxOptions) (k : Int), (applyOpt o (.withWorkers k)).workers = effWorkers k
        ∧ (applyOpt o (.withWorkers k)).unlimited = o.unlimited) := by
  refine ⟨?_, ?_, fun o k => ⟨rfl, rfl⟩⟩ <;> intro k <;> unfold effWorkers <;>
    simp only [fxWithWorkersEff, mrWithWorkersEff] <;> by_cases h : k < 1 <;> simp [h]

/-- `UnlimitedWorkers()` sets the flag through the pointer and touches nothing else (`applyOpt _ .unlimited`). -/
theorem tie_unlimited :
    fxUnlimitedStmts = ["return func(opts *rxOptions) { opts.unlimitedWorkers = true }"]
    ∧ (∀ o : RxOptions, (applyOpt o .unlimited).unlimited = true ∧ (applyOpt o .unlimited).workers = o.workers) := by
  exact ⟨by decide, fun o => ⟨rfl, rfl⟩⟩

/-- **the construction** (`bstep false`): `buildOptions` gets its struct from a CALL of `newOptions()` (not from
a variable), applies every option to that pointer, returns it; `newOptions` returns the address of a composite
literal (a fresh allocation per call) whose `workers` is `defaultWorkers = 16`; fx and mr alike. -/
theorem tie_buildOptions_fresh :
    fxBuildOptionsStmts = ["options := newOptions()", "for _, opt := range opts { opt(options) }", "return options"]
    ∧ mrBuildOptionsStmts = ["options := newOptions()", "for _, opt := range opts { opt(options) }", "return options"]
    ∧ fxNewOptionsStmts = ["return &rxOptions{ workers: defaultWorkers, }"]
    ∧ mrNewOptionsStmts = ["return &mapReduceOptions{ ctx: context.Background(), workers: defaultWorkers, }"]
    ∧ fxDefaultWorkers = defaultWorkers ∧ mrDefaultWorkers = defaultWorkers
    ∧ newOptions = { unlimited := false, workers := fxDefaultWorkers } := by decide

/-- no package-level variable (besides immutable error values) in the packages of the limiters: nothing a
constructor or an option could share between instances (threading's `bufSize` belongs to StableRunner). -/
theorem tie_no_package_state :
    fxPkgVars = [] ∧ mrPkgVars = [] ∧ syncxPkgVars = []
    ∧ threadingPkgVars = ["stablerunner.go: bufSize = runtime.NumCPU() * factor"] := by decide

/-- who builds the options and what reaches the limiter: `Walk` calls `buildOptions(opts...)` itself, once, and
decides on `option.unlimitedWorkers` (the `none` of `capOf`); Map / Filter / Parallel hand THEIR `opts...` to
`Walk`; mr's `ForEach` and `mapReduceWithPanicChan` call `buildOptions(opts...)` and pass `options.workers` on. -/
theorem tie_option_callers :
    fxWalkStmts = ["option := buildOptions(opts...)", "if option.unlimitedWorkers { return s.walkUnlimited(fn, option) }",
                   "return s.walkLimited(fn, option)"]
    ∧ fxMapStmts = ["return s.Walk(func(item any, pipe chan<- any) { pipe <- fn(item) }, opts...)"]
    ∧ fxFilterStmts = ["return s.Walk(func(item any, pipe chan<- any) { if fn(item) { pipe <- item } }, opts...)"]
    ∧ fxParallelStmts = ["s.Walk(func(item any, pipe chan<- any) { fn(item) }, opts...).Done()"]
    ∧ mrForEachCalls.head? = some "call buildOptions(opts)" ∧ "field workers: options.workers" ∈ mrForEachCalls
    ∧ mrMapReduceCalls.head? = some "call buildOptions(opts)" ∧ "field workers: options.workers" ∈ mrMapReduceCalls := by
  decide

/-- the constructors of the other limiters build fresh state from their argument (a new channel of capacity
`n` / `concurrency`, a new Cond, the struct by value): no instance can see another one's permits. -/
theorem tie_constructors_fresh :
    newLimitStmts = ["return Limit{ pool: make(chan lang.PlaceholderType, n), }"]
    ∧ newTimeoutLimitStmts = ["return TimeoutLimit{ limit: NewLimit(n), cond: NewCond(), }"]
    ∧ newCondStmts = ["return &Cond{ signal: make(chan lang.PlaceholderType), }"]
    ∧ newTaskRunnerStmts = ["return &TaskRunner{ limitChan: make(chan lang.PlaceholderType, concurrency), }"]
    ∧ newWorkerGroupStmts = ["return WorkerGroup{ job: job, workers: workers, }"]
    ∧ newRoutineGroupStmts = ["return new(RoutineGroup)"] := by decide

/-- `MaxConnsHandler(n)`: pass-through exactly for `n ≤ 0` — the `none` of `engineCap`. -/
theorem tie_maxConns_cond :
    (∀ n : Int, maxConnsPassCond n = decide (n ≤ 0))
    ∧ (∀ m : Int, engineCap true m = none ↔ maxConnsPassCond m = true) := by
  refine ⟨fun n => rfl, fun m => ?_⟩
  unfold engineCap maxConnsPassCond
  by_cases h : m ≤ 0 <;> simp [h]

/-- `Pool.Get`: the expiry test and the create test, translated, are the model's `expired` and the test of
`getLoop` on the empty idle list (strict `<` in both, `maxAge > 0` guards the expiry); `NewPool` panics for
`n ≤ 0` (so `limit ≥ 1`). -/
theorem tie_pool_conds :
    (∀ (maxAge now : Nat) (nd : PNode), poolExpiredCond maxAge nd.lastUsed now = expired maxAge now nd)
    ∧ (∀ (created limit : Int), poolCreateCond created limit = decide (created < limit))
    ∧ (∀ (limit maxAge now next : Nat) (created : Int) (d : List Nat),
        (getLoop limit maxAge now next [] created d).2
          = if poolCreateCond created limit then .got next true d else .wait d)
    ∧ (∀ n : Int, newPoolPanicCond n = decide (n ≤ 0)) := by
  refine ⟨?_, fun _ _ => rfl, ?_, fun _ => rfl⟩
  · intro maxAge now nd
    unfold poolExpiredCond expired
    congr 1
    · simp
    · rw [decide_eq_decide]; omega
  · intro limit maxAge now next created d
    unfold poolCreateCond
    by_cases h : created < (limit : Int) <;> simp [getLoop, h]

/-- `TimeoutLimit.Borrow`: a woken borrower takes a permit only through `ok && l.TryBorrow()`, gives up exactly
when `timeout <= 0`. -/
theorem tie_timeoutLimit_conds :
    (∀ ok b : Bool, tlRetryCond ok b = (ok && b)) ∧ (∀ t : Int, tlTimeoutCond t = decide (t ≤ 0)) :=
  ⟨fun _ _ => rfl, fun _ => rfl⟩

/-- number of iterations of `for i := 0; cond i; i++`. -/
def loopCount (cond : Int → Bool) : Nat → Int → Nat
  | 0, _ => 0
  | fuel + 1, i => if cond i then 1 + loopCount cond fuel (i + 1) else 0

theorem loopCount_lt (w : Int) (fuel : Nat) (i : Int) (hi : i ≤ w) (hf : w - i < fuel) :
    (loopCount (fun j => decide (j < w)) fuel i : Int) = w - i := by
  induction fuel generalizing i with
  | zero => omega
  | succ f ih =>
    unfold loopCount
    by_cases h : i < w
    · simp only [h, decide_true, if_true]
      have := ih (i + 1) (by omega) (by omega)
      omega
    · simp only [h, decide_false]
      simp
      omega

/-- **`WorkerGroup.Start` starts exactly `workers` jobs** (`for i := 0; i < wg.workers; i++`, translated
condition, whatever fuel beyond `workers`): the `k` of `workerGroup_cap`. -/
theorem tie_workerGroup_loop :
    workerGroupFor = ["i := 0", "i < wg.workers", "i++"]
    ∧ (∀ i w : Int, workerGroupLoopCond i w = decide (i < w))
    ∧ (∀ (w : Nat) (extra : Nat), loopCount (fun i => workerGroupLoopCond i w) (w + 1 + extra) 0 = w) := by
  refine ⟨by decide, fun _ _ => rfl, ?_⟩
  intro w extra
  have := loopCount_lt (w : Int) (w + 1 + extra) 0 (by omega) (by omega)
  have h2 : (fun i : Int => workerGroupLoopCond i w) = (fun j : Int => decide (j < (w : Int))) := rfl
  rw [h2]
  omega

/-- `WithMaxAge(d)` stores its argument into `p.maxAge` (the `maxAge` of the model). -/
theorem tie_pool_maxage : poolMaxAgeStores = ["store pool.maxAge = duration"] := by decide

/-- `mr.Finish/FinishVoid(fns...)` ask for exactly `len(fns)` workers (every function may run at once; no cap
claim is made for them). -/
theorem tie_mr_finish :
    "call WithWorkers(len(fns))" ∈ mrFinishCalls ∧ "call WithWorkers(len(fns))" ∈ mrFinishVoidCalls := by decide

/-! ## round 5: the ORDER OF EFFECTS, typed — the `instr` column of every site program against the source

The skeleton ties above pin the `tags` column; which instruction a row carries was a hand association.  The
extractor now reads the permit / wait-group / user-call effects of every site function from the AST (a send
on the limiting channel = acquire, inside a `select` with `default` = tryAcquire, a receive = release /
tryRelease, `TryBorrow`/`Return`, `Lock`/`Unlock`, `Add`/`Done`/`Wait`, the call of the guarded function) as a
typed list in syntactic order; the list of effects of the model's rows (`Prog.effects`, from the `instr` column,
control-flow rows dropped) has to be equal. -/

def toX : GoZero.C05.Eff → GoZero.Extracted.C05.Eff
  | .acquire => .acquire | .tryAcquire => .tryAcquire | .release => .release | .tryRelease => .tryRelease
  | .wgAdd => .wgAdd | .wgDone => .wgDone | .wgWait => .wgWait | .user => .user

def effX (p : Prog) : List GoZero.Extracted.C05.Eff := p.effects.map toX

/-- `Limit`: Borrow = one blocking send, TryBorrow = one non-blocking send, Return = one non-blocking receive
(the `user` between them is the caller's guarded code). -/
theorem tie_eff_limit : effX Programs.limitClient = borrowEff ++ tryBorrowEff ++ [.user] ++ returnEff := by decide

/-- `TimeoutLimit.Borrow` takes a permit only through the two `TryBorrow` calls; `Return` gives it back through
`limit.Return`; `TryBorrow` is one `TryBorrow`. -/
theorem tie_eff_timeoutLimit :
    effX Programs.timeoutLimitClient = tlBorrowEff ++ [.user] ++ tlReturnEff ∧ tlTryBorrowEff = [.tryAcquire] := by decide

/-- `TaskRunner`: Wait; Schedule = Add, acquire, (deferred) release, Done, task; ScheduleImmediately = Add,
tryAcquire, (busy) Done, (deferred) release, Done, task — release BEFORE Done in both. -/
theorem tie_eff_runner : effX Programs.runner = trWaitEff ++ scheduleEff ++ scheduleImmEff := by decide

theorem tie_eff_maxConns : effX Programs.maxConns = maxConnsEff := by decide

theorem tie_eff_executeMappers : effX Programs.executeMappers = executeMappersEff := by decide

theorem tie_eff_walkLimited : effX Programs.walkLimited = walkLimitedEff := by decide

theorem tie_eff_routineGroup : effX Programs.routineGroup = rgWaitEff ++ rgRunEff ++ rgRunSafeEff := by decide

theorem tie_eff_guard : effX Programs.barrierGuard = guardEff := by decide

/-- **Forwarded argument lists of the delegating entry points**: every public mr entry point hands ITS OWN `opts...`
(unchanged, spread) down to where `buildOptions(opts...)` is called; `Finish` / `FinishVoid` ask for exactly
`len(fns)` workers; `TimeoutLimit.TryBorrow/Return` delegate to the inner `Limit` without arguments; `Barrier.Guard`
hands its own mutex and `fn` to `Guard`; `WorkerGroup.Start` runs `wg.job`; `MaxConnsHandler(n)` builds `NewLimit(n)`;
`Walk` hands `fn` and the options it built to `walkLimited`. A dropped or replaced argument here is invisible to the
site programs (mutation m4: `MapReduceVoid` without `opts...`).  For the mr entry points only the option argument (last
position, spread) and the arity are pinned: how mapper / reducer are wrapped is not C05's business. -/
theorem tie_forwarding :
    mrMapReduceFwd.getLast? = some "opts..." ∧ mrMapReduceFwd.length = 5
    ∧ mrMapReduceChanFwd.getLast? = some "opts..." ∧ mrMapReduceChanFwd.length = 5
    ∧ mrMapReduceVoidFwd.getLast? = some "opts..." ∧ mrMapReduceVoidFwd.head? = some "generate" ∧ mrMapReduceVoidFwd.length = 4
    ∧ mrFinishFwd.getLast? = some "WithWorkers(len(fns))" ∧ mrFinishFwd.length = 4
    ∧ mrFinishVoidFwd.getLast? = some "WithWorkers(len(fns))" ∧ mrFinishVoidFwd.length = 3
    ∧ mrForEachFwd = ["opts..."] ∧ mrCoreFwd = ["opts..."]
    ∧ tlTryBorrowFwd = [] ∧ tlReturnFwd = []
    ∧ barrierGuardFwd = ["&b.lock", "fn"]
    ∧ workerGroupFwd = ["wg.job"]
    ∧ maxConnsNewLimitFwd = ["n"]
    ∧ fxWalkLimitedFwd = ["fn", "option"] := by decide

/-- `rescue.Recover(cleanups...)`: all clean-ups first, then `recover()` and the report (`report_after_cleanup`). -/
theorem tie_rescue_order :
    rescueRecoverStmts = ["for _, cleanup := range cleanups { cleanup() }",
                          "if p := recover(); p != nil { logx.ErrorStack(p) }"] := by decide

/-! ## round 5c: the WorkerGroup.Start model against the source -/

/-- the loop of the `WorkerGroup.Start` model IS the Go loop: the test of `WGStep.spawn / loopExit` equals the
translated condition of `for i := 0; i < wg.workers; i++` for all values (negative and zero `workers` included), the
model starts at `i = 0` and a spawn step is `i + 1`; the loop body is one `group.RunSafe(wg.job)` (Add before the spawn,
Done deferred: `tie_eff_routineGroup`), followed by `group.Wait()`. -/
theorem tie_workerGroup_model :
    (∀ i w : Int, wgLoopTest i w = workerGroupLoopCond i w)
    ∧ workerGroupFor = ["i := 0", "i < wg.workers", "i++"]
    ∧ (WGSt.init 3).i = 0
    ∧ workerGroupShape = ["call NewRoutineGroup", "for i < wg.workers {", "call group.RunSafe", "}", "call group.Wait"]
    ∧ workerGroupFwd = ["wg.job"] := by
  refine ⟨fun _ _ => rfl, by decide, rfl, by decide, by decide⟩

/-- `Cond`: the remaining time `WaitWithTimeout` returns on the signal branch, translated from the Go expression, is the
model's `waitResult` for all arguments; `Wait` is one receive from `cond.signal`; the value pairs per branch
(`remainTimeout, true` / `0, false`) and the unbuffered channel are `tie_cond_channel`. -/
theorem tie_cond_model :
    (∀ timeout elapsed : Int, condRemainExpr timeout elapsed = (waitResult timeout (.signalled elapsed)).1)
    ∧ condWaitPlainShape = ["recv cond.signal"]
    ∧ (∀ d, (waitResult d .timerFired) = (0, false)) := by
  exact ⟨fun _ _ => rfl, by decide, fun _ => rfl⟩

/-! ## round 5e: channel capacities, translated -/

/-- **The capacity of every limiting channel is the configured number, for all values**: `NewLimit(n)` makes a channel
of capacity `n` (= `(Sem.init n).cap`, `(St.init n).cap`), `NewTaskRunner(c)` of `c`, `executeMappers` of
`mCtx.workers`, `walkLimited`'s `pool` of `option.workers`; `NewCond`'s channel is unbuffered (capacity 0: the
rendezvous of ModelTL / ModelCond).  (`n + 1`, a constant or another field in any of them breaks this.) -/
theorem tie_capacities :
    (∀ n : Int, newLimitCap n = n) ∧ (∀ n : Nat, newLimitCap n = ((Sem.init n).cap : Int) ∧ newLimitCap n = ((St.init n).cap : Int))
    ∧ (∀ c : Int, newTaskRunnerCap c = c)
    ∧ newCondCap = 0
    ∧ (∀ w : Int, executeMappersCap w = w)
    ∧ (∀ w : Int, walkLimitedPoolCap w = w) :=
  ⟨fun _ => rfl, fun _ => ⟨rfl, rfl⟩, fun _ => rfl, rfl, fun _ => rfl, fun _ => rfl⟩

/-! ## round 5e: the delegation chains as a function of the option list -/

/-- what an extracted argument list hands on in its (last) option position. -/
def fwdOf (args : List String) : Fwd :=
  if args.getLast? = some "opts..." then .own else .nothing

/-- **Every hop of every public fx / mr entry point down to `buildOptions`, read from the source, hands on the caller's
own `opts...`** — so (`entry_cap_own`) the capacity of a stream started through ANY of them with
ANY option list is `streamCap` of that list (then `fx_walk_cap` / `mr_mappers_cap`).  Seeded change C05-11
(`MapReduceChan` without `opts...`) turns the second chain into `[.nothing, .own]`: `entry_cap_dropped` — 16 workers
whatever was asked for. -/
theorem tie_entry_chains :
    fwdOf mrMapReduceFwd = .own ∧ fwdOf mrMapReduceChanFwd = .own ∧ fwdOf mrMapReduceVoidFwd = .own
    ∧ fwdOf mrCoreFwd = .own ∧ fwdOf mrForEachFwd = .own
    ∧ fwdOf fxWalkFwd = .own ∧ fwdOf fxMapFwd = .own ∧ fwdOf fxFilterFwd = .own ∧ fwdOf fxParallelFwd = .own := by
  decide

/-- … hence, for all option lists, every entry point runs with the capacity of its caller's options: the chains are
MapReduce → core, MapReduceChan → core, MapReduceVoid → MapReduce → core, ForEach, Walk, Map/Filter/Parallel → Walk. -/
theorem tie_entry_caps (opts : List WOpt) :
    capThrough [fwdOf mrMapReduceFwd, fwdOf mrCoreFwd] opts = streamCap opts
    ∧ capThrough [fwdOf mrMapReduceChanFwd, fwdOf mrCoreFwd] opts = streamCap opts
    ∧ capThrough [fwdOf mrMapReduceVoidFwd, fwdOf mrMapReduceFwd, fwdOf mrCoreFwd] opts = streamCap opts
    ∧ capThrough [fwdOf mrForEachFwd] opts = streamCap opts
    ∧ capThrough [fwdOf fxWalkFwd] opts = streamCap opts
    ∧ capThrough [fwdOf fxMapFwd, fwdOf fxWalkFwd] opts = streamCap opts
    ∧ capThrough [fwdOf fxFilterFwd, fwdOf fxWalkFwd] opts = streamCap opts
    ∧ capThrough [fwdOf fxParallelFwd, fwdOf fxWalkFwd] opts = streamCap opts := by
  obtain ⟨h1, h2, h3, h4, h5, h6, h7, h8, h9⟩ := tie_entry_chains
  simp only [h1, h2, h3, h4, h5, h6, h7, h8, h9]
  exact ⟨rfl, rfl, rfl, rfl, rfl, rfl, rfl, rfl⟩

/-- `Finish(fns...)` → `MapReduceVoid(…, WithWorkers(len(fns)))` → … and `FinishVoid(fns...)` → `ForEach(…,
WithWorkers(len(fns)))`: the option position carries exactly that one option (`entry_cap_finish`). -/
theorem tie_finish_chain :
    mrFinishFwd.getLast? = some "WithWorkers(len(fns))" ∧ mrFinishVoidFwd.getLast? = some "WithWorkers(len(fns))"
    ∧ (∀ k : Int, capThrough [.fixed k, fwdOf mrMapReduceVoidFwd, fwdOf mrMapReduceFwd, fwdOf mrCoreFwd] []
        = streamCap [.withWorkers k])
    ∧ (∀ k : Int, capThrough [.fixed k, fwdOf mrForEachFwd] [] = streamCap [.withWorkers k]) := by
  obtain ⟨h1, _, h3, h4, h5, _⟩ := tie_entry_chains
  refine ⟨by decide, by decide, fun k => ?_, fun k => ?_⟩
  · simp only [h1, h3, h4]; rfl
  · simp only [h5]; rfl

end GoZero.C05.Tie
