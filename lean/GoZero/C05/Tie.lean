/-
C05 — Tie: the statement skeletons the extractor reads from the current go-zero tree equal the token
lists the site programs of Model.lean were written against, row by row.
-/
import GoZero.Extracted.C05
import GoZero.C05.Proofs
namespace GoZero.C05.Tie
open GoZero.C05
open GoZero.Extracted.C05

theorem extraction_clean : extractionErrors = [] := by decide

theorem tie_limit : Programs.limitClient.tags = borrowShape ++ tryBorrowShape ++ returnShape := by decide

end GoZero.C05.Tie
