/-
C05 — property theorems for `syncx.TimeoutLimit` with the condition variable modelled explicitly
(ModelTL.lean): every capacity `n`, unboundedly many callers, every interleaving of TryBorrow / park /
timer / Signal delivery / retry / Return, every placement of the timer relative to the Signal.

"blocked, never admitted":  a caller that timed out owns nothing; a woken caller is admitted only when a
permit is really free; a `Return` frees exactly one permit, its `Signal` moves AT MOST ONE other goroutine
(a parked waiter, to its retry) and cannot be lost while a waiter is parked; no permit is lost and none is
granted twice (`used` = number of holders ≤ n at every instant) — including when the timer and the Signal
race.
-/
import GoZero.C05.ProofsTL
namespace GoZero.C05

/-- **The cap** for TimeoutLimit with real wake-ups: at most `n` callers are inside the guarded region. -/
theorem tl_cap (n : Nat) (s : TLSt) (h : TLReach n s) (l : List Tid) (hl : l.Nodup)
    (hin : ∀ t ∈ l, s.pc t = .holding) : l.length ≤ n := by
  have hi := tlreach_inv h
  have := tracks_bound hi.tracks l hl (fun t ht => by rw [hin t ht]; rfl)
  have := hi.le_cap
  have := hi.cap_eq
  omega

/-- the channel length is exactly the number of callers inside (no permit is granted twice, none is lost). -/
theorem tl_used_counts_holders (n : Nat) (s : TLSt) (h : TLReach n s) :
    s.used ≤ n ∧ ∃ hs : List Tid, hs.Nodup ∧ (∀ t, s.pc t = .holding ↔ t ∈ hs) ∧ hs.length = s.used := by
  have hi := tlreach_inv h
  refine ⟨by have := hi.le_cap; have := hi.cap_eq; omega, ?_⟩
  obtain ⟨hs, hnd, hm, hl⟩ := hi.tracks
  refine ⟨hs, hnd, ?_, hl⟩
  intro t
  rw [← hm t]
  cases s.pc t <;> simp [holdsL]

/-- **No leak, also with timeouts**: as soon as nobody is inside the guarded region the full capacity is
free — whatever the other callers are doing (waiting, timed out, about to signal, refused). -/
theorem tl_no_leak (n : Nat) (s : TLSt) (h : TLReach n s) (hq : ∀ t, s.pc t ≠ .holding) :
    s.used = 0 ∧ s.cap = n := by
  have hi := tlreach_inv h
  refine ⟨tracks_zero hi.tracks ?_, hi.cap_eq⟩
  intro t
  have := hq t
  cases hc : s.pc t <;> simp_all [holdsL]

/-- a caller that returns only what it borrowed never gets `ErrLimitReturn` from `TimeoutLimit.Return`. -/
theorem tl_no_spurious_error (n : Nat) (s : TLSt) (h : TLReach n s) (t : Tid) : s.pc t ≠ .errReturn :=
  (tlreach_inv h).noerr t

/-- **Admission only below the cap**: whenever a caller gets in (first TryBorrow or the retry after a
wake-up), a permit was free and exactly one is taken. -/
theorem tl_admission {s s' : TLSt} {a : TLAct} (hs : TLStep s a s') (t : Tid)
    (h0 : s.pc t ≠ .holding) (h1 : s'.pc t = .holding) : s.used < s.cap ∧ s'.used = s.used + 1 := by
  cases hs <;> first
    | (refine ⟨by assumption, rfl⟩)
    | (exfalso
       simp only [upd] at h1
       repeat' split at h1
       all_goals first | exact h0 h1 | cases h1)

/-- **A timed-out borrower holds nothing**: the step into `ErrTimeout` changes neither the channel nor the
capacity, and the caller did not own a permit before it. -/
theorem tl_timeout_takes_nothing {s s' : TLSt} {a : TLAct} (hs : TLStep s a s') (t : Tid)
    (h0 : s.pc t ≠ .timedOut) (h1 : s'.pc t = .timedOut) :
    s'.used = s.used ∧ s'.cap = s.cap ∧ holdsL (s.pc t) = false ∧ holdsL (s'.pc t) = false := by
  refine ⟨?_, ?_, ?_, by rw [h1]; rfl⟩
  · cases hs <;> first
      | rfl
      | (exfalso
         simp only [upd] at h1
         repeat' split at h1
         all_goals first | exact h0 h1 | cases h1)
  · cases hs <;> rfl
  · cases hs <;> (
      simp only [upd] at h1
      repeat' split at h1
      all_goals first
        | (exfalso; exact h0 h1)
        | (exfalso; cases h1; done)
        | (rename_i heq; subst heq; simp_all [holdsL]))

/-- **A woken caller is admitted iff a permit is free** at its retry; otherwise it goes back to waiting or
times out, and the channel is untouched. -/
theorem tl_retry {s s' : TLSt} {t : Tid} (hs : TLStep s (.retry t) s') :
    (s.used < s.cap → s'.pc t = .holding ∧ s'.used = s.used + 1) ∧
    (¬ s.used < s.cap → s'.pc t ≠ .holding ∧ s'.used = s.used) := by
  cases hs with
  | retryOk _ hlt => exact ⟨fun _ => ⟨by simp [upd], rfl⟩, fun h => absurd hlt h⟩
  | retryWaitAgain _ hn => exact ⟨fun h => absurd h hn, fun _ => ⟨by simp [upd], rfl⟩⟩
  | retryTimedOut _ hn => exact ⟨fun h => absurd h hn, fun _ => ⟨by simp [upd], rfl⟩⟩

/-- **`Return` frees exactly one permit** and leaves the caller at its `Signal`. -/
theorem tl_return_frees_one (n : Nat) (s s' : TLSt) (h : TLReach n s) (t : Tid) (hs : TLStep s (.leave t) s') :
    s'.used + 1 = s.used ∧ s'.pc t = .signal := by
  have hi := tlreach_inv h
  cases hs with
  | leaveOk _ hpos => exact ⟨by simp only; omega, by simp [upd]⟩
  | leaveErr h0 hz =>
    exfalso
    have := tracks_pos hi.tracks t (by rw [h0]; rfl)
    omega

/-- **One step moves at most one other goroutine, and only a `Signal` does**: if the location of a
goroutine other than the acting one changes, the action is the delivery of the actor's `Signal` to exactly
that goroutine, which was parked and now retries.  (So a `Return` wakes at most one waiter.) -/
theorem tl_step_moves_at_most_one_other {s s' : TLSt} {a : TLAct} (hs : TLStep s a s') (t : Tid)
    (hne : t ≠ a.actor) (hch : s'.pc t ≠ s.pc t) :
    s.pc a.actor = .signal ∧ s.pc t = .waiting ∧ ∃ left, a = .deliver a.actor t left ∧ s'.pc t = .tryAgain left := by
  cases hs with
  | @deliver u w left hu hw =>
    simp only [TLAct.actor] at hne ⊢
    by_cases htw : t = w
    · subst htw
      exact ⟨hu, hw, left, rfl, by simp [upd]⟩
    · exfalso; apply hch; simp [upd, htw, hne]
  | _ => exfalso; apply hch; simp only [TLAct.actor] at hne; simp [upd, hne]

/-- uniqueness form: two goroutines other than the actor cannot both be moved by one step. -/
theorem tl_wakes_at_most_one {s s' : TLSt} {a : TLAct} (hs : TLStep s a s') (t1 t2 : Tid)
    (h1 : t1 ≠ a.actor) (h2 : t2 ≠ a.actor) (c1 : s'.pc t1 ≠ s.pc t1) (c2 : s'.pc t2 ≠ s.pc t2) : t1 = t2 := by
  obtain ⟨_, _, l1, e1, _⟩ := tl_step_moves_at_most_one_other hs t1 h1 c1
  obtain ⟨_, _, l2, e2, _⟩ := tl_step_moves_at_most_one_other hs t2 h2 c2
  rw [e1] at e2
  injection e2

/-- **A `Signal` is not lost while a waiter is parked**: if some goroutine is parked in the `select` of
`WaitWithTimeout`, the `Signal` of `u` is delivered to a parked goroutine (Go takes the ready send before
`default`), which proceeds to its retry. -/
theorem tl_signal_reaches_parked_waiter {s s' : TLSt} {a : TLAct} (hs : TLStep s a s') (u w : Tid)
    (hu : s.pc u = .signal) (hw : s.pc w = .waiting) (ha : a.actor = u) :
    ∃ t left, a = .deliver u t left ∧ s.pc t = .waiting ∧ s'.pc t = .tryAgain left := by
  cases hs with
  | @deliver u' t left hu' ht =>
    simp only [TLAct.actor] at ha; subst ha
    exact ⟨t, left, rfl, ht, by simp [upd]⟩
  | signalLost _ hnone => exact absurd hw (hnone w)
  | _ => simp only [TLAct.actor] at ha; subst ha; simp_all

/-! ### concrete runs -/

/-- **The Signal-after-timeout race** (`n = 1`): A holds the permit, B finds the limit full, parks, and its
timer fires; then A returns and signals — nobody is parked any more, the Signal falls into `default:`.
Nothing is lost: B holds nothing, the permit is back (`used = 0`), a third caller is admitted at once. -/
theorem tl_signal_after_timeout :
    ∃ s, TLReach 1 s ∧ s.pc 0 = .done ∧ s.pc 1 = .timedOut ∧ s.used = 0 ∧
      ∃ s', TLStep s (.borrow 2) s' ∧ s'.pc 2 = .holding := by
  have run : TLRun (TLSt.init 1)
      [.borrow 0, .borrow 1, .park 1, .timer 1, .leave 0, .signalLost 0]
      { cap := 1, used := 0,
        pc := upd (upd (upd (upd (upd (upd (fun _ => Loc.idle) 0 .holding) 1 .preWait) 1 .waiting) 1 .timedOut) 0 .signal) 0 .done } := by
    refine .cons (.borrowOk rfl (by decide)) (.cons (.borrowFull rfl (by decide)) (.cons (.park rfl)
      (.cons (.timer rfl) (.cons (.leaveOk rfl (by decide)) (.cons (.signalLost rfl ?_) .nil)))))
    intro t
    simp only [upd, TLSt.init]
    repeat' split
    all_goals simp
  refine ⟨_, tlreach_run .init run, rfl, rfl, rfl, _, .borrowOk rfl (by decide), by simp [upd]⟩

/-- **The other order of the same race**: the Signal is delivered first (B goes to its retry with no time
left), B's retry finds the permit A just returned and B is admitted — exactly one holder, no double grant. -/
theorem tl_signal_wins_race :
    ∃ s, TLReach 1 s ∧ s.pc 0 = .done ∧ s.pc 1 = .holding ∧ s.used = 1 := by
  have run : TLRun (TLSt.init 1)
      [.borrow 0, .borrow 1, .park 1, .leave 0, .deliver 0 1 false, .retry 1]
      { cap := 1, used := 0 + 1 - 1 + 1,
        pc := upd (upd (upd (upd (upd (upd (upd (fun _ => Loc.idle) 0 .holding) 1 .preWait) 1 .waiting) 0 .signal) 0 .done) 1 (.tryAgain false)) 1 .holding } := by
    exact .cons (.borrowOk rfl (by decide)) (.cons (.borrowFull rfl (by decide)) (.cons (.park rfl)
      (.cons (.leaveOk rfl (by decide)) (.cons (.deliver rfl rfl) (.cons (.retryOk rfl (by decide)) .nil)))))
  exact ⟨_, tlreach_run .init run, rfl, rfl, rfl⟩

/-- **What is NOT claimed (liveness)**: a Signal sent in the window between B's failed `TryBorrow` and B's
`select` is lost (`preWait`: nobody is parked yet).  B then sleeps although the permit is free, until its
timer fires: it is refused (`ErrTimeout`) while capacity was available.  Safety is untouched (`used = 0`,
B holds nothing); this delay is the documented limit of the claim "blocked, never admitted". -/
theorem tl_lost_wakeup_window :
    ∃ s, TLReach 1 s ∧ s.pc 1 = .timedOut ∧ s.used = 0 ∧ s.pc 0 = .done := by
  have run : TLRun (TLSt.init 1)
      [.borrow 0, .borrow 1, .leave 0, .signalLost 0, .park 1, .timer 1]
      { cap := 1, used := 0,
        pc := upd (upd (upd (upd (upd (upd (fun _ => Loc.idle) 0 .holding) 1 .preWait) 0 .signal) 0 .done) 1 .waiting) 1 .timedOut } := by
    refine .cons (.borrowOk rfl (by decide)) (.cons (.borrowFull rfl (by decide)) (.cons (.leaveOk rfl (by decide))
      (.cons (.signalLost rfl ?_) (.cons (.park rfl) (.cons (.timer rfl) .nil)))))
    intro t
    simp only [upd, TLSt.init]
    repeat' split
    all_goals simp
  exact ⟨_, tlreach_run .init run, rfl, rfl, rfl⟩

/-- the locations are anchored at the rows of the source-tied site program: the guarded region is its `user`
row, the retry its second `tryAcquire`, the first attempt its first, the Signal the row whose source tokens
are `l.cond.Signal()`; and a location holds a permit exactly when its row does. -/
theorem tl_rows_anchored :
    (Programs.timeoutLimitClient[Loc.holding.row]?.map (·.instr)) = some (.user 8)
    ∧ (Programs.timeoutLimitClient[Loc.idle.row]?.map (·.instr)) = some (.tryAcquire 2)
    ∧ (Programs.timeoutLimitClient[(Loc.tryAgain true).row]?.map (·.instr)) = some (.tryAcquire 5)
    ∧ (Programs.timeoutLimitClient[Loc.waiting.row]?.map (·.tags)) = some ["for {", "call l.cond.WaitWithTimeout"]
    ∧ (Programs.timeoutLimitClient[Loc.signal.row]?.map (·.tags)) = some ["call l.cond.Signal", "return"]
    ∧ (∀ l ∈ [Loc.idle, .preWait, .waiting, .tryAgain true, .tryAgain false, .holding, .signal, .errReturn,
               .timedOut, .refused, .done], H Programs.timeoutLimitClient l.row = holdsL l) := by
  decide

end GoZero.C05
