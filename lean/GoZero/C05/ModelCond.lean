/-
C05 — `syncx.Cond` (core/syncx/cond.go) as what it is: an UNBUFFERED channel `cond.signal` (core Lean only).

    Wait()                  <-cond.signal
    WaitWithTimeout(d)      timer := NewTimer(d); begin := timex.Now()
                            select { case <-cond.signal: return d - timex.Since(begin), true
                                     case <-timer.C:     return 0, false }
    Signal()                select { case cond.signal <- x:  default: }

A receiver is parked in `Wait` or in the `select` of `WaitWithTimeout`; `Signal` is a rendezvous with ONE parked
receiver if there is one (a ready communication is taken before `default`), otherwise it does nothing.
-/
import GoZero.C05.Model
namespace GoZero.C05

/-- how a `WaitWithTimeout` call is woken; `elapsed` = `timex.Since(begin)` when the signal is received. -/
inductive Wake where
  | signalled (elapsed : Int)
  | timerFired
  deriving Repr, DecidableEq

/-- the value pair `WaitWithTimeout(timeout)` returns (durations as integers, ns). -/
def waitResult (timeout : Int) : Wake → Int × Bool
  | .signalled elapsed => (timeout - elapsed, true)
  | .timerFired => (0, false)

inductive CLoc where
  | idle
  | parkedWait                      -- in `Cond.Wait`
  | parkedTimed (timeout : Int)     -- in the `select` of `WaitWithTimeout(timeout)`
  | proceeded (remain : Int) (ok : Bool)   -- the call has returned (`Wait`: remain 0, ok true)
  deriving Repr, DecidableEq

def isParked : CLoc → Bool
  | .parkedWait | .parkedTimed _ => true
  | _ => false

abbrev CSt := Tid → CLoc

inductive CAct where
  | wait (t : Tid) | waitTimed (t : Tid) (timeout : Int)
  | signalTo (t : Tid) (elapsed : Int)     -- a `Signal()` (by anybody) received by the parked `t`
  | signalLost                              -- a `Signal()` with nobody parked: `default:`
  | timer (t : Tid)
  deriving Repr, DecidableEq

inductive CStep : CSt → CAct → CSt → Prop where
  | wait {s : CSt} {t : Tid} : s t = .idle → CStep s (.wait t) (upd s t .parkedWait)
  | waitTimed {s : CSt} {t : Tid} {d : Int} : s t = .idle → CStep s (.waitTimed t d) (upd s t (.parkedTimed d))
  | toWait {s : CSt} {t : Tid} {e : Int} : s t = .parkedWait → CStep s (.signalTo t e) (upd s t (.proceeded 0 true))
  | toTimed {s : CSt} {t : Tid} {d e : Int} : s t = .parkedTimed d →
      CStep s (.signalTo t e) (upd s t (.proceeded (waitResult d (.signalled e)).1 (waitResult d (.signalled e)).2))
  | lost {s : CSt} : (∀ t, isParked (s t) = false) → CStep s .signalLost s
  | timer {s : CSt} {t : Tid} {d : Int} : s t = .parkedTimed d →
      CStep s (.timer t) (upd s t (.proceeded (waitResult d .timerFired).1 (waitResult d .timerFired).2))

end GoZero.C05
