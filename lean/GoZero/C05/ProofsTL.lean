/-
C05 — helper lemmas for the explicit TimeoutLimit + Cond model (ModelTL.lean).
-/
import GoZero.C05.ModelTL
import GoZero.C05.Proofs
namespace GoZero.C05

structure TLInv (n : Nat) (s : TLSt) : Prop where
  tracks : Tracks holdsL s.pc s.used
  le_cap : s.used ≤ s.cap
  cap_eq : s.cap = n
  noerr  : ∀ t, s.pc t ≠ .errReturn

theorem tlinv_init (n : Nat) : TLInv n (TLSt.init n) := by
  refine ⟨⟨[], List.nodup_nil, ?_, rfl⟩, Nat.zero_le _, rfl, ?_⟩
  · intro t; simp [TLSt.init, holdsL]
  · intro t; simp [TLSt.init]

theorem upd_ne_err {pc : Tid → Loc} (h : ∀ t, pc t ≠ .errReturn) (u : Tid) (q : Loc) (hq : q ≠ .errReturn) :
    ∀ t, upd pc u q t ≠ .errReturn := by
  intro t
  by_cases ht : t = u
  · subst ht; simp only [upd, if_true]; exact hq
  · simp only [upd, ht, if_false]; exact h t

theorem tlinv_step {n : Nat} {s s' : TLSt} {a : TLAct} (hi : TLInv n s) (hs : TLStep s a s') : TLInv n s' := by
  obtain ⟨htr, hle, hcap, hne⟩ := hi
  cases hs with
  | borrowOk h0 hlt =>
    exact ⟨tracks_gain htr _ _ (by rw [h0]; rfl) rfl, by simp only; omega, hcap, upd_ne_err hne _ _ (by simp)⟩
  | borrowFull h0 _ =>
    exact ⟨tracks_keep htr _ _ (by rw [h0]; rfl), hle, hcap, upd_ne_err hne _ _ (by simp)⟩
  | tryOk h0 hlt =>
    exact ⟨tracks_gain htr _ _ (by rw [h0]; rfl) rfl, by simp only; omega, hcap, upd_ne_err hne _ _ (by simp)⟩
  | tryFull h0 _ =>
    exact ⟨tracks_keep htr _ _ (by rw [h0]; rfl), hle, hcap, upd_ne_err hne _ _ (by simp)⟩
  | park h0 =>
    exact ⟨tracks_keep htr _ _ (by rw [h0]; rfl), hle, hcap, upd_ne_err hne _ _ (by simp)⟩
  | timer h0 =>
    exact ⟨tracks_keep htr _ _ (by rw [h0]; rfl), hle, hcap, upd_ne_err hne _ _ (by simp)⟩
  | @deliver u t left hu ht =>
    have hut : t ≠ u := by
      intro h; subst h; rw [hu] at ht; cases ht
    have h1 : Tracks holdsL (upd s.pc u .done) s.used := tracks_keep htr u _ (by rw [hu]; rfl)
    have h2 : upd s.pc u .done t = .waiting := by simp only [upd, hut, if_false]; exact ht
    exact ⟨tracks_keep h1 t _ (by rw [h2]; rfl), hle, hcap,
      upd_ne_err (upd_ne_err hne _ _ (by simp)) _ _ (by simp)⟩
  | signalLost hu _ =>
    exact ⟨tracks_keep htr _ _ (by rw [hu]; rfl), hle, hcap, upd_ne_err hne _ _ (by simp)⟩
  | retryOk h0 hlt =>
    exact ⟨tracks_gain htr _ _ (by rw [h0]; rfl) rfl, by simp only; omega, hcap, upd_ne_err hne _ _ (by simp)⟩
  | retryWaitAgain h0 _ =>
    exact ⟨tracks_keep htr _ _ (by rw [h0]; rfl), hle, hcap, upd_ne_err hne _ _ (by simp)⟩
  | retryTimedOut h0 _ =>
    exact ⟨tracks_keep htr _ _ (by rw [h0]; rfl), hle, hcap, upd_ne_err hne _ _ (by simp)⟩
  | leaveOk h0 hpos =>
    have := tracks_lose htr _ Loc.signal (by rw [h0]; rfl) rfl
    exact ⟨this.2, by simp only; omega, hcap, upd_ne_err hne _ _ (by simp)⟩
  | @leaveErr t h0 hz =>
    exfalso
    have := tracks_pos htr t (by rw [h0]; rfl)
    omega

theorem tlreach_inv {n : Nat} {s : TLSt} (h : TLReach n s) : TLInv n s := by
  induction h with
  | init => exact tlinv_init n
  | step a _ hs ih => exact tlinv_step ih hs

/-- run a list of actions (to exhibit concrete reachable states in examples). -/
inductive TLRun : TLSt → List TLAct → TLSt → Prop where
  | nil {s : TLSt} : TLRun s [] s
  | cons {s s1 s2 : TLSt} {a : TLAct} {l : List TLAct} : TLStep s a s1 → TLRun s1 l s2 → TLRun s (a :: l) s2

theorem tlreach_run {n : Nat} {s s' : TLSt} {l : List TLAct} (h : TLReach n s) (hr : TLRun s l s') :
    TLReach n s' := by
  induction hr with
  | nil => exact h
  | cons hs _ ih => exact ih (TLReach.step _ h hs)

end GoZero.C05
