/-
C05 — concurrency caps.  Executable models of the code that exists (core Lean only).

1. `Sem`      the limiting object itself: a buffered channel of capacity `cap` used as a counting
              semaphore (`syncx.Limit.pool`, `TaskRunner.limitChan`, the `pool` channels of
              `mr.executeMappers` / `fx.walkLimited`, the `latch` of `MaxConnsHandler`), with the
              non-blocking operations as a total sequential step function (what the sequential
              differential harness compares line by line).
2. `Instr`/`Row`/`St`/`step`   a small concurrency IR with an interleaving semantics for an UNBOUNDED
              number of threads (`Tid := Nat`).  Every acquire/release site of go-zero is a table of rows
              (`Programs` below): the statement-skeleton tokens the row accounts for (tied to the
              extractor's output in Tie.lean), the instruction, and whether a permit is held when control
              is at that row.  One thread of the model = one holder life-cycle (for the spawn sites: the
              part of `Schedule`/the dispatcher loop that works for one task, then the spawned goroutine).
3. `Pool`     `syncx.Pool` (Get/Put are atomic: both run under `p.lock`; `cond.Wait` is only reached
              where the state is unchanged).
-/
namespace GoZero.C05

abbrev Tid := Nat

/-! ## 1. the counting semaphore, sequential semantics -/

structure Sem where
  cap  : Nat
  used : Nat          -- `len(chan)`
  deriving Repr, DecidableEq

inductive SemOp where
  | borrow            -- `ch <- x`                       (blocks while full)
  | tryBorrow         -- `select { case ch <- x: true;  default: false }`
  | ret               -- `select { case <-ch: nil;      default: ErrLimitReturn }`
  | recv              -- `<-ch`                          (blocks while empty)
  deriving Repr, DecidableEq

inductive SemObs where
  | ok | blocked | refused | errReturn
  deriving Repr, DecidableEq

def Sem.init (n : Nat) : Sem := { cap := n, used := 0 }

def Sem.step (s : Sem) : SemOp → Sem × SemObs
  | .borrow    => if s.used < s.cap then ({ s with used := s.used + 1 }, .ok) else (s, .blocked)
  | .tryBorrow => if s.used < s.cap then ({ s with used := s.used + 1 }, .ok) else (s, .refused)
  | .ret       => if 0 < s.used then ({ s with used := s.used - 1 }, .ok) else (s, .errReturn)
  | .recv      => if 0 < s.used then ({ s with used := s.used - 1 }, .ok) else (s, .blocked)

def Sem.free (s : Sem) : Nat := s.cap - s.used

/-! ## 2. concurrency IR, interleaving semantics -/

inductive Instr where
  | acquire                    -- `ch <- x` on the limiting channel: enabled iff not full
  | tryAcquire (els : Nat)     -- `select { case ch <- x: (next row)  default: goto els }`
  | release                    -- `<-ch`: enabled iff not empty
  | tryRelease                 -- `Limit.Return`: receive, or ErrLimitReturn when empty
  | wgAdd | wgDone | wgWait    -- sync.WaitGroup
  | user (onPanic : Nat)       -- control is INSIDE the guarded user function; the step is its end:
                               -- normal return → next row, panic → row `onPanic` (the deferred code)
  | nop                        -- spawn, defer registration, logging, recover …
  | goto (q : Nat)
  | branch (a b : Nat)         -- choice made by the environment (source closed?, ctx done?, wake-up kind)
  | halt
  deriving Repr, DecidableEq

structure Row where
  tags  : List String          -- skeleton tokens of the Go source this row stands for (syntactic order)
  instr : Instr
  holds : Bool                 -- a permit is held while control is at this row
  inWg  : Bool := false        -- between `wg.Add(1)` and `wg.Done()`
  deriving Repr, DecidableEq

abbrev Prog := List Row

def Prog.tags (p : Prog) : List String := p.flatMap (·.tags)

structure St where
  cap  : Nat
  used : Nat
  wg   : Nat
  pc   : Tid → Nat
  err  : Tid → Bool            -- a `tryRelease` of this thread hit the empty channel (ErrLimitReturn)

def St.init (n : Nat) : St := { cap := n, used := 0, wg := 0, pc := fun _ => 0, err := fun _ => false }

def upd {α : Type} (f : Tid → α) (t : Tid) (v : α) : Tid → α := fun u => if u = t then v else f u

/-- one atomic action of thread `t`; `c` is the environment's choice (panic?/branch). `none` = blocked or finished. -/
def exec (i : Instr) (s : St) (t : Tid) (c : Bool) : Option St :=
  match i with
  | .acquire =>
    if s.used < s.cap then some { s with used := s.used + 1, pc := upd s.pc t (s.pc t + 1) } else none
  | .tryAcquire els =>
    if s.used < s.cap then some { s with used := s.used + 1, pc := upd s.pc t (s.pc t + 1) }
    else some { s with pc := upd s.pc t els }
  | .release =>
    if 0 < s.used then some { s with used := s.used - 1, pc := upd s.pc t (s.pc t + 1) } else none
  | .tryRelease =>
    if 0 < s.used then some { s with used := s.used - 1, pc := upd s.pc t (s.pc t + 1) }
    else some { s with err := upd s.err t true, pc := upd s.pc t (s.pc t + 1) }
  | .wgAdd => some { s with wg := s.wg + 1, pc := upd s.pc t (s.pc t + 1) }
  | .wgDone => some { s with wg := s.wg - 1, pc := upd s.pc t (s.pc t + 1) }
  | .wgWait => if s.wg = 0 then some { s with pc := upd s.pc t (s.pc t + 1) } else none
  | .user onPanic => some { s with pc := upd s.pc t (if c then onPanic else s.pc t + 1) }
  | .nop => some { s with pc := upd s.pc t (s.pc t + 1) }
  | .goto q => some { s with pc := upd s.pc t q }
  | .branch a b => some { s with pc := upd s.pc t (if c then a else b) }
  | .halt => none

def step (p : Prog) (s : St) (t : Tid) (c : Bool) : Option St :=
  match p[s.pc t]? with
  | some r => exec r.instr s t c
  | none => none

/-- **Every way control can leave the guarded user function.**  Go runs the deferred calls of the frame (and of
every frame below it) for a normal return, for a panic with ANY value (a string, an error value such as
`http.ErrAbortHandler`, a runtime error) and for `runtime.Goexit` (then `recover()` yields nil and the goroutine
ends after the deferred calls).  In the IR the three abnormal kinds are the environment choice `true` of the
`user onPanic` row: control continues at the deferred code. -/
inductive ExitKind where
  | ret | panicValue | panicError | goexit
  deriving Repr, DecidableEq

def ExitKind.choice : ExitKind → Bool
  | .ret => false
  | _ => true

/-- the skeleton token of the statement that writes a panic report (`rescue.Recover`, after its clean-ups). -/
def reportTag : String := "call rescue.Recover"

/-- permit annotation of a row index (false outside the table). -/
def H (p : Prog) (q : Nat) : Bool :=
  match p[q]? with
  | some r => r.holds
  | none => false

/-- wait-group annotation of a row index. -/
def W (p : Prog) (q : Nat) : Bool :=
  match p[q]? with
  | some r => r.inWg
  | none => false

def isUser : Instr → Bool
  | .user _ => true
  | _ => false

/-- thread `t` is inside the guarded region. -/
def inCrit (p : Prog) (s : St) (t : Tid) : Bool :=
  match p[s.pc t]? with
  | some r => isUser r.instr
  | none => false

/-- thread `t` has not started or has finished. -/
def idle (p : Prog) (s : St) (t : Tid) : Bool :=
  s.pc t = 0 ||
  match p[s.pc t]? with
  | some r => r.instr = .halt
  | none => true

/-- The static discipline every site has to obey (decidable, checked per program by `decide`):
the `holds` annotation changes exactly at acquire/release rows, user code runs only while holding,
and a thread ends without a permit.  `user` rows: BOTH exits (return and panic) keep the permit, i.e. the
release has to be reachable from the panic exit — release-in-defer. -/
def okRow (p : Prog) (q : Nat) (r : Row) : Bool :=
  match r.instr with
  | .acquire => !r.holds && H p (q + 1)
  | .tryAcquire e => !r.holds && H p (q + 1) && !H p e
  | .release => r.holds && !H p (q + 1)
  | .tryRelease => r.holds && !H p (q + 1)
  | .user onP => r.holds && H p (q + 1) && H p onP
  | .goto q' => H p q' == r.holds
  | .branch a b => (H p a == r.holds) && (H p b == r.holds)
  | .halt => !r.holds
  | .wgAdd | .wgDone | .wgWait | .nop => H p (q + 1) == r.holds

def okProg (p : Prog) : Bool :=
  !H p 0 && (List.range p.length).all fun q =>
    match p[q]? with
    | some r => okRow p q r
    | none => true

/-- the same discipline for the wait-group annotation. -/
def okRowWg (p : Prog) (q : Nat) (r : Row) : Bool :=
  match r.instr with
  | .wgAdd => !r.inWg && W p (q + 1)
  | .wgDone => r.inWg && !W p (q + 1)
  | .wgWait => !r.inWg && !W p (q + 1)
  | .tryAcquire e => (W p (q + 1) == r.inWg) && (W p e == r.inWg)
  | .user onP => (W p (q + 1) == r.inWg) && (W p onP == r.inWg)
  | .goto q' => W p q' == r.inWg
  | .branch a b => (W p a == r.inWg) && (W p b == r.inWg)
  | .halt => !r.inWg
  | .acquire | .release | .tryRelease | .nop => W p (q + 1) == r.inWg

def okProgWg (p : Prog) : Bool :=
  !W p 0 && (List.range p.length).all fun q =>
    match p[q]? with
    | some r => okRowWg p q r
    | none => true

/-- holding a permit implies being counted in the wait group (TaskRunner: release before Done). -/
def holdsWithinWg (p : Prog) : Bool := p.all fun r => !r.holds || r.inWg

/-! ### The sites (rows in the syntactic order of the Go source; control flow by explicit gotos) -/
namespace Programs

/-- a caller of `syncx.Limit` obeying the contract "Return what you borrowed":
`Borrow()` or `TryBorrow()`, guarded work, deferred `Return()`. -/
def limitClient : Prog := [
  ⟨[], .branch 1 3, false, false⟩,
  ⟨["send l.pool"], .acquire, false, false⟩,                                         -- Limit.Borrow
  ⟨[], .goto 4, true, false⟩,
  ⟨["select{", "case send l.pool:", "return", "default:", "return", "}"], .tryAcquire 7, false, false⟩,  -- Limit.TryBorrow
  ⟨[], .user 5, true, false⟩,
  ⟨["select{", "case recv l.pool:", "return", "default:", "return", "}"], .tryRelease, true, false⟩,     -- Limit.Return
  ⟨[], .halt, false, false⟩,
  ⟨[], .halt, false, false⟩ ]                                                         -- refused

/-- `TimeoutLimit.Borrow` (TryBorrow, then wait/try until the timeout is used up) followed by the
caller's guarded work and `TimeoutLimit.Return`.  The wake-up of `Cond.WaitWithTimeout` (signalled or
timer, remaining time) is an environment choice: safety does not depend on it. -/
def timeoutLimitClient : Prog := [
  ⟨["if l.TryBorrow() {"], .tryAcquire 2, false, false⟩,
  ⟨["return", "}"], .goto 7, true, false⟩,
  ⟨["for {", "call l.cond.WaitWithTimeout"], .branch 3 5, false, false⟩,
  ⟨["if ok && l.TryBorrow() {"], .tryAcquire 5, false, false⟩,
  ⟨["return", "}"], .goto 7, true, false⟩,
  ⟨["if timeout <= 0 {"], .branch 6 2, false, false⟩,
  ⟨["return", "}", "}"], .goto 12, false, false⟩,                                    -- ErrTimeout
  ⟨[], .user 8, true, false⟩,
  ⟨["call l.limit.Return"], .tryRelease, true, false⟩,                                -- TimeoutLimit.Return
  ⟨["if err != nil {"], .branch 10 11, false, false⟩,
  ⟨["return", "}"], .goto 12, false, false⟩,
  ⟨["call l.cond.Signal", "return"], .nop, false, false⟩,
  ⟨[], .halt, false, false⟩ ]

/-- `threading.TaskRunner`: every thread chooses to be a `Wait` call, a `Schedule` call (Add, acquire the
slot BEFORE `go`, release + Done inside the deferred `rescue.Recover` clean-up) or a `ScheduleImmediately`
call (Add, try the slot — busy: Done + ErrTaskRunnerBusy —, spawn as above). -/
def runner : Prog := [
  ⟨[], .branch 1 2, false, false⟩,
  ⟨[], .branch 4 13, false, false⟩,
  ⟨["call rp.waitGroup.Wait"], .wgWait, false, false⟩,
  ⟨[], .goto 25, false, false⟩,
  -- Schedule (rows 4..12)
  ⟨["call rp.waitGroup.Add"], .wgAdd, false, false⟩,
  ⟨["send rp.limitChan"], .acquire, false, true⟩,
  ⟨["go{", "func{", "defer{"], .goto 10, true, true⟩,
  ⟨["func{", "recv rp.limitChan"], .release, true, true⟩,
  ⟨["call rp.waitGroup.Done"], .wgDone, false, true⟩,
  ⟨["}", "call rescue.Recover", "}"], .goto 25, false, false⟩,
  ⟨["call task"], .user 7, true, true⟩,
  ⟨["}", "call func", "}"], .goto 7, true, true⟩,
  ⟨[], .goto 25, false, false⟩,
  -- ScheduleImmediately (rows 13..24)
  ⟨["call rp.waitGroup.Add"], .wgAdd, false, false⟩,
  ⟨["select{", "case send rp.limitChan:"], .tryAcquire 16, false, true⟩,
  ⟨[], .goto 18, true, true⟩,
  ⟨["default:", "call rp.waitGroup.Done"], .wgDone, false, true⟩,
  ⟨["return", "}"], .goto 25, false, false⟩,
  ⟨["go{", "func{", "defer{"], .goto 22, true, true⟩,
  ⟨["func{", "recv rp.limitChan"], .release, true, true⟩,
  ⟨["call rp.waitGroup.Done"], .wgDone, false, true⟩,
  ⟨["}", "call rescue.Recover", "}"], .goto 25, false, false⟩,
  ⟨["call task"], .user 19, true, true⟩,
  ⟨["}", "call func", "}", "return"], .goto 19, true, true⟩,
  ⟨[], .goto 25, false, false⟩,
  ⟨[], .halt, false, false⟩ ]

/-- the handler returned by `rest/handler.MaxConnsHandler(n)` for `n > 0`. -/
def maxConns : Prog := [
  ⟨["if latch.TryBorrow() {"], .tryAcquire 6, false, false⟩,
  ⟨["defer{"], .goto 4, true, false⟩,
  ⟨["func{", "call latch.Return", "if err != nil {", "call r.Context", "}", "}", "call func"], .tryRelease, true, false⟩,
  ⟨["}"], .goto 7, false, false⟩,
  ⟨["call next.ServeHTTP"], .user 2, true, false⟩,
  ⟨[], .goto 2, true, false⟩,
  ⟨["}", "else{", "call w.WriteHeader", "}"], .nop, false, false⟩,                    -- 503
  ⟨[], .halt, false, false⟩ ]

/-- `mr.executeMappers`, the life-cycle of one item: the dispatcher acquires a `pool` slot in its
`select`, reads the item (source closed: gives the slot back), `wg.Add`, `go`; the worker's deferred
function recovers, `wg.Done()`, `<-pool`. -/
def executeMappers : Prog := [
  ⟨["defer{", "func{", "call wg.Wait", "close mCtx.collector", "call drain", "}", "call func", "}"], .nop, false, false⟩,
  ⟨["for atomic.LoadInt32(&failed) == 0 {", "select{"], .branch 2 3, false, false⟩,
  ⟨["case recv mCtx.ctx.Done(); call mCtx.ctx.Done:", "return", "case recv mCtx.doneChan:", "return"], .goto 16, false, false⟩,
  ⟨["case send pool:"], .acquire, false, false⟩,
  ⟨["recv mCtx.source", "if !ok {"], .branch 5 7, true, false⟩,
  ⟨["recv pool"], .release, true, false⟩,
  ⟨["return", "}"], .goto 16, false, false⟩,
  ⟨["call wg.Add"], .wgAdd, true, false⟩,
  ⟨["go{", "func{", "defer{"], .goto 14, true, true⟩,
  ⟨["func{", "recover", "if r != nil {"], .branch 10 11, true, true⟩,
  ⟨["call atomic.AddInt32", "call mCtx.panicChan.write"], .nop, true, true⟩,
  ⟨["}", "call wg.Done"], .wgDone, true, true⟩,
  ⟨["recv pool"], .release, true, false⟩,
  ⟨["}", "call func", "}"], .goto 16, false, false⟩,
  ⟨["call mCtx.mapper"], .user 9, true, true⟩,
  ⟨["}", "call func", "}", "}", "}"], .goto 9, true, true⟩,
  ⟨[], .halt, false, false⟩ ]

/-- `fx.Stream.walkLimited`, the life-cycle of one item. -/
def walkLimited : Prog := [
  ⟨["go{", "func{", "range s.source {"], .nop, false, false⟩,
  ⟨["send pool"], .acquire, false, false⟩,
  ⟨["call wg.Add"], .wgAdd, true, false⟩,
  ⟨["func{", "defer{"], .goto 7, true, true⟩,
  ⟨["func{", "call wg.Done"], .wgDone, true, true⟩,
  ⟨["recv pool"], .release, true, false⟩,
  ⟨["}", "call func", "}"], .goto 9, false, false⟩,
  ⟨["call fn"], .user 4, true, true⟩,
  ⟨["}", "call threading.GoSafe"], .goto 4, true, true⟩,
  ⟨["}", "call wg.Wait", "close pipe", "}", "call func", "}", "call Range", "return"], .halt, false, false⟩ ]

/-- `threading.RoutineGroup`: every thread is a `Wait` call, a `Run` call or a `RunSafe` call (Add BEFORE the
spawn, `Done` in the spawned function's `defer`).  No semaphore: the cap of `WorkerGroup` is the number of
`RunSafe` calls its `Start` loop makes (`for i < wg.workers`), see `ReachK`. -/
def routineGroup : Prog := [
  ⟨[], .branch 1 3, false, false⟩,
  ⟨["call g.waitGroup.Wait"], .wgWait, false, false⟩,
  ⟨[], .goto 16, false, false⟩,
  ⟨[], .branch 4 10, false, false⟩,
  -- Run (rows 4..9)
  ⟨["call g.waitGroup.Add"], .wgAdd, false, false⟩,
  ⟨["go{", "func{", "defer{"], .goto 8, false, true⟩,
  ⟨["call g.waitGroup.Done"], .wgDone, false, true⟩,
  ⟨["}"], .goto 16, false, false⟩,
  ⟨["call fn"], .user 6, false, true⟩,
  ⟨["}", "call func", "}"], .goto 6, false, true⟩,
  -- RunSafe (rows 10..15): the function handed to GoSafe (= go RunSafe: defer rescue.Recover(); fn())
  ⟨["call g.waitGroup.Add"], .wgAdd, false, false⟩,
  ⟨["func{", "defer{"], .goto 14, false, true⟩,
  ⟨["call g.waitGroup.Done"], .wgDone, false, true⟩,
  ⟨["}"], .goto 16, false, false⟩,
  ⟨["call fn"], .user 12, false, true⟩,
  ⟨["}", "call GoSafe"], .goto 12, false, true⟩,
  ⟨[], .halt, false, false⟩ ]

/-- `syncx.Guard(lock, fn)` / `Barrier.Guard`: a mutex is a limiter of capacity 1 (Lock = acquire,
deferred Unlock = release). -/
def barrierGuard : Prog := [
  ⟨["call lock.Lock"], .acquire, false, false⟩,
  ⟨["defer{"], .goto 4, true, false⟩,
  ⟨["call lock.Unlock"], .release, true, false⟩,
  ⟨["}"], .goto 6, false, false⟩,
  ⟨["call fn"], .user 2, true, false⟩,
  ⟨[], .goto 2, true, false⟩,
  ⟨[], .halt, false, false⟩ ]

/-- what the code would be with the release NOT in a defer (kept to show what the discipline rejects). -/
def maxConnsNoDefer : Prog := [
  ⟨["if latch.TryBorrow() {"], .tryAcquire 4, false, false⟩,
  ⟨["call next.ServeHTTP"], .user 5, true, false⟩,          -- a panic skips the Return
  ⟨["call latch.Return"], .tryRelease, true, false⟩,
  ⟨["}"], .goto 5, false, false⟩,
  ⟨["else{", "call w.WriteHeader", "}"], .nop, false, false⟩,
  ⟨[], .halt, false, false⟩ ]

/-- what `TaskRunner.Schedule` would be with `Done` handed to `rescue.Recover` as the clean-up and the slot given
back by an OUTER defer (seeded change C05-8): `Done` runs first, the panic report next, the release last. Kept to
show what `holdsWithinWg` rejects. -/
def runnerDoneFirst : Prog := [
  ⟨[], .branch 1 2, false, false⟩,
  ⟨[], .goto 4, false, false⟩,
  ⟨["call rp.waitGroup.Wait"], .wgWait, false, false⟩,
  ⟨[], .goto 11, false, false⟩,
  ⟨["call rp.waitGroup.Add"], .wgAdd, false, false⟩,
  ⟨["send rp.limitChan"], .acquire, false, true⟩,
  ⟨["go{", "call rp.run", "}"], .nop, true, true⟩,
  ⟨["call task"], .user 8, true, true⟩,
  ⟨["call rp.waitGroup.Done"], .wgDone, true, true⟩,           -- the clean-up of rescue.Recover
  ⟨["call rescue.Recover"], .nop, true, false⟩,                -- the panic report: slot still held, Done done
  ⟨["recv rp.limitChan"], .release, true, false⟩,              -- the outer defer
  ⟨[], .halt, false, false⟩ ]

end Programs

/-! ### typed effect lists (compared by Tie.lean with the order of effects extracted from the Go source) -/

/-- the property-relevant effect of an instruction (control-flow rows have none). -/
inductive Eff where
  | acquire | tryAcquire | release | tryRelease | wgAdd | wgDone | wgWait | user
  deriving Repr, DecidableEq

def Instr.eff : Instr → Option Eff
  | .acquire => some .acquire
  | .tryAcquire _ => some .tryAcquire
  | .release => some .release
  | .tryRelease => some .tryRelease
  | .wgAdd => some .wgAdd
  | .wgDone => some .wgDone
  | .wgWait => some .wgWait
  | .user _ => some .user
  | _ => none

/-- the effects of a site program in the syntactic order of its rows (= of the Go source). -/
def Prog.effects (p : Prog) : List Eff := p.filterMap (·.instr.eff)

/-! ## 2b. configuration decision tables -/

/-- `mr.WithWorkers(k)` / `fx.WithWorkers(k)`: `if workers < minWorkers { opts.workers = minWorkers } else
{ opts.workers = workers }` with `minWorkers = 1`: the capacity of the worker channel. -/
def effWorkers (k : Int) : Int := if k < 1 then 1 else k

/-- `rest.engine.buildChainWithNativeMiddlewares` + `handler.MaxConnsHandler`: the per-route latch exists iff
the middleware is switched on and `RestConf.MaxConns > 0`; `none` = no limit at all (pass-through). -/
def engineCap (mwOn : Bool) (maxConns : Int) : Option Nat :=
  if mwOn then (if maxConns ≤ 0 then none else some maxConns.toNat) else none

/-! ## 3. `syncx.Pool` -/

structure PNode where
  item     : Nat
  lastUsed : Nat
  deriving Repr, DecidableEq

structure Pool where
  limit   : Nat
  maxAge  : Nat            -- 0: resources never expire
  created : Int            -- Go `int`; decremented per destroyed node
  idle    : List PNode     -- the linked list from `head`
  next    : Nat            -- id the next `create()` call yields (the harness numbers resources 0,1,2,…)
  deriving Repr, DecidableEq

def Pool.init (limit maxAge : Nat) : Pool := { limit := limit, maxAge := maxAge, created := 0, idle := [], next := 0 }

inductive GetResult where
  | got (item : Nat) (fresh : Bool) (destroyed : List Nat)
  | wait (destroyed : List Nat)          -- reaches `p.cond.Wait()`
  deriving Repr, DecidableEq

def expired (maxAge now : Nat) (nd : PNode) : Bool := decide (0 < maxAge) && decide (nd.lastUsed + maxAge < now)

/-- the `for` loop of `Pool.Get` (one call, `now` = timex.Now()). -/
def getLoop (limit maxAge now next : Nat) : List PNode → Int → List Nat → Pool × GetResult
  | [], created, d =>
    if created < (limit : Int) then
      ({ limit := limit, maxAge := maxAge, created := created + 1, idle := [], next := next + 1 }, .got next true d)
    else ({ limit := limit, maxAge := maxAge, created := created, idle := [], next := next }, .wait d)
  | nd :: rest, created, d =>
    if expired maxAge now nd then getLoop limit maxAge now next rest (created - 1) (d ++ [nd.item])
    else ({ limit := limit, maxAge := maxAge, created := created, idle := rest, next := next }, .got nd.item false d)

def Pool.get (p : Pool) (now : Nat) : Pool × GetResult := getLoop p.limit p.maxAge now p.next p.idle p.created []

def Pool.put (p : Pool) (x : Nat) (now : Nat) : Pool := { p with idle := ⟨x, now⟩ :: p.idle }

/-- `Get` when the `create` callback PANICS (the reuse and wait paths never call it: as in `get`).  On the
create path `p.created++` has already run; the panic leaves through the deferred `Unlock` and nothing undoes
the increment: no resource exists, the counter stays.  Third component: did the call panic. -/
def Pool.getCreatePanics (p : Pool) (now : Nat) : Pool × GetResult × Bool :=
  match p.get now with
  | (p', .got item true d) => ({ p' with next := p.next }, .got item true d, true)
  | (p', res) => (p', res, false)

/-- `Get` when the `destroy` callback PANICS on the first expired resource it is called for.  The node has been
popped and `p.created--` has run (both BEFORE `p.destroy(head.item)`), the panic leaves through the deferred
`Unlock`; the rest of the idle list is untouched and no resource is handed out.  Second component: the resource
whose destroy panicked; `none`: the head is not expired (or there is none), destroy is not called and the call is a
plain `get`. -/
def Pool.getDestroyPanics (p : Pool) (now : Nat) : Pool × Option Nat :=
  match p.idle with
  | nd :: rest =>
    if expired p.maxAge now nd then ({ p with created := p.created - 1, idle := rest }, some nd.item) else (p, none)
  | [] => (p, none)

end GoZero.C05
