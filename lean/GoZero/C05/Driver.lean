/-
C05 — driver: replays implementation traces through the models (correspondence) and the monitors (property).

Sections (cfg `kind=<limit|tlimit|runner|maxconns|mr|fx|pool> mode=<seq|conc> n=<cap> [maxage=<ns>]`):

mode=seq, semaphore kinds — one real object, one operation per line:
    try            => ok | refused          (TryBorrow / ScheduleImmediately / a request: true,nil,200 | false,busy,503)
    borrow         => ok | blocked | timeout (Borrow: blocking; TimeoutLimit.Borrow: ErrTimeout)
    return         => ok | err              (Return: nil | ErrLimitReturn)
    finish [panic|panicerr|goexit] => ok | none   (let one admitted task/request end: return, panic with a string
                                             value, panic with an error value, runtime.Goexit — `ExitKind`)
    finish <panic|panicerr> held => ok report=held slot=<free|held> wait=<returns|blocked|n/a> | ok report=none
                                            (TaskRunner: the panic report is kept waiting inside the log writer; what has
                                             happened by then: slot given back? does Wait return?)
    probe          => free=<k>              (measured free permits)
mode=conc, semaphore kinds — real goroutines, history stamped inside the guarded region:
    run …          => <events> gauge=<peak> free=<k>     events: +t enter, -t exit, !t exit by panic (string), #t by panic (error value), ~t by Goexit, xt refused, et own Return failed
    rogue …        => borrows=<b> returns=<r> errs=<e> free=<k>    (callers that return more than they borrowed)
    waitprobe …    => rounds=<R> early=<E> worst=<w> busy=<b>      (TaskRunner: R rounds of schedule k <= n tasks, Wait,
                      look at the slots at once; E rounds with a slot still taken, b refused ScheduleImmediately calls)
kind=pool mode=seq:
    getdpanic => dpanicked destroyed=<id>  (the destroy callback panicked for the expired head; not expired: as `get`)
    get | getw | getpanic => got <id> fresh=<0|1> destroyed=<ids|-> | wait destroyed=… (reached cond.Wait; taken out
                      again) | waiting destroyed=… (getw: stays blocked) | panicked destroyed=… (create panicked)
    put <id>|@k    => ok id=<x> [woke=<y>|woke=none]   (a waiting Get resumed and took y) ;  putnil => ok
    t+ <d> => now=<t> ;  stat => created=<c> idle=<id@t,…|-> waiters=<w>
kind=pool mode=conc:
    run …          => <events> created=<c> idle=<k>   events: c:r create, d:r destroy, g:t:r get, p:t:r put
-/
import GoZero.Base.Trace
import GoZero.C05.Spec
import GoZero.C05.ModelOpts
namespace GoZero.C05

open GoZero

/-! ### sequential semaphore sections -/

/-- the `how` of a `finish <how>` op as an exit kind of the guarded function. -/
def exitOfHow : String → Option ExitKind
  | "panic" => some .panicValue
  | "panicerr" => some .panicError
  | "goexit" => some .goexit
  | _ => none

def seqExpected (kind : String) (s : Sem) (op : List String) : Option (Sem × String × String) :=
  match op with
  | ["try"] =>
    let r := s.step .tryBorrow
    some (r.1, if r.2 = .ok then "ok" else "refused", if r.2 = .ok then "try-ok" else "try-refused-full")
  | ["borrow"] =>
    let r := s.step .borrow
    some (r.1, if r.2 = .ok then "ok" else if kind = "tlimit" then "timeout" else "blocked",
          if r.2 = .ok then "borrow-ok" else "borrow-full")
  | ["return"] =>
    let r := s.step .ret
    some (r.1, if r.2 = .ok then "ok" else "err", if r.2 = .ok then "return-ok" else "return-over")
  | ["finish"] =>
    let r := s.step .recv
    some (r.1, if r.2 = .ok then "ok" else "none", if r.2 = .ok then "finish-ok" else "finish-none")
  | ["finish", how] =>
    match exitOfHow how with
    | none => none
    | some _ =>
      let r := s.step .recv
      some (r.1, if r.2 = .ok then "ok" else "none", if r.2 = .ok then s!"finish-{how}-ok" else "finish-none")
  | ["finish", how, "held"] =>
    match exitOfHow how with
    | none => none
    | some _ =>
      if kind ≠ "runner" then none else
      let r := s.step .recv
      some (r.1, if r.2 = .ok then "ok" else "none", if r.2 = .ok then s!"finish-{how}-report-held" else "finish-none")
  | ["wait"] =>
    -- TaskRunner.Wait: the wait-group count is the number of admitted, unfinished tasks
    if kind ≠ "runner" then none
    else if s.used = 0 then some (s, "returns", "wait-returns-idle")
    else some ({ s with used := 0 }, "blocked", "wait-blocks-until-all-done")
  | ["probe"] => some (s, s!"free={s.free}", if s.used = 0 then "probe-empty" else if s.used = s.cap then "probe-full" else "probe-partial")
  | _ => none

def seqEvent (op : List String) (obs : List String) : Option SeqEv :=
  match op.head?, obs with
  | some "try", ["ok"] => some .grant
  | some "try", ["refused"] => some .refuse
  | some "borrow", ["ok"] => some .grant
  | some "borrow", ["blocked"] => some .refuse
  | some "borrow", ["timeout"] => some .refuse
  | some "return", ["ok"] => some .retOk
  | some "return", ["err"] => some .retErr
  | some "finish", ["ok"] => some .retOk
  | some "finish", ["none"] => some .retErr
  | some "probe", [f] => (kv? [f] "free").bind (·.toNat?) |>.map .free
  | _, _ => none

/-- the monitor events of one line (a Return that wakes a parked borrower is a return AND a grant). -/
def seqEvents (op : List String) (obs : List String) : Option (List SeqEv) :=
  match op, obs with
  | ["bwait"], ["ok"] => some [.grant]
  | ["bwait"], ["waiting"] => some [.refuse]
  | ["return"], ["ok", "woke=1"] => some [.retOk, .grant]
  | ["return"], ["ok", "woke=0"] => some [.retOk]
  | ["return"], ["ok", "woke=lost"] => some [.retOk]
  | ["return"], ["ok", "woke=timeout"] => some [.retOk, .refuse]
  | ["finish", _, "held"], o :: _ => (seqEvent ["finish"] [o]).map fun e => [e]
  | ["wait"], ["returns"] => some []
  | ["wait"], ["blocked"] => some [.drained]
  | _, _ => (seqEvent op obs).map fun e => [e]

/-! ### sequential replay through the site PROGRAMS (the tables the theorems are about) -/

inductive Stop where
  | user | halt | blocked | fuel
  deriving Repr, DecidableEq

def consumesChoice : Instr → Bool
  | .branch _ _ => true
  | .user _ => true
  | _ => false

/-- run thread `t` (environment choices `cs`, then `false`) until it is inside the guarded function,
has finished, or is blocked. -/
def runThread (p : Prog) : Nat → St → Tid → List Bool → St × Stop
  | 0, s, _, _ => (s, .fuel)
  | fuel + 1, s, t, cs =>
    match p[s.pc t]? with
    | none => (s, .halt)
    | some r =>
      if isUser r.instr then (s, .user)
      else if r.instr = .halt then (s, .halt)
      else
        match step p s t (cs.headD false) with
        | none => (s, .blocked)
        | some s' => runThread p fuel s' t (if consumesChoice r.instr then cs.tail else cs)

/-- leave the guarded function (normally or by panic) and run to the end. -/
def finishThread (p : Prog) (s : St) (t : Tid) (pan : Bool) : St × Stop :=
  match step p s t pan with
  | none => (s, .blocked)
  | some s' => runThread p 64 s' t [pan]

/-- run thread `t` (every choice `true`: the panic exit) to the row that writes the panic report. -/
def runToReport (p : Prog) : Nat → St → Tid → St × Bool
  | 0, s, _ => (s, false)
  | fuel + 1, s, t =>
    match p[s.pc t]? with
    | none => (s, false)
    | some r =>
      if r.tags.contains reportTag then (s, true)
      else if r.instr = .halt ∨ isUser r.instr then (s, false)
      else
        match step p s t true with
        | none => (s, false)
        | some s' => runToReport p fuel s' t

def siteProgram : String → Option Prog
  | "limit" => some Programs.limitClient
  | "tlimit" => some Programs.timeoutLimitClient
  | "runner" => some Programs.runner
  | "maxconns" => some Programs.maxConns
  | "mr" => some Programs.executeMappers
  | "fx" => some Programs.walkLimited
  | "barrier" => some Programs.barrierGuard
  | _ => none

/-- choices that take a fresh thread of the site program into the guarded function (concurrent histories). -/
def enterChoices : String → List Bool
  | "limit" => [true]            -- Borrow
  | "runner" => [true, true]     -- Schedule
  | "mr" => [false, false]       -- not cancelled; the source had an item
  | _ => []

/-- environment choices that make a fresh thread of the site program take the path of the operation. -/
def entryChoices : String → String → Option (List Bool)
  | "limit", "try" => some [false]
  | "limit", "borrow" => some [true]
  | "tlimit", "try" => some [false, true]       -- not signalled, no time left: the refusal path
  | "tlimit", "borrow" => some [false, true]
  | "runner", "try" => some [true, false]       -- not Wait; ScheduleImmediately
  | "runner", "borrow" => some [true, true]     -- not Wait; Schedule
  | "maxconns", "try" => some []
  | "barrier", "borrow" => some []
  | _, _ => none

structure IRSeq where
  prog    : Prog
  st      : St
  next    : Tid            -- next fresh model thread
  holders : List Tid       -- threads inside the guarded function, oldest first
  waiters : List Tid := [] -- TimeoutLimit: threads parked in `cond.WaitWithTimeout` (row 2), oldest first

/-- expected observation of one sequential operation according to the site program. -/
def IRSeq.op (kind : String) (m : IRSeq) (op : List String) : Option (IRSeq × String) :=
  match op with
  | ["probe"] => some (m, s!"free={m.st.cap - m.st.used}")
  | ["wait"] =>
    -- a `Wait` thread: passes `wgWait` only when the count is 0; otherwise the harness lets every task end first
    let t := m.next
    let (s1, stop1) := runThread m.prog 64 m.st t [false]
    if stop1 = .halt then some ({ m with st := s1, next := t + 1 }, "returns")
    else if stop1 ≠ .blocked then some (m, "model-wait-neither-returns-nor-blocks")
    else
      let s2 := m.holders.foldl (fun st h => (finishThread m.prog st h false).1) s1
      let (s3, stop3) := runThread m.prog 64 s2 t []
      some ({ m with st := s3, next := t + 1, holders := [] }, if stop3 = .halt then "blocked" else "model-wait-stuck")
  | ["bwait"] =>
    -- the first `l.TryBorrow()` of Borrow (row 0): admitted → runs on into the guarded function;
    -- full → the thread stands at the `WaitWithTimeout` row until a Return signals it
    let t := m.next
    match step m.prog m.st t false with
    | none => some (m, "model-first-try-blocked")
    | some s1 =>
      if s1.pc t = 2 then some ({ m with st := s1, next := t + 1, waiters := m.waiters ++ [t] }, "waiting")
      else
        let (s2, stop) := runThread m.prog 64 s1 t []
        some ({ m with st := s2, next := t + 1, holders := m.holders ++ [t] }, if stop = .user then "ok" else "model-thread-not-admitted")
  | ["finish", how, "held"] =>
    -- TaskRunner: the task ends by panic, its panic report (written by `rescue.Recover` AFTER the clean-ups) is
    -- kept waiting: the model thread is run to the row of the report; there the slot annotation and the
    -- wait-group count say what an observer sees
    if kind ≠ "runner" ∨ (exitOfHow how).isNone then none else
    match m.holders with
    | [] => some (m, "none")
    | t :: rest =>
      match step m.prog m.st t true with
      | none => some (m, "model-holder-blocked")
      | some s1 =>
        let (s2, atReport) := runToReport m.prog 64 s1 t
        let (s3, stop) := runThread m.prog 64 s2 t [true]
        let rep := if how = "goexit" ∨ !atReport then "report=none"
          else s!"report=held slot={if H m.prog (s2.pc t) then "held" else "free"} wait={if rest ≠ [] then "n/a" else if s2.wg = 0 then "returns" else "blocked"}"
        some ({ m with st := s3, holders := rest }, if stop = .halt then s!"ok {rep}" else "model-thread-did-not-finish")
  | ["return"] | ["finish"] | ["finish", _] =>
    if op.length = 2 ∧ (exitOfHow (op.getD 1 "")).isNone then none else
    match m.holders with
    | [] => some (m, if op.head? = some "return" then "err" else "none")
    | t :: rest =>
      let (s', stop) := finishThread m.prog m.st t (op.length = 2)
      match m.waiters with
      | [] => some ({ m with st := s', holders := rest }, if stop = .halt then "ok" else "model-thread-did-not-finish")
      | w :: ws =>
        -- the Signal of the returning thread is received by the oldest parked one: choice `true` at the
        -- WaitWithTimeout row (signalled), then `ok && l.TryBorrow()` finds the permit just returned
        let (s2, stop2) := runThread m.prog 64 s' w [true]
        some ({ m with st := s2, holders := rest ++ [w], waiters := ws },
              if stop = .halt ∧ stop2 = .user then "ok woke=1" else "model-handover-failed")
  | [o] =>
    match entryChoices kind o with
    | none => none
    | some cs =>
      let t := m.next
      let (s', stop) := runThread m.prog 64 m.st t cs
      let m' := { m with st := s', next := t + 1 }
      match stop with
      | .user => some ({ m' with holders := m.holders ++ [t] }, "ok")
      | .halt => some (m', if kind = "tlimit" ∧ o = "borrow" then "timeout" else "refused")
      | .blocked =>
        -- the harness lets the oldest holder end so that the blocked call gets its permit
        match m.holders with
        | [] => some (m', "blocked-for-ever")
        | h :: rest =>
          let (s1, st1) := finishThread m.prog s' h false
          let (s2, st2) := runThread m.prog 64 s1 t []
          some ({ m' with st := s2, holders := rest ++ [t] },
                if st1 = .halt ∧ st2 = .user then "blocked" else "model-handover-failed")
      | .fuel => some (m', "model-out-of-fuel")
  | _ => none
def runSeq (r : Report) (s : Section) (kind : String) (n : Nat) : Report := Id.run do
  let mut sem := Sem.init n
  let mut waiters := 0       -- TimeoutLimit: Borrow calls parked in cond.WaitWithTimeout
  let mut mon : SeqMon := { cap := n, held := 0 }
  let mut ir : Option IRSeq := (siteProgram kind).map fun p => { prog := p, st := St.init n, next := 0, holders := [] }
  let mut r := r
  for l in s.lines do
    r := { r with ops := r.ops + 1 }
    let impl := joinSp l.obs
    -- `finish <how> held`: the first token is the outcome, the rest what was seen while the report was kept waiting
    let isHeld := l.op.length = 3 ∧ l.op.getLast? = some "held"
    let implSem := if isHeld then l.obs.headD "" else impl
    if implSem = "leaked" ∨ implSem = "stuck" then
      -- the harness gave up waiting: the permit of an ended holder never came back / a blocked call never resumed
      r := r.violation s.idx l.idx s!"kind={kind} op=[{joinSp l.op}] impl=[{impl}] capacity leaked: the permit of an ended holder was not released"
    -- TimeoutLimit with parked borrowers (explicit Cond model, ModelTL): `bwait` = Borrow with a long timeout
    let expected : Option (Sem × String × String) :=
      if kind = "tlimit" ∧ l.op = ["bwait"] then
        let q := sem.step .tryBorrow
        if q.2 = .ok then some (q.1, "ok", "bwait-admitted") else some (sem, "waiting", "bwait-parks")
      else if kind = "tlimit" ∧ l.op = ["return"] ∧ waiters > 0 ∧ sem.used > 0 then
        -- Return frees one permit, its Signal reaches one parked borrower, whose retry takes the permit
        some (sem, "ok woke=1", "return-wakes-parked-borrower")
      else seqExpected kind sem l.op
    match expected with
    | none => r := r.mismatch s.idx l.idx "bad-op" (joinSp l.op)
    | some (sem', exp, br) =>
      r := r.addCover s!"{kind}-{br}"
      if exp ≠ implSem then r := r.mismatch s.idx l.idx exp impl
      if br = "bwait-parks" then waiters := waiters + 1
      if br = "return-wakes-parked-borrower" then waiters := waiters - 1
      sem := sem'
    -- the same operation through the site program (the table the interleaving theorems are about)
    match ir with
    | none => pure ()
    | some m =>
      match m.op kind l.op with
      | none => r := r.mismatch s.idx l.idx "site-program: bad-op" (joinSp l.op)
      | some (m', exp) =>
        if exp ≠ impl then r := r.mismatch s.idx l.idx s!"site-program: {exp}" impl
        if m'.st.used ≠ sem.used then r := r.mismatch s.idx l.idx s!"site-program used={m'.st.used}" s!"sem used={sem.used}"
        r := r.addCover s!"{kind}-site-program-ops"
        ir := some m'
    match (if l.op = ["wait"] ∧ (l.obs.head? = some "returns-early" ∨ l.obs = ["stuck"]) then some [] else seqEvents l.op l.obs) with
    | none => r := r.mismatch s.idx l.idx "parsable-observation" impl
    | some evs =>
      for ev in evs do
        match mon.check ev with
        | some msg => r := r.violation s.idx l.idx s!"kind={kind} op=[{joinSp l.op}] impl=[{impl}] {msg}"
        | none => pure ()
        mon := mon.step ev
      if isHeld then
        match kv? l.obs "slot", kv? l.obs "wait" with
        | some "held", some "returns" =>
          r := r.violation s.idx l.idx s!"kind={kind} op=[{joinSp l.op}] impl=[{impl}] Wait returned while the slot of a task that ended by panic was still taken (its panic report was being written): Done before release — capacity leaked: free={n - 1 - mon.held} outstanding={mon.held} n={n} at the instant Wait returns"
        | some "held", _ =>
          r := r.violation s.idx l.idx s!"kind={kind} op=[{joinSp l.op}] impl=[{impl}] the permit of a task that ended by panic is given back only after its panic report has been written: capacity not available after the holder finished (unbounded with a slow log writer)"
        | some "free", some w => r := r.addCover s!"{kind}-panic-report-held-slot-free-wait-{w}"
        | _, _ => if l.obs.contains "report=none" then r := r.addCover s!"{kind}-panic-report-none"
      if l.op = ["wait"] then
        match l.obs with
        | "returns-early" :: _ => r := r.violation s.idx l.idx s!"kind={kind} Wait returned while admitted tasks were still running ({impl})"
        | ["stuck"] => r := r.violation s.idx l.idx s!"kind={kind} Wait does not return although no admitted task is running any more (wait-group count leaked)"
        | _ => pure ()
      -- a Return that succeeded while borrowers are parked has to hand the permit on
      if l.op = ["return"] ∧ waiters > 0 ∧ (l.obs = ["ok", "woke=0"] ∨ l.obs = ["ok", "woke=lost"] ∨ l.obs = ["ok"]) then
        r := r.violation s.idx l.idx s!"kind={kind} Return woke none of the {waiters} parked borrowers: a permit is free while requests stay blocked (lost wake-up)"
  return r

/-! ### concurrent semaphore sections -/

def parseHEv (tok : String) : Option (HEv × Bool) :=
  match tok.toList with
  | '+' :: rest => (String.ofList rest).toNat?.map fun t => (.enter t, false)
  | '-' :: rest => (String.ofList rest).toNat?.map fun t => (.exit t, false)
  | '!' :: rest => (String.ofList rest).toNat?.map fun t => (.exit t, true)
  | '#' :: rest => (String.ofList rest).toNat?.map fun t => (.exit t, true)
  | '~' :: rest => (String.ofList rest).toNat?.map fun t => (.exit t, true)
  | 'x' :: rest => (String.ofList rest).toNat?.map fun t => (.refused t, false)
  | 'e' :: rest => (String.ofList rest).toNat?.map fun t => (.retErr t, false)
  | _ => none

def runHistory (r : Report) (sec line : Nat) (kind : String) (n : Nat) (obs : List String) (ctx : String := "") : Report := Id.run do
  let mut m : HistMon := { cap := n, inside := [] }
  let mut r := r
  -- the same history through the site program: one fresh model thread per entry
  let mut ir : Option IRSeq := (siteProgram kind).map fun p => { prog := p, st := St.init n, next := 0, holders := [] }
  let mut tids : List (Nat × Tid) := []
  let mut free : Option Nat := none
  let mut freeSkip := false
  let mut enters := 0
  let mut panics := 0
  let mut refusals := 0
  let mut bad := false
  for tok in obs do
    if bad then break
    if (kv? [tok] "early").isSome then
      r := r.violation sec line s!"kind={kind}{ctx} Wait/Start returned while {(kv? [tok] "early").getD "?"} holders were still inside the guarded function"
      bad := true
      break
    if (kv? [tok] "sat").isSome then
      -- how the harness saw the run saturated (dispatcher parked at its acquire / all items inside / over the cap)
      r := r.addCover s!"{kind}-saturated-by-{(kv? [tok] "sat").getD "?"}"
      continue
    match kv? [tok] "free", kv? [tok] "gauge" with
    | some v, _ =>
      -- mr / fx / WorkerGroup: the limiting channel is a local variable of the library function (or there is
      -- none), nothing to measure afterwards
      if v = "unobservable" ∧ (kind = "mr" ∨ kind = "fx" ∨ kind = "wgroup" ∨ kind = "fxunl") then freeSkip := true
      else
        match v.toNat? with
        | some k => free := some k
        | none => r := r.mismatch sec line "free=<nat>" tok; bad := true
    | _, some v =>
      match v.toNat? with
      | some k =>
        if n < k then
          r := r.violation sec line s!"kind={kind}{ctx} cap exceeded: gauge peak {k} inside the guarded region, n={n}"; bad := true
      | none => r := r.mismatch sec line "gauge=<nat>" tok; bad := true
    | none, none =>
      match parseHEv tok with
      | none => r := r.mismatch sec line "event" tok; bad := true
      | some (ev, pan) =>
        match ev with
        | .enter _ => enters := enters + 1
        | .refused _ => refusals := refusals + 1
        | _ => pure ()
        if pan then
          panics := panics + 1
          r := r.addCover s!"{kind}-conc-exit-{if tok.startsWith "#" then "panic-error-value" else if tok.startsWith "~" then "goexit" else "panic-string-value"}"
        let (m', v) := m.step ev
        m := m'
        match v with
        | .ok => pure ()
        | .malformed msg => r := r.mismatch sec line "well-formed history" msg; bad := true
        | .violation msg => r := r.violation sec line s!"kind={kind}{ctx} {msg}"; bad := true
        if !bad then
          match ir, ev with
          | some x, .enter t =>
            let (s', stop) := runThread x.prog 64 x.st x.next (enterChoices kind)
            if stop ≠ .user then r := r.mismatch sec line "site-program: thread reaches the guarded function" s!"+{t}"; bad := true
            tids := (t, x.next) :: tids
            ir := some { x with st := s', next := x.next + 1 }
          | some x, .exit t =>
            match tids.lookup t with
            | none => r := r.mismatch sec line "site-program: known thread" s!"-{t}"; bad := true
            | some mt =>
              let (s', stop) := finishThread x.prog x.st mt pan
              if stop ≠ .halt then r := r.mismatch sec line "site-program: thread finishes" s!"-{t}"; bad := true
              tids := tids.erase (t, mt)
              ir := some { x with st := s' }
          | _, _ => pure ()
  if !bad then
    match ir with
    | some x =>
      if x.st.used ≠ 0 then r := r.mismatch sec line "site-program: used=0 at the end" s!"used={x.st.used}"
      r := r.addCover s!"{kind}-site-program-histories"
    | none => pure ()
  if !bad then
    match (if freeSkip then some n else free) with
    | none => r := r.mismatch sec line "free=<k>" "missing"
    | some k =>
      match m.final k with
      | .ok => pure ()
      | .malformed msg => r := r.mismatch sec line "quiescent end" msg
      | .violation msg => r := r.violation sec line s!"kind={kind}{ctx} {msg}"
  if kind = "wgroup" ∧ !bad ∧ enters ≠ n then
    r := r.violation sec line s!"kind=wgroup {enters} jobs were started, workers={n}"
  r := r.addCover s!"{kind}-conc-enters" enters
  if panics > 0 then r := r.addCover s!"{kind}-conc-panic-exits" panics
  if refusals > 0 then r := r.addCover s!"{kind}-conc-refusals" refusals
  if m.peak = n then r := r.addCover s!"{kind}-conc-peak-at-cap"
  else r := r.addCover s!"{kind}-conc-peak-below-cap"
  return r

def runRogue (r : Report) (sec line : Nat) (kind : String) (n : Nat) (obs : List String) : Report :=
  match (kv? obs "borrows").bind (·.toNat?), (kv? obs "returns").bind (·.toNat?),
        (kv? obs "errs").bind (·.toNat?), (kv? obs "free").bind (·.toNat?) with
  | some b, some rt, some e, some f =>
    let r := r.addCover s!"{kind}-rogue-runs"
    let r := if e > 0 then r.addCover s!"{kind}-rogue-errs" e else r
    if b < rt then r.violation sec line s!"kind={kind} {rt} returns succeeded but only {b} borrows (over-return not reported)"
    else if f + (b - rt) < n then r.violation sec line s!"kind={kind} capacity leaked: free={f} borrows={b} returns={rt} n={n}"
    else if n < f + (b - rt) then r.violation sec line s!"kind={kind} capacity raised: free={f} borrows={b} returns={rt} n={n}"
    else r
  | _, _, _, _ => r.mismatch sec line "borrows= returns= errs= free=" (joinSp obs)

def runConc (r : Report) (s : Section) (kind : String) (n : Nat) : Report := Id.run do
  let mut r := r
  for l in s.lines do
    r := { r with ops := r.ops + 1 }
    match l.op.head? with
    | some "run" =>
      if l.obs.head? = some "stuck" then
        r := r.violation s.idx l.idx s!"kind={kind} the run did not terminate ({joinSp l.obs}): holders ended but their permits / wait-group counts never came back"
      else r := runHistory r s.idx l.idx kind n l.obs
    | some "rogue" => r := runRogue r s.idx l.idx kind n l.obs
    | some "waitprobe" =>
      -- TaskRunner: rounds of schedule / Wait / look at the slots at once (`sem_wait_means_free`: wg = 0 → used = 0)
      if kind ≠ "runner" then r := r.mismatch s.idx l.idx "waitprobe only for kind=runner" (joinSp l.op)
      else if l.obs.head? = some "stuck" ∨ l.obs.head? = some "leaked" then
        r := r.violation s.idx l.idx s!"kind={kind} Wait does not return / slots never come back although every scheduled task has ended ({joinSp l.obs})"
      else
        match (kv? l.obs "rounds").bind (·.toNat?), (kv? l.obs "early").bind (·.toNat?),
              (kv? l.obs "worst").bind (·.toNat?), (kv? l.obs "busy").bind (·.toNat?) with
        | some rounds, some early, some worst, some busy =>
          r := r.addCover "runner-waitprobe-rounds" rounds
          if early > 0 ∨ busy > 0 then
            r := r.violation s.idx l.idx s!"kind={kind} Wait returned while up to {worst} slot(s) of finished tasks were still taken in {early} of {rounds} rounds, {busy} ScheduleImmediately calls refused although every task had been waited for (Done before release): capacity leaked: free={n - worst} after all holders finished, n={n}"
        | _, _, _, _ => r := r.mismatch s.idx l.idx "rounds= early= worst= busy=" (joinSp l.obs)
    | _ => r := r.mismatch s.idx l.idx "bad-op" (joinSp l.op)
  return r

/-! ### pool sections -/

def csv (l : List Nat) : String := if l = [] then "-" else ",".intercalate (l.map toString)

def parseCsv (s : String) : Option (List Nat) :=
  if s = "-" then some [] else (s.splitOn ",").mapM (·.toNat?)

def poolStat (p : Pool) : String :=
  let idle := if p.idle = [] then "-" else ",".intercalate (p.idle.map fun nd => s!"{nd.item}@{nd.lastUsed}")
  s!"created={p.created} idle={idle}"

def poolStatW (p : Pool) (waiters : Nat) : String := s!"{poolStat p} waiters={waiters}"

/-- destroyed list of an observation token `destroyed=<csv>` -/
def obsDestroyed (tok : String) : Option (List Nat) := (kv? [tok] "destroyed").bind parseCsv

def runPoolSeq (r : Report) (s : Section) (limit maxAge : Nat) : Report := Id.run do
  let mut p := Pool.init limit maxAge
  let mut now := 0
  let mut waiters := 0           -- Get calls that reached `cond.Wait()` and are still there
  let mut mon : PoolMon := { limit := limit, alive := [], held := [], dead := [] }
  let mut breached := false
  let mut r := r
  for l in s.lines do
    r := { r with ops := r.ops + 1 }
    let impl := joinSp l.obs
    let mut evs : List PEv := []
    -- `getdpanic`: destroy panics if Get calls it for the head; otherwise the call is a plain `get`
    let op := if l.op = ["getdpanic"] ∧ (p.getDestroyPanics now).2 = none then ["get"] else l.op
    if l.op = ["getdpanic"] ∧ op = ["get"] then r := r.addCover "pool-destroy-panic-armed-but-not-called"
    match op with
    | ["getdpanic"] =>
      let (p', x) := p.getDestroyPanics now
      r := r.addCover "pool-destroy-panics-count-stays-right"
      let exp := s!"dpanicked destroyed={csv x.toList}"
      if exp ≠ impl then r := r.mismatch s.idx l.idx exp impl
      p := p'
      match l.obs with
      | ["dpanicked", ds] =>
        match obsDestroyed ds with
        | some dl => evs := dl.map PEv.destroy      -- the resource is gone (unlinked and uncounted); nothing handed out
        | none => r := r.mismatch s.idx l.idx "parsable-observation" impl
      | _ => pure ()                                -- the mismatch above names it
    | ["get"] | ["getw"] | ["getpanic"] =>
      let keep := op = ["getw"]
      let cpanic := op = ["getpanic"]
      let (p', res, panicked) := if cpanic then p.getCreatePanics now else ((p.get now).1, (p.get now).2, false)
      match res with
      | .got item fresh d =>
        let exp := if panicked then s!"panicked destroyed={csv d}"
                   else s!"got {item} fresh={if fresh then 1 else 0} destroyed={csv d}"
        r := r.addCover (if panicked then "pool-create-panics-created-stays" else if fresh then "pool-get-create" else "pool-get-reuse")
        if d ≠ [] then r := r.addCover "pool-get-destroyed-expired" d.length
        if d.length ≥ 2 then r := r.addCover "pool-get-destroyed-several-at-once"
        if fresh ∧ d ≠ [] then r := r.addCover "pool-get-create-after-expiry"
        if !fresh ∧ d ≠ [] then r := r.addCover "pool-get-reuse-behind-expired"
        -- age exactly maxAge is NOT expired (`lastUsed+maxAge < now` is strict)
        if !fresh ∧ maxAge > 0 then
          match p.idle.find? (·.item = item) with
          | some nd => if nd.lastUsed + maxAge = now then r := r.addCover "pool-get-reuse-at-exactly-maxage"
          | none => pure ()
        if exp ≠ impl then r := r.mismatch s.idx l.idx exp impl
        p := p'
      | .wait d =>
        r := r.addCover (if keep then "pool-get-waits-kept" else "pool-get-would-wait")
        let exp := s!"{if keep then "waiting" else "wait"} destroyed={csv d}"
        if exp ≠ impl then r := r.mismatch s.idx l.idx exp impl
        p := p'
        if keep then waiters := waiters + 1
      -- monitor on the implementation's own observation
      match l.obs with
      | ["got", id, fr, ds] =>
        match id.toNat?, obsDestroyed ds with
        | some i, some dl =>
          evs := dl.map PEv.destroy ++ (if fr = "fresh=1" then [PEv.create i] else []) ++ [PEv.get 0 i]
        | _, _ => r := r.mismatch s.idx l.idx "parsable-observation" impl
      | ["panicked", ds] =>
        match obsDestroyed ds with
        | some dl =>
          evs := dl.map PEv.destroy
          -- the caller contract "create does not panic" is broken: `created` stays incremented although no
          -- resource exists (documented observation, outside the property's quantifier) — capacity claims end here
          if !breached then
            breached := true
            r := r.addCover "pool-contract-breach"
        | none => r := r.mismatch s.idx l.idx "parsable-observation" impl
      | [w, ds] =>
        if w = "wait" ∨ w = "waiting" then
          match obsDestroyed ds with
          | some dl =>
            evs := dl.map PEv.destroy
            if mon.held.length < limit ∧ !breached then
              r := r.violation s.idx l.idx s!"kind=pool Get waits although only {mon.held.length} of limit={limit} resources are in use (capacity leaked)"
          | none => r := r.mismatch s.idx l.idx "parsable-observation" impl
        else r := r.mismatch s.idx l.idx "parsable-observation" impl
      | ["stuck"] =>
        if !breached then
          r := r.violation s.idx l.idx s!"kind=pool Get neither returns nor waits on the condition variable ({mon.held.length} of limit={limit} in use)"
      | _ => r := r.mismatch s.idx l.idx "parsable-observation" impl
    | ["put", _] =>
      -- `put @k` / `put <id>`: the harness resolves which resource it gives back and prints it (`ok id=<x>`)
      match l.obs with
      | ["skip"] => r := r.addCover "pool-put-skip"
      | "ok" :: idtok :: rest =>
        match (kv? [idtok] "id").bind (·.toNat?) with
        | some i =>
          p := p.put i now
          r := r.addCover "pool-put"
          evs := [PEv.put 0 i]
          if waiters = 0 then
            if rest ≠ [] then r := r.mismatch s.idx l.idx s!"ok id={i}" impl
          else
            -- `p.cond.Signal()`: one waiting Get resumes its loop and takes the head
            let (p', res) := p.get now
            match res with
            | .got item false [] =>
              r := r.addCover "pool-put-wakes-waiter"
              if rest ≠ [s!"woke={item}"] then r := r.mismatch s.idx l.idx s!"ok id={i} woke={item}" impl
              p := p'
              waiters := waiters - 1
            | _ => r := r.mismatch s.idx l.idx "model: the woken Get takes the resource just put" impl
            match rest with
            | [wtok] =>
              match kv? [wtok] "woke" with
              | some "none" =>
                if !breached then
                  r := r.violation s.idx l.idx s!"kind=pool Put of resource {i} woke no waiting Get: the resource is idle while a request stays blocked (capacity not available)"
              | some w =>
                match w.toNat? with
                | some wi => evs := evs ++ [PEv.get 0 wi]
                | none => r := r.mismatch s.idx l.idx "woke=<nat>" impl
              | none => r := r.mismatch s.idx l.idx "woke=<nat>" impl
            | _ => r := r.mismatch s.idx l.idx "ok id=<nat> woke=<nat>" impl
        | none => r := r.mismatch s.idx l.idx "ok id=<nat>" impl
      | _ => r := r.mismatch s.idx l.idx "ok id=<nat>" impl
    | ["putnil"] =>
      r := r.addCover "pool-put-nil"
      if impl ≠ "ok" then r := r.mismatch s.idx l.idx "ok" impl
    | ["t+", d] =>
      match d.toNat? with
      | some k =>
        now := now + k
        r := r.addCover "pool-advance"
        if impl ≠ s!"now={now}" then r := r.mismatch s.idx l.idx s!"now={now}" impl
      | none => r := r.mismatch s.idx l.idx "bad-op" (joinSp l.op)
    | ["stat"] =>
      r := r.addCover "pool-stat"
      if impl ≠ poolStatW p waiters then r := r.mismatch s.idx l.idx (poolStatW p waiters) impl
      if !breached then
        match (kv? l.obs "created").bind (·.toInt?) with
        | some c =>
          if c > (limit : Int) then r := r.violation s.idx l.idx s!"kind=pool created={c} exceeds limit={limit}"
          -- `created` counts exactly the living resources: in use + idle
          match (kv? l.obs "idle") with
          | some idl =>
            let nidle := if idl = "-" then 0 else (idl.splitOn ",").length
            if c ≠ ((mon.held.length + nidle : Nat) : Int) then
              r := r.violation s.idx l.idx s!"kind=pool created={c} but {mon.held.length} resources are in use and {nidle} idle (count leaked)"
          | none => pure ()
        | none => pure ()
    | _ => r := r.mismatch s.idx l.idx "bad-op" (joinSp l.op)
    for ev in evs do
      if !breached then
        let (m', v) := mon.step ev
        mon := m'
        match v with
        | .ok => pure ()
        | .malformed _ =>
          -- the caller broke the contract (put of something it does not hold): the property promises nothing
          breached := true
          r := r.addCover "pool-contract-breach"
        | .violation msg => r := r.violation s.idx l.idx s!"kind=pool op=[{joinSp l.op}] impl=[{impl}] {msg}"
  return r

def parsePEv (tok : String) : Option PEv :=
  match tok.splitOn ":" with
  | ["c", r] => r.toNat?.map .create
  | ["d", r] => r.toNat?.map .destroy
  | ["g", t, r] => do pure (.get (← t.toNat?) (← r.toNat?))
  | ["p", t, r] => do pure (.put (← t.toNat?) (← r.toNat?))
  | _ => none

def runPoolHistory (r : Report) (sec line : Nat) (limit : Nat) (obs : List String) : Report := Id.run do
  let mut m : PoolMon := { limit := limit, alive := [], held := [], dead := [] }
  let mut r := r
  let mut bad := false
  let mut gets := 0
  let mut destroys := 0
  let mut created : Option Int := none
  let mut idle : Option Nat := none
  let mut peak := 0
  for tok in obs do
    if bad then break
    match kv? [tok] "created", kv? [tok] "idle", kv? [tok] "double" with
    | some v, _, _ => created := v.toInt?
    | _, some v, _ => idle := v.toNat?
    | _, _, some v => r := r.violation sec line s!"kind=pool {v} times a resource was in use by two holders (in-use flag)"; bad := true
    | none, none, none =>
      match parsePEv tok with
      | none => r := r.mismatch sec line "event" tok; bad := true
      | some ev =>
        match ev with
        | .get _ _ => gets := gets + 1
        | .destroy _ => destroys := destroys + 1
        | _ => pure ()
        let (m', v) := m.step ev
        m := m'
        peak := max peak m.held.length
        match v with
        | .ok => pure ()
        | .malformed msg => r := r.mismatch sec line "well-formed history" msg; bad := true
        | .violation msg => r := r.violation sec line s!"kind=pool {msg}"; bad := true
  if !bad then
    match created, idle with
    | some c, some k =>
      if m.held ≠ [] then r := r.mismatch sec line "quiescent end" s!"still held: {m.held.length}"
      else if c ≠ (m.alive.length : Int) then
        r := r.violation sec line s!"kind=pool created={c} but {m.alive.length} resources are alive (count leaked)"
      else if k ≠ m.alive.length then
        r := r.violation sec line s!"kind=pool idle={k} but {m.alive.length} resources are alive after all were put back"
      else pure ()
    | _, _ => r := r.mismatch sec line "created=<c> idle=<k>" "missing"
  r := r.addCover "pool-conc-gets" gets
  if destroys > 0 then r := r.addCover "pool-conc-destroys" destroys
  if peak = limit then r := r.addCover "pool-conc-peak-at-limit" else r := r.addCover "pool-conc-peak-below-limit"
  return r

def runPoolConc (r : Report) (s : Section) (limit : Nat) : Report := Id.run do
  let mut r := r
  for l in s.lines do
    r := { r with ops := r.ops + 1 }
    match l.op.head? with
    | some "run" =>
      if l.obs.head? = some "stuck" then
        r := r.violation s.idx l.idx "kind=pool the run did not terminate: users wait for resources although all were put back"
      else r := runPoolHistory r s.idx l.idx limit l.obs
    | _ => r := r.mismatch s.idx l.idx "bad-op" (joinSp l.op)
  return r

/-! ### the REST engine: `RestConf.MaxConns` through `buildChainWithNativeMiddlewares` (one latch per route) -/

/-- the lines of a sequential engine section that address route `rt`, with the route token removed. -/
def projectRoute (s : Section) (rt : Nat) : Section :=
  { s with lines := s.lines.filterMap fun l =>
      match l.op with
      | o :: r :: rest => if r.toNat? = some rt then some { l with op := o :: rest } else none
      | _ => none }

/-- several Pools in one section: the lines of pool `i` plus EVERY `t+` line (the virtual clock is process-wide:
time passes for all pools whichever instance the op was addressed to). -/
def projectPool (s : Section) (i : Nat) : Section :=
  { s with lines := s.lines.filterMap fun l =>
      match l.op with
      | o :: r :: rest => if r.toNat? = some i ∨ o = "t+" then some { l with op := o :: rest } else none
      | _ => none }

/-- no limit configured (middleware off or `MaxConns <= 0`): every request is admitted. -/
def runUnlimited (r : Report) (s : Section) : Report := Id.run do
  let mut r := r
  let mut inside := 0
  for l in s.lines do
    r := { r with ops := r.ops + 1 }
    let impl := joinSp l.obs
    let exp := match l.op with
      | ["try"] => "ok"
      | ["finish"] => if inside > 0 then "ok" else "none"
      | ["finish", how] => if (exitOfHow how).isNone then "bad-op" else if inside > 0 then "ok" else "none"
      | ["probe"] => "free=unlimited"
      | _ => "bad-op"
    if l.op = ["try"] then inside := inside + 1
    if l.op.head? = some "finish" ∧ inside > 0 then inside := inside - 1
    r := r.addCover "engine-unlimited-ops"
    if exp ≠ impl then r := r.mismatch s.idx l.idx exp impl
    if impl = "refused" then
      r := r.violation s.idx l.idx "kind=engine request refused (503) although no connection limit is configured"
  return r

def splitRoutes (obs : List String) : List (List String) × Option String :=
  let rec go (cur : List String) (acc : List (List String)) (glob : Option String) : List String → List (List String) × Option String
    | [] => ((if cur = [] then acc else acc ++ [cur]), glob)
    | t :: rest =>
      if t.startsWith "route=" then go [] (if cur = [] then acc else acc ++ [cur]) glob rest
      else match kv? [t] "global" with
        | some g => go cur acc (some g) rest
        | none => go (cur ++ [t]) acc glob rest
  go [] [] none obs

def runEngine (r : Report) (s : Section) (mode : String) : Report := Id.run do
  let routes := kvNat s.cfg "routes" 1
  let mw := kvNat s.cfg "mw" 1 = 1
  let mc := kvInt s.cfg "n" 0
  let cap := engineCap mw mc
  let mut r := r.addCover (match cap with
    | none => if mw then "engine-maxconns-nonpositive-no-limit" else "engine-middleware-off-no-limit"
    | some _ => "engine-limit-per-route")
  if mode = "seq" then
    let covered := (List.range routes).foldl (fun k rt => k + (projectRoute s rt).lines.length) 0
    if covered ≠ s.lines.length then r := r.mismatch s.idx 0 "every op names a route below routes=" (joinSp s.cfg)
    for rt in List.range routes do
      match cap with
      | some c => r := runSeq r (projectRoute s rt) "maxconns" c
      | none => r := runUnlimited r (projectRoute s rt)
  else
    match cap with
    | none => r := r.mismatch s.idx 0 "a limit for concurrent engine sections" (joinSp s.cfg)
    | some c =>
      for l in s.lines do
        r := { r with ops := r.ops + 1 }
        let (blocks, glob) := splitRoutes l.obs
        if blocks.length ≠ routes then r := r.mismatch s.idx l.idx s!"{routes} route blocks" (toString blocks.length)
        for b in blocks do
          r := runHistory r s.idx l.idx "maxconns" c b
        match glob.bind (·.toNat?) with
        | some g =>
          -- one latch PER ROUTE: all routes together may hold up to routes·MaxConns requests
          if routes * c < g then r := r.violation s.idx l.idx s!"kind=engine {g} requests inside at once, routes={routes} MaxConns={c}"
          if c < g then r := r.addCover "engine-observed-more-than-MaxConns-inside-across-routes"
        | none => r := r.mismatch s.idx l.idx "global=<nat>" (joinSp l.obs)
  return r

/-! ### sequences of fx / mr streams in one process, each with its own option list -/

def parseWOpts (s : String) : Option (List WOpt) :=
  if s = "none" then some []
  else (s.splitOn "+").mapM fun o =>
    if o = "unl" then some WOpt.unlimited
    else match o.toList with
      | 'w' :: rest => (String.ofList rest).toInt?.map WOpt.withWorkers
      | _ => none

def optClass (opts : List WOpt) : String :=
  if opts = [] then "default"
  else if opts.contains .unlimited then "unlimited"
  else match streamCap opts with
    | some n => if n > 16 then "above-default" else if n = 16 then "exactly-default" else if n = 1 then "one" else "small"
    | none => "unlimited"

/-- every stream of the section is checked against the cap of ITS OWN options (`streamCap`, see
`stream_cap_own_options` / `seqCaps_own`): the history through `HistMon` and the site program with that cap. -/
def runOptSeq (r : Report) (s : Section) (lib : String) : Report := Id.run do
  let mut r := r
  let mut before : List String := []      -- classes of the streams run earlier in this process
  for l in s.lines do
    r := { r with ops := r.ops + 1 }
    match l.op.head?, (kv? l.op "opt").bind parseWOpts, (kv? l.op "items").bind (·.toNat?) with
    | some "run", some opts, some items =>
      if lib = "mr" ∧ opts.contains .unlimited then r := r.mismatch s.idx l.idx "mr has no unlimited option" (joinSp l.op)
      else
        let cls := optClass opts
        r := r.addCover s!"{lib}opts-{cls}"
        r := r.addCover s!"{lib}opts-api-{(kv? l.op "api").getD "?"}"
        if opts.length ≥ 2 then r := r.addCover s!"{lib}opts-several-options-in-one-list"
        if opts.any (fun o => match o with | .withWorkers k => k < 1 | _ => false) then r := r.addCover s!"{lib}opts-withworkers-below-min"
        for b in before.eraseDups do
          if b ≠ cls then r := r.addCover s!"{lib}opts-{cls}-after-{b}"
        if before ≠ [] then r := r.addCover s!"{lib}opts-later-stream-of-the-process"
        let ctx := s!" stream #{before.length + 1} of the process, own options [{(kv? l.op "opt").getD "?"}]"
        if l.obs.head? = some "stuck" ∨ l.obs.head? = some "TIMEOUT-goroutines" then
          r := r.violation s.idx l.idx s!"kind={lib}{ctx} the run did not terminate ({joinSp (l.obs.take 1)}): workers ended but their slots / wait-group counts never came back"
        else
          match streamCap opts with
          | some n =>
            if items > n then r := r.addCover s!"{lib}opts-more-items-than-cap"
            r := runHistory r s.idx l.idx lib n l.obs ctx
          | none =>
            -- UnlimitedWorkers: no cap to check; the history has to be well formed and complete
            r := runHistory r s.idx l.idx "fxunl" (max items 1) l.obs ctx
        before := before ++ [cls]
    | _, _, _ => r := r.mismatch s.idx l.idx "run opt=<none|w<k>|unl[+…]> items=<m> …" (joinSp l.op)
  return r

def parseNs (s : String) : Option (List Int) := (s.splitOn ",").mapM (·.toInt?)

def semKinds : List String := ["limit", "tlimit", "runner", "maxconns", "mr", "fx", "wgroup", "barrier"]

def runSection (r : Report) (s : Section) : Report :=
  let kind := kvStr s.cfg "kind"
  let mode := kvStr s.cfg "mode"
  if kind = "engine" then runEngine r s mode else
  if kind = "fxopts" ∨ kind = "mropts" then runOptSeq r s (if kind = "fxopts" then "fx" else "mr") else
  if (kv? s.cfg "ns").isSome then
    -- several instances in one section: op `<o> <i> …` addresses instance i; each instance against its own n
    match (kv? s.cfg "ns").bind parseNs with
    | none => r.mismatch s.idx 0 "cfg ns=<n0>,<n1>,…" (joinSp s.cfg)
    | some ns =>
      if kind = "pool" ∧ mode = "seq" then Id.run do
        -- several Pools alive at once (equal and different limits, one clock): each against its own limit
        let mut r := r.addCover "pool-several-instances-in-one-section"
        if ns.eraseDups.length < ns.length then r := r.addCover "pool-instances-with-equal-limit"
        for (n, i) in ns.zipIdx do
          if n ≤ 0 then r := r.mismatch s.idx 0 "n >= 1" (joinSp s.cfg)
          else r := runPoolSeq r (projectPool s i) n.toNat (kvNat s.cfg "maxage" 0)
        return r
      else
      if mode ≠ "seq" ∨ !(semKinds.contains kind) then r.mismatch s.idx 0 "ns= only for sequential semaphore kinds" (joinSp s.cfg)
      else Id.run do
        let mut r := r.addCover s!"{kind}-several-instances-in-one-section"
        if ns.eraseDups.length < ns.length then r := r.addCover s!"{kind}-instances-with-equal-capacity"
        let covered := (List.range ns.length).foldl (fun k i => k + (projectRoute s i).lines.length) 0
        if covered ≠ s.lines.length then r := r.mismatch s.idx 0 "every op names an instance below the number of ns=" (joinSp s.cfg)
        for (n, i) in ns.zipIdx do
          if n ≤ 0 then
            if kind = "maxconns" then r := runUnlimited r (projectRoute s i)
            else r := r.mismatch s.idx 0 "n >= 1" (joinSp s.cfg)
          else r := runSeq r (projectRoute s i) kind n.toNat
        return r
  else
  match (kv? s.cfg "n").bind (·.toNat?) with
  | none => r.mismatch s.idx 0 "cfg n=<nat>" (joinSp s.cfg)
  | some n =>
    -- capacity 0 (outside the property's quantifier, inside the model: `zero_capacity_admits_nothing`): only for the
    -- kinds whose constructor accepts it as a limiter that admits nothing
    if n = 0 ∧ !(kind = "limit" ∨ kind = "tlimit" ∨ kind = "runner") then r.mismatch s.idx 0 "n >= 1" (joinSp s.cfg)
    else if kind = "pool" then
      if mode = "seq" then runPoolSeq r s n (kvNat s.cfg "maxage" 0)
      else if mode = "conc" then runPoolConc r s n
      else r.mismatch s.idx 0 "mode" mode
    else if semKinds.contains kind then
      -- mr / fx with `req=<k>`: WithWorkers(k) was called; the capacity has to be what the decision table says
      let r := match (kv? s.cfg "req").bind (·.toInt?) with
        | some k =>
          let r := r.addCover (if k < 1 then s!"{kind}-withworkers-floored-to-min" else s!"{kind}-withworkers-as-given")
          if effWorkers k = (n : Int) then r else r.mismatch s.idx 0 s!"n={effWorkers k} for WithWorkers({k})" s!"n={n}"
        | none => r
      let r := if n = 0 then r.addCover s!"{kind}-capacity-zero-admits-nothing" else r
      if mode = "seq" then runSeq r s kind n
      else if mode = "conc" then runConc r s kind n
      else r.mismatch s.idx 0 "mode" mode
    else r.mismatch s.idx 0 "kind" kind

def driver (secs : List Section) : Report := secs.foldl runSection {}

end GoZero.C05
