/-
C10 — termination: a measure that every step of every actor strictly decreases (both for the code as it
was and for the repaired code).  With `ProofsG.stuck_is_final` this gives: every run of the repaired code
is finite and ends with the caller returned and no goroutine of the call alive.
-/
import GoZero.C10.ProofsG
namespace GoZero.C10

def gWt : GPc → Nat
  | .run => 4 | .pwrite => 3 | .psend => 2 | .close => 1 | .done => 0

def dWt : DPc → Nat
  | .spawn _ => 8 | .loop => 7 | .sel => 6 | .recv => 5 | .unpool => 4 | .wait => 3 | .closeColl => 2 | .drain => 1
  | .done => 0

def mWt (c : Cfg) (i : Nat) : MPc → Nat
  | .idle => 4 * (c.mscript i).length + 11
  | .run sc => 4 * sc.length + 10
  | .send _ sc => 4 * sc.length + 13
  | .cdrain sc => 4 * sc.length + 11
  | .recovered => 9 | .pwrite => 8 | .psend => 7 | .wgdone => 6 | .unpool => 5 | .done => 0 | .crash => 0

def rWt : RPc → Nat
  | .run sc => 4 * sc.length + 10
  | .send _ sc => 4 * sc.length + 13
  | .cdrain sc => 4 * sc.length + 11
  | .drain _ => 5 | .pwrite _ => 4 | .psend _ => 3 | .finish => 2 | .done => 0

def cWt : CPc → Nat
  | .sel => 7 | .cancelEnter => 6 | .cdrain => 5 | .drainOut _ => 4 | .defer _ => 3 | .check _ => 2 | .done _ => 0

/-- remaining work of the mapper goroutines of the items `< n`. -/
def sumM (c : Cfg) (f : Nat → MPc) : Nat → Nat
  | 0 => 0
  | n + 1 => sumM c f n + mWt c n (f n)

theorem sumM_upd_ge (c : Cfg) (f : Nat → MPc) (i : Nat) (x : MPc) (n : Nat) (h : n ≤ i) :
    sumM c (upd f i x) n = sumM c f n := by
  induction n with
  | zero => rfl
  | succ n ih =>
    have : n ≠ i := by omega
    simp [sumM, upd, this, ih (by omega)]

theorem sumM_upd (c : Cfg) (f : Nat → MPc) (i : Nat) (x : MPc) (n : Nat) (hi : i < n) :
    sumM c (upd f i x) n + mWt c i (f i) = sumM c f n + mWt c i x := by
  induction n with
  | zero => omega
  | succ n ih =>
    by_cases h : i = n
    · subst h
      simp only [sumM, upd_same, sumM_upd_ge c f i x i (Nat.le_refl _)]
      omega
    · have hn : n ≠ i := fun e => h e.symm
      simp only [sumM, upd, hn, if_false]
      have := ih (by omega)
      omega

theorem sumM_ge (c : Cfg) (f : Nat → MPc) (i n : Nat) (hi : i < n) : mWt c i (f i) ≤ sumM c f n := by
  induction n with
  | zero => omega
  | succ n ih =>
    simp only [sumM]
    by_cases h : i = n
    · subst h; omega
    · have := ih (by omega); omega

theorem sumM_upd_eq (c : Cfg) (f : Nat → MPc) (i : Nat) (x : MPc) (n : Nat) (hi : i < n) :
    sumM c (upd f i x) n = sumM c f n - mWt c i (f i) + mWt c i x := by
  have := sumM_upd c f i x n hi
  have := sumM_ge c f i n hi
  omega

/-- the measure: items still to be taken from the source, remaining work of every goroutine, values
buffered in the collector, and the context's one possible transition. -/
def mu (c : Cfg) (s : St) : Nat :=
  10 * (c.n - s.gNext) + gWt s.gpc + dWt s.dpc + sumM c s.mp c.n + rWt s.rpc + cWt s.cpc + s.collQ.length
    + (if s.ctxDone then 0 else 1)

theorem srcRecv_lt {c : Cfg} {s : St} {i : Nat} (h : srcRecv c s = some (some i)) : s.gNext < c.n :=
  (srcRecv_item h).2

section
attribute [local grind] gWt dWt rWt cWt mWt

theorem mu_gen {c : Cfg} {s s' : St} (h : stepGen c s = some s') : mu c s' < mu c s := by
  unfold stepGen at h
  leaves h
  all_goals (simp only [mu]; grind)

theorem mu_disp {c : Cfg} {s s' : St} (IC : InvC c s) (IB : InvB c s) (h : stepDisp c s = some s') : mu c s' < mu c s := by
  have hlt := fun i => @srcRecv_lt c s i
  have hsp := IC.spawnlt
  have hsi := IB.spawnidle
  clear IC IB
  unfold stepDisp at h
  leaves h
  case h_4 i hd =>
    have hi := hsp i hd
    have hge := sumM_ge c s.mp i c.n hi
    simp only [mu, sumM_upd_eq c s.mp i _ c.n hi]
    grind
  all_goals (simp only [mu]; grind)

theorem mu_mapper {c : Cfg} {s s' : St} (i : Nat) (IC : InvC c s) (h : stepMapper c s i = some s') : mu c s' < mu c s := by
  have hlt := fun i => @srcRecv_lt c s i
  have hmlt := IC.mlt i
  clear IC
  by_cases hidle : s.mp i = .idle
  · simp [stepMapper, hidle] at h
  have hi := hmlt hidle
  have hge := sumM_ge c s.mp i c.n hi
  unfold stepMapper at h
  leaves h
  all_goals (simp only [mu, sumM_upd_eq c s.mp i _ c.n hi]; grind)

theorem mu_red {c : Cfg} {s s' : St} (h : stepRed c s = some s') : mu c s' < mu c s := by
  have hlt := fun i => @srcRecv_lt c s i
  unfold stepRed at h
  leaves h
  all_goals (simp only [mu]; grind)

theorem mu_caller {c : Cfg} {s s' : St} (h : stepCaller c s = some s') : mu c s' < mu c s := by
  have hlt := fun i => @srcRecv_lt c s i
  unfold stepCaller at h
  leaves h
  all_goals (simp only [mu]; grind)

/-- **Every step strictly decreases the measure.** -/
theorem mu_step {c : Cfg} {s s' : St} (a : Actor) (hr : Reach c s) (h : step c s a = some s') : mu c s' < mu c s := by
  cases a with
  | gen => exact mu_gen h
  | disp => exact mu_disp (invC_reach hr) (invB_reach hr) h
  | mapper i => exact mu_mapper i (invC_reach hr) h
  | red => exact mu_red h
  | caller => exact mu_caller h
  | _ =>
    simp only [step] at h
    leaves h
    all_goals (simp only [mu]; grind)

end

end GoZero.C10
