/-
C10 — Tie: what the extractor read from core/mr/mapreduce.go and core/errorx/atomicerror.go *now*
equals what the model's step tables were written against.  Each list is the synchronisation skeleton
(channel operations, select cases, close, go/defer structure, wait-group / atomic / once calls) of one
function; the comment names the model steps written against it.  A moved `wg.Done`, a send that became
blocking or non-blocking, a dropped `drain`, a changed channel capacity or select case breaks an obligation.
-/
import GoZero.Extracted.C10
import GoZero.C10.Driver
namespace GoZero.C10.Tie
open GoZero.Extracted.C10

theorem extraction_clean : extractionErrors = [] := by decide

/-- `WithWorkers` clamps to 1, the driver's `minWorkers`. -/
theorem tie_minWorkers : minWorkers = (GoZero.C10.minWorkers : Int) := by decide

/-- MapReduce = buildSource (generator goroutine) + mapReduceWithPanicChan. -/
theorem tie_mapReduceShape : mapReduceShape =
    ["call buildSource", "call mapReduceWithPanicChan", "return"] := by decide

/-- MapReduceVoid: the reducer gets no writer; ErrReduceNoOutput becomes nil (driver: `ok`). -/
theorem tie_mapReduceVoidShape : mapReduceVoidShape =
    ["func{", "call reducer", "}", "call MapReduce", "if errors.Is(err, ErrReduceNoOutput) {", "return", "}",
    "return"] := by decide

/-- ForEach: dispatcher goroutine + the caller loop `select {panicChan → panic; collector closed → repanic, return}`. -/
theorem tie_forEachShape : forEachShape =
    ["call buildOptions", "call buildSource", "go{", "func{", "call mapper", "}", "call executeMappers", "}",
    "for {", "select{", "case recv panicChan.channel:", "panic", "case recv collector:", "if !ok {",
    "call panicChan.repanic", "return", "}", "}", "}"] := by decide

/-- WithWorkers clamps to minWorkers (driver `parseRun`). -/
theorem tie_withWorkersShape : withWorkersShape =
    ["func{", "if workers < minWorkers {", "store opts.workers", "}", "else{", "store opts.workers", "}", "}",
    "return"] := by decide

/-- generator goroutine: GPc.run → (recover → pwrite/psend) → close(source) (`stepGen`). -/
theorem tie_buildSourceShape : buildSourceShape =
    ["go{", "func{", "defer{", "func{", "recover", "if r != nil {", "call panicChan.write", "}",
    "close source", "}", "call func", "}", "call generate", "}", "call func", "}", "return"] := by decide

/-- drain = receive until closed (DPc.drain, MPc/RPc/CPc.cdrain, RPc.drain). -/
theorem tie_drainShape : drainShape =
    ["range channel {", "}"] := by decide

/-- dispatcher: DPc.loop (failed==0) → sel {ctx, done, pool<-} → recv source → (!ok: <-pool, return) → wg.Add; go mapper; deferred wait/close(collector)/drain(source); mapper goroutine deferred: recover → failed++ → panicChan.write → wg.Done → <-pool (`stepDisp`, `stepMapper`). -/
theorem tie_executeMappersShape : executeMappersShape =
    ["defer{", "func{", "call wg.Wait", "close mCtx.collector", "call drain", "}", "call func", "}",
    "for atomic.LoadInt32(&failed) == 0 {", "select{", "case recv mCtx.ctx.Done(); call mCtx.ctx.Done:",
    "return", "case recv mCtx.doneChan:", "return", "case send pool:", "recv mCtx.source", "if !ok {",
    "recv pool", "return", "}", "call wg.Add", "go{", "func{", "defer{", "func{", "recover", "if r != nil {",
    "call atomic.AddInt32", "call mCtx.panicChan.write", "}", "call wg.Done", "recv pool", "}", "call func",
    "}", "call mCtx.mapper", "}", "call func", "}", "}", "}"] := by decide

/-- caller: deferred {range output → panic multi; repanic}; finish = closeOnce{close done; close output}; cancel = once{retErr.Set; drain(source); finish}; reducer goroutine deferred {drain(collector); recover → panicChan.write; finish}; select {ctx → cancel(DeadlineExceeded); panicChan → drain(output), panic; output → retErr.Load / ok} (`stepRed`, `stepCaller`, `step`). -/
theorem tie_mapReduceWithPanicChanShape : mapReduceWithPanicChanShape =
    ["call buildOptions", "defer{", "func{", "range output {", "panic", "}", "call panicChan.repanic", "}",
    "call func", "}", "func{", "func{", "close done", "close output", "}", "call closeOnce.Do", "}", "func{",
    "if err != nil {", "call retErr.Set", "}", "else{", "call retErr.Set", "}", "call drain", "call finish",
    "}", "call once", "go{", "func{", "defer{", "func{", "call drain", "recover", "if r != nil {",
    "call panicChan.write", "}", "call finish", "}", "call func", "}", "call reducer", "}", "call func", "}",
    "go{", "func{", "call mapper", "}", "call executeMappers", "}", "select{",
    "case recv options.ctx.Done(); call options.ctx.Done:", "call cancel", "case recv panicChan.channel:",
    "call drain", "panic", "case recv output:", "call retErr.Load", "if e != nil {", "}", "else{", "if ok {",
    "}", "else{", "}", "}", "}", "return"] := by decide

/-- cancel runs under a sync.Once (St.once). -/
theorem tie_onceShape : onceShape =
    ["func{", "func{", "call fn", "}", "call once.Do", "}", "return"] := by decide

/-- guardedWriter.Write: dropped when ctx or done is over, else a blocking send (UAct.write: check, then MPc.send / RPc.send). -/
theorem tie_guardedWriteShape : guardedWriteShape =
    ["select{", "case recv gw.ctx.Done(); call gw.ctx.Done:", "case recv gw.done:", "default:",
    "send gw.channel", "}"] := by decide

/-- newOnceChan only constructs. -/
theorem tie_newOnceChanShape : newOnceChanShape =
    ["return"] := by decide

/-- onceChan.write: CAS on wrote, then the send (pwrite → psend) — the code as it is.  The second form is the
proposed repair `fixes/C10-oncechan-write-atomic.patch` (`Props.generator_panic_can_be_lost`): a non-blocking
send into the capacity-1 channel, i.e. the CAS form with the window between CAS and send closed (the winner
sends at once); every run of it is a run of the model in which `psend` follows `pwrite` immediately, except
that the buffer can be re-filled after the caller has emptied it, which nobody reads.  Both are accepted so
that applying the repair does not break this check; the model keeps the weaker (CAS) form. -/
theorem tie_onceChanWriteShape : onceChanWriteShape =
    ["if atomic.CompareAndSwapInt32(&oc.wrote, 0, 1) {", "send oc.channel", "}"] ∨
    onceChanWriteShape = ["select{", "case send oc.channel:", "default:", "}"] := by decide

/-- onceChan.repanic: non-blocking receive, re-raise (CPc.check). -/
theorem tie_onceChanRepanicShape : onceChanRepanicShape =
    ["select{", "case recv oc.channel:", "panic", "default:", "}"] := by decide

/-- THE FIX: the panic channel has capacity 1, so its single write never blocks (Cfg.fixed = true). -/
theorem tie_newOnceChanMakes : newOnceChanMakes =
    ["make(chan any, 1)"] := by decide

/-- ForEach: collector and done unbuffered. -/
theorem tie_forEachMakes : forEachMakes =
    ["make(chan any)", "make(chan struct{})"] := by decide

/-- MapReduce constructs no channel itself. -/
theorem tie_mapReduceMakes : mapReduceMakes =
    [] := by decide

/-- MapReduceChan constructs no channel itself. -/
theorem tie_mapReduceChanMakes : mapReduceChanMakes =
    [] := by decide

/-- source is unbuffered (rendezvous: `srcRecv`). -/
theorem tie_buildSourceMakes : buildSourceMakes =
    ["make(chan T)"] := by decide

/-- the pool has `workers` slots (`stepDisp` .sel). -/
theorem tie_executeMappersMakes : executeMappersMakes =
    ["make(chan struct{}, mCtx.workers)"] := by decide

/-- output unbuffered, collector capacity = workers, done unbuffered. -/
theorem tie_mapReduceWithPanicChanMakes : mapReduceWithPanicChanMakes =
    ["make(chan V)", "make(chan U, options.workers)", "make(chan struct{})"] := by decide

/-- every entry point builds its panic channel with newOnceChan. -/
theorem tie_mapReducePanicChan : mapReducePanicChan =
    ["newOnceChan()"] := by decide

/-- every entry point builds its panic channel with newOnceChan. -/
theorem tie_mapReduceChanPanicChan : mapReduceChanPanicChan =
    ["newOnceChan()"] := by decide

/-- every entry point builds its panic channel with newOnceChan. -/
theorem tie_forEachPanicChan : forEachPanicChan =
    ["newOnceChan()"] := by decide

/-- the three errors the caller can assign: DeadlineExceeded, the cancel error, ErrReduceNoOutput (`stepCaller`, `outRes`). -/
theorem tie_callerErrAssignments : callerErrAssignments =
    ["context.DeadlineExceeded", "e", "ErrReduceNoOutput"] := by decide

/-- the value is the one received from output. -/
theorem tie_callerValAssignments : callerValAssignments =
    ["v"] := by decide

/-- AtomicError.Set stores non-nil errors. -/
theorem tie_atomicErrorSetShape : atomicErrorSetShape =
    ["if err != nil {", "call ae.err.Store", "}"] := by decide

/-- AtomicError.Load returns the stored error or nil. -/
theorem tie_atomicErrorLoadShape : atomicErrorLoadShape =
    ["call ae.err.Load", "if v != nil {", "return", "}", "return"] := by decide

end GoZero.C10.Tie
