/-
C10 — Tie: what the extractor read from core/mr/mapreduce.go and core/errorx/atomicerror.go *now*
equals what the model's step tables were written against.  Each list is the synchronisation skeleton
(channel operations, select cases, close, go/defer structure, wait-group / atomic / once calls) of one
function; the comment names the model steps written against it.  A moved `wg.Done`, a send that became
blocking or non-blocking, a dropped `drain`, a changed channel capacity or select case breaks an obligation.
-/
import GoZero.Extracted.C10
import GoZero.C10.Driver
import GoZero.C10.Props5
import GoZero.C10.Props6
namespace GoZero.C10.Tie
open GoZero.Extracted.C10

theorem extraction_clean : extractionErrors = [] := by decide

/-- `WithWorkers` clamps to 1, the driver's `minWorkers`. -/
theorem tie_minWorkers : GoZero.Extracted.C10.minWorkers = (GoZero.C10.minWorkers : Int) := by decide

/-- MapReduce = buildSource (generator goroutine) + mapReduceWithPanicChan. -/
theorem tie_mapReduceShape : mapReduceShape =
    ["call buildSource", "call mapReduceWithPanicChan", "return"] := by decide

/-- MapReduceVoid: the reducer gets no writer; ErrReduceNoOutput becomes nil (driver: `ok`). -/
theorem tie_mapReduceVoidShape : mapReduceVoidShape =
    ["func{", "call markCancel", "call mapper", "}", "func{", "call markCancel", "call reducer", "}", "call MapReduce",
    "if ok {", "return", "}", "if errors.Is(err, ErrReduceNoOutput) {", "return", "}", "return"] := by decide

/-- round 5 (fix C10-void-cancel-sentinel): BOTH user functions of MapReduceVoid get the marking cancel — item and
writer are forwarded unchanged. -/
theorem tie_mapReduceVoidMapperArgs : mapReduceVoidMapperArgs = ["item, writer, markCancel(cancel)"] := by decide
theorem tie_mapReduceVoidReducerArgs : mapReduceVoidReducerArgs = ["input, markCancel(cancel)"] := by decide
theorem tie_markCancelShape : markCancelShape =
    ["func{", "if err != nil {", "}", "call cancel", "}", "return"] := by decide

/-- `markCancel`: a non-nil error is marked, nil is passed on unmarked (`Spec5.markCancelArgM`), for all errors. -/
theorem tie_markCancelArg (err : Option Nat) :
    GoZero.Extracted.C10.markCancelArg err = GoZero.C10.markCancelArgM err := by
  cases err <;> rfl

/-- ForEach: dispatcher goroutine + the caller loop `select {panicChan → panic; collector closed → repanic, return}`. -/
theorem tie_forEachShape : forEachShape =
    ["call buildOptions", "call buildSource", "go{", "func{", "call mapper", "}", "call executeMappers", "}",
    "for {", "select{", "case recv panicChan.channel:", "panic", "case recv collector:", "if !ok {",
    "call panicChan.repanic", "return", "}", "}", "}"] := by decide

/-- WithWorkers clamps to minWorkers (driver `parseRun`). -/
theorem tie_withWorkersShape : withWorkersShape =
    ["func{", "if workers < minWorkers {", "store opts.workers", "}", "else{", "store opts.workers", "}", "}",
    "return"] := by decide

/-- generator goroutine: GPc.run → (recover → pwrite/psend) → close(source) (`stepGen`). -/
theorem tie_buildSourceShape : buildSourceShape =
    ["go{", "func{", "defer{", "func{", "recover", "if r != nil {", "call panicChan.write", "}",
    "close source", "}", "call func", "}", "call generate", "}", "call func", "}", "return"] := by decide

/-- drain = receive until closed (DPc.drain, MPc/RPc/CPc.cdrain, RPc.drain). -/
theorem tie_drainShape : drainShape =
    ["range channel {", "}"] := by decide

/-- dispatcher: DPc.loop (failed==0) → sel {ctx, done, pool<-} → recv source → (!ok: <-pool, return) → wg.Add; go mapper; deferred wait/close(collector)/drain(source); mapper goroutine deferred: recover → failed++ → panicChan.write → wg.Done → <-pool (`stepDisp`, `stepMapper`). -/
theorem tie_executeMappersShape : executeMappersShape =
    ["defer{", "func{", "call wg.Wait", "close mCtx.collector", "call drain", "}", "call func", "}",
    "for atomic.LoadInt32(&failed) == 0 {", "select{", "case recv mCtx.ctx.Done(); call mCtx.ctx.Done:",
    "return", "case recv mCtx.doneChan:", "return", "case send pool:", "recv mCtx.source", "if !ok {",
    "recv pool", "return", "}", "call wg.Add", "go{", "func{", "defer{", "func{", "recover", "if r != nil {",
    "call atomic.AddInt32", "call mCtx.panicChan.write", "}", "call wg.Done", "recv pool", "}", "call func",
    "}", "call mCtx.mapper", "}", "call func", "}", "}", "}"] := by decide

/-- caller: deferred {range output → panic multi; repanic}; finish = closeOnce{close done; close output}; cancel = once{retErr.Set; drain(source); finish}; reducer goroutine deferred {drain(collector); recover → panicChan.write; finish}; select {ctx → cancel(DeadlineExceeded); panicChan → drain(output), panic; output → retErr.Load / ok} (`stepRed`, `stepCaller`, `step`). -/
theorem tie_mapReduceWithPanicChanShape : mapReduceWithPanicChanShape =
    ["call buildOptions", "defer{", "func{", "range output {", "panic", "}", "call panicChan.repanic", "}",
    "call func", "}", "func{", "func{", "close done", "close output", "}", "call closeOnce.Do", "}", "func{",
    "if err != nil {", "call retErr.Set", "}", "else{", "call retErr.Set", "}", "call drain", "call finish",
    "}", "call once", "go{", "func{", "defer{", "func{", "call drain", "recover", "if r != nil {",
    "call panicChan.write", "}", "call finish", "}", "call func", "}", "call reducer", "}", "call func", "}",
    "go{", "func{", "call mapper", "}", "call executeMappers", "}", "select{",
    "case recv options.ctx.Done(); call options.ctx.Done:", "call cancel", "case recv panicChan.channel:",
    "call drain", "panic", "case recv output:", "call retErr.Load", "if e != nil {", "}", "else{", "if ok {",
    "}", "else{", "}", "}", "}", "return"] := by decide

/-- cancel runs under a sync.Once (St.once). -/
theorem tie_onceShape : onceShape =
    ["func{", "func{", "call fn", "}", "call once.Do", "}", "return"] := by decide

/-- guardedWriter.Write: dropped when ctx or done is over, else a blocking send (UAct.write: check, then MPc.send / RPc.send). -/
theorem tie_guardedWriteShape : guardedWriteShape =
    ["select{", "case recv gw.ctx.Done(); call gw.ctx.Done:", "case recv gw.done:", "default:",
    "send gw.channel", "}"] := by decide

/-- newOnceChan only constructs. -/
theorem tie_newOnceChanShape : newOnceChanShape =
    ["return"] := by decide

/-- onceChan.write: ONE non-blocking send into the capacity-1 channel (`Model.stepA`: the CAS form with the window
between "won" and "sent" closed).  Round 3 accepted the CAS form `if atomic.CompareAndSwapInt32(&oc.wrote, 0, 1) { send }`
as well; since round 4 the full `Props4.panic_not_lost` is stated for the atomic form and is FALSE for the CAS form
(`Props.generator_panic_can_be_lost`), so only the atomic form is accepted. -/
theorem tie_onceChanWriteShape : onceChanWriteShape =
    ["select{", "case send oc.channel:", "default:", "}"] := by decide

/-- onceChan.repanic: non-blocking receive, re-raise (CPc.check). -/
theorem tie_onceChanRepanicShape : onceChanRepanicShape =
    ["select{", "case recv oc.channel:", "panic", "default:", "}"] := by decide

/-- THE FIX: the panic channel has capacity 1, so its single write never blocks (Cfg.fixed = true). -/
theorem tie_newOnceChanMakes : newOnceChanMakes =
    ["make(chan any, 1)"] := by decide

/-- ForEach: collector and done unbuffered. -/
theorem tie_forEachMakes : forEachMakes =
    ["make(chan any)", "make(chan struct{})"] := by decide

/-- MapReduce constructs no channel itself. -/
theorem tie_mapReduceMakes : mapReduceMakes =
    [] := by decide

/-- MapReduceChan constructs no channel itself. -/
theorem tie_mapReduceChanMakes : mapReduceChanMakes =
    [] := by decide

/-- source is unbuffered (rendezvous: `srcRecv`). -/
theorem tie_buildSourceMakes : buildSourceMakes =
    ["make(chan T)"] := by decide

/-- the pool has `workers` slots (`stepDisp` .sel). -/
theorem tie_executeMappersMakes : executeMappersMakes =
    ["make(chan struct{}, mCtx.workers)"] := by decide

/-- output unbuffered, collector capacity = workers, done unbuffered. -/
theorem tie_mapReduceWithPanicChanMakes : mapReduceWithPanicChanMakes =
    ["make(chan V)", "make(chan U, options.workers)", "make(chan struct{})"] := by decide

/-- every entry point builds its panic channel with newOnceChan. -/
theorem tie_mapReducePanicChan : mapReducePanicChan =
    ["newOnceChan()"] := by decide

/-- every entry point builds its panic channel with newOnceChan. -/
theorem tie_mapReduceChanPanicChan : mapReduceChanPanicChan =
    ["newOnceChan()"] := by decide

/-- every entry point builds its panic channel with newOnceChan. -/
theorem tie_forEachPanicChan : forEachPanicChan =
    ["newOnceChan()"] := by decide

/-- the three errors the caller can assign: DeadlineExceeded, the cancel error, ErrReduceNoOutput (`stepCaller`, `outRes`). -/
theorem tie_callerErrAssignments : callerErrAssignments =
    ["context.DeadlineExceeded", "e", "ErrReduceNoOutput"] := by decide

/-- the value is the one received from output. -/
theorem tie_callerValAssignments : callerValAssignments =
    ["v"] := by decide

/-- AtomicError.Set stores non-nil errors. -/
theorem tie_atomicErrorSetShape : atomicErrorSetShape =
    ["if err != nil {", "call ae.err.Store", "}"] := by decide

/-- AtomicError.Load returns the stored error or nil. -/
theorem tie_atomicErrorLoadShape : atomicErrorLoadShape =
    ["call ae.err.Load", "if v != nil {", "return", "}", "return"] := by decide

/-! ### round 4: the remaining entry points, the option plumbing, forwarded arguments -/

/-- MapReduceChan = mapReduceWithPanicChan on the caller's source (no generator goroutine of the library: `Props4.chan_outcome`). -/
theorem tie_mapReduceChanShape : mapReduceChanShape =
    ["call mapReduceWithPanicChan", "return"] := by decide

/-- Finish: empty → nil; generator sends every fn; mapper = fn() and cancel(err) iff err != nil; empty reducer; WithWorkers(len(fns)) → MapReduceVoid (`Spec.finishCfg`). -/
theorem tie_finishShape : finishShape =
    ["if len(fns) == 0 {", "return", "}", "func{", "range fns {", "send source", "}", "}", "func{", "call fn", "if err != nil {", "call cancel", "}", "}", "func{", "}", "call WithWorkers", "call MapReduceVoid", "return"] := by decide

/-- FinishVoid: empty → return; generator sends every fn; mapper = fn(); WithWorkers(len(fns)) → ForEach (`Spec.forEachCfg`). -/
theorem tie_finishVoidShape : finishVoidShape =
    ["if len(fns) == 0 {", "return", "}", "func{", "range fns {", "send source", "}", "}", "func{", "call fn", "}", "call WithWorkers", "call ForEach"] := by decide

/-- WithContext stores the context. -/
theorem tie_withContextShape : withContextShape =
    ["func{", "store opts.ctx", "}", "return"] := by decide

/-- buildOptions applies EVERY option, in order (`Spec.workersOf`: the last WithWorkers wins). -/
theorem tie_buildOptionsShape : buildOptionsShape =
    ["range opts {", "call opt", "}", "return"] := by decide

/-- newOptions only constructs. -/
theorem tie_newOptionsShape : newOptionsShape =
    ["call context.Background", "return"] := by decide

/-- newGuardedWriter only constructs. -/
theorem tie_newGuardedWriterShape : newGuardedWriterShape =
    ["return"] := by decide

/-- buildOptions starts from newOptions() — a fresh struct per call. -/
theorem tie_buildOptionsInit : buildOptionsInit =
    ["newOptions()"] := by decide

/-- WithContext stores ITS argument into opts.ctx. -/
theorem tie_withContextStores : withContextStores =
    ["opts.ctx = ctx"] := by decide

/-- newGuardedWriter forwards ctx / channel / done into the fields of the same name (Write selects on gw.ctx.Done() and gw.done, sends to gw.channel). -/
theorem tie_newGuardedWriterFields : newGuardedWriterFields =
    ["ctx: ctx", "channel: channel", "done: done"] := by decide

/-- ForEach hands the dispatcher the options' context and worker count, its own source / panicChan / collector / done. -/
theorem tie_forEachFields : forEachFields =
    ["ctx: options.ctx", "mapper: func", "source: source", "panicChan: panicChan", "collector: collector", "doneChan: done", "workers: options.workers"] := by decide

/-- the caller hands the dispatcher the options' context and worker count, the source, panicChan, collector and done. -/
theorem tie_mapReduceWithPanicChanFields : mapReduceWithPanicChanFields =
    ["ctx: options.ctx", "mapper: func", "source: source", "panicChan: panicChan", "collector: collector", "doneChan: done", "workers: options.workers"] := by decide

/-- the reducer's writer guards `output` with the options' context and `done`. -/
theorem tie_callerWriterArgs : callerWriterArgs =
    ["options.ctx, output, done"] := by decide

/-- the mappers' writer guards the collector with the same context and done channel. -/
theorem tie_mapperWriterArgs : mapperWriterArgs =
    ["mCtx.ctx, mCtx.collector, mCtx.doneChan"] := by decide

/-- all options are forwarded to buildOptions. -/
theorem tie_callerBuildOptionsArgs : callerBuildOptionsArgs =
    ["opts..."] := by decide

/-- all options are forwarded to buildOptions. -/
theorem tie_forEachBuildOptionsArgs : forEachBuildOptionsArgs =
    ["opts..."] := by decide

/-- MapReduce forwards source, panicChan, mapper, reducer and ALL options. -/
theorem tie_mapReduceForwardArgs : mapReduceForwardArgs =
    ["source, panicChan, mapper, reducer, opts..."] := by decide

/-- the generator goroutine writes its panic into the SAME panicChan the caller reads. -/
theorem tie_mapReduceBuildSourceArgs : mapReduceBuildSourceArgs =
    ["generate, panicChan"] := by decide

/-- the generator goroutine writes its panic into the SAME panicChan the caller reads. -/
theorem tie_forEachBuildSourceArgs : forEachBuildSourceArgs =
    ["generate, panicChan"] := by decide

/-- MapReduceChan forwards source, panicChan, mapper, reducer and ALL options. -/
theorem tie_mapReduceChanForwardArgs : mapReduceChanForwardArgs =
    ["source, panicChan, mapper, reducer, opts..."] := by decide

/-- MapReduceVoid forwards generate, mapper, its wrapper reducer and ALL options. -/
theorem tie_mapReduceVoidForwardArgs : mapReduceVoidForwardArgs =
    ["generate, func, func, opts..."] := by decide

/-- the reducer reads the collector, writes through the guarded writer, gets the once-cancel. -/
theorem tie_reducerCallArgs : reducerCallArgs =
    ["collector, writer, cancel"] := by decide

/-- the mapper gets the item, the guarded writer and the once-cancel. -/
theorem tie_mapperCallArgs : mapperCallArgs =
    ["item, w, cancel"] := by decide

/-- cancel drains the SOURCE, the reducer goroutine's deferred function the COLLECTOR, the panic case the OUTPUT. -/
theorem tie_callerDrainArgs : callerDrainArgs =
    ["source", "collector", "output"] := by decide

/-- the dispatcher's deferred function drains the source. -/
theorem tie_dispatcherDrainArgs : dispatcherDrainArgs =
    ["mCtx.source"] := by decide

/-- the mapper goroutine gets the item received from the source and the guarded writer. -/
theorem tie_dispatcherMapperArgs : dispatcherMapperArgs =
    ["item, writer"] := by decide

/-- one wait-group unit per mapper goroutine (`stepDisp` .spawn: wg + 1). -/
theorem tie_dispatcherWgAddArgs : dispatcherWgAddArgs =
    ["1"] := by decide

/-- the defaults: background context, defaultWorkers. -/
theorem tie_newOptionsFields : newOptionsFields =
    ["ctx: context.Background()", "workers: defaultWorkers"] := by decide

/-- newOptions returns the address of a FRESH literal: no options struct is shared between calls. -/
theorem tie_newOptionsReturns : newOptionsReturns =
    ["&literal"] := by decide

/-- the only package-level variables are the two sentinel errors: no state persists between calls or instances. -/
theorem tie_packageVars : packageVars =
    ["ErrCancelWithNil", "ErrReduceNoOutput"] := by decide

/-! ### semantic ties (round 4): Go conditions / assignments translated to Lean functions by `extract/c10.go` and
proven equal, for ALL arguments, to the functions the model and the driver use -/

/-- `defaultWorkers` is the 16 of `Spec.defaultWorkersN` (a call without WithWorkers: `Spec.workersOf []`). -/
theorem tie_defaultWorkers : GoZero.Extracted.C10.defaultWorkers = (GoZero.C10.defaultWorkersN : Int) := by decide

/-- `WithWorkers(w)` stores `clampWorkers w` — comparison operator, both branches and the constant, for every w. -/
theorem tie_withWorkers (w : Int) : GoZero.Extracted.C10.withWorkers w = (GoZero.C10.clampWorkers w : Int) := by
  have hm : GoZero.Extracted.C10.minWorkers = 1 := rfl
  unfold GoZero.Extracted.C10.withWorkers GoZero.C10.clampWorkers GoZero.C10.minWorkersN
  rw [hm]
  by_cases h : w < 1 <;> simp [h] <;> omega

/-- the dispatcher goes on iff `failed = 0` (`stepDisp` .loop), and a recovered mapper panic adds exactly 1 (`.recovered`). -/
theorem tie_dispatcherLoopCond (f : Nat) : GoZero.Extracted.C10.dispatcherLoopCond f = decide (f = 0) := by
  unfold GoZero.Extracted.C10.dispatcherLoopCond
  cases f <;> simp <;> omega

theorem tie_dispatcherLoop_is_model (c : GoZero.C10.Cfg) (s : GoZero.C10.St) (h : s.dpc = .loop) :
    GoZero.C10.stepDisp c s = some { s with dpc := if GoZero.Extracted.C10.dispatcherLoopCond s.failed then .sel else .wait } := by
  unfold GoZero.C10.stepDisp
  rw [h, tie_dispatcherLoopCond]
  by_cases h0 : s.failed = 0 <;> simp [h0]

theorem tie_failedDelta : GoZero.Extracted.C10.failedDelta = 1 := by decide

/-- `AtomicError.Set` / `Load` are `Spec.aeSet` / `Spec.aeLoad` for every content and argument. -/
theorem tie_atomicErrorSet (cur err : Option Nat) : GoZero.Extracted.C10.atomicErrorSet cur err = GoZero.C10.aeSet cur err := rfl
theorem tie_atomicErrorLoad (cur : Option Nat) : GoZero.Extracted.C10.atomicErrorLoad cur = GoZero.C10.aeLoad cur := rfl

/-- `cancel(err)` records err, or ErrCancelWithNil for nil (`Spec.cancelRecords`; model: `retErr := some (cancelErr e)`,
`Props4.cancel_records_an_error`). -/
theorem tie_cancelRecords (err : Option Nat) : GoZero.Extracted.C10.cancelRecords err = GoZero.C10.cancelRecords err := by
  cases err <;> rfl

/-- the caller's output branch: recorded error first, then the value, else ErrReduceNoOutput (`Spec.callerOutput`;
model: `Props4.callerOutput_is_model`).  The order of the three tests is part of the equality. -/
theorem tie_callerOutput (e : Option Nat) (ok : Bool) (v : Nat) :
    GoZero.Extracted.C10.callerOutput e ok v = GoZero.C10.callerOutput e ok v := by
  cases e <;> cases ok <;> rfl

/-- the caller's context case cancels with and returns DeadlineExceeded (`stepCaller` .cancelEnter / .cdrain). -/
theorem tie_callerCtxCase : GoZero.Extracted.C10.callerCtxCase =
    (some (GoZero.C10.encErr .deadline), some (GoZero.C10.encErr .deadline)) := by decide

/-- MapReduceVoid maps ErrReduceNoOutput (and only it) to nil (`Spec.voidReturn`, driver `showRes`). -/
theorem tie_errorsIs_noOutput (err : Option Nat) :
    GoZero.Extracted.C10.errorsIs err (some GoZero.Extracted.C10.errReduceNoOutput) = GoZero.C10.isNoOutput err := by
  simp [GoZero.Extracted.C10.errorsIs, GoZero.C10.isNoOutput, GoZero.C10.encErr, GoZero.Extracted.C10.errReduceNoOutput,
    Bool.or_assoc]

/-- round 5: the marked error is returned as it is, THEN `errors.Is(err, ErrReduceNoOutput)` ↦ nil, for all errors and
both values of the mark (`Spec5.voidReturnNow`; `errors.Is` also matches a user error that is / wraps the sentinel:
`Spec.isNoOutput`). -/
theorem tie_voidReturn (fromCancel : Bool) (err : Option Nat) :
    GoZero.Extracted.C10.voidReturn fromCancel err = GoZero.C10.voidReturnNow fromCancel err := by
  unfold GoZero.Extracted.C10.voidReturn GoZero.C10.voidReturnNow GoZero.C10.voidReturnIs
  rw [tie_errorsIs_noOutput]

/-- Finish / FinishVoid: return at once iff there is no function; pass WithWorkers(len(fns)) (`Spec.finishCfg`,
`Spec.forEachCfg`); Finish's mapper cancels with the function's error iff it is not nil (`Spec.fnScript`). -/
theorem tie_finishEmptyGuard (n : Nat) : GoZero.Extracted.C10.finishEmptyGuard n = decide (n = 0) := by
  unfold GoZero.Extracted.C10.finishEmptyGuard; cases n <;> simp <;> omega
theorem tie_finishVoidEmptyGuard (n : Nat) : GoZero.Extracted.C10.finishVoidEmptyGuard n = decide (n = 0) := by
  unfold GoZero.Extracted.C10.finishVoidEmptyGuard; cases n <;> simp <;> omega
theorem tie_finishWorkers (n : Nat) : GoZero.Extracted.C10.withWorkers (GoZero.Extracted.C10.finishWorkersArg n) = ((GoZero.C10.finishCfg (List.replicate n .ok)).workers : Int) := by
  simp [GoZero.Extracted.C10.finishWorkersArg, tie_withWorkers, GoZero.C10.finishCfg]
theorem tie_finishVoidWorkers (n : Nat) : GoZero.Extracted.C10.withWorkers (GoZero.Extracted.C10.finishVoidWorkersArg n) = (GoZero.C10.clampWorkers n : Int) := by
  simp [GoZero.Extracted.C10.finishVoidWorkersArg, tie_withWorkers]
theorem tie_finishMapperCancel (err : Option Nat) : GoZero.Extracted.C10.finishMapperCancel err = err.map some := by
  cases err <;> rfl

/-! ### round 5: the ORDER OF EFFECTS of the cleanup paths as typed lists (`Extracted.C10.Eff`), in source order

Each list is what the model's step table for that actor was written against; a statement outside the vocabulary would
appear as `Eff.other …` and break the equality. -/

/-- `cancel`: the error is recorded FIRST (model: the step that takes the once also sets `retErr`,
`Props5.cancel_sets_error_first`), then the source is drained (`.cdrain`), then `finish` (seeded C10-4 swapped the
first two). -/
theorem tie_cancelEffects : cancelEffects = [.retErrSet, .drainSource, .finish] := by decide

/-- round 5b: `cancel` IS the closure above handed to `once(…)`, and `once` runs its function under a fresh
`sync.Once` for the first call only — cancel is idempotent after the first call (model: `St.once`, the guard
`s.once = 0` of the cancel steps, `Props5.later_cancel_is_a_noop`, `Props.first_cancel_wins`; the cell therefore sees
ONE Store per call: `Props5.once_records_the_first`, `once_never_panics`; without it: `without_once_panics_or_overwrites`,
seeded C10-8). -/
theorem tie_cancelDef : cancelDef = .onceOf [.retErrSet, .drainSource, .finish] := by decide
theorem tie_onceIsSyncOnce : onceIsSyncOnce = true := by decide

/-- `finish`: `done` is closed before `output` (model: `fin := true` is one step; a writer that sees `output` closed
has `done` closed). -/
theorem tie_finishEffects : finishEffects = [.closeDone, .closeOutput] := by decide

/-- the caller's deferred function: first wait until `output` is closed (the reducer goroutine has ended), THEN look
for a captured panic (model: `CPc.wait` → `CPc.check`; seeded C10-2 swapped them). -/
theorem tie_callerDeferEffects : callerDeferEffects = [.rangeOutputPanic, .repanic] := by decide

/-- the reducer goroutine: user reducer, then drain the collector, hand over a panic, finish (`stepRed`: `.run` →
`.drain` → `.pwrite`/`.psend` → `.finish`). -/
theorem tie_reducerGoEffects : reducerGoEffects =
    [.callUser "reducer", .drainCollector, .recoverBegin, .panicWrite, .recoverEnd, .finish] := by decide

/-- the caller's panic case drains `output` before re-raising; its context case cancels with DeadlineExceeded and
returns DeadlineExceeded (`stepCaller`). -/
theorem tie_callerPanicCaseEffects : callerPanicCaseEffects = [.drainOutput, .panicV] := by decide
theorem tie_callerCtxCaseEffects : callerCtxCaseEffects = [.cancelDeadline, .errDeadline] := by decide

/-- the dispatcher's deferred function: wait for every worker, THEN close the collector, THEN drain the source
(`stepDisp`: `.wait` → `.close` → `.drain`; `Props.collector_open_while_mappers_run`). -/
theorem tie_dispatcherDeferEffects : dispatcherDeferEffects = [.wgWait, .closeCollector, .drainSource] := by decide

/-- one worker: the mapper, then on a panic `failed += 1` BEFORE the hand-over, then `wg.Done`, then the pool slot
(`stepMapper`: `.recovered` → `.pwrite` → `.psend` → `.wgdone` → `.unpool`). -/
theorem tie_workerGoEffects : workerGoEffects =
    [.callUser "mapper", .recoverBegin, .failedInc, .panicWrite, .recoverEnd, .wgDone, .poolRelease] := by decide

/-- the generator goroutine: generate, hand over a panic, THEN close the source (`stepGen`: `.run` → `.pwrite` →
`.psend` → `.close`). -/
theorem tie_generatorGoEffects : generatorGoEffects =
    [.callUser "generate", .recoverBegin, .panicWrite, .recoverEnd, .closeSource] := by decide

/-! ### round 5: the functions AS EXTRACTED, composed along the path of a cancel error -/

/-- the whole path of an error through the code as it is now — `markCancel` → `cancel` (records through
`AtomicError.Set`) → the caller's output branch (reads through `AtomicError.Load`) → `MapReduceVoid`'s return — composed
from the TRANSLATED Go functions: the error that was passed to cancel comes back, for every error code (also the zero
valued classes, the library's sentinels and what wraps them), ErrCancelWithNil (code 0) for nil. -/
theorem tie_void_path_returns_the_cancel_error (e : Option Nat) (ok : Bool) (v : Nat) :
    GoZero.Extracted.C10.voidReturn (GoZero.Extracted.C10.markCancelArg e).2
      (GoZero.Extracted.C10.callerOutput (GoZero.Extracted.C10.cancelRecords (GoZero.Extracted.C10.markCancelArg e).1) ok v).2
      = some (e.getD 0) := by
  rw [tie_markCancelArg, tie_cancelRecords, tie_callerOutput, tie_voidReturn]
  exact GoZero.C10.Props5.void_returns_the_cancel_error e ok v

/-- `Finish`: a function that returns a non-nil error makes the mapper call cancel with exactly that error, and the
path above returns it. -/
theorem tie_finish_path_returns_the_function_error (k : Nat) (ok : Bool) (v : Nat) :
    (GoZero.Extracted.C10.finishMapperCancel (some k)).map (fun a =>
      GoZero.Extracted.C10.voidReturn (GoZero.Extracted.C10.markCancelArg a).2
        (GoZero.Extracted.C10.callerOutput (GoZero.Extracted.C10.cancelRecords (GoZero.Extracted.C10.markCancelArg a).1) ok v).2)
      = some (some k) := by
  rw [tie_finishMapperCancel]
  simp [tie_void_path_returns_the_cancel_error]

/-- `MapReduce` / `MapReduceChan`: cancel(e) then the caller's output branch, from the translated functions. -/
theorem tie_mr_path_returns_the_cancel_error (k : Nat) (ok : Bool) (v : Nat) :
    (GoZero.Extracted.C10.callerOutput (GoZero.Extracted.C10.cancelRecords (some k)) ok v) = (0, some k) := by
  rw [tie_cancelRecords, tie_callerOutput]
  simp [GoZero.C10.callerOutput, GoZero.C10.cancelRecords, GoZero.C10.aeSet, GoZero.C10.aeLoad]

/-! ### round 5c: `cancelError` as the wrapper it is — the error path rendered over VALUES (`Extracted.C10.GErr`) -/

/-- the extractor's value type is the model's. -/
def convG : GoZero.Extracted.C10.GErr → GoZero.C10.GErr
  | .code k => .code k
  | .marked i => .marked (convG i)

theorem tie_markCancelW (e : Option GoZero.Extracted.C10.GErr) :
    (GoZero.Extracted.C10.markCancelW e).map convG = GoZero.C10.markCancelW (e.map convG) := by
  cases e <;> simp [GoZero.Extracted.C10.markCancelW, GoZero.C10.markCancelW, convG]

theorem tie_cancelRecordsW (e : Option GoZero.Extracted.C10.GErr) :
    (GoZero.Extracted.C10.cancelRecordsW e).map convG = GoZero.C10.cancelRecordsW (e.map convG) := by
  cases e <;> simp [GoZero.Extracted.C10.cancelRecordsW, GoZero.Extracted.C10.atomicErrorSetW, GoZero.C10.cancelRecordsW, convG,
    GoZero.Extracted.C10.errCancelWithNil, GoZero.C10.encErr]

theorem tie_callerOutputW (e : Option GoZero.Extracted.C10.GErr) (ok : Bool) (v : Nat) :
    ((GoZero.Extracted.C10.callerOutputW e ok v).1, (GoZero.Extracted.C10.callerOutputW e ok v).2.map convG) =
      GoZero.C10.callerOutputW (e.map convG) ok v := by
  cases e <;> cases ok <;> simp [GoZero.Extracted.C10.callerOutputW, GoZero.Extracted.C10.atomicErrorLoadW, GoZero.C10.callerOutputW,
    convG, GoZero.Extracted.C10.errReduceNoOutput, GoZero.C10.encErr]

theorem tie_voidReturnW (e : Option GoZero.Extracted.C10.GErr) :
    (GoZero.Extracted.C10.voidReturnW e).map convG = GoZero.C10.voidReturnW (e.map convG) := by
  cases e with
  | none => simp [GoZero.Extracted.C10.voidReturnW, GoZero.Extracted.C10.errorsIsW, GoZero.C10.voidReturnW, GoZero.C10.isNoOutputW]
  | some x =>
    cases x with
    | marked i => simp [GoZero.Extracted.C10.voidReturnW, GoZero.C10.voidReturnW, convG]
    | code k =>
      have h := tie_errorsIs_noOutput (some k)
      cases hb : GoZero.C10.isNoOutput (some k) <;>
        simp [GoZero.Extracted.C10.voidReturnW, GoZero.Extracted.C10.errorsIsW, GoZero.C10.voidReturnW,
          GoZero.C10.isNoOutputW, convG, h, hb]

/-- the composed TRANSLATED functions over values: `MapReduceVoid` / `Finish` return the user's value itself. -/
theorem tie_void_path_identity (e : GoZero.Extracted.C10.GErr) (ok : Bool) (v : Nat) :
    (GoZero.Extracted.C10.voidReturnW (GoZero.Extracted.C10.callerOutputW
      (GoZero.Extracted.C10.cancelRecordsW (GoZero.Extracted.C10.markCancelW (some e))) ok v).2) = some e := by
  simp [GoZero.Extracted.C10.markCancelW, GoZero.Extracted.C10.cancelRecordsW, GoZero.Extracted.C10.atomicErrorSetW,
    GoZero.Extracted.C10.callerOutputW, GoZero.Extracted.C10.atomicErrorLoadW, GoZero.Extracted.C10.voidReturnW]

/-! ### round 5c: the user function is the ONLY statement of its goroutine outside the deferred cleanup, and the
deferred function is installed first: `runtime.Goexit` inside a user function runs exactly the cleanup of a return
(`Spec6.goroutineRuns`, `Props6.goexit_is_return`); go.mod says go ≥ 1.21: `panic(nil)` is recovered as a non-nil
value (`Props6.panicNil_is_panic`). -/
theorem tie_reducerGoBody : reducerGoBody = [.callUser "reducer"] := by decide
theorem tie_workerGoBody : workerGoBody = [.callUser "mapper"] := by decide
theorem tie_generatorGoBody : generatorGoBody = [.callUser "generate"] := by decide
theorem tie_goDirective : goDirective.1 > 1 ∨ (goDirective.1 = 1 ∧ goDirective.2 ≥ 21) := by decide

/-! ### round 5e: WHERE the per-call state comes from (typed allocation sites)

The model starts every call from `init c`: empty panic buffer, no recorded error, nothing closed, a fresh once.  That
is sound only if every piece of state of a call is allocated BY that call.  `Props6.stale_panic_buffer_is_reraised`
shows what a recycled panic channel does (seeded C10-9: a sync.Pool of onceChans). -/

/-- allocated by the call itself (a `freshCall` is resolved by the tie of the called constructor). -/
def isPerCall : Alloc → Bool
  | .other _ => false
  | _ => true

theorem tie_coreState : coreState =
    [("options", .freshCall "buildOptions"), ("output", .makeChan "0"), ("collector", .makeChan "options.workers"),
     ("done", .makeChan "0"), ("retErr", .localVar "errorx.AtomicError"), ("closeOnce", .localVar "sync.Once")] := by decide

/-- every entry point gets its panic channel from `newOnceChan`, which returns a fresh literal with a fresh channel of
capacity 1 (never a pooled / package-level object). -/
theorem tie_mapReduceState : mapReduceState = [("panicChan", .freshCall "newOnceChan"), ("source", .freshCall "buildSource")] := by decide
theorem tie_mapReduceChanState : mapReduceChanState = [("panicChan", .freshCall "newOnceChan")] := by decide
theorem tie_forEachState : forEachState =
    [("options", .freshCall "buildOptions"), ("panicChan", .freshCall "newOnceChan"), ("source", .freshCall "buildSource"),
     ("collector", .makeChan "0"), ("done", .makeChan "0")] := by decide
theorem tie_newOnceChanAlloc : newOnceChanAlloc = .addrOfLiteral [("channel", "make(chan any, 1)")] := by decide
theorem tie_newOptionsAlloc : newOptionsAlloc =
    .addrOfLiteral [("ctx", "context.Background()"), ("workers", "defaultWorkers")] := by decide
theorem tie_constructorStates : executeMappersState = [("pool", .makeChan "mCtx.workers")] ∧
    buildSourceState = [("source", .makeChan "0")] ∧ buildOptionsState = [("options", .freshCall "newOptions")] ∧
    onceState = [("once", .newOf "sync.Once")] := by decide

/-- nothing of it comes from anywhere else, and the package has no variable besides the two immutable sentinels. -/
theorem tie_all_state_per_call :
    (coreState ++ mapReduceState ++ mapReduceChanState ++ forEachState ++ executeMappersState ++ buildSourceState ++
      buildOptionsState ++ onceState).all (fun p => isPerCall p.2) = true ∧
    isPerCall newOnceChanAlloc = true ∧ isPerCall newOptionsAlloc = true := by decide
theorem tie_packageState : packageState = [.sentinel "ErrCancelWithNil", .sentinel "ErrReduceNoOutput"] := by decide

end GoZero.C10.Tie
