/-
C10 — conservation invariants (hold for every schedule and every fault placement):
values accepted by the collector are received exactly once (by the reducer function or by the reducer
goroutine's deferred drain) or are still buffered; items taken from the source are handed to exactly one
mapper or dropped by exactly one drain.
-/
import GoZero.C10.ProofsB
namespace GoZero.C10

def valInv (s : St) : Prop :=
  ∀ v, s.sent.count v = s.reduced.count v + s.drained.count v + s.collQ.count v

def itemInv (s : St) : Prop :=
  ∀ i, s.mapped.count i + s.dropped.count i + (if s.dpc = .spawn i then 1 else 0) = (if i < s.gNext then 1 else 0)

theorem valInv_init (c : Cfg) : valInv (init c) := by intro v; simp [init]
theorem itemInv_init (c : Cfg) : itemInv (init c) := by intro v; simp [init]

/-- what a step can do to the value logs. -/
def valFrame (s s' : St) : Prop :=
  (s'.sent = s.sent ∧ s'.reduced = s.reduced ∧ s'.drained = s.drained ∧ s'.collQ = s.collQ) ∨
  (∃ v, s'.sent = s.sent ++ [v] ∧ s'.collQ = s.collQ ++ [v] ∧ s'.reduced = s.reduced ∧ s'.drained = s.drained) ∨
  (∃ v, s.collQ = v :: s'.collQ ∧ s'.reduced = s.reduced ++ [v] ∧ s'.drained = s.drained ∧ s'.sent = s.sent) ∨
  (∃ v, s.collQ = v :: s'.collQ ∧ s'.drained = s.drained ++ [v] ∧ s'.reduced = s.reduced ∧ s'.sent = s.sent)

theorem valInv_frame {s s' : St} (I : valInv s) (f : valFrame s s') : valInv s' := by
  intro w
  have := I w
  rcases f with ⟨a, b, c, d⟩ | ⟨v, a, b, c, d⟩ | ⟨v, a, b, c, d⟩ | ⟨v, a, b, c, d⟩
  · rw [a, b, c, d]; exact this
  · rw [a, b, c, d]; simp only [List.count_append]; omega
  · rw [a] at this; rw [b, c, d]; simp only [List.count_append, List.count_cons, List.count_nil] at this ⊢; omega
  · rw [a] at this; rw [b, c, d]; simp only [List.count_append, List.count_cons, List.count_nil] at this ⊢; omega

theorem valFrame_step {c : Cfg} {s s' : St} (a : Actor) (h : step c s a = some s') : valFrame s s' := by
  cases a <;> simp only [step] at h
  case gen =>
    unfold stepGen at h
    repeat' split at h
    all_goals (try (simp at h))
    all_goals (try (obtain ⟨s1, h1, rfl⟩ := h; rcases panicSend_eq h1 with ⟨_, _, rfl⟩ | ⟨_, _, rfl⟩))
    all_goals (try subst h)
    all_goals simp [valFrame]
  case disp =>
    unfold stepDisp at h
    repeat' split at h
    all_goals (try (simp at h))
    all_goals (try subst h)
    all_goals simp [valFrame]
  case mapper i =>
    unfold stepMapper at h
    repeat' split at h
    all_goals (try (simp at h))
    all_goals (try (obtain ⟨s1, h1, rfl⟩ := h; rcases panicSend_eq h1 with ⟨_, _, rfl⟩ | ⟨_, _, rfl⟩))
    all_goals (try subst h)
    all_goals simp [valFrame]
  case red =>
    unfold stepRed at h
    repeat' split at h
    all_goals (try (simp at h))
    all_goals (try (obtain ⟨s1, h1, rfl⟩ := h; rcases panicSend_eq h1 with ⟨_, _, rfl⟩ | ⟨_, _, rfl⟩))
    all_goals (try subst h)
    all_goals simp_all [valFrame]
  case caller =>
    unfold stepCaller at h
    repeat' split at h
    all_goals (try (simp at h))
    all_goals (try subst h)
    all_goals simp [valFrame]
  all_goals
    repeat' split at h
    all_goals (try (simp at h))
    all_goals (try subst h)
    all_goals simp [valFrame]

theorem valInv_reach {c : Cfg} {s : St} (h : Reach c s) : valInv s := by
  induction h with
  | init => exact valInv_init c
  | step a _ hs ih => exact valInv_frame ih (valFrame_step a hs)

/-- what a step can do to the item logs. -/
def itemFrame (c : Cfg) (s s' : St) : Prop :=
  (s'.mapped = s.mapped ∧ s'.dropped = s.dropped ∧ s'.gNext = s.gNext ∧ (∀ i, s'.dpc = .spawn i ↔ s.dpc = .spawn i)) ∨
  (∃ j, srcRecv c s = some (some j) ∧ s'.dropped = s.dropped ++ [j] ∧ s'.gNext = s.gNext + 1 ∧ s'.mapped = s.mapped ∧ s'.dpc = s.dpc) ∨
  (∃ j, srcRecv c s = some (some j) ∧ s'.dpc = .spawn j ∧ s.dpc = .recv ∧ s'.gNext = s.gNext + 1 ∧ s'.mapped = s.mapped ∧ s'.dropped = s.dropped) ∨
  (∃ j, s.dpc = .spawn j ∧ s'.dpc = .loop ∧ s'.mapped = s.mapped ++ [j] ∧ s'.dropped = s.dropped ∧ s'.gNext = s.gNext)

theorem ite_nat (p : Prop) [Decidable p] : (p ∧ (if p then 1 else 0) = 1) ∨ (¬ p ∧ (if p then 1 else 0) = 0) := by
  by_cases h : p <;> simp [h]

theorem itemInv_frame {c : Cfg} {s s' : St} (I : itemInv s) (f : itemFrame c s s') : itemInv s' := by
  intro w
  have := I w
  rcases f with ⟨a, b, g, d⟩ | ⟨j, hr, b, g, a, d⟩ | ⟨j, hr, d', d, g, a, b⟩ | ⟨j, d, d', a, b, g⟩
  · rw [a, b, g]
    have e : (s'.dpc = .spawn w) = (s.dpc = .spawn w) := propext (d w)
    simp only [e]; exact this
  · obtain ⟨rfl, _⟩ := srcRecv_item hr
    rw [a, b, g, d]; simp only [List.count_append, List.count_cons, List.count_nil, beq_iff_eq]
    rcases ite_nat (s.dpc = .spawn w) with ⟨_, e1⟩ | ⟨_, e1⟩ <;>
    rcases ite_nat (w < s.gNext) with ⟨_, e2⟩ | ⟨_, e2⟩ <;>
    rcases ite_nat (w < s.gNext + 1) with ⟨_, e3⟩ | ⟨_, e3⟩ <;>
    rcases ite_nat (s.gNext = w) with ⟨_, e4⟩ | ⟨_, e4⟩ <;>
    simp only [e1, e2, e3, e4] at this ⊢ <;> omega
  · obtain ⟨rfl, _⟩ := srcRecv_item hr
    rw [a, b, g, d']; simp only [d] at this
    have hsp : (DPc.spawn s.gNext = DPc.spawn w) ↔ s.gNext = w := by simp
    have hrc : ¬ (DPc.recv = DPc.spawn w) := by simp
    simp only [hrc, if_false] at this
    rcases ite_nat (DPc.spawn s.gNext = DPc.spawn w) with ⟨h1, e1⟩ | ⟨h1, e1⟩ <;>
    rcases ite_nat (w < s.gNext) with ⟨_, e2⟩ | ⟨_, e2⟩ <;>
    rcases ite_nat (w < s.gNext + 1) with ⟨_, e3⟩ | ⟨_, e3⟩ <;>
    simp only [e1, e2, e3] at this ⊢ <;> rw [hsp] at h1 <;> omega
  · rw [a, b, g, d']; simp only [d, List.count_append, List.count_cons, List.count_nil, beq_iff_eq] at this ⊢
    have hsp : (DPc.spawn j = DPc.spawn w) ↔ j = w := by simp
    have hrc : ¬ (DPc.loop = DPc.spawn w) := by simp
    simp only [hrc, if_false]
    rcases ite_nat (DPc.spawn j = DPc.spawn w) with ⟨h1, e1⟩ | ⟨h1, e1⟩ <;>
    rcases ite_nat (j = w) with ⟨_, e2⟩ | ⟨_, e2⟩ <;>
    simp only [e1, e2] at this ⊢ <;> rw [hsp] at h1 <;> omega

theorem itemFrame_step {c : Cfg} {s s' : St} (a : Actor) (h : step c s a = some s') : itemFrame c s s' := by
  cases a <;> simp only [step] at h
  case gen =>
    unfold stepGen at h
    repeat' split at h
    all_goals (try (simp at h))
    all_goals (try (obtain ⟨s1, h1, rfl⟩ := h; rcases panicSend_eq h1 with ⟨_, _, rfl⟩ | ⟨_, _, rfl⟩))
    all_goals (try subst h)
    all_goals simp [itemFrame]
  case disp =>
    unfold stepDisp at h
    repeat' split at h
    all_goals (try (simp at h))
    all_goals (try subst h)
    all_goals simp_all [itemFrame]
  case mapper i =>
    unfold stepMapper at h
    repeat' split at h
    all_goals (try (simp at h))
    all_goals (try (obtain ⟨s1, h1, rfl⟩ := h; rcases panicSend_eq h1 with ⟨_, _, rfl⟩ | ⟨_, _, rfl⟩))
    all_goals (try subst h)
    all_goals simp_all [itemFrame]
  case red =>
    unfold stepRed at h
    repeat' split at h
    all_goals (try (simp at h))
    all_goals (try (obtain ⟨s1, h1, rfl⟩ := h; rcases panicSend_eq h1 with ⟨_, _, rfl⟩ | ⟨_, _, rfl⟩))
    all_goals (try subst h)
    all_goals simp_all [itemFrame]
  case caller =>
    unfold stepCaller at h
    repeat' split at h
    all_goals (try (simp at h))
    all_goals (try subst h)
    all_goals simp_all [itemFrame]
  all_goals
    repeat' split at h
    all_goals (try (simp at h))
    all_goals (try subst h)
    all_goals simp_all [itemFrame]

theorem itemInv_reach {c : Cfg} {s : St} (h : Reach c s) : itemInv s := by
  induction h with
  | init => exact itemInv_init c
  | step a _ hs ih => exact itemInv_frame ih (itemFrame_step a hs)

/-! ### concrete schedules (witnesses, examples) -/

def runSched (c : Cfg) : List Actor → St → Option St
  | [], s => some s
  | a :: as, s => (step c s a).bind (runSched c as)

theorem reach_runSched {c : Cfg} (as : List Actor) {s s' : St} (h : Reach c s) (hs : runSched c as s = some s') :
    Reach c s' := by
  induction as generalizing s with
  | nil => simp [runSched] at hs; subst hs; exact h
  | cons a as ih =>
    simp only [runSched, Option.bind_eq_some_iff] at hs
    obtain ⟨s1, h1, h2⟩ := hs
    exact ih (Reach.step a h h1) h2

/-- no actor can move. -/
def stuck (c : Cfg) (s : St) : Prop := ∀ a, step c s a = none

/-- no existing actor can move (decidable form). -/
def stuckB (c : Cfg) (s : St) : Bool := (actors c.n).all fun a => (step c s a).isNone

theorem stuck_of_stuckB {c : Cfg} {s : St} (h : Reach c s) (hb : stuckB c s = true) : stuck c s := by
  intro a
  have key : ∀ a ∈ actors c.n, step c s a = none := by
    intro a ha
    have := (List.all_eq_true.mp hb) a ha
    simpa using this
  cases a with
  | mapper i =>
    by_cases hi : i < c.n
    · exact key _ (by simp [actors]; exact hi)
    · have hid : s.mp i = .idle := by
        cases hm : s.mp i with
        | idle => rfl
        | _ => exact absurd ((invC_reach h).mlt i (by simp [hm])) hi
      simp [step, stepMapper, hid]
  | _ => exact key _ (by simp [actors])

/-- the reducer writes its result and then panics (no items). -/
def cfgWritePanic (fixed : Bool) : Cfg :=
  { n := 0, workers := 1, gPanicAt := none, mscript := fun _ => [], rscript := [.write 8, .panic],
    ctxCan := false, ctxPre := false, fixed := fixed }

def schedWritePanic : List Actor :=
  [.gen, .gen, .disp, .disp, .disp, .disp, .disp, .disp, .disp, .red, .red, .red, .red, .red]

/-- mapper 0 cancels, mapper 1 panics after the caller has returned. -/
def cfgCancelThenPanic (fixed : Bool) : Cfg :=
  { n := 2, workers := 2, gPanicAt := none,
    mscript := fun i => if i = 0 then [.cancel (some 1)] else [.panic], rscript := [.readAll],
    ctxCan := false, ctxPre := false, fixed := fixed }

def schedCancelThenPanic : List Actor :=
  [.disp, .disp, .disp, .disp, .disp, .disp, .disp, .disp, .mapper 0, .gen, .gen, .mapper 0, .callerOut, .caller,
   .mapper 0, .mapper 0, .mapper 0, .mapper 1, .mapper 1, .mapper 1, .disp]

end GoZero.C10
