/-
C10 — counting invariant: the wait group counts the live mapper goroutines, the pool channel counts the
mapper goroutines that hold a slot (plus the dispatcher's reservation), the pool never exceeds `workers`,
and the collector is closed only when no mapper goroutine is left.
-/
import GoZero.C10.ProofsC
namespace GoZero.C10

def b2n (b : Bool) : Nat := if b then 1 else 0

/-- number of items `i < n` whose mapper goroutine satisfies `p`. -/
def cnt (p : MPc → Bool) (f : Nat → MPc) : Nat → Nat
  | 0 => 0
  | n + 1 => cnt p f n + b2n (p (f n))

theorem cnt_upd_ge (p : MPc → Bool) (f : Nat → MPc) (i : Nat) (x : MPc) (n : Nat) (h : n ≤ i) :
    cnt p (upd f i x) n = cnt p f n := by
  induction n with
  | zero => rfl
  | succ n ih =>
    have : n ≠ i := by omega
    simp [cnt, upd, this, ih (by omega)]

theorem cnt_upd (p : MPc → Bool) (f : Nat → MPc) (i : Nat) (x : MPc) (n : Nat) (hi : i < n) :
    cnt p (upd f i x) n + b2n (p (f i)) = cnt p f n + b2n (p x) := by
  induction n with
  | zero => omega
  | succ n ih =>
    by_cases h : i = n
    · subst h
      simp only [cnt, upd_same, cnt_upd_ge p f i x i (Nat.le_refl _)]
      omega
    · have hn : n ≠ i := fun e => h e.symm
      simp only [cnt, upd, hn, if_false]
      have := ih (by omega)
      omega

theorem cnt_mono (p q : MPc → Bool) (f : Nat → MPc) (n : Nat) (h : ∀ x, p x = true → q x = true) :
    cnt p f n ≤ cnt q f n := by
  induction n with
  | zero => exact Nat.le_refl _
  | succ n ih =>
    simp only [cnt]
    have : b2n (p (f n)) ≤ b2n (q (f n)) := by
      unfold b2n
      cases hp : p (f n) <;> simp
      simp [h _ hp]
    omega

theorem cnt_ge (p : MPc → Bool) (f : Nat → MPc) (n i : Nat) (hi : i < n) : b2n (p (f i)) ≤ cnt p f n := by
  induction n with
  | zero => omega
  | succ n ih =>
    simp only [cnt]
    by_cases h : i = n
    · subst h; omega
    · have := ih (by omega); omega

/-- the mapper goroutine has been counted by `wg.Add(1)` and has not yet called `wg.Done()`. -/
def inWg : MPc → Bool
  | .idle => false
  | .unpool => false
  | .done => false
  | _ => true

/-- the mapper goroutine holds a slot of the pool channel. -/
def inPool : MPc → Bool
  | .idle => false
  | .done => false
  | _ => true

/-- the user's mapper function is executing. -/
def mRunning : MPc → Bool
  | .run _ => true
  | .send _ _ => true
  | .cdrain _ => true
  | _ => false

/-- the dispatcher has put a token into the pool for a mapper it has not started yet. -/
def dHolds : DPc → Bool
  | .recv => true
  | .spawn _ => true
  | .unpool => true
  | _ => false

def dAfter : DPc → Bool
  | .closeColl => true
  | .drain => true
  | .done => true
  | _ => false

structure InvB (c : Cfg) (s : St) : Prop where
  wgc : s.wg = cnt inWg s.mp c.n
  poolc : s.pool = cnt inPool s.mp c.n + b2n (dHolds s.dpc)
  poolle : s.pool ≤ c.workers
  idle : ∀ j, s.gNext ≤ j → s.mp j = .idle
  spawnidle : ∀ i, s.dpc = .spawn i → s.mp i = .idle
  nogap : ∀ i, s.dpc = .spawn i → i < s.gNext
  dafter : dAfter s.dpc = true → s.wg = 0
  collc : s.collClosed = true → dAfter s.dpc = true ∧ s.dpc ≠ .closeColl
  nocrash : ∀ i, s.mp i ≠ .crash

theorem cnt_idle (p : MPc → Bool) (n : Nat) (hp : p .idle = false) : cnt p (fun _ => .idle) n = 0 := by
  induction n with
  | zero => rfl
  | succ n ih => simp [cnt, ih, hp, b2n]

theorem invB_init (c : Cfg) : InvB c (init c) := by
  have h1 : cnt inWg (fun _ => MPc.idle) c.n = 0 := cnt_idle _ _ rfl
  have h2 : cnt inPool (fun _ => MPc.idle) c.n = 0 := cnt_idle _ _ rfl
  constructor <;> simp [init, h1, h2, b2n, dHolds, dAfter]

/-- the generic effect of a mapper goroutine's step on the counters. -/
theorem invB_mp_upd {c : Cfg} {s s' : St} (I : InvB c s) {i : Nat} (hi : i < c.n) (x : MPc)
    (hne : s.mp i ≠ .idle) (hx : x ≠ .idle) (hxc : x ≠ .crash)
    (hmp : s'.mp = upd s.mp i x) (hg : s.gNext ≤ s'.gNext) (hd : s'.dpc = s.dpc) (hcc : s'.collClosed = s.collClosed)
    (hwg : s'.wg + b2n (inWg (s.mp i)) = s.wg + b2n (inWg x))
    (hpool : s'.pool + b2n (inPool (s.mp i)) = s.pool + b2n (inPool x))
    (hwl : s'.wg ≤ s.wg) (hpl : s'.pool ≤ s.pool) : InvB c s' := by
  have e1 := cnt_upd inWg s.mp i x c.n hi
  have e2 := cnt_upd inPool s.mp i x c.n hi
  have w := I.wgc
  have p := I.poolc
  refine ⟨?_, ?_, ?_, ?_, ?_, ?_, ?_, ?_, ?_⟩
  · rw [hmp]; omega
  · rw [hmp, hd]; omega
  · have := I.poolle; omega
  · intro j hj
    rw [hmp]
    have hji : j ≠ i := by
      intro e; subst e
      exact hne (I.idle j (by omega))
    rw [upd_other _ _ _ _ hji]; exact I.idle j (by omega)
  · intro j hj
    rw [hd] at hj
    have := I.spawnidle j hj
    have hji : j ≠ i := by intro e; subst e; exact hne this
    rw [hmp, upd_other _ _ _ _ hji]; exact this
  · intro j hj
    rw [hd] at hj
    have := I.nogap j hj
    omega
  · rw [hd]; intro h; have := I.dafter h; omega
  · rw [hcc, hd]; exact I.collc
  · intro j
    rw [hmp]
    by_cases hji : j = i
    · subst hji; rw [upd_same]; exact hxc
    · rw [upd_other _ _ _ _ hji]; exact I.nocrash j

theorem invB_mapper {c : Cfg} {s s' : St} (i : Nat) (IC : InvC c s) (I : InvB c s)
    (h : stepMapper c s i = some s') : InvB c s' := by
  unfold stepMapper at h
  split at h
  next => simp at h
  next hpc =>
    simp at h; subst h
    exact invB_mp_upd I (IC.mlt i (by simp [hpc])) _ (by simp [hpc]) (by simp) (by simp) rfl (Nat.le_refl _) rfl rfl
      (by simp [hpc, inWg]) (by simp [hpc, inPool]) (Nat.le_refl _) (Nat.le_refl _)
  next v sc hpc =>
    split at h <;> (simp at h; subst h) <;>
    exact invB_mp_upd I (IC.mlt i (by simp [hpc])) _ (by simp [hpc]) (by simp) (by simp) rfl (Nat.le_refl _) rfl rfl
      (by simp [hpc, inWg]) (by simp [hpc, inPool]) (Nat.le_refl _) (Nat.le_refl _)
  next e sc hpc =>
    split at h
    · simp at h; subst h
      exact invB_mp_upd I (IC.mlt i (by simp [hpc])) _ (by simp [hpc]) (by simp) (by simp) rfl (Nat.le_refl _) rfl rfl
        (by simp [hpc, inWg]) (by simp [hpc, inPool]) (Nat.le_refl _) (Nat.le_refl _)
    · split at h
      · simp at h
      · simp at h; subst h
        exact invB_mp_upd I (IC.mlt i (by simp [hpc])) _ (by simp [hpc]) (by simp) (by simp) rfl (Nat.le_refl _) rfl rfl
          (by simp [hpc, inWg]) (by simp [hpc, inPool]) (Nat.le_refl _) (Nat.le_refl _)
  next sc hpc =>
    simp at h; subst h
    exact invB_mp_upd I (IC.mlt i (by simp [hpc])) _ (by simp [hpc]) (by simp) (by simp) rfl (Nat.le_refl _) rfl rfl
      (by simp [hpc, inWg]) (by simp [hpc, inPool]) (Nat.le_refl _) (Nat.le_refl _)
  next sc hpc =>
    simp at h; subst h
    exact invB_mp_upd I (IC.mlt i (by simp [hpc])) _ (by simp [hpc]) (by simp) (by simp) rfl (Nat.le_refl _) rfl rfl
      (by simp [hpc, inWg]) (by simp [hpc, inPool]) (Nat.le_refl _) (Nat.le_refl _)
  next sc hpc =>
    simp at h; subst h
    exact invB_mp_upd I (IC.mlt i (by simp [hpc])) _ (by simp [hpc]) (by simp) (by simp) rfl (Nat.le_refl _) rfl rfl
      (by simp [hpc, inWg]) (by simp [hpc, inPool]) (Nat.le_refl _) (Nat.le_refl _)
  next v sc hpc =>  -- send
    have hi := IC.mlt i (by simp [hpc])
    split at h
    next hcl =>
      -- the collector cannot be closed while this mapper is counted by the wait group
      exfalso
      have h0 := I.dafter (I.collc hcl).1
      have := cnt_ge inWg s.mp c.n i hi
      rw [hpc] at this
      simp [inWg, b2n] at this
      have := I.wgc; omega
    · split at h
      · simp at h; subst h
        exact invB_mp_upd I hi _ (by simp [hpc]) (by simp) (by simp) rfl (Nat.le_refl _) rfl rfl
          (by simp [hpc, inWg]) (by simp [hpc, inPool]) (Nat.le_refl _) (Nat.le_refl _)
      · simp at h
  next sc hpc =>  -- cdrain
    split at h
    next j hr =>
      simp at h; subst h
      exact { I with idle := fun j hj => I.idle j (by simp at hj; omega),
                     nogap := fun j hj => by have := I.nogap j hj; simp; omega }
    next =>
      simp at h; subst h
      exact invB_mp_upd I (IC.mlt i (by simp [hpc])) _ (by simp [hpc]) (by simp) (by simp) rfl (Nat.le_refl _) rfl rfl
        (by simp [hpc, inWg]) (by simp [hpc, inPool]) (Nat.le_refl _) (Nat.le_refl _)
    next => simp at h
  next hpc =>
    simp at h; subst h
    exact invB_mp_upd I (IC.mlt i (by simp [hpc])) _ (by simp [hpc]) (by simp) (by simp) rfl (Nat.le_refl _) rfl rfl
      (by simp [hpc, inWg]) (by simp [hpc, inPool]) (Nat.le_refl _) (Nat.le_refl _)
  next hpc =>
    split at h <;> (simp at h; subst h) <;>
    exact invB_mp_upd I (IC.mlt i (by simp [hpc])) _ (by simp [hpc]) (by simp) (by simp) rfl (Nat.le_refl _) rfl rfl
      (by simp [hpc, inWg]) (by simp [hpc, inPool]) (Nat.le_refl _) (Nat.le_refl _)
  next hpc =>  -- psend
    simp only [Option.map_eq_some_iff] at h
    obtain ⟨s1, h1, rfl⟩ := h
    rcases panicSend_eq h1 with ⟨_, _, rfl⟩ | ⟨_, hs, rfl⟩ <;>
    exact invB_mp_upd I (IC.mlt i (by simp [hpc])) _ (by simp [hpc]) (by simp) (by simp) rfl (Nat.le_refl _) rfl rfl
      (by simp [hpc, inWg]) (by simp [hpc, inPool]) (Nat.le_refl _) (Nat.le_refl _)
  next hpc =>  -- wgdone
    simp at h; subst h
    have hi := IC.mlt i (by simp [hpc])
    have := cnt_ge inWg s.mp c.n i hi
    rw [hpc] at this
    simp [inWg, b2n] at this
    have hw := I.wgc
    exact invB_mp_upd I hi _ (by simp [hpc]) (by simp) (by simp) rfl (Nat.le_refl _) rfl rfl
      (by simp [hpc, inWg, b2n]; omega) (by simp [hpc, inPool]) (by simp) (Nat.le_refl _)
  next hpc =>  -- unpool
    simp at h; subst h
    have hi := IC.mlt i (by simp [hpc])
    have := cnt_ge inPool s.mp c.n i hi
    rw [hpc] at this
    simp [inPool, b2n] at this
    have hw := I.poolc
    exact invB_mp_upd I hi _ (by simp [hpc]) (by simp) (by simp) rfl (Nat.le_refl _) rfl rfl
      (by simp [hpc, inWg]) (by simp [hpc, inPool, b2n]; omega) (Nat.le_refl _) (by simp)
  next => simp at h
  next => simp at h

theorem invB_gen {c : Cfg} {s s' : St} (I : InvB c s) (h : stepGen c s = some s') : InvB c s' := by
  unfold stepGen at h
  split at h
  · split at h
    · simp at h; subst h; exact { I with }
    · split at h
      · simp at h; subst h; exact { I with }
      · simp at h
  · split at h <;> (simp at h; subst h; exact { I with })
  · simp only [Option.map_eq_some_iff] at h
    obtain ⟨s1, h1, rfl⟩ := h
    rcases panicSend_eq h1 with ⟨_, _, rfl⟩ | ⟨_, hs, rfl⟩ <;> exact { I with }
  · simp at h; subst h; exact { I with }
  · simp at h

theorem invB_disp {c : Cfg} {s s' : St} (IC : InvC c s) (I : InvB c s) (h : stepDisp c s = some s') : InvB c s' := by
  unfold stepDisp at h
  split at h
  next hd =>
    split at h <;> (simp at h; subst h)
    · exact { I with poolc := by have := I.poolc; simpa [hd, dHolds] using this, spawnidle := by simp, nogap := by simp,
                     dafter := by simp [dAfter], collc := by have := I.collc; simpa [hd, dAfter] using this }
    · exact { I with poolc := by have := I.poolc; simpa [hd, dHolds] using this, spawnidle := by simp, nogap := by simp,
                     dafter := by simp [dAfter], collc := by have := I.collc; simpa [hd, dAfter] using this }
  next hd =>
    split at h
    · simp at h; subst h
      exact { I with poolc := by have := I.poolc; simp [hd, dHolds, b2n] at this ⊢; omega, spawnidle := by simp, nogap := by simp,
                     poolle := by simp; omega,
                     dafter := by simp [dAfter], collc := by have := I.collc; simpa [hd, dAfter] using this }
    · simp at h
  next hd =>
    split at h
    next i hr =>
      simp at h; subst h
      have hi := srcRecv_item hr
      exact { I with poolc := by have := I.poolc; simpa [hd, dHolds] using this,
                     idle := fun j hj => I.idle j (by simp at hj; omega),
                     spawnidle := by intro j hj; simp at hj; subst hj; exact I.idle _ (by omega),
                     nogap := by intro j hj; simp at hj; subst hj; simp; omega,
                     dafter := by simp [dAfter], collc := by have := I.collc; simpa [hd, dAfter] using this }
    next =>
      simp at h; subst h
      exact { I with poolc := by have := I.poolc; simpa [hd, dHolds] using this, spawnidle := by simp, nogap := by simp,
                     dafter := by simp [dAfter], collc := by have := I.collc; simpa [hd, dAfter] using this }
    next => simp at h
  next i hd =>  -- spawn
    simp at h; subst h
    have hi := IC.spawnlt i hd
    have hid := I.spawnidle i hd
    have e1 := cnt_upd inWg s.mp i (.run (c.mscript i)) c.n hi
    have e2 := cnt_upd inPool s.mp i (.run (c.mscript i)) c.n hi
    rw [hid] at e1 e2
    simp [inWg, inPool, b2n] at e1 e2
    have hw := I.wgc
    have hp := I.poolc
    simp [hd, dHolds, b2n] at hp
    have hng := I.nogap i hd
    refine ⟨by simp; omega, by simp [dHolds, b2n]; omega, I.poolle, ?_, by simp, by simp, by simp [dAfter], ?_, ?_⟩
    · intro j hj
      have hji : j ≠ i := by simp at hj; omega
      simp [upd, hji]; exact I.idle j hj
    · have := I.collc; simpa [hd, dAfter] using this
    · intro j
      by_cases hji : j = i
      · subst hji; simp [upd]
      · simp [upd, hji]; exact I.nocrash j
  next hd =>  -- unpool
    simp at h; subst h
    have hp := I.poolc
    simp [hd, dHolds, b2n] at hp
    exact { I with poolc := by simp [dHolds, b2n]; omega, poolle := by have := I.poolle; simp; omega, spawnidle := by simp, nogap := by simp,
                   dafter := by simp [dAfter], collc := by have := I.collc; simpa [hd, dAfter] using this }
  next hd =>  -- wait
    split at h
    next hw0 =>
      simp at h; subst h
      exact { I with poolc := by have := I.poolc; simpa [hd, dHolds] using this, spawnidle := by simp, nogap := by simp,
                     dafter := fun _ => hw0, collc := by have := I.collc; simpa [hd, dAfter] using this }
    · simp at h
  next hd =>  -- closeColl
    simp at h; subst h
    exact { I with poolc := by have := I.poolc; simpa [hd, dHolds] using this, spawnidle := by simp, nogap := by simp,
                   dafter := fun _ => I.dafter (by simp [hd, dAfter]), collc := by simp [dAfter] }
  next hd =>  -- drain
    split at h
    next j hr =>
      simp at h; subst h
      exact { I with idle := fun j hj => I.idle j (by simp at hj; omega),
                     nogap := by intro j hj; simp [hd] at hj }
    next =>
      simp at h; subst h
      exact { I with poolc := by have := I.poolc; simpa [hd, dHolds] using this, spawnidle := by simp, nogap := by simp,
                     dafter := fun _ => I.dafter (by simp [hd, dAfter]), collc := by simp [dAfter] }
    next => simp at h
  · simp at h

/-- the step leaves everything the counting invariant talks about unchanged (the source may have advanced). -/
def frameB (s s' : St) : Prop :=
  s'.wg = s.wg ∧ s'.mp = s.mp ∧ s'.pool = s.pool ∧ s'.dpc = s.dpc ∧ s'.collClosed = s.collClosed ∧ s.gNext ≤ s'.gNext

theorem invB_frame {c : Cfg} {s s' : St} (I : InvB c s) (f : frameB s s') : InvB c s' := by
  obtain ⟨h1, h2, h3, h4, h5, h6⟩ := f
  refine ⟨by rw [h1, h2]; exact I.wgc, by rw [h3, h2, h4]; exact I.poolc, by rw [h3]; exact I.poolle, ?_, ?_, ?_, ?_, ?_, ?_⟩
  · intro j hj; rw [h2]; exact I.idle j (by omega)
  · intro j hj; rw [h2]; rw [h4] at hj; exact I.spawnidle j hj
  · intro j hj; rw [h4] at hj; have := I.nogap j hj; omega
  · rw [h4, h1]; exact I.dafter
  · rw [h5, h4]; exact I.collc
  · rw [h2]; exact I.nocrash

theorem frameB_red {c : Cfg} {s s' : St} (h : stepRed c s = some s') : frameB s s' := by
  unfold stepRed at h
  repeat' split at h
  all_goals (try (simp at h))
  all_goals (try (obtain ⟨s1, h1, rfl⟩ := h; rcases panicSend_eq h1 with ⟨_, _, rfl⟩ | ⟨_, _, rfl⟩))
  all_goals (try subst h)
  all_goals simp [frameB]

theorem frameB_caller {c : Cfg} {s s' : St} (h : stepCaller c s = some s') : frameB s s' := by
  unfold stepCaller at h
  repeat' split at h
  all_goals (try (simp at h))
  all_goals (try subst h)
  all_goals simp [frameB]

theorem invB_step {c : Cfg} {s s' : St} (a : Actor) (IC : InvC c s) (I : InvB c s) (h : step c s a = some s') : InvB c s' := by
  cases a with
  | gen => exact invB_gen I h
  | disp => exact invB_disp IC I h
  | mapper i => exact invB_mapper i IC I h
  | red => exact invB_frame I (frameB_red h)
  | caller => exact invB_frame I (frameB_caller h)
  | dispCtx =>
    simp only [step] at h; split at h
    next hc =>
      simp at h; subst h
      have hp := I.poolc
      exact { I with poolc := by simpa [hc.1, dHolds] using hp, spawnidle := by simp, nogap := by simp,
                     dafter := by simp [dAfter], collc := by have := I.collc; simpa [hc.1, dAfter] using this }
    · simp at h
  | dispDone =>
    simp only [step] at h; split at h
    next hc =>
      simp at h; subst h
      have hp := I.poolc
      exact { I with poolc := by simpa [hc.1, dHolds] using hp, spawnidle := by simp, nogap := by simp,
                     dafter := by simp [dAfter], collc := by have := I.collc; simpa [hc.1, dAfter] using this }
    · simp at h
  | callerCtx =>
    simp only [step] at h; split at h
    · simp at h; subst h; exact { I with }
    · simp at h
  | callerPanic =>
    simp only [step] at h; split at h
    · split at h
      · simp at h; subst h; exact { I with }
      · simp at h
    · simp at h
  | callerOut =>
    simp only [step] at h; split at h
    · simp at h; subst h; exact { I with }
    · simp at h
  | env =>
    simp only [step] at h; split at h
    · simp at h; subst h; exact { I with }
    · simp at h

theorem invB_reach {c : Cfg} {s : St} (h : Reach c s) : InvB c s := by
  induction h with
  | init => exact invB_init c
  | step a hr hs ih => exact invB_step a (invC_reach hr) ih hs

end GoZero.C10
