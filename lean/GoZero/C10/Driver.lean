/-
C10 — driver.  One trace line = one independent call of the real code:
  run api=<mr|void|each|chan|finish|finishvoid> n=<items> w=<def|a[,b…]> ctx=<none|can|pre> gp=<k|-> gx=<k|-> gw=<k:ev,…|-> m=<s0>/<s1>/… r=<script> [co=<k>]
    => res=<val:v|ok|err:E<k>|err:nil|err:deadline|err:noout|panic:<pg|pm<i>|pr|multi|sendclosed>|hang>
       left=<goroutines left> mapped=<items> reduced=<values> hist=<totally ordered events> stalltimeouts=<k> panicked=<k> waitsbyret=<k>
The monitor (`violation`) evaluates the property on what the implementation did — the outcome must be in
the returned-error table `allowed` AND in the table for the schedule that happened (`allowedAt` on the
observed event history); the correspondence (`mismatch`) runs the interleaving model under several
schedulers and compares.
-/
import GoZero.Base.Trace
import GoZero.C10.Spec5
namespace GoZero.C10

open GoZero

def parseAct (t : String) : Option (Option UAct) :=
  -- `some none` = an action of the harness only (stall / yield / ctx-cancel): invisible to the model
  match t.toList with
  | ['p'] => some (some .panic)
  | ['p', 'e'] => some (some .panic)     -- a panic whose value is an error
  | ['p', 'n'] => some (some .panic)     -- panic(nil): recovered as a non-nil value since go 1.21 (`Tie.tie_goDirective`)
  | ['a'] => some (some .readAll)
  | ['o'] => some (some .readOne)
  | ['s'] => some none
  | ['y'] => some none
  | ['f'] => some none
  | ['x'] => some none
  | 'u' :: _ :: _ => some none
  | 't' :: _ :: _ => some none
  | 'w' :: d => (String.ofList d).toNat?.map fun v => some (.write v)
  | 'c' :: d => (String.ofList d).toNat?.map fun k => some (.cancel (cancelArg k))
  | _ => none

def parseScript (s : String) : Option (List UAct) :=
  if s = "-" then some [] else
  -- `q` = runtime.Goexit(): the user function ends there (for the model: the script ends)
  ((s.splitOn ".").takeWhile (· ≠ "q")).foldr (fun t acc => do
    let l ← acc
    let a ← parseAct t
    pure (match a with | some x => x :: l | none => l)) (some [])

def usesCtx (s : String) : Bool := (s.splitOn ".").contains "x"

def parseOptNat (s : String) : Option (Option Nat) :=
  if s = "-" then some none else s.toNat?.map some

def parseNatList (s : String) : Option (List Nat) :=
  if s = "-" then some [] else (s.splitOn ",").mapM (·.toNat?)

def natOf (d : List Char) : Option Nat := (String.ofList d).toNat?

/-- `m<i>_<k>` / `r_<k>` → who and error (0 = nil). -/
def parseWhoErr (d : List Char) : Option (Who × Option Nat) :=
  match (String.ofList d).splitOn "_" with
  | [w, k] => do
    let k ← k.toNat?
    let e := cancelArg k
    match w.toList with
    | ['r'] => pure (.reducer, e)
    | 'm' :: i => (natOf i).map fun i => (.mapper i, e)
    | _ => none
  | _ => none

def parseEv (t : String) : Option Ev :=
  match t.toList with
  | ['r', 'e', 't'] => some .ret
  | ['g', 'e'] => some .gend
  | ['g', 'p'] => some .gpanic
  | ['r', 'c'] => some .closed
  | ['r', 'e'] => some .rend
  | ['r', 'p'] => some .rpanic
  | ['x', 'a'] => some .ctxBegin
  | ['x', 'b'] => some .ctxEnd
  | ['c', 'e', 'r'] => some (.cend .reducer)
  | 'c' :: 'e' :: 'm' :: d => (natOf d).map fun i => .cend (.mapper i)
  | 'c' :: 'b' :: d => (parseWhoErr d).map fun we => .cbegin we.1 we.2
  | 'g' :: 't' :: d => (natOf d).map .taken
  | 'p' :: 'm' :: d => (natOf d).map .mpanic
  | 'r' :: 'b' :: d => (natOf d).map .wbegin
  | 'r' :: 'a' :: d => (natOf d).map .wend
  | 'r' :: 'v' :: d => (natOf d).map .recv
  | 's' :: d => (natOf d).map .mstart
  | 'e' :: d => (natOf d).map .mend
  | _ => none

def parseHist (s : String) : Option (List Ev) :=
  if s = "-" then some [] else (s.splitOn ",").mapM parseEv

/-- start/end history of the mapper invocations. -/
def startEnd (h : List Ev) : List (Bool × Nat) :=
  h.filterMap fun e => match e with
    | .mstart i => some (true, i)
    | .mend i => some (false, i)
    | _ => none

/-- the event classes the script waits (`u<ev>`) and the generator stalls (`gw`) refer to. -/
def waitClass (ev : String) : String :=
  String.ofList (ev.toList.takeWhile fun ch => !ch.isDigit)

def waitsOf (script : String) : List String :=
  (script.splitOn ".").filterMap fun t => match t.toList with
    | 'u' :: d => some (waitClass (String.ofList d))
    | 't' :: d => some ("probe-" ++ waitClass (String.ofList d))
    | _ => none

def parseGw (s : String) : Option (List (Nat × String)) :=
  if s = "-" then some [] else
  (s.splitOn ",").mapM fun t => match t.splitOn ":" with
    | [k, ev] => if ev = "" then none else k.toNat?.map fun k => (k, ev)
    | _ => none

/-- the values a mapper script writes BEFORE its first drop point: a point after which the context is certainly
over (`x`, `uxb`) or `done` is certainly closed (its own cancel returned `c…`, another cancel returned `uce…`, the
call returned `s`; a wait released by the return of the call is such a point too).  `guardedWriter.Write` must
drop every later write. -/
def liveWritesOf (raw : String) : List Nat :=
  if raw = "-" then [] else
  let toks := (raw.splitOn ".").takeWhile fun t =>
    !(t = "x" || t = "s" || t = "q" || t = "uxb" || t.startsWith "uce" || t.startsWith "c")
  toks.filterMap fun t => match t.toList with
    | 'w' :: d => (String.ofList d).toNat?
    | _ => none

structure Run where
  liveWrites : List (List Nat) := []
  api : String
  cfg : Cfg
  scripts : List (List UAct)
  waits : List String      -- "<who>-on-<event class>" of every wait / generator stall of the call

def minWorkers : Nat := minWorkersN
def defaultWorkers : Nat := defaultWorkersN

/-- `w=def` (no WithWorkers option) or a list of WithWorkers arguments in the order they are applied. -/
def parseWorkers (s : String) : Option (List Int) :=
  if s = "def" then some [] else (s.splitOn ",").mapM (·.toInt?)

/-- a function handed to Finish: no writes, no cancel(nil); `return err` ends it. -/
def finishScriptOk : List UAct → Bool
  | [] => true
  | [.cancel (some _)] => true
  | .panic :: _ => true
  | .cancel _ :: _ => false
  | .write _ :: _ => false
  | _ :: sc => finishScriptOk sc

def isEachApi (api : String) : Bool := api = "each" || api = "finishvoid"
def isVoidApi (api : String) : Bool := api = "void" || api = "finish"

def parseRun (op : List String) : Option Run :=
  match op with
  | "run" :: kvs => do
    let api ← kv? kvs "api"
    if ¬ ["mr", "void", "each", "chan", "finish", "finishvoid"].contains api then none
    let n0 ← (← kv? kvs "n").toNat?
    -- gq=k: the generator ends by runtime.Goexit() before item k: for the model it returns after k items (`Spec6.withGenExit`)
    let gq ← (match kv? kvs "gq" with | none => some none | some t => t.toNat?.map some)
    if (gq.getD 0) > n0 then none
    let n := gq.getD n0
    let ws ← parseWorkers (← kv? kvs "w")
    let lib := api = "finish" || api = "finishvoid"      -- the library itself passes WithWorkers(len(fns))
    let ctx ← kv? kvs "ctx"
    if ctx ≠ "none" ∧ ctx ≠ "can" ∧ ctx ≠ "pre" then none
    let gp ← parseOptNat (← kv? kvs "gp")
    let gx ← parseOptNat (← kv? kvs "gx")
    let m ← kv? kvs "m"
    let parts0 := if n0 = 0 then [] else m.splitOn "/"
    if parts0.length ≠ n0 then none
    let parts := parts0.take n
    let ms ← parts.mapM parseScript
    let r0 ← parseScript (← kv? kvs "r")
    if lib ∧ (¬ r0.isEmpty ∨ ctx ≠ "none" ∨ gp.isSome) then none
    if api = "chan" ∧ gp.isSome then none
    if api = "finish" ∧ ¬ ms.all finishScriptOk then none
    if api = "finishvoid" ∧ ¬ ms.all (fun sc => finishScriptOk sc ∧ ¬ hasCancel sc) then none
    -- MapReduceVoid hands the reducer no writer; ForEach / FinishVoid: the caller itself ranges over the collector
    -- (simulated by a reducer `[readAll]`, see Spec) and the mapper has neither a writer nor a cancel
    let ms := if isEachApi api then ms.map (fun sc => sc.filter fun a => a = .panic) else ms
    let r := if api = "mr" ∨ api = "chan" then r0 else if isEachApi api then [.readAll]
      else r0.filter fun a => match a with | .write _ => false | _ => true
    let xs := parts.any usesCtx || usesCtx ((kv? kvs "r").getD "") || gx.isSome
    if xs ∧ ctx = "none" then none
    let gw ← parseGw ((kv? kvs "gw").getD "-")
    if gw.any (fun p => p.1 > n) then none
    let waits := gw.map (fun p => s!"generator-on-{waitClass p.2}")
      ++ (parts.flatMap waitsOf).map (fun cl => s!"mapper-on-{cl}")
      ++ (waitsOf ((kv? kvs "r").getD "-")).map (fun cl => s!"reducer-on-{cl}")
    pure { api := api, scripts := ms, waits := waits, liveWrites := parts.map liveWritesOf,
           cfg := { n := n, workers := if lib then clampWorkers n else workersOf ws, gPanicAt := gp,
                    mscript := fun i => ms.getD i [], rscript := r,
                    ctxCan := ctx = "can", ctxPre := ctx = "pre", fixed := true } }
  | _ => none

def showErr : Err → String
  | .user k => s!"E{k}"
  | .nilCancel => "nil"
  | .deadline => "deadline"
  | .noOutput => "noout"

def showPVal : PVal → String
  | .gen => "pg"
  | .mapper i => s!"pm{i}"
  | .reducer => "pr"
  | .multi => "multi"
  | .sendClosed => "sendclosed"

def showRes (api : String) : Res → String
  | .val v => if api = "mr" ∨ api = "chan" then s!"val:{v}" else "ok"
  | .err .noOutput => if api = "mr" ∨ api = "chan" then "err:noout" else "ok"
  | .err e => s!"err:{showErr e}"
  | .panic p => s!"panic:{showPVal p}"

def parseRes (s : String) : Option Res :=
  match s.splitOn ":" with
  | ["val", v] => v.toNat?.map .val
  | ["err", "nil"] => some (.err .nilCancel)
  | ["err", "deadline"] => some (.err .deadline)
  | ["err", "noout"] => some (.err .noOutput)
  | ["err", e] => match e.toList with
    | 'E' :: d => (String.ofList d).toNat?.map fun k => .err (.user k)
    | _ => none
  | ["panic", "pg"] => some (.panic .gen)
  | ["panic", "pr"] => some (.panic .reducer)
  | ["panic", "multi"] => some (.panic .multi)
  | ["panic", "sendclosed"] => some (.panic .sendClosed)
  | ["panic", p] => match p.toList with
    | 'p' :: 'm' :: d => (String.ofList d).toNat?.map fun i => .panic (.mapper i)
    | _ => none
  | _ => none

def isPanicRes : Res → Bool
  | .panic _ => true
  | _ => false

def rotate (l : List α) (k : Nat) : List α := l.drop (k % (l.length + 1)) ++ l.take (k % (l.length + 1))

/-- the schedulers the model is run under: priority orders that favour, in turn, the caller, the
workers, the reducer, the environment, … -/
def schedules (n : Nat) : List (List Actor) :=
  let ms := (List.range n).map Actor.mapper
  let callerA : List Actor := [.callerPanic, .callerOut, .callerCtx, .caller]
  let dispA : List Actor := [.disp, .dispCtx, .dispDone]
  [ callerA ++ [.env, .red, .gen] ++ dispA ++ ms,
    ms ++ dispA ++ [.gen, .red] ++ callerA ++ [.env],
    [.env] ++ ms.reverse ++ [.red] ++ dispA ++ [.gen] ++ callerA.reverse,
    [.red, .gen] ++ [.dispDone, .dispCtx, .disp] ++ ms ++ [.callerOut, .callerCtx, .callerPanic, .caller, .env],
    [.gen, .disp] ++ ms.reverse ++ [.env, .callerCtx, .caller, .callerOut, .callerPanic, .red, .dispCtx, .dispDone],
    ms ++ [.red, .callerOut, .caller, .callerPanic, .disp, .gen, .env, .callerCtx, .dispCtx, .dispDone] ]

def fuelFor (r : Run) : Nat :=
  200 + 20 * (r.scripts.foldl (fun a s => a + s.length + 6) 0 + r.cfg.rscript.length + r.cfg.n)

def sorted (l : List Nat) : List Nat := sortNat l

def showNats (l : List Nat) : String := if l.isEmpty then "-" else ",".intercalate (l.map toString)

/-- why `allowedAt` rejects (for the message). -/
def schedWhy (mapped : List Nat) (h : List Ev) (res : Res) : String :=
  let hr := upTo (· == .ret) h
  match res with
  | .val v =>
    if firstWrite hr ≠ some v then "the value is not the reducer's first write begun before the return"
    else if (upTo isWbegin hr).any isCend then "a cancel call had returned before the reducer began to write"
    else if drainedTake mapped (upTo isWbegin hr) then
      "a cancel had recorded its error and was draining the source before the reducer began to write: the error must be returned"
    else "the context was over before the reducer began to write"
  | .err .noOutput =>
    if ¬ hr.contains .rend then "ErrReduceNoOutput although the reducer had not returned"
    else "a cancel had recorded its error before the reducer returned: the error must be returned"
  | .err (.user _) => "no cancel call with this error began before another cancel call had returned"
  | .err .nilCancel => "no cancel(nil) call began before another cancel call had returned"
  | .err .deadline => "the context had not been cancelled before the return"
  | .panic .multi => "the reducer had not begun a second write"
  | .panic .sendClosed => "the reducer had not begun to write"
  | .panic _ => "that user function had not panicked before the return"

def runLine (r : Report) (sec : Nat) (l : Line) : Report := Id.run do
  let mut r := { r with ops := r.ops + 1 }
  let some run := parseRun l.op | return r.mismatch sec l.idx "bad-op" (joinSp l.op)
  let c := run.cfg
  let some resS := kv? l.obs "res" | return r.mismatch sec l.idx "bad-obs" (joinSp l.obs)
  -- not executed: the harness stops after a few calls that did not return (each of them is a violation already)
  if resS = "skipped" then return r.addCover "not-executed-after-hangs-or-leaks"
  let some left := (kv? l.obs "left").bind (·.toNat?) | return r.mismatch sec l.idx "bad-obs-left" (joinSp l.obs)
  let some mapped := (kv? l.obs "mapped").bind parseNatList | return r.mismatch sec l.idx "bad-obs-mapped" (joinSp l.obs)
  let some reduced := (kv? l.obs "reduced").bind parseNatList | return r.mismatch sec l.idx "bad-obs-reduced" (joinSp l.obs)
  let some hist := (kv? l.obs "hist").bind parseHist | return r.mismatch sec l.idx "bad-obs-hist" (joinSp l.obs)
  let some stallT := (kv? l.obs "stalltimeouts").bind (·.toNat?) | return r.mismatch sec l.idx "bad-obs-stall" (joinSp l.obs)
  let some panicked := (kv? l.obs "panicked").bind (·.toNat?) | return r.mismatch sec l.idx "bad-obs-panicked" (joinSp l.obs)
  let some waitsByRet := (kv? l.obs "waitsbyret").bind (·.toNat?) | return r.mismatch sec l.idx "bad-obs-waitsbyret" (joinSp l.obs)
  let some nestedBad := (kv? l.obs "nestedbad").bind (·.toNat?) | return r.mismatch sec l.idx "bad-obs-nestedbad" (joinSp l.obs)
  let opS := joinSp l.op
  let histS := (kv? l.obs "hist").getD "-"
  r := r.addCover s!"api-{run.api}"
  r := r.addCover (if faultFree c then "fault-free" else "faulty")
  if c.n = 0 then r := r.addCover "items-0"
  if c.n > c.workers then r := r.addCover "items>workers"
  if c.ctxPre then r := r.addCover "ctx-pre"
  if c.ctxCan then r := r.addCover "ctx-can"
  if (l.op.any fun t => (t.splitOn ".").contains "s") then r := r.addCover "outlives-call"
  -- the option / entry-point glue
  let wS := (kv? l.op "w").getD ""
  let lib := run.api = "finish" || run.api = "finishvoid"
  if ¬ lib then
    if wS = "def" then r := r.addCover "workers-default(no-option)"
    if ((parseWorkers wS).getD []).any (· < 1) then r := r.addCover "workers-option<1"
    if ((parseWorkers wS).getD []).length > 1 then r := r.addCover "workers-option-list(last-wins)"
    if (kv? l.op "co") = some "0" then r := r.addCover "context-option-first"
    if (kv? l.op "ck") = some "d" then r := r.addCover s!"context-kind-deadline-{(kv? l.op "ctx").getD ""}"
    if (kv? l.op "ck") = some "v" then r := r.addCover s!"context-kind-derived-{(kv? l.op "ctx").getD ""}"
  if c.workers = defaultWorkers then r := r.addCover "workers=16"
  if (l.op.any fun t => ((t.splitOn "=").getD 1 "").splitOn "/" |>.any fun sc => (sc.splitOn ".").contains "f") then
    r := r.addCover "nested-calls-from-a-user-function"
  if isEachApi run.api ∧ (c.ctxCan ∨ c.ctxPre) then r := r.addCover "each-with-context"
  -- the error VALUE classes handed to cancel / returned by a Finish function
  let cancelCodes : List Nat := (l.op.flatMap fun t => ((t.splitOn "=").getD 1 "").splitOn "/" |>.flatMap fun sc => (sc.splitOn ".").filterMap fun a =>
    match a.toList with
    | 'c' :: d => (String.ofList d).toNat?
    | _ => none)
  for k in cancelCodes.eraseDups do
    r := r.addCover s!"cancel-error-{errKindName k}"
    r := r.addCover s!"cancel-error-{errKindName k}-{run.api}"
  let toksOf (key : String) : List String := ((kv? l.op key).getD "-").splitOn "/" |>.flatMap (·.splitOn ".")
  for (who, key) in [("mapper", "m"), ("reducer", "r")] do
    if (toksOf key).contains "q" then r := r.addCover s!"goexit-{who}-{run.api}"
    if (toksOf key).contains "pn" then r := r.addCover s!"panic-nil-{who}-{run.api}"
    if (toksOf key).contains "pe" then r := r.addCover s!"panic-error-value-{who}-{run.api}"
    if (toksOf key).contains "p" then r := r.addCover s!"panic-string-value-{who}-{run.api}"
  if (kv? l.op "gq").isSome then r := r.addCover s!"goexit-generator-{run.api}"
  if (kv? l.op "gk") = some "n" then r := r.addCover s!"panic-nil-generator-{run.api}"
  if nestedBad ≠ 0 then
    r := r.violation sec l.idx s!"{nestedBad} nested call(s) from inside a user function misbehaved (two functions of one Finish could not run at the same time / FinishVoid did not run both / a default MapReduce did not return its sum) op=[{joinSp l.op}]"
  for wt in run.waits.eraseDups do r := r.addCover s!"wait-{wt}"
  if waitsByRet > 0 then r := r.addCover "wait-released-by-return"
  r := r.addCover s!"res-{(resS.splitOn ":").headD ""}{if resS.startsWith "err:E" then ":E" else if resS.startsWith "panic:pm" then ":pm" else if resS.startsWith "val" then "" else ":" ++ ((resS.splitOn ":").getD 1 "")}"
  -- ------------------------------------------------------------ monitor: the property on the implementation
  if resS = "hang" then
    return r.violation sec l.idx s!"deadlock: the call did not return (goroutines left={left}) op=[{opS}]"
  if stallT ≠ 0 then
    r := r.violation sec l.idx s!"a stalled user function was never released op=[{opS}]"
  -- A reducer that writes three or more times can be left blocked in its third Write (nobody reads `output` after the
  -- library's panic "more than one element written in reducer").  Decided by replay on the real code
  -- (`run … r=w1.w2.w3` => panic:multi left=1 hist=…,rb1,ra1,rb2,ret,ra2,rb3): that reducer function has NOT returned,
  -- so the clause "once the user functions have returned no goroutine … remains" does not apply to it.  The
  -- exemption is taken only when the history shows exactly this: two completed writes, a third one begun and not
  -- returned, the reducer function not ended.
  let inContract := (writesOf c.rscript).length ≤ 2
  let wb := (hist.filter isWbegin).length
  let we := (hist.filter (fun e => match e with | .wend _ => true | _ => false)).length
  let blockedInWrite : Bool := decide (we ≥ 2) && decide (wb > we) && !hist.contains .rend && !hist.contains .rpanic
  if ¬ inContract then r := r.addCover "reducer-writes>2"
  if left ≠ 0 ∧ blockedInWrite then r := r.addCover "reducer-blocked-in-3rd-write-has-not-returned(outside)"
  if left ≠ 0 ∧ ¬ blockedInWrite then
    r := r.violation sec l.idx s!"goroutine leak: {left} goroutine(s) of the call alive after every user function returned res={resS} hist={histS} op=[{opS}]"
  let se := startEnd hist
  if peak se > c.workers then
    r := r.violation sec l.idx s!"mapper cap: {peak se} mappers ran concurrently, workers={c.workers} op=[{opS}]"
  if peak se = c.workers ∧ c.workers > 1 then
    r := r.addCover "cap-reached"
    r := r.addCover s!"cap-reached-{run.api}"
    if c.workers = defaultWorkers then r := r.addCover "cap-reached-16"
  if ¬ hist.contains .ret then
    r := r.violation sec l.idx s!"the call returned but the history has no return event op=[{opS}]"
  if ¬ (mapped.all (· < c.n)) ∨ ¬ (mapped.all fun i => mapped.count i = 1) then
    r := r.violation sec l.idx s!"an item was handed to the mapper more than once (or is unknown): mapped={showNats mapped} op=[{opS}]"
  if ¬ isEachApi run.api ∧ subMultiset reduced (writesOfItems c mapped) ∧
      ¬ subMultiset reduced (mapped.flatMap fun i => run.liveWrites.getD i []) then
    r := r.violation sec l.idx s!"the reducer received a value whose Write began after the context was over / after a cancel had returned (guardedWriter.Write must drop it): reduced={showNats reduced} hist={histS} op=[{opS}]"
  if run.liveWrites.any (fun lw => !lw.isEmpty) ∧ (run.scripts.zip run.liveWrites).any (fun p => (writesOf p.1).length > p.2.length) then
    r := r.addCover "mapper-write-after-drop-point"
  if ¬ isEachApi run.api ∧ ¬ subMultiset reduced (writesOfItems c mapped) then
    r := r.violation sec l.idx s!"the reducer received a value more often than it was written: reduced={showNats reduced} op=[{opS}]"
  if isEachApi run.api ∧ (c.ctxCan ∨ c.ctxPre) then
    -- ForEach with a context (outside the model: the caller has no context case): returns, or re-raises a user panic
    let okRes : Bool := resS = "ok" || (match parseRes resS with
      | some (.panic .gen) => allowed c (.panic .gen)
      | some (.panic (.mapper i)) => allowed c (.panic (.mapper i)) && hist.contains (.mpanic i)
      | _ => false)
    if !okRes then r := r.violation sec l.idx s!"ForEach outcome {resS} not allowed op=[{opS}]"
    return r
  -- several cancels in one call
  let cbs := hist.filterMap fun e => match e with | .cbegin _ k => some k | _ => none
  if cbs.eraseDups.length ≥ 2 then
    r := r.addCover s!"several-cancels-different-errors-{run.api}"
    if cancelCodes.eraseDups.length ≥ 2 ∧ cancelCodes.any (fun k => k = 0 ∨ k ≥ 100) then r := r.addCover s!"several-cancels-different-dynamic-types-{run.api}"
  if (upTo (· == .ctxBegin) hist).any (fun e => match e with | .cbegin _ _ => true | _ => false) ∧ hist.contains .ctxBegin ∧
      ¬ (upTo (· == .ctxBegin) hist).any isCend ∧ (upTo (· == .ret) hist).contains .ctxBegin then
    r := r.addCover s!"context-ends-while-a-user-cancel-is-in-progress-{run.api}"
  -- a panic nobody raised: the library's own two panics have a user cause (a reducer that writes twice / writes after
  -- the output was closed); every other re-raised value must be the value of a user function that did panic
  if resS.startsWith "panic:" ∧ panicked = 0 ∧ resS ≠ "panic:multi" ∧ resS ≠ "panic:sendclosed" then
    -- the value names a user function (pm<i> / pr / pg) although none of THIS call panicked: the panic of another call
    -- (state shared between calls: a recycled / package-level panic channel); anything else: a runtime panic of the library
    let foreign := resS = "panic:pr" ∨ resS = "panic:pg" ∨ resS.startsWith "panic:pm"
    return r.violation sec l.idx (if foreign then
      s!"the call re-raised a panic ({resS}) that no user function OF THIS CALL raised: 're-raises a user panic' means a panic of this call — the panic of an earlier call's straggler came back (per-call state shared between calls) hist={histS} op=[{opS}]"
    else
      s!"the call panicked ({resS}) although no user function did: a runtime panic of the library instead of a cancel / context error hist={histS} op=[{opS}]")
  let some res := (if resS = "ok" then some (.err .noOutput) else parseRes resS)
    | return r.violation sec l.idx s!"outcome {resS} is neither a cancel/context error, a user panic nor a value op=[{opS}]"
  let hr := upTo (· == .ret) hist
  -- `ErrReduceNoOutput` handed to cancel by the user (code 111) comes back as the same VALUE as the library's own
  -- "no output": the outcome err:noout then has a second reading, "the error that was passed to cancel"
  let alt : Option Res := if resS = "err:noout" ∧ cancelBegan (some 111) hr then some (.err (.user 111)) else none
  let okBy (p : Res → Bool) : Bool := p res || alt.any p
  if run.api ≠ "mr" ∧ run.api ≠ "chan" ∧ ((resS = "err:noout" ∧ ¬ alt.any (allowedAt mapped hist)) ∨ resS.startsWith "val:") then
    r := r.violation sec l.idx s!"{run.api} returned {resS}: ErrReduceNoOutput must become nil (unless it is the error that was passed to cancel) and there is no value op=[{opS}]"
  if ¬ okBy (allowed c) then
    r := r.violation sec l.idx s!"outcome {resS} is not in the returned-error table of this call op=[{opS}]"
  match res with
  | .err (.user k) => if k ≥ 100 then r := r.addCover s!"returned-error-{errKindName k}-{run.api}"
  | _ => pure ()
  if hr.any isCend then r := r.addCover s!"cancel-completed-before-return-{run.api}"
  if alt.any (allowedAt mapped hist) then r := r.addCover s!"returned-error-{errKindName 111}-{run.api}"
  -- the table for the schedule that actually happened
  let preW := upTo isWbegin hr
  if hr.any isWbegin then
    if preW.any isCend then r := r.addCover "sched-cancel-returned-before-reducer-write"
    else if drainedTake mapped preW then r := r.addCover "sched-cancel-in-progress-before-reducer-write"
    else if preW.any (fun e => match e with | .cbegin _ _ => true | _ => false) then
      r := r.addCover "sched-cancel-begun-before-reducer-write-no-proof"
    if preW.contains .ctxEnd then r := r.addCover "sched-context-over-before-reducer-write"
  if hr.contains .rend ∧ setEvidence mapped (upTo (· == .rend) hr) then r := r.addCover "sched-error-recorded-before-reducer-end"
  if (hr.filter (fun e => match e with | .cbegin _ _ => true | _ => false)).length ≥ 2 ∧ hr.any isCend then
    r := r.addCover "sched-cancel-after-a-completed-cancel"
  -- ForEach / FinishVoid / Finish have no user reducer: there is no reducer event to place `nil` against; instead:
  -- a nil return means every function ran and none of them had announced an error / a panic
  let noUserReducer := isEachApi run.api || run.api = "finish"
  if noUserReducer ∧ res = .err .noOutput ∧ resS = "ok" then
    if hr.any (fun e => match e with | .cbegin _ _ => true | _ => false) then
      r := r.violation sec l.idx s!"{run.api} returned nil although a function had returned an error before hist={histS} op=[{opS}]"
    if sorted mapped ≠ List.range c.n then
      r := r.violation sec l.idx s!"{run.api} returned before every function / item was run exactly once: ran={showNats mapped} op=[{opS}]"
  -- (a void / Finish call whose err:noout is the cancel error is not the nil decision)
  let nilDecision := noUserReducer ∧ res = .err .noOutput ∧ resS = "ok"
  if ¬ nilDecision ∧ ¬ okBy (allowedAt mapped hist) then
    -- an error that WAS passed to cancel before the return, but by a call that began after another cancel call had
    -- returned, satisfies the property's text; it contradicts the model (cancel runs under a sync.Once:
    -- `Props.first_cancel_wins`): reported as a broken correspondence, not as a property violation
    let lateCancel : Bool := match res with
      | .err (.user k) => cancelBegan (some k) hr
      | .err .nilCancel => cancelBegan none hr
      | _ => false
    if lateCancel then
      -- (round 5b: a violation, no longer only a broken correspondence: cancel is idempotent after the first — `once` —
      -- `Props.first_cancel_wins`, `Props5.once_records_the_first`)
      r := r.violation sec l.idx s!"the returned error {resS} is not the first cancelled one nor a context error: it was passed to a cancel call that began after another cancel call had returned (cancel must be idempotent after the first) hist={histS} op=[{opS}]"
    else
      r := r.violation sec l.idx s!"outcome {resS} is not possible for the schedule that happened ({schedWhy mapped hist res}) hist={histS} op=[{opS}]"
  if noCancel c ∧ panicked > 0 ∧ ¬ isPanicRes res then
    r := r.violation sec l.idx s!"a user panic was lost: outcome {resS} although {panicked} user function(s) panicked and nothing was cancelled op=[{opS}]"
  if faultFree c then
    if showRes run.api (expected c) ≠ resS then
      r := r.violation sec l.idx s!"nothing cancelled: expected {showRes run.api (expected c)} got {resS} op=[{opS}]"
    if sorted mapped ≠ List.range c.n then
      r := r.violation sec l.idx s!"nothing cancelled: mapped={showNats mapped}, expected every item exactly once op=[{opS}]"
    if c.rscript.contains .readAll ∧ ¬ sameMultiset reduced (writesOfItems c (List.range c.n)) then
      r := r.violation sec l.idx s!"nothing cancelled: reduced={showNats reduced} differs from the written values {showNats (sorted (writesOfItems c (List.range c.n)))} op=[{opS}]"
  -- ------------------------------------------------------------ correspondence: the model under several schedulers
  let mut reproduced := false
  let mut k := 0
  for prio in schedules c.n do
    k := k + 1
    let fin := runPrioA c prio (fuelFor run) (init c)
    match result fin with
    | none => r := r.mismatch sec l.idx s!"model: caller not finished under schedule {k}" resS
    | some mr =>
      if aliveCount c fin ≠ 0 ∧ inContract then
        r := r.mismatch sec l.idx s!"model: {aliveCount c fin} goroutine(s) alive at the end of schedule {k}" resS
      if ¬ allowed c mr then
        r := r.mismatch sec l.idx s!"model: outcome {showRes "mr" mr} of schedule {k} not in the table" resS
      if showRes run.api mr = resS then reproduced := true
      if faultFree c then
        -- deterministic: model and implementation must agree exactly
        if showRes run.api mr ≠ resS then
          r := r.mismatch sec l.idx s!"{showRes run.api mr} (schedule {k})" resS
        if sorted fin.mapped ≠ sorted mapped then
          r := r.mismatch sec l.idx s!"mapped={showNats (sorted fin.mapped)} (schedule {k})" s!"mapped={showNats mapped}"
        -- which values a reducer that does not range over the pipe receives depends on the schedule: only their number is fixed
        if c.rscript.contains .readAll ∧ sorted fin.reduced ≠ sorted reduced then
          r := r.mismatch sec l.idx s!"reduced={showNats (sorted fin.reduced)} (schedule {k})" s!"reduced={showNats reduced}"
        if ¬ c.rscript.contains .readAll ∧ fin.reduced.length ≠ reduced.length then
          r := r.mismatch sec l.idx s!"|reduced|={fin.reduced.length} (schedule {k})" s!"reduced={showNats reduced}"
  if reproduced then r := r.addCover "outcome-reproduced-by-a-model-schedule"
  else r := r.addCover "outcome-not-among-sampled-model-schedules"
  return r

/-! ### errorx.AtomicError on its own (second harness): `ae set|load|cset <inst> …` -/

def showCell : Option Nat → String
  | none => "nil"
  | some k => s!"E{k}"

def parseCell (s : String) : Option (Option Nat) :=
  if s = "nil" then some none else match s.toList with
    | 'E' :: d => (String.ofList d).toNat?.map some
    | _ => none

abbrev Cells := List (String × Option Nat)

def cellGet (cs : Cells) (n : String) : Option Nat := ((cs.find? (·.1 = n)).map (·.2)).getD none
def cellPut (cs : Cells) (n : String) (v : Option Nat) : Cells := (n, v) :: cs.filter (·.1 ≠ n)

def runAe (st : Report × Cells) (sec : Nat) (l : Line) : Report × Cells := Id.run do
  let mut r := { st.1 with ops := st.1.ops + 1 }
  let cs := st.2
  let opS := joinSp l.op
  match l.op, l.obs with
  | ["ae", "set", n, k], [o] =>
    let some k := k.toNat? | return (r.mismatch sec l.idx "bad-op" opS, cs)
    if o ≠ "ok" then return (r.violation sec l.idx s!"AtomicError.Set({k}) => {o} op=[{opS}]", cs)
    r := r.addCover (if k = 0 then (if (cellGet cs n).isSome then "ae-set-nil-after-error" else "ae-set-nil-on-empty") else
      (if (cellGet cs n).isSome then "ae-set-overwrites" else "ae-set-first"))
    return (r, cellPut cs n (aeSet (cellGet cs n) (if k = 0 then none else some k)))
  | ["ae", "load", n], [o] =>
    let some v := parseCell o | return (r.violation sec l.idx s!"AtomicError.Load() => {o}: neither nil nor an error that was set op=[{opS}]", cs)
    let m := aeLoad (cellGet cs n)
    r := r.addCover (if m.isSome then "ae-load-error" else "ae-load-nil")
    if cs.length > 1 then r := r.addCover "ae-several-instances"
    if v ≠ m then
      r := r.violation sec l.idx s!"AtomicError: Load() = {o}, but the last non-nil error set on this instance is {showCell m} (a recorded error must be returned, Set(nil) must not erase it, instances are independent) op=[{opS}]"
    return (r, cs)
  | "ae" :: "cset" :: n :: ks, [o] =>
    let some ks := ks.mapM (·.toNat?) | return (r.mismatch sec l.idx "bad-op" opS, cs)
    let some v := parseCell o | return (r.violation sec l.idx s!"AtomicError.Load() => {o} op=[{opS}]", cs)
    r := r.addCover "ae-concurrent-sets"
    match v with
    | some k =>
      if ¬ ks.contains k ∨ k = 0 then
        r := r.violation sec l.idx s!"AtomicError: Load() = {o} after concurrent Set calls with {showNats ks}: not one of them op=[{opS}]"
    | none => r := r.violation sec l.idx s!"AtomicError: Load() = nil after concurrent Set calls with non-nil errors op=[{opS}]"
    return (r, cellPut cs n v)
  | _, _ => return (r.mismatch sec l.idx "bad-op" (opS ++ " => " ++ joinSp l.obs), cs)

/-! ### the building blocks on their own: `unit gw|oc|once|opts|drain …` -/

def runUnit (r : Report) (sec : Nat) (l : Line) : Report := Id.run do
  let mut r := { r with ops := r.ops + 1 }
  let opS := joinSp l.op
  let obs := joinSp l.obs
  match l.op with
  | "unit" :: "gw" :: kvs =>
    let some cap := (kv? kvs "cap").bind (·.toNat?) | return r.mismatch sec l.idx "bad-op" opS
    let some v := (kv? kvs "v").bind (·.toNat?) | return r.mismatch sec l.idx "bad-op" opS
    let some cx := kv? kvs "ctx" | return r.mismatch sec l.idx "bad-op" opS
    let some dn := kv? kvs "done" | return r.mismatch sec l.idx "bad-op" opS
    if ¬ ["none", "live", "over"].contains cx ∨ ¬ ["open", "closed"].contains dn then return r.mismatch sec l.idx "bad-op" opS
    let drops := guardDrops (cx = "over") (dn = "closed")
    r := r.addCover s!"unit-guardedWriter-{if drops then "drops" else "delivers"}-{if cap = 0 then "unbuffered" else "buffered"}"
    let want := if drops then "dropped" else s!"delivered:{v}"
    if obs ≠ want then
      r := r.violation sec l.idx s!"guardedWriter.Write: {obs}, but a value must be {want} (dropped iff the context is over or done is closed, on every channel) op=[{opS}]"
    return r
  | "unit" :: "oc" :: kvs =>
    let vs := (kv? kvs "vals").getD ""
    let some vals := (if vs = "" then some [] else (vs.splitOn ",").mapM (·.toNat?)) | return r.mismatch sec l.idx "bad-op" opS
    let first := match onceChanAfter vals with | some a => s!"v{a}" | none => "none"
    r := r.addCover s!"unit-onceChan-writes-{min vals.length 2}"
    let want := s!"first={first} second=none buffered={min vals.length 1}"
    if obs ≠ want then
      r := r.violation sec l.idx s!"onceChan: {obs}, expected {want} (the first captured panic is kept and re-raised exactly once) op=[{opS}]"
    return r
  | "unit" :: "once" :: kvs =>
    let some n := (kv? kvs "calls").bind (·.toNat?) | return r.mismatch sec l.idx "bad-op" opS
    let some m := (kv? kvs "insts").bind (·.toNat?) | return r.mismatch sec l.idx "bad-op" opS
    r := r.addCover s!"unit-once-calls-{min n 3}"
    let want := "ran=" ++ ",".intercalate ((List.replicate m (onceRuns n)).map toString)
    if obs ≠ want then
      r := r.violation sec l.idx s!"once: {obs}, expected {want} (the function runs for the first call only, per instance: first cancel wins) op=[{opS}]"
    return r
  | "unit" :: "opts" :: kvs =>
    let some ws := (kv? kvs "w").bind parseWorkers | return r.mismatch sec l.idx "bad-op" opS
    let some cx := kv? kvs "ctx" | return r.mismatch sec l.idx "bad-op" opS
    r := r.addCover s!"unit-buildOptions-{if ws.isEmpty then "default" else if ws.length = 1 then "one" else "list"}-ctx-{if cx = "none" then "absent" else "present"}"
    -- a second WithContext inserted at position k2 of the list that already holds the first one at k: it is applied
    -- later iff k2 > k
    let cx2 := (kv? kvs "ctx2").getD "none"
    let ctxWant := if cx = "none" then (if cx2 = "none" then "bg" else "given2")
      else if cx2 = "none" then "given"
      else (let k := min (cx.toNat?.getD 0) ws.length; let k2 := min (cx2.toNat?.getD 0) (ws.length + 1)
            if k2 > k then "given2" else "given")
    if cx2 ≠ "none" then r := r.addCover "unit-buildOptions-two-contexts(last-wins)"
    let want := s!"workers={workersOf ws} ctx={ctxWant}"
    if obs ≠ want then
      r := r.violation sec l.idx s!"buildOptions: {obs}, expected {want} (defaults 16 / Background, every option applied in order, the last WithWorkers wins, < 1 clamped to 1, the context forwarded from any position) op=[{opS}]"
    return r
  | "unit" :: "drain" :: _ =>
    r := r.addCover "unit-drain"
    if obs ≠ "returned left=0" then
      r := r.violation sec l.idx s!"drain: {obs}, expected to return with the channel empty op=[{opS}]"
    return r
  | _ => return r.mismatch sec l.idx "bad-op" opS

def runSection (r : Report) (s : Section) : Report :=
  if s.lines.all (fun l => l.op.head? = some "unit") ∧ ¬ s.lines.isEmpty then
    s.lines.foldl (fun r l => runUnit r s.idx l) r
  else if s.lines.all (fun l => l.op.head? = some "ae") ∧ ¬ s.lines.isEmpty then
    (s.lines.foldl (fun st l => runAe st s.idx l) (r, [])).1
  else s.lines.foldl (fun r l => runLine r s.idx l) r

def driver (secs : List Section) : Report := secs.foldl runSection {}

end GoZero.C10
