/-
C10 — round 5c property theorems: what was still outside or partial after round 5 —
 (a) `ForEach` / `FinishVoid` WITH a context as an instance of the core (the caller has no context case: `stepF`);
 (b) a reducer that writes three or more times: the no-leak theorem without the bound;
 (e) deadlock freedom / termination for the code as it is now (markCancel wrappers, once).
-/
import GoZero.C10.Props5
import GoZero.C10.ProofsL
import GoZero.C10.Spec6
namespace GoZero.C10.Props6
open GoZero.C10

/-! ### (b) any number of reducer writes -/

inductive StepsA' (c : Cfg) (stp : St → Actor → Option St) : St → St → Prop
  | refl (s : St) : StepsA' c stp s s
  | step {s s1 s2 : St} (a : Actor) : stp s a = some s1 → StepsA' c stp s1 s2 → StepsA' c stp s s2

/-- **No deadlock, any number of reducer writes**: a reachable configuration in which nothing can move is final and
clean, or the reducer function has NOT returned: it is blocked in a `Write` that is at least its third, after the
caller has left with the library's panic "more than one element written in reducer". -/
theorem stuck_is_final_or_blocked_late_write (c : Cfg) (hf : c.fixed = true) (hw : 1 ≤ c.workers) (s : St)
    (h : ReachA c s) (hst : ∀ a, stepA c s a = none) :
    (result s ≠ none ∧ aliveCount c s = 0) ∨ blockedInLateWrite c s :=
  stuck_core c hf hw s (reachA_reach h) (fun a _ => (stepA_none_iff a hf (reachA_reach h)).mp (hst a))

/-- a reducer blocked that way writes at least three times and has not returned; the call itself HAS returned. -/
theorem blocked_late_write_facts (c : Cfg) (s : St) (h : blockedInLateWrite c s) :
    3 ≤ (writesOf c.rscript).length ∧ s.rpc ≠ .done ∧ result s = some (.panic .multi) := by
  obtain ⟨v, sc, hrs, hc, _, h2⟩ := h
  refine ⟨?_, by rw [hrs]; simp, by simp [result, hc]⟩
  rw [hrs] at h2
  simp [rW, rRem, writesOf] at h2
  omega

/-- **Every run ends (any number of reducer writes)**: every maximal run of the code as it is now is finite and ends
with the caller returned and no goroutine alive — or with the reducer function blocked in its third-or-later Write
(that user function has not returned: the clause "once the user functions have returned" does not apply; what is
alive then is that reducer and whoever waits behind it). -/
theorem every_run_ends_clean_or_blocked_late_write (c : Cfg) (hf : c.fixed = true) (hw : 1 ≤ c.workers) (s : St)
    (h : ReachA c s) :
    ∃ s', StepsA' c (stepA c) s s' ∧ ReachA c s' ∧ (∀ a, stepA c s' a = none) ∧
      ((result s' ≠ none ∧ aliveCount c s' = 0) ∨ blockedInLateWrite c s') := by
  generalize hm : mu c s = m
  induction m using Nat.strongRecOn generalizing s with
  | _ m ih =>
    by_cases hst : ∀ a, stepA c s a = none
    · exact ⟨s, .refl s, h, hst, stuck_is_final_or_blocked_late_write c hf hw s h hst⟩
    · have ⟨a, ha⟩ : ∃ a, stepA c s a ≠ none := by
        apply Classical.byContradiction
        intro hn
        exact hst (fun a => by
          cases hs : stepA c s a with
          | none => rfl
          | some s' => exact absurd ⟨a, by simp [hs]⟩ hn)
      cases hs : stepA c s a with
      | none => exact absurd hs ha
      | some s1 =>
        have hlt := muA_step a (reachA_reach h) hs
        obtain ⟨s', h1, h2, h3, h4⟩ := ih (mu c s1) (by omega) s1 (ReachA.step a h hs) rfl
        exact ⟨s', .step a hs h1, h2, h3, h4⟩

/-- with at most two writes the second disjunct is impossible (the round 1–4 theorem). -/
theorem blocked_late_write_needs_three (c : Cfg) (s : St) (hr : (writesOf c.rscript).length ≤ 2) :
    ¬ blockedInLateWrite c s := fun h => by have := (blocked_late_write_facts c s h).1; omega

def threeWrites : Cfg :=
  { n := 0, workers := 1, gPanicAt := none, mscript := fun _ => [], rscript := [.write 1, .write 2, .write 3],
    ctxCan := false, ctxPre := false, fixed := true }

example : let s := runPrioA threeWrites (actors 0) 200 (init threeWrites)
    result s = some (.panic .multi) ∧ aliveCount threeWrites s = 1 ∧ (∀ a ∈ actors 0, stepA threeWrites s a = none) := by
  decide

/-! ### (a) ForEach / FinishVoid with a context -/

/-- `ForEach(generate, mapper, WithWorkers(w), WithContext(ctx))`: `can` = the context may end during the call,
`pre` = it is over from the start.  The caller's loop has no context case: runs are `stepF` runs. -/
def forEachCtxCfg (n : Nat) (w : Int) (gp : Option Nat) (pan : Nat → Bool) (can pre : Bool) : Cfg :=
  { forEachCfg n w gp pan with ctxCan := can, ctxPre := pre }

/-- every safety theorem of the core holds for ForEach with a context: its runs are runs of the core. -/
theorem forEachCtx_refines (c : Cfg) (s : St) (h : ReachF c s) : ReachA c s := reachF_reachA h

/-- **outcome**: ForEach with a context returns, or re-raises a panic of the generator or of a mapper — never an error,
in particular never the deadline error the other entry points return when the context ends. -/
theorem forEachCtx_outcome (n : Nat) (w : Int) (gp : Option Nat) (pan : Nat → Bool) (can pre : Bool) (s : St)
    (h : ReachF (forEachCtxCfg n w gp pan can pre) s) (r : Res) (hr : result s = some r) :
    r = .err .noOutput ∨ (r = .panic .gen ∧ ∃ k, gp = some k ∧ k ≤ n) ∨ (∃ i, i < n ∧ pan i = true ∧ r = .panic (.mapper i)) := by
  have ha := returns_expected_error _ s (reachA_reach (reachF_reachA h)) r hr
  have J := invFJ_reachF h
  have hcpc : s.cpc = .done r := by
    unfold result at hr
    split at hr <;> simp_all
  cases r with
  | val v => simp [allowed, allowed0, forEachCtxCfg, forEachCfg, writesOf] at ha
  | err e =>
    cases e with
    | noOutput => exact Or.inl rfl
    | deadline => exact absurd rfl (J.j4 _ (Or.inr (Or.inr hcpc)))
    | nilCancel =>
      exfalso
      simp only [allowed, allowed0, refined, Bool.and_true, anyScript, anyMapper, Bool.or_eq_true, List.any_eq_true,
        List.mem_range, List.contains_iff_mem, forEachCtxCfg, forEachCfg] at ha
      rcases ha with ⟨i, _, hm⟩ | hm
      · split at hm <;> simp at hm
      · simp at hm
    | user k =>
      exfalso
      simp only [allowed, allowed0, refined, Bool.and_true, anyScript, anyMapper, Bool.or_eq_true, List.any_eq_true,
        List.mem_range, List.contains_iff_mem, forEachCtxCfg, forEachCfg] at ha
      rcases ha with ⟨i, _, hm⟩ | hm
      · split at hm <;> simp at hm
      · simp at hm
  | panic p =>
    cases p with
    | gen =>
      right; left
      refine ⟨rfl, ?_⟩
      simp only [allowed, allowed0, refined, Bool.and_true, genPanics, forEachCtxCfg, forEachCfg] at ha
      cases gp with
      | none => simp at ha
      | some k => exact ⟨k, rfl, of_decide_eq_true ha⟩
    | reducer => simp [allowed, allowed0, forEachCtxCfg, forEachCfg, hasPanic] at ha
    | multi => simp [allowed, allowed0, forEachCtxCfg, forEachCfg, writesOf] at ha
    | sendClosed => simp [allowed, allowed0, forEachCtxCfg, forEachCfg, writesOf] at ha
    | mapper i =>
      right; right
      simp only [allowed, allowed0, refined, Bool.and_true, Bool.and_eq_true, hasPanic,
        List.contains_iff_mem, forEachCtxCfg, forEachCfg] at ha
      refine ⟨i, of_decide_eq_true ha.1, ?_, rfl⟩
      have := ha.2
      split at this
      · assumption
      · simp at this

/-- **no deadlock, no leak**: every maximal run of ForEach with a context — the context ending at any moment or
being over from the start — is finite and ends with the call returned and no goroutine alive, although the caller
never looks at the context (the dispatcher does). -/
theorem forEachCtx_ends_clean (n : Nat) (w : Int) (gp : Option Nat) (pan : Nat → Bool) (can pre : Bool) (s : St)
    (h : ReachF (forEachCtxCfg n w gp pan can pre) s) :
    ∃ s', StepsA' (forEachCtxCfg n w gp pan can pre) (stepF (forEachCtxCfg n w gp pan can pre)) s s' ∧
      (∀ a, stepF (forEachCtxCfg n w gp pan can pre) s' a = none) ∧ result s' ≠ none ∧
      aliveCount (forEachCtxCfg n w gp pan can pre) s' = 0 := by
  generalize hc : forEachCtxCfg n w gp pan can pre = c at h ⊢
  have hf : c.fixed = true := by subst hc; rfl
  have hw : 1 ≤ c.workers := by subst hc; exact clampWorkers_ge_one _
  have hr2 : (writesOf c.rscript).length ≤ 2 := by subst hc; simp [forEachCtxCfg, forEachCfg, writesOf]
  generalize hm : mu c s = m
  induction m using Nat.strongRecOn generalizing s with
  | _ m ih =>
    by_cases hst : ∀ a, stepF c s a = none
    · have R := reachA_reach (reachF_reachA h)
      have := stuck_core_le2 c hf hw hr2 s R (fun a hne => by
        have := hst a
        simp only [stepF, hne, if_false] at this
        exact (stepA_none_iff a hf R).mp this)
      exact ⟨s, .refl s, hst, this.1, this.2⟩
    · have ⟨a, ha⟩ : ∃ a, stepF c s a ≠ none := by
        apply Classical.byContradiction
        intro hn
        exact hst (fun a => by
          cases hs : stepF c s a with
          | none => rfl
          | some s' => exact absurd ⟨a, by simp [hs]⟩ hn)
      cases hs : stepF c s a with
      | none => exact absurd hs ha
      | some s1 =>
        have hlt := muA_step a (reachA_reach (reachF_reachA h)) (stepF_stepA hs).2
        obtain ⟨s', h1, h2, h3, h4⟩ := ih (mu c s1) (by omega) s1 (ReachF.step a h hs) rfl
        exact ⟨s', .step a hs h1, h2, h3, h4⟩

/-- the mapper cap and exactly-once hand-out hold for ForEach with a context as for every run of the core. -/
theorem forEachCtx_cap_and_once (c : Cfg) (s : St) (h : ReachF c s) (i : Nat) :
    cnt mRunning s.mp c.n ≤ c.workers ∧ s.mapped.count i ≤ 1 :=
  ⟨(mapper_cap c s (reachA_reach (reachF_reachA h))).1, no_item_mapped_twice c s (reachA_reach (reachF_reachA h)) i⟩

example : let c := forEachCtxCfg 3 2 none (fun i => i == 1) false true
    let s := runPrioA c ((actors c.n).filter (· ≠ .callerCtx)) 400 (init c)
    (result s).isSome ∧ aliveCount c s = 0 := by decide

/-! ### (e) deadlock freedom and termination for the code as it is now (markCancel, once)

`markCancel` wraps the ARGUMENT of a cancel call (a pure function of the error value, no channel / lock / goroutine);
`once` is the model's `St.once`.  A MapReduceVoid / Finish call is therefore the core run on the configuration whose
cancel arguments are mapped through an arbitrary code function — and the theorems hold for EVERY configuration. -/

def mapCancelAct (f : Option Nat → Option Nat) : UAct → UAct
  | .cancel e => .cancel (f e)
  | a => a

/-- the configuration of a call whose user functions get a cancel that transforms its argument (`markCancel`). -/
def mapCancels (f : Option Nat → Option Nat) (c : Cfg) : Cfg :=
  { c with mscript := fun i => (c.mscript i).map (mapCancelAct f), rscript := c.rscript.map (mapCancelAct f) }

theorem writesOf_mapCancels (f : Option Nat → Option Nat) (sc : List UAct) :
    writesOf (sc.map (mapCancelAct f)) = writesOf sc := by
  induction sc with
  | nil => rfl
  | cons a t ih => cases a <;> simp [mapCancelAct, writesOf, ih]

/-- **no deadlock / every run ends clean with the cancel wrappers in place**, for every wrapper function, every
configuration, every schedule. -/
theorem ends_clean_with_cancel_wrappers (f : Option Nat → Option Nat) (c : Cfg) (hf : c.fixed = true)
    (hw : 1 ≤ c.workers) (hr : (writesOf c.rscript).length ≤ 2) (s : St) (h : ReachA (mapCancels f c) s) :
    ∃ s', StepsA (mapCancels f c) s s' ∧ (∀ a, stepA (mapCancels f c) s' a = none) ∧ result s' ≠ none ∧
      aliveCount (mapCancels f c) s' = 0 := by
  obtain ⟨s', h1, _, h3, h4, h5⟩ := every_run_ends_clean_now (mapCancels f c) hf hw
    (by simpa [mapCancels, writesOf_mapCancels] using hr) s h
  exact ⟨s', h1, h3, h4, h5⟩

theorem terminates_with_cancel_wrappers (f : Option Nat → Option Nat) (c : Cfg) :
    ∃ μ : St → Nat, ∀ s a s', ReachA (mapCancels f c) s → stepA (mapCancels f c) s a = some s' → μ s' < μ s :=
  terminates_now (mapCancels f c)

/-! ### (d) `cancelError` as the wrapper it is: no wrapper escapes, the caller gets the user's error VALUE itself -/

/-- **identity**: `MapReduceVoid` / `Finish` return the very value that was passed to cancel — for EVERY value `e`
(the library's sentinels, values that wrap them, even a value that is itself a `cancelError`) — and ErrCancelWithNil
for nil; whatever `output` delivered. -/
theorem void_returns_the_very_value (e : GErr) (ok : Bool) (v : Nat) : voidPathW (some e) ok v = some e := by
  simp [voidPathW, markCancelW, cancelRecordsW, callerOutputW, voidReturnW]

theorem void_nil_cancel (ok : Bool) (v : Nat) : voidPathW none ok v = some (.code (encErr .nilCancel)) := by
  simp [voidPathW, markCancelW, cancelRecordsW, callerOutputW, voidReturnW, isNoOutputW, isNoOutput, encErr]

/-- `MapReduce` / `MapReduceChan`: no wrapping at all. -/
theorem mr_returns_the_very_value (e : GErr) (ok : Bool) (v : Nat) : mrPathW (some e) ok v = some e := by
  simp [mrPathW, cancelRecordsW, callerOutputW]

/-- **no `cancelError` ever escapes**: whatever a public entry point returns — after a user cancel with an unwrapped
value (users cannot build a `cancelError`: the type is unexported), after cancel(nil), or for an error the library
reports itself — is not a `cancelError`. -/
theorem no_cancelError_escapes (e : Option GErr) (he : ∀ x, e = some x → GErr.isMarked x = false) (ok : Bool) (v : Nat)
    (own : Option Err) :
    (∀ r, voidPathW e ok v = some r → GErr.isMarked r = false) ∧ (∀ r, mrPathW e ok v = some r → GErr.isMarked r = false) ∧
    (∀ r, voidOwnW own = some r → GErr.isMarked r = false) := by
  refine ⟨?_, ?_, ?_⟩
  · intro r hr
    cases e with
    | none => rw [void_nil_cancel] at hr; cases hr; rfl
    | some x => rw [void_returns_the_very_value] at hr; cases hr; exact he _ rfl
  · intro r hr
    cases e with
    | none => simp [mrPathW, cancelRecordsW, callerOutputW] at hr; subst hr; rfl
    | some x => rw [mr_returns_the_very_value] at hr; cases hr; exact he _ rfl
  · intro r hr
    cases own with
    | none => simp [voidOwnW, voidReturnW, isNoOutputW] at hr
    | some x =>
      simp only [voidOwnW, Option.map, voidReturnW] at hr
      split at hr <;> simp at hr
      subst hr; rfl

/-- the library's own reports through `MapReduceVoid`: "no output" becomes nil, everything else is unchanged. -/
theorem void_own_errors (x : Err) :
    voidOwnW (some x) = if x = .noOutput ∨ x = .user 111 ∨ x = .user 112 then none else some (.code (encErr x)) := by
  cases x with
  | user k =>
    simp only [voidOwnW, Option.map, voidReturnW, isNoOutputW, isNoOutput, encErr]
    by_cases h1 : k = 111 <;> by_cases h2 : k = 112 <;> simp_all <;> omega
  | _ => simp [voidOwnW, voidReturnW, isNoOutputW, isNoOutput, encErr]

/-- the round-5 model (a boolean next to the code) is the projection of this one. -/
theorem marked_model_projects (k : Nat) (ok : Bool) (v : Nat) :
    voidPathW (some (.code k)) ok v = (voidCancelPipeline (some k) ok v).map .code := by
  rw [void_returns_the_very_value, Props5.void_returns_the_cancel_error]; rfl

/-! ### (c) exit kinds of the user functions: return, runtime.Goexit, panic(v), panic(nil) -/

/-- Goexit is a return, panic(nil) is a panic: the goroutine of the library runs the same deferred statements. -/
theorem goexit_is_return (d : Bool → List String) : goroutineRuns d .goexit = goroutineRuns d .ret := rfl
theorem panicNil_is_panic (d : Bool → List String) : goroutineRuns d .panicNil = goroutineRuns d .panicVal := rfl

theorem writesOf_withExit (sc : List UAct) (x : UExit) : writesOf (withExit sc x) = writesOf sc := by
  have h : ∀ l : List UAct, writesOf (l ++ [.panic]) = writesOf l := by
    intro l
    induction l with
    | nil => rfl
    | cons a t ih => cases a <;> simp [writesOf, ih]
  cases x <;> simp [withExit, h]

/-- **termination, no deadlock, no leak for every assignment of exit kinds** to the mappers, the reducer and the
generator (every schedule, every configuration). -/
theorem ends_clean_for_every_exit_kind (c : Cfg) (mx : Nat → UExit) (rx gx : UExit) (hf : c.fixed = true)
    (hw : 1 ≤ c.workers) (hr : (writesOf c.rscript).length ≤ 2) (s : St)
    (h : ReachA (withGenExit (withExits c mx rx) gx) s) :
    ∃ s', StepsA (withGenExit (withExits c mx rx) gx) s s' ∧
      (∀ a, stepA (withGenExit (withExits c mx rx) gx) s' a = none) ∧ result s' ≠ none ∧
      aliveCount (withGenExit (withExits c mx rx) gx) s' = 0 := by
  have key : ∀ c' : Cfg, c'.fixed = true → 1 ≤ c'.workers → (writesOf c'.rscript).length ≤ 2 → ∀ s, ReachA c' s →
      ∃ s', StepsA c' s s' ∧ (∀ a, stepA c' s' a = none) ∧ result s' ≠ none ∧ aliveCount c' s' = 0 := by
    intro c' h1 h2 h3 s hs
    obtain ⟨s', a1, _, a3, a4, a5⟩ := every_run_ends_clean_now c' h1 h2 h3 s hs
    exact ⟨s', a1, a3, a4, a5⟩
  apply key _ _ _ _ s h
  · cases gx <;> simpa [withGenExit, withExits] using hf
  · cases gx <;> simpa [withGenExit, withExits] using hw
  · cases gx <;> simpa [withGenExit, withExits, writesOf_withExit] using hr

/-- **returned error / re-raised panic for every exit kind**: the outcome is in the table of the configuration with
the exits compiled in; a re-raised panic is one of a function that ends by a panic (or panics in its script). -/
theorem outcome_for_every_exit_kind (c : Cfg) (mx : Nat → UExit) (rx gx : UExit) (s : St)
    (h : ReachA (withGenExit (withExits c mx rx) gx) s) (r : Res) (hr : result s = some r) :
    allowed (withGenExit (withExits c mx rx) gx) r = true :=
  returns_expected_error _ s (reachA_reach h) r hr

/-- a function that ends by Goexit (or returns) contributes exactly its script: nothing of it is a panic source. -/
theorem goexit_adds_no_panic (sc : List UAct) : hasPanic (withExit sc .goexit) = hasPanic sc ∧
    hasPanic (withExit sc .panicNil) = true := by
  simp [withExit, hasPanic]

/-! ### (round 5e) one call = one fresh state: what a recycled panic channel does -/

/-- a call whose functions neither cancel nor panic … -/
def quietCall : Cfg :=
  { n := 1, workers := 1, gPanicAt := none, mscript := fun _ => [.write 8], rscript := [.readAll, .write 8],
    ctxCan := false, ctxPre := false, fixed := true }

/-- … started on a FRESH panic channel (`init`) returns the reducer's value under every schedule that ends … -/
theorem fresh_call_reraises_only_own_panics (c : Cfg) (s : St) (h : ReachA c s) (i : Nat)
    (hr : result s = some (.panic (.mapper i))) : i < c.n ∧ UAct.panic ∈ c.mscript i :=
  reraised_panic_is_user_panic c s (reachA_reach h) i hr

/-- … but started on a RECYCLED panic channel that holds the panic of a straggler of an earlier call (seeded C10-9:
sync.Pool of onceChans; the model's `pbuf` not empty at the start) it re-raises that foreign panic: a panic of
"mapper 7" in a call with one item, whose functions do not panic.  So `init` (empty buffer) is an OBLIGATION on the
code: `Tie.tie_mapReduceState`, `tie_newOnceChanAlloc`, `tie_all_state_per_call`, `tie_packageState`. -/
theorem stale_panic_buffer_is_reraised :
    let s0 : St := { init quietCall with pbuf := some (.mapper 7) }
    let s := runPrioA quietCall (actors 1) 200 s0
    result s = some (.panic (.mapper 7)) ∧ hasPanic (quietCall.mscript 0) = false ∧ hasPanic quietCall.rscript = false ∧
    result (runPrioA quietCall (actors 1) 200 (init quietCall)) = some (.val 8) := by decide

end GoZero.C10.Props6
