/-
C10 — round 5 additions to the specification (kept apart from Spec.lean so that the round 1–4 proofs are not rebuilt):
the glue of `MapReduceVoid` after the fix `fixes/C10-void-cancel-sentinel.patch`.
-/
import GoZero.C10.Spec
namespace GoZero.C10

/-- `markCancel(cancel)(err)`: a non-nil error is wrapped into the private `cancelError` mark before it is handed to
the real cancel; nil is passed on as it is (the library then records ErrCancelWithNil).  (argument of the real cancel
as a code, whether it carries the mark) -/
def markCancelArgM (err : Option Nat) : Option Nat × Bool := if err != none then (err, true) else (err, false)

/-- `MapReduceVoid` as it is NOW: an error that carries the mark is returned as it is (unwrapped); otherwise the error
is one the library itself reports, and `errors.Is(err, ErrReduceNoOutput)` (the caller's own "no output" decision)
becomes nil. -/
def voidReturnNow (fromCancel : Bool) (err : Option Nat) : Option Nat :=
  if fromCancel then err else voidReturnIs err

/-- one `MapReduceVoid` call in which a user function calls `cancel(e)` and that cancel wins: mark → `cancel` records →
the caller's output branch → `MapReduceVoid`'s return. -/
def voidCancelPipeline (e : Option Nat) (ok : Bool) (v : Nat) : Option Nat :=
  voidReturnNow (markCancelArgM e).2 (callerOutput (cancelRecords (markCancelArgM e).1) ok v).2

/-- the same with the glue as it was before the fix (no mark, `errors.Is` alone). -/
def voidCancelPipelineOld (e : Option Nat) (ok : Bool) (v : Nat) : Option Nat :=
  voidReturnIs (callerOutput (cancelRecords e) ok v).2

/-! ### several cancels in one call (round 5b)

`errorx.AtomicError` keeps the error in an `atomic.Value`: a second `Store` whose value has ANOTHER dynamic type
panics ("store of inconsistently typed value").  An error is (code, dynamic type); `none` as a result = that runtime
panic.  `cancel` is wrapped into `once(…)`: of all the cancel calls of one call only the first reaches the cell. -/

abbrev TErr := Nat × Nat     -- (error code, tag of the dynamic type)

/-- one `atomic.Value.Store` (through `AtomicError.Set` with a non-nil error). -/
def aeStoreTyped (cur : Option TErr) (e : TErr) : Option (Option TErr) :=
  match cur with
  | none => some (some e)
  | some c => if c.2 = e.2 then some (some e) else none

/-- the cell after the cancel calls `es` of one call, cancel wrapped into `once` (the code as it is). -/
def cancelsWithOnce (es : List TErr) : Option (Option TErr) :=
  match es with
  | [] => some none
  | e :: _ => aeStoreTyped none e

/-- the same without the wrapper (seeded C10-8): every cancel call stores. -/
def cancelsWithoutOnce (es : List TErr) : Option (Option TErr) :=
  es.foldlM aeStoreTyped none

/-! ### the building blocks on their own (ops `unit …` of the harness) -/

/-- `guardedWriter.Write`: the value is dropped iff the context is over or `done` is closed — the guard of the model's
`UAct.write` steps (`s.ctxDone || s.fin`, `Props5.mapper_write_guard`, `reducer_write_guard`), whatever the capacity of
the channel (collector: `workers`, output: 0). -/
def guardDrops (ctxOver doneClosed : Bool) : Bool := ctxOver || doneClosed

/-- `onceChan`: a buffer of capacity one that keeps the FIRST value written; `repanic` takes it out once. -/
def onceChanAfter (vals : List Nat) : Option Nat := vals.head?

/-- a function made by `once(fn)`: `fn` runs for the first call only, per instance. -/
def onceRuns (calls : Nat) : Nat := if calls = 0 then 0 else 1

end GoZero.C10
