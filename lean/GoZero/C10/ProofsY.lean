/-
C10 — the fault-free case, values: every value a mapper script writes is accepted by the collector exactly
once (no write is dropped when nothing is cancelled); a reducer that ranges over the pipe leaves nothing to
the deferred drain.
-/
import GoZero.C10.ProofsX
namespace GoZero.C10

/-- the values mapper goroutine `i` has still to write. -/
def pend (c : Cfg) (i : Nat) : MPc → List Nat
  | .idle => writesOf (c.mscript i)
  | .run sc => writesOf sc
  | .send v sc => v :: writesOf sc
  | .cdrain _ => []
  | .recovered => []
  | .pwrite => []
  | .psend => []
  | .wgdone => []
  | .unpool => []
  | .done => []
  | .crash => []

def sumP (c : Cfg) (v : Nat) (f : Nat → MPc) : Nat → Nat
  | 0 => 0
  | n + 1 => sumP c v f n + (pend c n (f n)).count v

/-- how often the mapper scripts of the items `< n` write `v`. -/
def total (c : Cfg) (v : Nat) : Nat → Nat
  | 0 => 0
  | n + 1 => total c v n + (writesOf (c.mscript n)).count v

theorem sumP_idle (c : Cfg) (v n : Nat) : sumP c v (fun _ => .idle) n = total c v n := by
  induction n with
  | zero => rfl
  | succ n ih => simp [sumP, total, ih, pend]

theorem sumP_upd_ge (c : Cfg) (v : Nat) (f : Nat → MPc) (i : Nat) (x : MPc) (n : Nat) (h : n ≤ i) :
    sumP c v (upd f i x) n = sumP c v f n := by
  induction n with
  | zero => rfl
  | succ n ih =>
    have : n ≠ i := by omega
    simp [sumP, upd, this, ih (by omega)]

theorem sumP_ge (c : Cfg) (v : Nat) (f : Nat → MPc) (i n : Nat) (hi : i < n) : (pend c i (f i)).count v ≤ sumP c v f n := by
  induction n with
  | zero => omega
  | succ n ih =>
    simp only [sumP]
    by_cases h : i = n
    · subst h; omega
    · have := ih (by omega); omega

theorem sumP_upd_eq (c : Cfg) (v : Nat) (f : Nat → MPc) (i : Nat) (x : MPc) (n : Nat) (hi : i < n) :
    sumP c v (upd f i x) n = sumP c v f n - (pend c i (f i)).count v + (pend c i x).count v := by
  induction n with
  | zero => omega
  | succ n ih =>
    by_cases h : i = n
    · subst h
      simp only [sumP, upd_same, sumP_upd_ge c v f i x i (Nat.le_refl _)]
      omega
    · have hn : n ≠ i := fun e => h e.symm
      have hge := sumP_ge c v f i n (by omega)
      simp only [sumP, upd, hn, if_false]
      have := ih (by omega)
      omega

theorem sumP_zero (c : Cfg) (v : Nat) (f : Nat → MPc) (n : Nat) (h : ∀ i, i < n → pend c i (f i) = []) : sumP c v f n = 0 := by
  induction n with
  | zero => rfl
  | succ n ih => simp [sumP, ih (fun i hi => h i (by omega)), h n (by omega)]

theorem total_eq_writesOfItems (c : Cfg) (v n : Nat) : (writesOfItems c (List.range n)).count v = total c v n := by
  induction n with
  | zero => simp [writesOfItems, total]
  | succ n ih =>
    simp only [writesOfItems] at ih ⊢
    rw [List.range_succ, List.flatMap_append, List.count_append, ih]
    simp [total]

/-- nothing is dropped: accepted + still to be written = everything the scripts write. -/
def sentInv (c : Cfg) (s : St) : Prop := ∀ v, s.sent.count v + sumP c v s.mp c.n = total c v c.n

theorem sentInv_init (c : Cfg) : sentInv c (init c) := by
  intro v; simp [init, sumP_idle]

/-- a mapper goroutine counted by the wait group excludes a closed collector (hence `finish` by the reducer). -/
theorem open_while_inWg {c : Cfg} {s : St} (IB : InvB c s) {i : Nat} (hi : i < c.n) (hw : inWg (s.mp i) = true) :
    s.collClosed = false := by
  cases hcl : s.collClosed with
  | false => rfl
  | true =>
    have h0 := IB.dafter (IB.collc hcl).1
    have := cnt_ge inWg s.mp c.n i hi
    rw [hw] at this
    have := IB.wgc
    simp [b2n] at *
    omega

section
attribute [local grind] pend upd inWg rAfterDrain writesOf

theorem sentInv_mapper {c : Cfg} {s s' : St} (i : Nat) (F : FFacts c) (IC : InvC c s) (IB : InvB c s) (IE : InvE c s)
    (I : sentInv c s) (h : stepMapper c s i = some s') : sentInv c s' := by
  intro v
  have Iv := I v
  have X := xs_of F IC
  obtain ⟨_, honce, hctx, _, _, hm1, hm2, hm3, hm4, _, _, _, _, _, hfinr⟩ := X
  by_cases hidle : s.mp i = .idle
  · simp [stepMapper, hidle] at h
  have hi := IC.mlt i hidle
  have hge := sumP_ge c v s.mp i c.n hi
  have hopen := fun hw => open_while_inWg IB hi hw
  have hr1 := IE.r1
  have hm1 := hm1 i
  have hm2 := hm2 i
  have hm3 := hm3 i
  have hm4 := hm4 i
  clear IC IB IE I
  unfold stepMapper at h
  leaves h
  all_goals (simp only [sumP_upd_eq c v s.mp i _ c.n hi, List.count_append, List.count_cons, List.count_nil]; grind)

theorem sentInv_disp {c : Cfg} {s s' : St} (IC : InvC c s) (IB : InvB c s) (I : sentInv c s)
    (h : stepDisp c s = some s') : sentInv c s' := by
  intro v
  have Iv := I v
  have hsp := IC.spawnlt
  have hsi := IB.spawnidle
  clear IC IB I
  unfold stepDisp at h
  leaves h
  case h_4 i hd =>
    have hi := hsp i hd
    have hge := sumP_ge c v s.mp i c.n hi
    simp only [sumP_upd_eq c v s.mp i _ c.n hi]
    grind
  all_goals (first | exact Iv | grind)

end

theorem sentInv_step {c : Cfg} {s s' : St} (a : Actor) (F : FFacts c) (IC : InvC c s) (IB : InvB c s) (IE : InvE c s)
    (I : sentInv c s) (h : step c s a = some s') : sentInv c s' := by
  cases a with
  | disp => exact sentInv_disp IC IB I h
  | mapper i => exact sentInv_mapper i F IC IB IE I h
  | _ =>
    intro v
    have Iv := I v
    have hf : s'.sent = s.sent ∧ s'.mp = s.mp := by
      simp only [step] at h
      all_goals (try unfold stepGen at h)
      all_goals (try unfold stepRed at h)
      all_goals (try unfold stepCaller at h)
      leaves h
      all_goals (first | exact ⟨rfl, rfl⟩ | simp)
    rw [hf.1, hf.2]; exact Iv

theorem sentInv_reach {c : Cfg} (hff : faultFree c = true) {s : St} (h : Reach c s) : sentInv c s := by
  induction h with
  | init => exact sentInv_init c
  | step a hr hs ih => exact sentInv_step a (ffacts_of hff) (invC_reach hr) (invB_reach hr) (invE_reach hr) ih hs

/-! ### a reducer that ranges over the whole pipe leaves nothing to the deferred drain -/

structure InvR (c : Cfg) (s : St) : Prop where
  ra1 : UAct.readAll ∈ c.rscript → ∀ l, rRem s.rpc = some l → UAct.readAll ∉ l → s.collClosed = true ∧ s.collQ = []
  ra2 : UAct.readAll ∈ c.rscript → rEnded s.rpc = true → s.collClosed = true ∧ s.collQ = []
  ra3 : UAct.readAll ∈ c.rscript → s.drained = []

theorem invR_init (c : Cfg) : InvR c (init c) := by
  constructor <;> simp [init, rRem, rEnded]

section
attribute [local grind] rRem rEnded upd

theorem invR_step {c : Cfg} {s s' : St} (a : Actor) (F : FFacts c) (IC : InvC c s) (I : InvR c s)
    (h : step c s a = some s') : InvR c s' := by
  obtain ⟨ra1, ra2, ra3⟩ := I
  have X := xs_of F IC
  obtain ⟨_, _, _, _, _, _, _, _, _, _, _, hr3, _, _, hfinr⟩ := X
  clear IC
  cases a <;> simp only [step] at h
  all_goals (try unfold stepGen at h)
  all_goals (try unfold stepDisp at h)
  all_goals (try unfold stepMapper at h)
  all_goals (try unfold stepRed at h)
  all_goals (try unfold stepCaller at h)
  all_goals (leaves h)
  all_goals (constructor <;> first | assumption | grind)

end

theorem invR_reach {c : Cfg} (hff : faultFree c = true) {s : St} (h : Reach c s) : InvR c s := by
  induction h with
  | init => exact invR_init c
  | step a hr hs ih => exact invR_step a (ffacts_of hff) (invC_reach hr) ih hs

end GoZero.C10
