/-
C10 — round 4 property theorems: the code as it is NOW (`onceChan.write` = one atomic non-blocking send:
`Model.stepA` / `ReachA`), the full "a captured user panic is re-raised", clean termination restated for it,
and the public entry points (MapReduceChan, MapReduceVoid, Finish, FinishVoid, ForEach, WithWorkers,
AtomicError) as instances composed from the per-function theorems (call site → wrapper → core).
-/
import GoZero.C10.Props
import GoZero.C10.ProofsW
import GoZero.C10.ProofsN
namespace GoZero.C10

/-! ### the code as it is now refines the two-step model: every theorem of `Props` applies -/

/-- **Refinement.**  Every configuration reachable with the atomic `onceChan.write` is reachable in the model all
theorems of `Props` quantify over; so `mapper_cap`, `returns_expected_error`, `each_item_handed_out_once`,
`each_value_reduced_once`, `value_only_if_no_error_before_the_write`, … hold for the code as it is now. -/
theorem now_refines (c : Cfg) (s : St) (h : ReachA c s) : Reach c s := reachA_reach h

/-- in the code as it is now nobody ever stands between "won the once" and "sent": the flag `wrote` means that
the buffer was filled (it is full, or the caller has taken the value). -/
theorem wrote_means_buffered (c : Cfg) (hf : c.fixed = true) (hnc : noCancel c = true) (s : St) (h : ReachA c s)
    (hw : s.wrote = true) : s.pbuf ≠ none ∨ s.consumed = true :=
  (invQ_reachA hnc hf h).2 hw

/-! ### (d') a captured user panic is re-raised — FULL statement (round 3 had it only without a panicking generator;
`Props.generator_panic_can_be_lost` is the counterexample for the code as it WAS, fixed in /repo by
fixes/C10-oncechan-write-atomic.patch) -/

/-- **A captured panic is re-raised.**  If nobody cancels and the context cannot end, a call (of the code as it is
now) that returns a value or an error — not a panic — has captured no panic at all, whoever panics (generator,
mapper, reducer), wherever, under every schedule: the once-flag is unset, the buffer empty, no mapper has
panicked (`failed = 0`), and the generator and the reducer goroutine have ended (so neither can panic later). -/
theorem panic_not_lost (c : Cfg) (hf : c.fixed = true) (hnc : noCancel c = true) (s : St) (h : ReachA c s)
    (r : Res) (hr : result s = some r) (hnp : resIsPanic r = false) :
    s.wrote = false ∧ s.pbuf = none ∧ s.failed = 0 ∧ s.gpc = .done ∧ s.rpc = .done := by
  have Q := (invQ_reachA hnc hf h).1
  have R := reachA_reach h
  have IC := invC_reach R
  have IB := invB_reach R
  have IE := invE_reach R
  have IF := invF_reach R
  have X := xm_of (nc_of hnc) IC
  unfold result at hr
  split at hr
  next r' hc =>
    simp at hr; subst hr
    have hw := Q.k3 r' hc hnp
    have hfin : s.fin = true := by
      rcases IE.c2 r' hc with h1 | ⟨h1, _⟩
      · exact h1
      · subst h1; simp [resIsPanic] at hnp
    obtain ⟨hrd, hq, hda⟩ := quiet_of_fin' X IC IB IE hfin
    have hf0 : s.failed = 0 := by
      apply Classical.byContradiction
      intro hne
      rcases Q.g2 hne with h1 | ⟨i, h1⟩
      · simp [hw] at h1
      · have := hq i; simp [h1, inWg] at this
    have hdl : dLeft s.dpc = true := by
      cases hm : s.dpc <;> simp [hm, dAfter, dLeft] at hda ⊢
    have hsc : s.srcClosed = true := by
      rcases Q.g1 hdl with h1 | h1
      · exact absurd hf0 h1
      · exact h1
    exact ⟨hw, (IE.p1 hw).1, hf0, IF.f1 hsc, hrd⟩
  next => simp at hr

/-- spelled out: once a mapper has panicked (`failed ≠ 0`) or a panic was captured, a call that nobody cancels
can only end by re-raising a panic. -/
theorem captured_panic_is_reraised (c : Cfg) (hf : c.fixed = true) (hnc : noCancel c = true) (s : St) (h : ReachA c s)
    (r : Res) (hr : result s = some r) (hp : s.failed ≠ 0 ∨ s.wrote = true) : ∃ p, r = .panic p := by
  cases r with
  | panic p => exact ⟨p, rfl⟩
  | val v =>
    have := panic_not_lost c hf hnc s h _ hr rfl
    rcases hp with h1 | h1
    · exact absurd this.2.2.1 h1
    · simp [this.1] at h1
  | err e =>
    have := panic_not_lost c hf hnc s h _ hr rfl
    rcases hp with h1 | h1
    · exact absurd this.2.2.1 h1
    · simp [this.1] at h1

/-- the round-3 counterexample is a configuration of the full statement: with the atomic write the same actors in
the same order end with the panic re-raised. -/
example : noCancel cfgLost = true ∧ cfgLost.fixed = true ∧ genPanics cfgLost = true ∧
    (let s := runPrioA cfgLost (actors 2).reverse 400 (init cfgLost)
     (result s).map resIsPanic = some true ∧ s.wrote = true ∧ aliveCount cfgLost s = 0) := by
  refine ⟨by decide, rfl, by decide, ?_⟩
  decide

/-! ### (d) clean termination of the code as it is now -/

/-- **No deadlock (code as it is now).** -/
theorem no_deadlock_now (c : Cfg) (hf : c.fixed = true) (hw : 1 ≤ c.workers)
    (hr : (writesOf c.rscript).length ≤ 2) (s : St) (h : ReachA c s)
    (hlive : result s = none ∨ aliveCount c s ≠ 0) : ∃ a, stepA c s a ≠ none := by
  obtain ⟨a, ha⟩ := no_deadlock c hf hw hr s (reachA_reach h) hlive
  exact ⟨a, fun hn => ha ((stepA_none_iff a hf (reachA_reach h)).mp hn)⟩

/-- **Termination (code as it is now).** -/
theorem terminates_now (c : Cfg) : ∃ μ : St → Nat, ∀ s a s', ReachA c s → stepA c s a = some s' → μ s' < μ s :=
  ⟨mu c, fun _ a _ hr hs => muA_step a (reachA_reach hr) hs⟩

inductive StepsA (c : Cfg) : St → St → Prop
  | refl (s : St) : StepsA c s s
  | step {s s1 s2 : St} (a : Actor) : stepA c s a = some s1 → StepsA c s1 s2 → StepsA c s s2

/-- **Every run ends clean (code as it is now).**  Every maximal run is finite and ends with the caller returned and
no goroutine of the call alive. -/
theorem every_run_ends_clean_now (c : Cfg) (hf : c.fixed = true) (hw : 1 ≤ c.workers)
    (hr : (writesOf c.rscript).length ≤ 2) (s : St) (h : ReachA c s) :
    ∃ s', StepsA c s s' ∧ ReachA c s' ∧ (∀ a, stepA c s' a = none) ∧ result s' ≠ none ∧ aliveCount c s' = 0 := by
  generalize hm : mu c s = m
  induction m using Nat.strongRecOn generalizing s with
  | _ m ih =>
    by_cases hst : ∀ a, stepA c s a = none
    · have hst' : ∀ a, step c s a = none := fun a => (stepA_none_iff a hf (reachA_reach h)).mp (hst a)
      have := stuck_is_final c hf hw hr s (reachA_reach h) hst'
      exact ⟨s, StepsA.refl s, h, hst, this.1, this.2⟩
    · have ⟨a, ha⟩ : ∃ a, stepA c s a ≠ none := by
        apply Classical.byContradiction
        intro hn
        exact hst (fun a => by
          cases hs : stepA c s a with
          | none => rfl
          | some s' => exact absurd ⟨a, by simp [hs]⟩ hn)
      obtain ⟨s1, hs1⟩ := Option.ne_none_iff_exists'.mp ha
      have hlt := muA_step a (reachA_reach h) hs1
      obtain ⟨s', hst', hr', hrest⟩ := ih (mu c s1) (by omega) s1 (ReachA.step a h hs1) rfl
      exact ⟨s', StepsA.step a hs1 hst', hr', hrest⟩

/-! ### glue: options, AtomicError -/

/-- `WithWorkers(w)` never yields fewer than one worker — the hypothesis `1 ≤ workers` of `no_deadlock` holds
for every argument, also 0 and negative ones. -/
theorem clampWorkers_ge_one (w : Int) : 1 ≤ clampWorkers w := by
  unfold clampWorkers minWorkersN
  split <;> omega

theorem clampWorkers_id (w : Int) (h : 1 ≤ w) : (clampWorkers w : Int) = w := by
  unfold clampWorkers minWorkersN
  split <;> omega

/-- the last `WithWorkers` wins; without one the default (16) applies. -/
theorem workersOf_last (ws : List Int) (w : Int) : workersOf (ws ++ [w]) = clampWorkers w := by
  simp [workersOf]

theorem workersOf_ge_one (ws : List Int) : 1 ≤ workersOf ws := by
  rcases List.eq_nil_or_concat ws with h | ⟨l, w, h⟩
  · subst h; decide
  · subst h; rw [List.concat_eq_append, workersOf_last]; exact clampWorkers_ge_one w

example : workersOf [] = 16 ∧ workersOf [3, 0] = 1 ∧ workersOf [0, 3] = 3 ∧ workersOf [-5] = 1 := by decide

/-- **AtomicError**: `Load` after any sequence of `Set`s returns the last non-nil error set (nil if none): a
recorded error is never erased by `Set(nil)`. -/
theorem ae_fold_sets (l : List (Option Nat)) (cur : Option Nat) :
    l.foldl aeSet cur = ((l.reverse.find? (· != none)).getD cur) := by
  induction l generalizing cur with
  | nil => rfl
  | cons a t ih =>
    rw [List.foldl_cons, ih, List.reverse_cons, List.find?_append]
    cases hf : t.reverse.find? (· != none) with
    | some e => simp
    | none => cases a <;> simp [aeSet]

theorem ae_load_after_sets (l : List (Option Nat)) :
    aeLoad (l.foldl aeSet none) = (l.reverse.find? (· != none)).getD none := by
  rw [ae_fold_sets]
  cases hf : l.reverse.find? (· != none) with
  | none => rfl
  | some e => cases e <;> simp [aeLoad]

theorem ae_set_nil_keeps (cur : Option Nat) : aeSet cur none = cur := by simp [aeSet]

/-- what `cancel(err)` records is never nil: the argument, or ErrCancelWithNil for nil — the model's
`retErr := some (cancelErr e)`. -/
theorem cancel_records_an_error (e : Option Nat) :
    aeLoad (cancelRecords (e.map fun k => encErr (.user k))) = some (encErr (cancelErr e)) := by
  cases e <;> simp [cancelRecords, aeSet, aeLoad, cancelErr, encErr]

/-- the caller's output branch is the model's: a recorded error beats the value (`stepRed` `.send` at `cpc = sel`),
a closed output without an error is ErrReduceNoOutput (`outRes`). -/
theorem callerOutput_is_model (e : Option Err) (ok : Bool) (v : Nat) :
    callerOutput (e.map encErr) ok v =
      match e with
      | some x => (0, some (encErr x))
      | none => if ok then (v, none) else (0, some (encErr .noOutput)) := by
  cases e <;> cases ok <;> simp [callerOutput, aeLoad]

/-! ### the entry points as instances of the core (for all inputs, all schedules of the code as it is now) -/

/-- **MapReduceChan** (a source the library did not start: `gPanicAt = none`) never re-raises a generator panic,
and everything else of the table holds unchanged. -/
theorem chan_outcome (c : Cfg) (hg : c.gPanicAt = none) (s : St) (h : ReachA c s) (r : Res) (hr : result s = some r) :
    allowed c r = true ∧ r ≠ .panic .gen := by
  have ha := returns_expected_error c s (reachA_reach h) r hr
  refine ⟨ha, ?_⟩
  intro he; subst he
  simp [allowed, allowed0, genPanics, hg] at ha

/-- **MapReduceVoid** (the reducer has no writer): the call never yields a value, never the library's
"more than one element" nor "send on closed channel" panic; it returns nil (`ErrReduceNoOutput ↦ nil`) only if no
error was recorded when the reducer function ended. -/
theorem void_outcome (c : Cfg) (hw : writesOf c.rscript = []) (s : St) (h : ReachA c s) (r : Res)
    (hr : result s = some r) :
    allowed c r = true ∧ (∀ v, r ≠ .val v) ∧ r ≠ .panic .multi ∧ r ≠ .panic .sendClosed ∧
    (r = .err .noOutput → s.eSnap = some false) := by
  have ha := returns_expected_error c s (reachA_reach h) r hr
  refine ⟨ha, ?_, ?_, ?_, ?_⟩
  · intro v he; subst he; simp [allowed, allowed0, hw] at ha
  · intro he; subst he; simp [allowed, allowed0, hw] at ha
  · intro he; subst he; simp [allowed, allowed0, hw] at ha
  · intro he; subst he; exact no_output_only_if_no_error_before_reducer_end c s (reachA_reach h) hr

theorem voidReturn_nil_iff (e : Option Nat) : voidReturn e = none ↔ e = none ∨ e = some (encErr .noOutput) := by
  unfold voidReturn; split <;> simp_all

theorem finishCfg_mscript (fns : List FnAct) (i : Nat) (hi : i < fns.length) :
    (finishCfg fns).mscript i = fnScript fns[i] := by
  simp [finishCfg, hi]

/-- **Finish(fns…)**: whatever the schedule, the call returns nil, or an error one of the functions returned, or
re-raises the panic of one of the functions — nothing else. -/
theorem finish_outcome (fns : List FnAct) (s : St) (h : ReachA (finishCfg fns) s) (r : Res) (hr : result s = some r) :
    r = .err .noOutput ∨ (∃ (i k : Nat), fns[i]? = some (FnAct.err k) ∧ r = .err (.user k)) ∨
    (∃ i : Nat, fns[i]? = some FnAct.panic ∧ r = .panic (.mapper i)) := by
  have ha := returns_expected_error _ s (reachA_reach h) r hr
  have key : ∀ i, i < fns.length → ∀ a, a ∈ (finishCfg fns).mscript i →
      (∃ k, fns[i]? = some (FnAct.err k) ∧ a = UAct.cancel (some k)) ∨ (fns[i]? = some FnAct.panic ∧ a = UAct.panic) := by
    intro i hi a hm
    rw [finishCfg_mscript fns i hi] at hm
    cases hf : fns[i] <;> simp [hf, fnScript] at hm
    · exact Or.inl ⟨_, by simp [hi, hf], hm⟩
    · exact Or.inr ⟨by simp [hi, hf], hm⟩
  cases r with
  | val v => simp [allowed, allowed0, finishCfg, writesOf] at ha
  | err e =>
    cases e with
    | noOutput => exact Or.inl rfl
    | deadline => simp [allowed, allowed0, finishCfg] at ha
    | nilCancel =>
      exfalso
      simp only [allowed, allowed0, refined, Bool.and_true, anyScript, anyMapper, Bool.or_eq_true, List.any_eq_true,
        List.mem_range, List.contains_iff_mem] at ha
      rcases ha with ⟨i, hi, hm⟩ | hm
      · rcases key i hi _ hm with ⟨k, _, h2⟩ | ⟨_, h2⟩ <;> simp at h2
      · simp [finishCfg] at hm
    | user k =>
      right; left
      simp only [allowed, allowed0, refined, Bool.and_true, anyScript, anyMapper, Bool.or_eq_true, List.any_eq_true,
        List.mem_range, List.contains_iff_mem] at ha
      rcases ha with ⟨i, hi, hm⟩ | hm
      · rcases key i hi _ hm with ⟨k', h1, h2⟩ | ⟨_, h2⟩
        · simp at h2; subst h2; exact ⟨i, k, h1, rfl⟩
        · simp at h2
      · simp [finishCfg] at hm
  | panic p =>
    cases p with
    | gen => simp [allowed, allowed0, finishCfg, genPanics] at ha
    | reducer => simp [allowed, allowed0, finishCfg, hasPanic] at ha
    | multi => simp [allowed, allowed0, finishCfg, writesOf] at ha
    | sendClosed => simp [allowed, allowed0, finishCfg, writesOf] at ha
    | mapper i =>
      right; right
      simp only [allowed, allowed0, refined, Bool.and_true, Bool.and_eq_true, decide_eq_true_eq, hasPanic,
        List.contains_iff_mem] at ha
      rcases key i ha.1 _ ha.2 with ⟨k, _, h2⟩ | ⟨h1, _⟩
      · simp at h2
      · exact ⟨i, h1, rfl⟩

/-- **Finish never hangs and leaves nothing behind**: from every reachable configuration every maximal run is finite
and ends with the call returned and no goroutine alive — for every list of functions (every mix of nil / error /
panic at every position), every schedule; `WithWorkers(len(fns))` is at least 1. -/
theorem finish_ends_clean (fns : List FnAct) (s : St) (h : ReachA (finishCfg fns) s) :
    ∃ s', StepsA (finishCfg fns) s s' ∧ (∀ a, stepA (finishCfg fns) s' a = none) ∧ result s' ≠ none ∧
      aliveCount (finishCfg fns) s' = 0 := by
  obtain ⟨s', h1, _, h3, h4, h5⟩ :=
    every_run_ends_clean_now (finishCfg fns) rfl (clampWorkers_ge_one _) (by simp [finishCfg, writesOf]) s h
  exact ⟨s', h1, h3, h4, h5⟩

/-- **Finish with functions that all return nil**: the call returns nil and every function has been run exactly once
(in a terminated run). -/
theorem finish_all_ok (fns : List FnAct) (hok : ∀ f ∈ fns, f = .ok) (s : St) (h : ReachA (finishCfg fns) s)
    (hst : ∀ a, stepA (finishCfg fns) s a = none) :
    result s = some (.err .noOutput) ∧ aliveCount (finishCfg fns) s = 0 ∧
    ∀ i, s.mapped.count i = if i < fns.length then 1 else 0 := by
  have hms : ∀ i, (finishCfg fns).mscript i = [] := by
    intro i
    simp only [finishCfg]
    cases hf : fns[i]? with
    | none => rfl
    | some f =>
      have := hok f (List.mem_of_getElem? hf)
      subst this; rfl
  have hff : faultFree (finishCfg fns) = true := by
    simp only [faultFree, anyScript, anyMapper, hms]
    simp [finishCfg, genPanics, hasCancel, hasPanic]
  have R := reachA_reach h
  have hst' : ∀ a, step (finishCfg fns) s a = none := fun a => (stepA_none_iff a rfl R).mp (hst a)
  have := faultfree_terminated (finishCfg fns) hff rfl (clampWorkers_ge_one _) (by simp [finishCfg, writesOf]) s R hst'
  exact ⟨by simpa [expected, finishCfg, writesOf] using this.1, this.2.1, this.2.2.2.1⟩

/-- **Finish re-raises**: if no function returns an error, a call that returns (nil) has captured no panic — so if some
function panicked, the call panics. -/
theorem finish_panic_not_lost (fns : List FnAct) (hne : ∀ f ∈ fns, ∀ k, f ≠ FnAct.err k) (s : St)
    (h : ReachA (finishCfg fns) s) (r : Res) (hr : result s = some r) (hnp : resIsPanic r = false) :
    s.wrote = false ∧ s.failed = 0 := by
  have hnc : noCancel (finishCfg fns) = true := by
    simp only [noCancel, anyScript, anyMapper, Bool.and_eq_true, Bool.not_eq_true', Bool.or_eq_false_iff,
      List.any_eq_false, List.mem_range]
    refine ⟨⟨rfl, rfl⟩, fun i hi => ?_, by simp [finishCfg, hasCancel]⟩
    have hi' : i < fns.length := hi
    rw [finishCfg_mscript fns i hi']
    have := hne fns[i] (List.getElem_mem hi')
    cases hf : fns[i] <;> simp [hf, fnScript, hasCancel, isCancel] at this ⊢
  have := panic_not_lost _ rfl hnc s h r hr hnp
  exact ⟨this.1, this.2.2.1⟩

example : let fns := [FnAct.ok, .err 3, .panic]
    let c := finishCfg fns
    let s := runPrioA c (actors c.n) 400 (init c)
    c.workers = 3 ∧ (result s).isSome ∧ aliveCount c s = 0 := by decide

/-- **ForEach / FinishVoid**: the call returns, or re-raises a panic of the generator or of a mapper that panics —
nothing else; never an error, never a value. -/
theorem forEach_outcome (n : Nat) (w : Int) (gp : Option Nat) (pan : Nat → Bool) (s : St)
    (h : ReachA (forEachCfg n w gp pan) s) (r : Res) (hr : result s = some r) :
    r = .err .noOutput ∨ (r = .panic .gen ∧ ∃ k, gp = some k ∧ k ≤ n) ∨ (∃ i, i < n ∧ pan i = true ∧ r = .panic (.mapper i)) := by
  have ha := returns_expected_error _ s (reachA_reach h) r hr
  cases r with
  | val v => simp [allowed, allowed0, forEachCfg, writesOf] at ha
  | err e =>
    cases e with
    | noOutput => exact Or.inl rfl
    | deadline => simp [allowed, allowed0, forEachCfg] at ha
    | nilCancel =>
      exfalso
      simp only [allowed, allowed0, refined, Bool.and_true, anyScript, anyMapper, Bool.or_eq_true, List.any_eq_true,
        List.mem_range, List.contains_iff_mem, forEachCfg] at ha
      rcases ha with ⟨i, _, hm⟩ | hm
      · split at hm <;> simp at hm
      · simp at hm
    | user k =>
      exfalso
      simp only [allowed, allowed0, refined, Bool.and_true, anyScript, anyMapper, Bool.or_eq_true, List.any_eq_true,
        List.mem_range, List.contains_iff_mem, forEachCfg] at ha
      rcases ha with ⟨i, _, hm⟩ | hm
      · split at hm <;> simp at hm
      · simp at hm
  | panic p =>
    cases p with
    | gen =>
      right; left
      refine ⟨rfl, ?_⟩
      simp only [allowed, allowed0, refined, Bool.and_true, genPanics, forEachCfg] at ha
      cases gp with
      | none => simp at ha
      | some k => exact ⟨k, rfl, of_decide_eq_true ha⟩
    | reducer => simp [allowed, allowed0, forEachCfg, hasPanic] at ha
    | multi => simp [allowed, allowed0, forEachCfg, writesOf] at ha
    | sendClosed => simp [allowed, allowed0, forEachCfg, writesOf] at ha
    | mapper i =>
      right; right
      simp only [allowed, allowed0, refined, Bool.and_true, Bool.and_eq_true, hasPanic,
        List.contains_iff_mem, forEachCfg] at ha
      refine ⟨i, of_decide_eq_true ha.1, ?_, rfl⟩
      have := ha.2
      split at this
      · assumption
      · simp at this

/-- **ForEach re-raises and otherwise maps every item exactly once**: a call that returns normally has captured no
panic, and (in a terminated run without panics) every item was handed to the mapper exactly once. -/
theorem forEach_panic_not_lost (n : Nat) (w : Int) (gp : Option Nat) (pan : Nat → Bool) (s : St)
    (h : ReachA (forEachCfg n w gp pan) s) (r : Res) (hr : result s = some r) (hnp : resIsPanic r = false) :
    s.wrote = false ∧ s.failed = 0 ∧ s.gpc = .done := by
  have hnc : noCancel (forEachCfg n w gp pan) = true := by
    simp only [noCancel, anyScript, anyMapper, Bool.and_eq_true, Bool.not_eq_true', Bool.or_eq_false_iff,
      List.any_eq_false, List.mem_range]
    refine ⟨⟨rfl, rfl⟩, fun i _ => ?_, by simp [forEachCfg, hasCancel, isCancel]⟩
    simp only [forEachCfg]
    split <;> simp [hasCancel, isCancel]
  have := panic_not_lost _ rfl hnc s h r hr hnp
  exact ⟨this.1, this.2.2.1, this.2.2.2.1⟩

theorem forEach_every_item_once (n : Nat) (w : Int) (s : St)
    (h : ReachA (forEachCfg n w none fun _ => false) s) (hst : ∀ a, stepA (forEachCfg n w none fun _ => false) s a = none) :
    result s = some (.err .noOutput) ∧ aliveCount (forEachCfg n w none fun _ => false) s = 0 ∧ s.dropped = [] ∧
    ∀ i, s.mapped.count i = if i < n then 1 else 0 := by
  have hff : faultFree (forEachCfg n w none fun _ => false) = true := by
    simp [faultFree, anyScript, anyMapper, forEachCfg, genPanics, hasCancel, hasPanic, isCancel]
  have R := reachA_reach h
  have hst' := fun a => (stepA_none_iff a rfl R).mp (hst a)
  have := faultfree_terminated _ hff rfl (clampWorkers_ge_one _) (by simp [forEachCfg, writesOf]) s R hst'
  exact ⟨by simpa [expected, forEachCfg, writesOf] using this.1, this.2.1, this.2.2.1, this.2.2.2.1⟩

theorem forEach_ends_clean (n : Nat) (w : Int) (gp : Option Nat) (pan : Nat → Bool) (s : St)
    (h : ReachA (forEachCfg n w gp pan) s) :
    ∃ s', StepsA (forEachCfg n w gp pan) s s' ∧ (∀ a, stepA (forEachCfg n w gp pan) s' a = none) ∧ result s' ≠ none ∧
      aliveCount (forEachCfg n w gp pan) s' = 0 := by
  obtain ⟨s', h1, _, h3, h4, h5⟩ :=
    every_run_ends_clean_now _ rfl (clampWorkers_ge_one _) (by simp [forEachCfg, writesOf]) s h
  exact ⟨s', h1, h3, h4, h5⟩

example : let c := forEachCfg 3 0 none (fun i => i == 1)
    let s := runPrioA c (actors c.n).reverse 400 (init c)
    c.workers = 1 ∧ result s = some (.panic (.mapper 1)) ∧ aliveCount c s = 0 := by decide

/-- the `repanic()` in ForEach's closed-collector branch (model: `CPc.check`) is needed: under a schedule in which
the caller is slow, the generator's panic is buffered, the collector is closed, the caller takes the closed
collector first and only the check re-raises the panic (the buffer is emptied by `check`, not by `callerPanic`). -/
example : let c := forEachCfg 0 1 (some 0) (fun _ => false)
    let s := runPrioA c [.gen, .disp, .dispCtx, .dispDone, .red, .callerOut, .caller, .callerPanic] 100 (init c)
    result s = some (.panic .gen) ∧ s.consumed = true ∧ aliveCount c s = 0 := by decide

/-! ### end-to-end: options → core (call site → wrapper → core) -/

/-- **Mapper cap for every option list.**  Whatever options are passed (none, several, arguments < 1), the number of
running mappers never exceeds the configured number `workersOf ws` (the last WithWorkers, clamped; 16 without one). -/
theorem cap_for_every_option_list (ws : List Int) (c : Cfg) (hc : c.workers = workersOf ws) (s : St) (h : ReachA c s) :
    cnt mRunning s.mp c.n ≤ workersOf ws := by
  have := (mapper_cap c s (reachA_reach h)).1
  omega

/-- **Clean termination for every option list**: no option list can configure a call that deadlocks or leaves a
goroutine behind (`1 ≤ workersOf ws` always). -/
theorem ends_clean_for_every_option_list (ws : List Int) (c : Cfg) (hc : c.workers = workersOf ws) (hf : c.fixed = true)
    (hr : (writesOf c.rscript).length ≤ 2) (s : St) (h : ReachA c s) :
    ∃ s', StepsA c s s' ∧ (∀ a, stepA c s' a = none) ∧ result s' ≠ none ∧ aliveCount c s' = 0 := by
  obtain ⟨s', h1, _, h3, h4, h5⟩ := every_run_ends_clean_now c hf (by rw [hc]; exact workersOf_ge_one ws) hr s h
  exact ⟨s', h1, h3, h4, h5⟩

/-! ### the decision for nil / ErrReduceNoOutput -/

/-- **The caller decides for ErrReduceNoOutput (nil for MapReduceVoid / Finish) only when no cancel has even begun,
the reducer goroutine has ended, the collector is closed and empty, and every mapper goroutine has ended**
(so every function that was started has returned, and none of them had called cancel). -/
theorem nil_decision (c : Cfg) (s s' : St) (h : ReachA c s) (hs : step c s .callerOut = some s')
    (hr : s'.cpc = .defer (.err .noOutput)) :
    s.retErr = none ∧ s.once = 0 ∧ s.fin = true ∧ s.rpc = .done ∧ s.collClosed = true ∧ s.collQ = [] ∧ s.wg = 0 ∧
    ∀ i, inWg (s.mp i) = false := by
  have R := reachA_reach h
  have IC := invC_reach R
  have IB := invB_reach R
  have IE := invE_reach R
  simp only [step] at hs
  split at hs
  next hc =>
    simp at hs; subst hs
    simp only [CPc.defer.injEq] at hr
    have hret : s.retErr = none := by
      unfold outRes at hr
      cases he : s.retErr with
      | none => rfl
      | some e =>
        rw [he] at hr
        simp at hr
        have := IC.ret e he
        rw [hr] at this
        exact this.elim
    have honce : s.once = 0 := by
      cases Nat.eq_zero_or_pos s.once with
      | inl h0 => exact h0
      | inr h0 => exact absurd hret (IC.once1 (by omega))
    have hrd : s.rpc = .done := by
      rcases IC.finw hc.2 with h2 | h2
      · omega
      · exact h2
    have hcq := IE.r1 (by simp [hrd, rAfterDrain])
    have hwg : s.wg = 0 := IB.dafter (IB.collc hcq.1).1
    refine ⟨hret, honce, hc.2, hrd, hcq.1, hcq.2, hwg, fun i => ?_⟩
    by_cases hi : i < c.n
    · have := cnt_ge inWg s.mp c.n i hi
      rw [← IB.wgc, hwg] at this
      cases hx : inWg (s.mp i) <;> simp [hx, b2n] at this ⊢
    · have : s.mp i = .idle := by
        cases hm : s.mp i with
        | idle => rfl
        | _ => exact absurd (IC.mlt i (by simp [hm])) hi
      simp [this, inWg]
  next => simp at hs

/-- non-vacuity: the decision point is reached in a plain Finish of three nil functions. -/
example : let c := finishCfg [.ok, .ok, .ok]
    let s := runPrioA c [.gen, .disp, .mapper 0, .mapper 1, .mapper 2, .red] 400 (init c)
    (step c s .callerOut).map (·.cpc) = some (.defer (.err .noOutput)) ∧ s.wg = 0 := by decide

/-- **ErrReduceNoOutput / nil means that nothing was cancelled and nothing panicked in any mapper.**  Without a
context and with a generator that does not panic: if a call returns ErrReduceNoOutput (nil for MapReduceVoid /
Finish), then NO mapper script contains a cancel or a panic — every item was handed to a mapper, every mapper ran
its whole script (`ProofsN.decision_clean`), and a captured panic would have been re-raised instead. -/
theorem nil_only_if_scripts_clean (c : Cfg) (hf : c.fixed = true) (h1 : c.ctxCan = false) (h2 : c.ctxPre = false)
    (h3 : c.gPanicAt = none) (s : St) (h : ReachA c s) (hr : result s = some (.err .noOutput)) :
    ∀ i, i < c.n → hasCancel (c.mscript i) = false ∧ hasPanic (c.mscript i) = false := by
  have I := invFin_reachA ⟨h1, h2, h3⟩ hf h
  unfold result at hr
  split at hr
  next r' hc => simp at hr; subst hr; exact I.f2 hc
  next => simp at hr

/-- **Finish returns nil only if every function returned nil** (for every list of functions, every schedule). -/
theorem finish_nil_only_if_all_ok (fns : List FnAct) (s : St) (h : ReachA (finishCfg fns) s)
    (hr : result s = some (.err .noOutput)) : ∀ f ∈ fns, f = .ok := by
  have hc := nil_only_if_scripts_clean (finishCfg fns) rfl rfl rfl rfl s h hr
  intro f hf
  obtain ⟨i, hi, rfl⟩ := List.getElem_of_mem hf
  have := hc i hi
  rw [finishCfg_mscript fns i hi] at this
  cases hx : fns[i] <;> simp [hx, fnScript, hasCancel, hasPanic, isCancel] at this ⊢

/-- non-vacuity: a Finish of three nil functions does return nil, one with an error does not. -/
example : let c := finishCfg [.ok, .ok, .ok]
    result (runPrioA c (actors c.n) 400 (init c)) = some (.err .noOutput) := by decide
example : let c := finishCfg [.ok, .err 7, .ok]
    result (runPrioA c (actors c.n).reverse 400 (init c)) = some (.err (.user 7)) := by decide

end GoZero.C10
