/-
C10 — round 2 invariants: the refined returned-error table (the value is the reducer's first write,
ErrReduceNoOutput needs an empty/droppable/panicking reducer), the ghost snapshots behind the
schedule-aware table (`Spec.allowedAt`), and "an item is dropped only after a fault".
-/
import GoZero.C10.ProofsA
namespace GoZero.C10

/-- the reducer function has ended (normally or by a panic). -/
def rEnded : RPc → Bool
  | .drain _ => true
  | .pwrite _ => true
  | .psend _ => true
  | .finish => true
  | .done => true
  | _ => false

/-- the dispatcher has left its loop. -/
def dWaiting : DPc → Bool
  | .wait => true
  | .closeColl => true
  | .drain => true
  | .done => true
  | _ => false

/-- what is left of the reducer's script after the action it is executing. -/
def rRem2 : RPc → Option (List UAct)
  | .run sc => some sc
  | .send _ sc => some sc
  | .cdrain sc => some sc
  | _ => none

def isValRes (r : Res) (v : Nat) : Prop := r = .val v

/-- case analysis over the branches of a step function (already unfolded in `h`): leaves one goal per
branch with `s'` replaced by the explicit successor state. -/
macro "leaves " h:ident : tactic => `(tactic| (
  repeat' split at $h:ident
  all_goals (try (simp only [Option.map_eq_some_iff] at $h:ident; obtain ⟨s1, h1, h2⟩ := $h:ident;
                  rcases panicSend_eq h1 with ⟨_, _, h3⟩ | ⟨_, _, h3⟩ <;> subst h3 <;> subst h2))
  all_goals (try (simp only [Option.some.injEq, reduceCtorEq] at $h:ident))
  all_goals (try subst $h:ident)))

theorem srcRecv_run {c : Cfg} {s : St} {i : Nat} (h : srcRecv c s = some (some i)) : s.gpc = .run := by
  unfold srcRecv genSending at h
  split at h
  · simp_all
  · split at h <;> simp at h

theorem srcRecv_closed {c : Cfg} {s : St} (h : srcRecv c s = some none) : s.srcClosed = true := by
  unfold srcRecv at h
  split at h
  · simp at h
  · split at h <;> simp_all

theorem anyMapper_of {c : Cfg} {p : List UAct → Bool} {i : Nat} (hi : i < c.n) (h : p (c.mscript i) = true) :
    anyMapper c p = true := by
  simp only [anyMapper, List.any_eq_true, List.mem_range]
  exact ⟨i, hi, h⟩

structure InvF (c : Cfg) (s : St) : Prop where
  f1 : s.srcClosed = true → s.gpc = .done
  f2u : s.dpc = .unpool → s.srcClosed = true
  f2 : dWaiting s.dpc = true → s.failed ≠ 0 ∨ s.ctxDone = true ∨ s.fin = true ∨ s.srcClosed = true
  f3 : s.dropped ≠ [] → s.once ≠ 0 ∨ s.failed ≠ 0 ∨ s.ctxDone = true ∨ s.fin = true
  f4 : s.failed ≠ 0 → anyMapper c hasPanic = true
  f5 : s.once = 0 → s.retErr = none

theorem invF_init (c : Cfg) : InvF c (init c) := by
  constructor <;> simp [init, dWaiting]

attribute [local grind] dWaiting in
theorem invF_gen {c : Cfg} {s s' : St} (I : InvF c s) (h : stepGen c s = some s') : InvF c s' := by
  obtain ⟨f1, f2u, f2, f3, f4, f5⟩ := I
  unfold stepGen at h
  leaves h
  all_goals (constructor <;> first | assumption | grind)

attribute [local grind] dWaiting in
theorem invF_disp {c : Cfg} {s s' : St} (I : InvF c s) (h : stepDisp c s = some s') : InvF c s' := by
  obtain ⟨f1, f2u, f2, f3, f4, f5⟩ := I
  have hsr := fun i => @srcRecv_run c s i
  have hsc := @srcRecv_closed c s
  unfold stepDisp at h
  leaves h
  all_goals (constructor <;> first | assumption | grind)

attribute [local grind] dWaiting in
theorem invF_mapper {c : Cfg} {s s' : St} (i : Nat) (IC : InvC c s) (I : InvF c s) (h : stepMapper c s i = some s') : InvF c s' := by
  obtain ⟨f1, f2u, f2, f3, f4, f5⟩ := I
  have hsr := fun i => @srcRecv_run c s i
  have hsc := @srcRecv_closed c s
  have ham := fun i hi h => @anyMapper_of c hasPanic i hi h
  have hmcd := IC.mcd
  have hmpan := IC.mpan
  have hmlt := IC.mlt
  clear IC
  unfold stepMapper at h
  leaves h
  all_goals (constructor <;> first | assumption | grind)

attribute [local grind] dWaiting in
theorem invF_red {c : Cfg} {s s' : St} (IC : InvC c s) (I : InvF c s) (h : stepRed c s = some s') : InvF c s' := by
  obtain ⟨f1, f2u, f2, f3, f4, f5⟩ := I
  have hsr := fun i => @srcRecv_run c s i
  have hsc := @srcRecv_closed c s
  have hrcd := IC.rcd
  clear IC
  unfold stepRed at h
  leaves h
  all_goals (constructor <;> first | assumption | grind)

attribute [local grind] dWaiting in
theorem invF_caller {c : Cfg} {s s' : St} (IC : InvC c s) (I : InvF c s) (h : stepCaller c s = some s') : InvF c s' := by
  obtain ⟨f1, f2u, f2, f3, f4, f5⟩ := I
  have hsr := fun i => @srcRecv_run c s i
  have hsc := @srcRecv_closed c s
  have hccd := IC.ccd
  clear IC
  unfold stepCaller at h
  leaves h
  all_goals (constructor <;> first | assumption | grind)

attribute [local grind] dWaiting in
theorem invF_step {c : Cfg} {s s' : St} (a : Actor) (IC : InvC c s) (I : InvF c s) (h : step c s a = some s') : InvF c s' := by
  cases a with
  | gen => exact invF_gen I h
  | disp => exact invF_disp I h
  | mapper i => exact invF_mapper i IC I h
  | red => exact invF_red IC I h
  | caller => exact invF_caller IC I h
  | _ =>
    obtain ⟨f1, f2u, f2, f3, f4, f5⟩ := I
    clear IC
    simp only [step] at h
    leaves h
    all_goals (constructor <;> first | assumption | grind)

/-- a recorded error is never replaced (cancel runs under a `sync.Once`). -/
theorem retErr_stable {c : Cfg} {s s' : St} {a : Actor} {e : Err} (h : step c s a = some s')
    (ho : s.once ≠ 0) (he : s.retErr = some e) : s'.retErr = some e := by
  cases a <;> simp only [step] at h
  all_goals (try unfold stepGen at h)
  all_goals (try unfold stepDisp at h)
  all_goals (try unfold stepMapper at h)
  all_goals (try unfold stepRed at h)
  all_goals (try unfold stepCaller at h)
  all_goals (leaves h)
  all_goals (first | assumption | grind)

theorem invF_reach {c : Cfg} {s : St} (h : Reach c s) : InvF c s := by
  induction h with
  | init => exact invF_init c
  | step a hr hs ih => exact invF_step a (invC_reach hr) ih hs

/-! ### the refined table and the snapshots -/

theorem snapOnce_cases (o : Option Bool) (b : Bool) :
    (o = none ∧ snapOnce o b = some b) ∨ (∃ x, o = some x ∧ snapOnce o b = some x) := by
  cases o <;> simp [snapOnce]

theorem optBool_cases (o : Option Bool) : o = none ∨ o = some true ∨ o = some false := by
  rcases o with _ | _ | _ <;> simp

theorem isSome_cases (o : Option Err) : (o = none ∧ o.isSome = false) ∨ (o ≠ none ∧ o.isSome = true) := by
  cases o <;> simp

structure InvD (c : Cfg) (s : St) : Prop where
  v1 : s.cpc = .sel → ∀ l, rRem s.rpc = some l → writesOf l = writesOf c.rscript ∨ s.ctxDone = true ∨ s.fin = true
  v1s : s.cpc = .sel → ∀ v sc, s.rpc = .send v sc → writesOf c.rscript = v :: writesOf sc
  v2 : ∀ v, (s.cpc = .defer (.val v) ∨ s.cpc = .check (.val v) ∨ s.cpc = .done (.val v)) →
        (writesOf c.rscript).head? = some v ∧ s.wSnap = some false
  w1 : s.wSnap = some true → s.retErr ≠ none ∨ s.ctxDone = true
  w4 : ∀ l, rRem2 s.rpc = some l → writesOf l = writesOf c.rscript → s.wSnap = none
  w3 : s.cpc = .sel → ∀ v sc, s.rpc = .send v sc → s.wSnap = some false ∨ s.retErr ≠ none
  n1 : rEnded s.rpc = true → s.eSnap ≠ none
  n1' : s.eSnap = some true → s.retErr ≠ none
  n2 : s.cpc = .sel → rEnded s.rpc = true →
        writesOf c.rscript = [] ∨ s.ctxDone = true ∨ s.retErr ≠ none ∨ hasPanic c.rscript = true
  n3 : (s.cpc = .defer (.err .noOutput) ∨ s.cpc = .check (.err .noOutput) ∨ s.cpc = .done (.err .noOutput)) →
        (writesOf c.rscript = [] ∨ c.ctxCan = true ∨ c.ctxPre = true ∨ hasPanic c.rscript = true) ∧ s.eSnap = some false

theorem invD_init (c : Cfg) : InvD c (init c) := by
  constructor <;> simp [init, rRem, rRem2, rEnded]

section
attribute [local grind] rRem rRem2 rEnded writesOf outRes

theorem invD_gen {c : Cfg} {s s' : St} (I : InvD c s) (h : stepGen c s = some s') : InvD c s' := by
  obtain ⟨v1, v1s, v2, w1, w4, w3, n1, n1', n2, n3⟩ := I
  unfold stepGen at h
  leaves h
  all_goals (constructor <;> first | assumption | grind)

theorem invD_disp {c : Cfg} {s s' : St} (I : InvD c s) (h : stepDisp c s = some s') : InvD c s' := by
  obtain ⟨v1, v1s, v2, w1, w4, w3, n1, n1', n2, n3⟩ := I
  unfold stepDisp at h
  leaves h
  all_goals (constructor <;> first | assumption | grind)

theorem invD_mapper {c : Cfg} {s s' : St} (i : Nat) (I : InvD c s) (h : stepMapper c s i = some s') : InvD c s' := by
  obtain ⟨v1, v1s, v2, w1, w4, w3, n1, n1', n2, n3⟩ := I
  unfold stepMapper at h
  leaves h
  all_goals (constructor <;> first | assumption | grind)

theorem invD_red {c : Cfg} {s s' : St} (IC : InvC c s) (I : InvD c s) (h : stepRed c s = some s') : InvD c s' := by
  obtain ⟨v1, v1s, v2, w1, w4, w3, n1, n1', n2, n3⟩ := I
  have hlen : ∀ l, rRem s.rpc = some l → (writesOf l).length ≤ (writesOf c.rscript).length :=
    fun l hl => writesOf_suffix_le (IC.rsuf l hl)
  have hpan : ∀ sc, s.rpc = .run (.panic :: sc) → hasPanic c.rscript = true := by
    intro sc hsc
    have := suffix_head_mem (IC.rsuf (.panic :: sc) (by simp [hsc, rRem]))
    simpa [hasPanic] using this
  have hret : s.retErr ≠ some .noOutput := fun he => IC.ret _ he
  have hfinw := IC.finw
  have honce1 := IC.once1
  have honce2 := IC.once2
  have hs1 := snapOnce_cases s.eSnap s.retErr.isSome
  have hs2 := snapOnce_cases s.wSnap (s.retErr.isSome || s.ctxDone)
  have hs3 := isSome_cases s.retErr
  clear IC
  unfold stepRed at h
  leaves h
  all_goals (constructor <;> first | assumption | grind)

theorem invD_caller {c : Cfg} {s s' : St} (I : InvD c s) (h : stepCaller c s = some s') : InvD c s' := by
  obtain ⟨v1, v1s, v2, w1, w4, w3, n1, n1', n2, n3⟩ := I
  unfold stepCaller at h
  leaves h
  all_goals (constructor <;> first | assumption | grind)

theorem invD_step {c : Cfg} {s s' : St} (a : Actor) (IC : InvC c s) (I : InvD c s) (h : step c s a = some s') : InvD c s' := by
  cases a with
  | gen => exact invD_gen I h
  | disp => exact invD_disp I h
  | mapper i => exact invD_mapper i I h
  | red => exact invD_red IC I h
  | caller => exact invD_caller I h
  | _ =>
    obtain ⟨v1, v1s, v2, w1, w4, w3, n1, n1', n2, n3⟩ := I
    have hfinw := IC.finw
    have honce1 := IC.once1
    have hctx := IC.ctx
    have hret : s.retErr ≠ some .noOutput := fun he => IC.ret _ he
    have hob := optBool_cases s.eSnap
    clear IC
    simp only [step] at h
    leaves h
    all_goals (constructor <;> first | assumption | grind)

end

theorem invD_reach {c : Cfg} {s : St} (h : Reach c s) : InvD c s := by
  induction h with
  | init => exact invD_init c
  | step a hr hs ih => exact invD_step a (invC_reach hr) ih hs

end GoZero.C10
