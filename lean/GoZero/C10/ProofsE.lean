/-
C10 — progress invariants of the repaired code (towards `Props.no_deadlock`): the panic channel's single
write never blocks, a goroutine waiting in `cancel`'s sync.Once implies a runner draining the source, the
collector is closed once the dispatcher drains, the reducer goroutine ends only on a closed and empty
collector, the caller passes its deferred function only after `finish`.
-/
import GoZero.C10.ProofsD
namespace GoZero.C10

def rIsPsend : RPc → Bool
  | .psend _ => true
  | _ => false

def rIsCdrain : RPc → Bool
  | .cdrain _ => true
  | _ => false

def mIsCdrain : MPc → Bool
  | .cdrain _ => true
  | _ => false

/-- the reducer goroutine is past its deferred `drain(collector)`. -/
def rAfterDrain : RPc → Bool
  | .pwrite _ => true
  | .psend _ => true
  | .finish => true
  | .done => true
  | _ => false

structure InvE (c : Cfg) (s : St) : Prop where
  -- onceChan: whoever won the CAS is the only one that will ever send, and the buffer is empty until it does
  p1 : s.wrote = false → s.pbuf = none ∧ s.gpc ≠ .psend ∧ (∀ i, s.mp i ≠ .psend) ∧ rIsPsend s.rpc = false
  p2 : s.gpc = .psend → s.pbuf = none ∧ (∀ i, s.mp i ≠ .psend) ∧ rIsPsend s.rpc = false
  p3 : ∀ i, s.mp i = .psend → s.pbuf = none ∧ s.gpc ≠ .psend ∧ (∀ j, j ≠ i → s.mp j ≠ .psend) ∧ rIsPsend s.rpc = false
  p4 : rIsPsend s.rpc = true → s.pbuf = none ∧ s.gpc ≠ .psend ∧ (∀ i, s.mp i ≠ .psend)
  -- cancel's sync.Once: while it runs, its runner drains the source
  o1a : s.once = 1 → s.onceBy ≠ none
  o1m : ∀ i, s.once = 1 → s.onceBy = some (.mapper i) → mIsCdrain (s.mp i) = true
  o1r : s.once = 1 → s.onceBy = some .reducer → rIsCdrain s.rpc = true
  o1c : s.once = 1 → s.onceBy = some .caller → s.cpc = .cdrain
  g1 : s.gpc = .done → s.srcClosed = true
  d1 : (s.dpc = .drain ∨ s.dpc = .done) → s.collClosed = true
  d2 : s.dpc = .done → s.srcClosed = true
  r1 : rAfterDrain s.rpc = true → s.collClosed = true ∧ s.collQ = []
  r2 : s.rpc = .done → s.fin = true
  c1 : ∀ r, s.cpc = .check r → s.fin = true
  c2 : ∀ r, s.cpc = .done r → s.fin = true ∨ (r = .panic .multi ∧ rW s.rpc + 2 ≤ (writesOf c.rscript).length)

theorem invE_init (c : Cfg) : InvE c (init c) := by
  constructor <;> simp [init, rIsPsend, rIsCdrain, rAfterDrain]

section
attribute [local grind] rIsPsend rIsCdrain mIsCdrain rAfterDrain upd rW rRem writesOf

theorem invE_gen {c : Cfg} {s s' : St} (I : InvE c s) (h : stepGen c s = some s') : InvE c s' := by
  obtain ⟨p1, p2, p3, p4, o1a, o1m, o1r, o1c, g1, d1, d2, r1, r2, c1, c2⟩ := I
  unfold stepGen at h
  leaves h
  all_goals (constructor <;> first | assumption | grind)

theorem invE_disp {c : Cfg} {s s' : St} (IB : InvB c s) (I : InvE c s) (h : stepDisp c s = some s') : InvE c s' := by
  obtain ⟨p1, p2, p3, p4, o1a, o1m, o1r, o1c, g1, d1, d2, r1, r2, c1, c2⟩ := I
  have hsc := @srcRecv_closed c s
  have hsi := IB.spawnidle
  have hcc := IB.collc
  clear IB
  unfold stepDisp at h
  leaves h
  all_goals (constructor <;> first | assumption | grind)

theorem invE_mapper {c : Cfg} {s s' : St} (i : Nat) (I : InvE c s) (h : stepMapper c s i = some s') : InvE c s' := by
  obtain ⟨p1, p2, p3, p4, o1a, o1m, o1r, o1c, g1, d1, d2, r1, r2, c1, c2⟩ := I
  unfold stepMapper at h
  leaves h
  all_goals (constructor <;> first | assumption | grind)

theorem invE_red {c : Cfg} {s s' : St} (IC : InvC c s) (I : InvE c s) (h : stepRed c s = some s') : InvE c s' := by
  obtain ⟨p1, p2, p3, p4, o1a, o1m, o1r, o1c, g1, d1, d2, r1, r2, c1, c2⟩ := I
  have hmulti := IC.multi
  clear IC
  unfold stepRed at h
  leaves h
  all_goals (constructor <;> first | assumption | grind [callerPast])

theorem invE_caller {c : Cfg} {s s' : St} (I : InvE c s) (h : stepCaller c s = some s') : InvE c s' := by
  obtain ⟨p1, p2, p3, p4, o1a, o1m, o1r, o1c, g1, d1, d2, r1, r2, c1, c2⟩ := I
  unfold stepCaller at h
  leaves h
  all_goals (constructor <;> first | assumption | grind)

theorem invE_step {c : Cfg} {s s' : St} (a : Actor) (IC : InvC c s) (IB : InvB c s) (I : InvE c s) (h : step c s a = some s') : InvE c s' := by
  cases a with
  | gen => exact invE_gen I h
  | disp => exact invE_disp IB I h
  | mapper i => exact invE_mapper i I h
  | red => exact invE_red IC I h
  | caller => exact invE_caller I h
  | _ =>
    obtain ⟨p1, p2, p3, p4, o1a, o1m, o1r, o1c, g1, d1, d2, r1, r2, c1, c2⟩ := I
    clear IC IB
    simp only [step] at h
    leaves h
    all_goals (constructor <;> first | assumption | grind)

end

theorem invE_reach {c : Cfg} {s : St} (h : Reach c s) : InvE c s := by
  induction h with
  | init => exact invE_init c
  | step a hr hs ih => exact invE_step a (invC_reach hr) (invB_reach hr) ih hs

end GoZero.C10
