/-
C10 — "a user panic is re-raised": when nobody cancels, the context cannot end and the generator does not
panic, a call that returns without panicking has captured no panic at all (and nobody is handling one).
The generator is excluded because of `Props.generator_panic_can_be_lost` (a real race of onceChan.write).
-/
import GoZero.C10.ProofsE
namespace GoZero.C10

/-- nobody cancels, the context cannot end, the generator does not panic. -/
structure NCFacts (c : Cfg) : Prop where
  ctxCan : c.ctxCan = false
  ctxPre : c.ctxPre = false
  gen : genPanics c = false
  mcancel : ∀ i, i < c.n → hasCancel (c.mscript i) = false
  rcancel : hasCancel c.rscript = false

theorem ncfacts_of {c : Cfg} (h : noCancel c = true) (hg : genPanics c = false) : NCFacts c := by
  simp only [noCancel, anyScript, anyMapper, Bool.and_eq_true, Bool.not_eq_true', Bool.or_eq_false_iff,
    List.any_eq_false, List.mem_range] at h
  obtain ⟨⟨h1, h2⟩, h4, h5⟩ := h
  exact ⟨h1, h2, hg, fun i hi => by simpa using h4 i hi, h5⟩

structure XN (s : St) : Prop where
  retErr : s.retErr = none
  once : s.once = 0
  ctxDone : s.ctxDone = false
  gpc1 : s.gpc ≠ .pwrite
  gpc2 : s.gpc ≠ .psend
  finr : s.fin = true → s.rpc = .done

theorem xn_of {c : Cfg} {s : St} (F : NCFacts c) (I : InvC c s) : XN s := by
  have hret : s.retErr = none := by
    cases h : s.retErr with
    | none => rfl
    | some e =>
      rcases errOK_faulty (I.ret e h) with h1 | h1 | h1
      · simp [F.ctxCan] at h1
      · simp [F.ctxPre] at h1
      · exfalso
        simp only [anyScript, anyMapper, Bool.or_eq_true, List.any_eq_true, List.mem_range] at h1
        rcases h1 with ⟨i, hi, h2⟩ | h2
        · simp [F.mcancel i hi] at h2
        · simp [F.rcancel] at h2
  have honce : s.once = 0 := by
    cases Nat.eq_zero_or_pos s.once with
    | inl h => exact h
    | inr h => exact absurd hret (I.once1 (by omega))
  refine ⟨hret, honce, ?_, ?_, ?_, ?_⟩
  · cases h : s.ctxDone with
    | false => rfl
    | true => rcases I.ctx h with h1 | h1 <;> simp [F.ctxCan, F.ctxPre] at h1
  · intro h; have := I.gp (Or.inl h); simp [F.gen] at this
  · intro h; have := I.gp (Or.inr h); simp [F.gen] at this
  · intro h
    rcases I.finw h with h2 | h2
    · omega
    · exact h2

def resIsPanic : Res → Bool
  | .panic _ => true
  | _ => false

/-- the caller has taken the panic value (or panics for another reason). -/
def cPan : CPc → Bool
  | .drainOut _ => true
  | .done (.panic _) => true
  | _ => false

structure InvP (c : Cfg) (s : St) : Prop where
  k0 : ∀ p, (s.rpc = .drain (some p) ∨ s.rpc = .pwrite p ∨ s.rpc = .psend p) → p = .reducer ∨ p = .sendClosed
  k1n : s.wrote = true → s.wroteBy = some .gen ∨ (∃ i, s.wroteBy = some (.mapper i)) ∨ s.wroteBy = some .reducer ∨
          s.wroteBy = some .sendClosed
  k1g : s.wrote = true → s.consumed = false → s.pbuf = none → s.wroteBy = some .gen → s.gpc = .psend
  k1m : ∀ i, s.wrote = true → s.consumed = false → s.pbuf = none → s.wroteBy = some (.mapper i) → s.mp i = .psend
  k1r : s.wrote = true → s.consumed = false → s.pbuf = none → (s.wroteBy = some .reducer ∨ s.wroteBy = some .sendClosed) →
          rIsPsend s.rpc = true
  k2 : s.consumed = true → cPan s.cpc = true
  k3 : ∀ r, s.cpc = .done r → resIsPanic r = false → s.pbuf = none ∧ s.wrote = false

theorem invP_init (c : Cfg) : InvP c (init c) := by
  constructor <;> simp [init]

/-- once `finish` has happened and nobody cancelled, the reducer goroutine has ended and no mapper goroutine
is in the wait group any more. -/
theorem quiet_of_fin {c : Cfg} {s : St} (X : XN s) (IC : InvC c s) (IB : InvB c s) (IE : InvE c s) (hf : s.fin = true) :
    s.rpc = .done ∧ ∀ i, inWg (s.mp i) = false := by
  have hr := X.finr hf
  refine ⟨hr, fun i => ?_⟩
  have hcq := IE.r1 (by simp [hr, rAfterDrain])
  have hwg : s.wg = 0 := IB.dafter (IB.collc hcq.1).1
  by_cases hi : i < c.n
  · have := cnt_ge inWg s.mp c.n i hi
    rw [← IB.wgc, hwg] at this
    cases hx : inWg (s.mp i) <;> simp [hx, b2n] at this ⊢
  · have : s.mp i = .idle := by
      cases hm : s.mp i with
      | idle => rfl
      | _ => exact absurd (IC.mlt i (by simp [hm])) hi
    simp [this, inWg]

section
attribute [local grind] cPan resIsPanic rIsPsend upd inWg

theorem invP_step {c : Cfg} {s s' : St} (a : Actor) (F : NCFacts c) (hfx : c.fixed = true) (IC : InvC c s) (IB : InvB c s)
    (IE : InvE c s) (I : InvP c s) (h : step c s a = some s') : InvP c s' := by
  obtain ⟨k0, k1n, k1g, k1m, k1r, k2, k3⟩ := I
  have hsi := IB.spawnidle
  have X := xn_of F IC
  have hq := fun hf => quiet_of_fin X IC IB IE hf
  obtain ⟨_, _, _, hg1, hg2, _⟩ := X
  have hc1 := IE.c1
  have hc2 := IE.c2
  have hp1 := IE.p1
  have hp2 := IE.p2
  have hp3 := IE.p3
  have hp4 := IE.p4
  clear IC IB IE
  cases a <;> simp only [step] at h
  all_goals (try unfold stepGen at h)
  all_goals (try unfold stepDisp at h)
  all_goals (try unfold stepMapper at h)
  all_goals (try unfold stepRed at h)
  all_goals (try unfold stepCaller at h)
  all_goals (leaves h)
  all_goals (constructor <;> first | assumption | grind)

end

theorem invP_reach {c : Cfg} (hnc : noCancel c = true) (hg : genPanics c = false) (hfx : c.fixed = true) {s : St}
    (h : Reach c s) : InvP c s := by
  induction h with
  | init => exact invP_init c
  | step a hr hs ih =>
    exact invP_step a (ncfacts_of hnc hg) hfx (invC_reach hr) (invB_reach hr) (invE_reach hr) ih hs

end GoZero.C10
