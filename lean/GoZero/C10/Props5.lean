/-
C10 — round 5 property theorems: the error VALUE classes (a zero-valued dynamic value is a non-nil error), the glue of
`MapReduceVoid` / `Finish` for a cancel error that is or wraps the library's own sentinel (defect found in this round,
witness `void_swallowed_the_cancel_error`, fixed by fixes/C10-void-cancel-sentinel.patch).
-/
import GoZero.C10.Props4
import GoZero.C10.Spec5
namespace GoZero.C10.Props5
open GoZero.C10

/-! ### error values: `AtomicError.Set` tests the INTERFACE for nil, nothing else -/

/-- every non-nil error is recorded, whatever its code — in particular the zero-valued classes (empty struct, code 0,
empty string, typed nil pointer, nil slice, all-zero struct). -/
theorem ae_set_records_every_value (cur : Option Nat) (k : Nat) : aeLoad (aeSet cur (some k)) = some k := by
  simp [aeSet, aeLoad]

/-- `cancel(e)` for the harness token `c<k>`: the recorded error is ErrCancelWithNil for k = 0 / 110 and the error
itself for EVERY other class. -/
theorem cancel_records_every_class (k : Nat) :
    aeLoad (cancelRecords ((cancelArg k).map fun k => encErr (.user k))) =
      some (if k = 0 ∨ k = 110 then encErr .nilCancel else encErr (.user k)) := by
  rw [cancel_records_an_error]
  unfold cancelArg
  split <;> simp [cancelErr]

/-- the seeded "hardening" `err != nil && !reflect.ValueOf(err).IsZero()` loses the error for every zero-valued
class: the cell stays empty, the caller decides for the value / ErrReduceNoOutput. -/
theorem isZero_variant_loses_the_error :
    ∀ k ∈ zeroValuedKinds, aeLoad (aeSetIsZero none (some k)) = none ∧ aeLoad (aeSet none (some k)) = some k := by
  decide

example : (callerOutput (aeSetIsZero none (some 104)) true 7) = (7, none) ∧
    (callerOutput (aeSet none (some 104)) true 7) = (0, some 104) := by decide

/-! ### MapReduceVoid / Finish: the error that was passed to cancel comes back -/

/-- DEFECT WITNESS (the code before the round-5 fix): a user function of `MapReduceVoid` / `Finish` cancels with an
error that is `ErrReduceNoOutput` (code 111) or wraps it (112) — e.g. the error of a nested `MapReduce` without
output — the cancel wins, and the call returns nil: the error is swallowed although the remaining work was aborted.
Replayed on the real code: `run api=finish n=1 w=1 … m=us0.c112` => `ok`. -/
theorem void_swallowed_the_cancel_error :
    voidCancelPipelineOld (some (encErr (.user 111))) false 0 = none ∧
    voidCancelPipelineOld (some (encErr (.user 112))) false 0 = none := by decide

/-- with the mark, the whole path call site → `markCancel` → `cancel` (records) → the caller's output branch →
`MapReduceVoid`'s return gives back the error that was passed to cancel, for EVERY error (also the sentinels and what
wraps them), ErrCancelWithNil for nil — whatever the output channel delivered. -/
theorem void_returns_the_cancel_error (e : Option Nat) (ok : Bool) (v : Nat) :
    voidCancelPipeline e ok v = some (e.getD (encErr .nilCancel)) := by
  cases e <;> simp [voidCancelPipeline, markCancelArgM, voidReturnNow, voidReturnIs, isNoOutput, callerOutput,
    cancelRecords, aeSet, aeLoad, encErr]

/-- an error without the mark is one the library itself reports: only a nil argument stays unmarked. -/
theorem unmarked_only_nil (e : Option Nat) : (markCancelArgM e).2 = false ↔ e = none := by
  cases e <;> simp [markCancelArgM]

/-- nothing was cancelled and the (void) reducer ended: nil. -/
theorem void_no_cancel_is_nil (v : Nat) : voidReturnNow false (callerOutput none false v).2 = none := by
  simp [voidReturnNow, voidReturnIs, isNoOutput, callerOutput, aeLoad, encErr]

/-- `MapReduceVoid` returns nil ONLY for the caller's own "no output" decision (or a nil error): never for a marked
error. -/
theorem voidReturnNow_nil_iff (fc : Bool) (e : Option Nat) :
    voidReturnNow fc e = none ↔ e = none ∨ (fc = false ∧ isNoOutput e = true) := by
  cases fc <;> simp [voidReturnNow, voidReturnIs] <;> cases h : isNoOutput e <;> simp_all [isNoOutput]

/-- for the library's own errors the new glue agrees with the old one (`Spec.voidReturn`, what `Props4.void_outcome`
was stated with): nothing changes when no user error is / wraps the sentinel. -/
theorem voidReturnNow_agrees (x : Err) (hx : ∀ k, x = .user k → k ≠ 111 ∧ k ≠ 112) :
    voidReturnNow false (some (encErr x)) = voidReturn (some (encErr x)) := by
  cases x with
  | user k =>
    have := hx k rfl
    simp [voidReturnNow, voidReturnIs, isNoOutput, voidReturn, encErr]; omega
  | _ => simp [voidReturnNow, voidReturnIs, isNoOutput, voidReturn, encErr]

/-! ### a recorded error decides the caller's output branch -/

/-- model side: once an error is recorded, the caller's output branch returns it — no value, no ErrReduceNoOutput —
whatever `output` delivers. -/
theorem recorded_error_beats_output (x : Err) (ok : Bool) (v : Nat) :
    callerOutput (some (encErr x)) ok v = (0, some (encErr x)) := by
  simp [callerOutput, aeLoad]

/-! ### several cancels in one call: cancel is idempotent after the first (round 5b) -/

/-- under `once` no sequence of cancel calls — whatever the dynamic types of their errors — makes the cell panic, and
the recorded error is the FIRST one. -/
theorem once_records_the_first (e : TErr) (es : List TErr) : cancelsWithOnce (e :: es) = some (some e) := rfl

theorem once_never_panics (es : List TErr) : cancelsWithOnce es ≠ none := by
  cases es <;> simp [cancelsWithOnce, aeStoreTyped]

/-- WITHOUT the wrapper (seeded C10-8) two cancels with errors of different dynamic types panic inside the library —
a panic no user function raised — and two of the same type return the LATER error. -/
theorem without_once_panics_or_overwrites :
    cancelsWithoutOnce [(5, 0), (1, 1)] = none ∧ cancelsWithoutOnce [(5, 0), (6, 0)] = some (some (6, 0)) := by decide

/-- without the wrapper the cell never panics only if all errors have one dynamic type. -/
theorem without_once_ok_of_one_type (t : Nat) (es : List TErr) (h : ∀ e ∈ es, e.2 = t) (c : TErr) (hc : c.2 = t) :
    (es.foldlM aeStoreTyped (some c)).isSome = true := by
  induction es generalizing c with
  | nil => rfl
  | cons a as ih =>
    have ha : a.2 = t := h a (by simp)
    simp only [List.foldlM_cons, aeStoreTyped, hc, ha, if_true]
    exact ih (fun e he => h e (by simp [he])) a ha

/-- the model: a second cancel, once the first has completed (`once = 2`), changes neither the recorded error nor
anything else but the caller's own script position (`Props.first_cancel_wins` is the statement over whole runs). -/
theorem later_cancel_is_a_noop (c : Cfg) (s : St) (i : Nat) (e : Option Nat) (sc : List UAct)
    (h : s.mp i = .run (.cancel e :: sc)) (ho : s.once = 2) :
    stepMapper c s i = some { s with mp := upd s.mp i (.run sc) } := by
  unfold stepMapper
  rw [h]
  simp [ho]

/-! ### the building blocks: what the `unit` ops of the harness are compared with is what the model's steps do -/

/-- a mapper's `Write` is dropped (the collector is untouched, the script goes on) iff the context is over or `done`
is closed: the model's guard is `guardDrops`. -/
theorem mapper_write_guard (c : Cfg) (s : St) (i v : Nat) (sc : List UAct) (h : s.mp i = .run (.write v :: sc)) :
    stepMapper c s i = some (if guardDrops s.ctxDone s.fin then { s with mp := upd s.mp i (.run sc) }
      else { s with mp := upd s.mp i (.send v sc) }) := by
  unfold stepMapper guardDrops
  rw [h]
  simp only
  split <;> rfl

/-- the step in which a mapper's `cancel(e)` takes the once is the step that records the error; only then does it
drain (`.cdrain`) — the order `tie_cancelEffects` pins in the code. -/
theorem cancel_sets_error_first (c : Cfg) (s : St) (i : Nat) (e : Option Nat) (sc : List UAct)
    (h : s.mp i = .run (.cancel e :: sc)) (ho : s.once = 0) :
    ∃ s', stepMapper c s i = some s' ∧ s'.retErr = some (cancelErr e) ∧ s'.mp i = .cdrain sc ∧ s'.fin = s.fin := by
  refine ⟨{ s with once := 1, retErr := some (cancelErr e), mp := upd s.mp i (.cdrain sc), onceBy := some (.mapper i) },
    ?_, rfl, by simp [upd], rfl⟩
  unfold stepMapper
  rw [h]
  simp [ho]

/-- the default / clamped / last-wins worker count the `unit opts` op is compared with never is below one, and is the
default exactly for the empty option list. -/
theorem workersOf_nil : workersOf [] = defaultWorkersN := rfl

theorem onceRuns_le_one (n : Nat) : onceRuns n ≤ 1 := by unfold onceRuns; split <;> omega

/-- `onceChan`: later writes never replace the first value. -/
theorem onceChanAfter_append (a : Nat) (vs ws : List Nat) : onceChanAfter (a :: vs ++ ws) = some a := rfl

example : guardDrops true false = true ∧ guardDrops false true = true ∧ guardDrops false false = false := by decide

end GoZero.C10.Props5
