/-
C10 — the invariant behind the returned-error table, preserved by every step of every actor.
-/
import GoZero.C10.Proofs
namespace GoZero.C10

structure InvC (c : Cfg) (s : St) : Prop where
  gle : s.gNext ≤ c.n
  spawnlt : ∀ i, s.dpc = .spawn i → i < c.n
  mlt : ∀ i, s.mp i ≠ .idle → i < c.n
  msuf : ∀ i l, mRem (s.mp i) = some l → l <:+ c.mscript i
  rsuf : ∀ l, rRem s.rpc = some l → l <:+ c.rscript
  ctx : s.ctxDone = true → c.ctxCan = true ∨ c.ctxPre = true
  ret : ∀ e, s.retErr = some e → errOK c e
  ole : s.once ≤ 2
  once1 : s.once ≠ 0 → s.retErr ≠ none
  once2 : s.once = 2 → s.fin = true
  finw : s.fin = true → s.once = 2 ∨ s.rpc = .done
  gp : (s.gpc = .pwrite ∨ s.gpc = .psend) → genPanics c = true
  mpan : ∀ i, (s.mp i = .recovered ∨ s.mp i = .pwrite ∨ s.mp i = .psend) → hasPanic (c.mscript i) = true
  rpan : ∀ p, (s.rpc = .drain (some p) ∨ s.rpc = .pwrite p ∨ s.rpc = .psend p) → allowed0 c (.panic p) = true
  pb : ∀ p, s.pbuf = some p → allowed0 c (.panic p) = true
  cdr : ∀ p, s.cpc = .drainOut p → allowed0 c (.panic p) = true
  cres : ∀ r, (s.cpc = .defer r ∨ s.cpc = .check r ∨ s.cpc = .done r) → allowed0 c r = true
  mcd : ∀ i sc, s.mp i = .cdrain sc → s.once ≠ 0
  rcd : ∀ sc, s.rpc = .cdrain sc → s.once ≠ 0
  ccd : s.cpc = .cdrain → s.once ≠ 0
  cce : (s.cpc = .cancelEnter ∨ s.cpc = .cdrain) → c.ctxCan = true ∨ c.ctxPre = true
  multi : callerPast s.cpc = true → s.fin = false → rW s.rpc + 1 ≤ (writesOf c.rscript).length

theorem invC_init (c : Cfg) : InvC c (init c) := by
  constructor <;> simp [init, mRem, rRem, callerPast]
  · intro h; exact Or.inr h

theorem upd_same (f : Nat → MPc) (i : Nat) (x : MPc) : upd f i x i = x := by simp [upd]
theorem upd_other (f : Nat → MPc) (i j : Nat) (x : MPc) (h : j ≠ i) : upd f i x j = f j := by simp [upd, h]

theorem srcRecv_item {c : Cfg} {s : St} {i : Nat} (h : srcRecv c s = some (some i)) :
    i = s.gNext ∧ s.gNext < c.n := by
  unfold srcRecv genSending at h
  split at h
  · simp_all
  · split at h <;> simp at h

theorem panicSend_eq {c : Cfg} {s s' : St} {v : PVal} (h : panicSend c s v = some s') :
    (c.fixed = true ∧ s.pbuf = none ∧ s' = { s with pbuf := some v }) ∨
    (c.fixed = false ∧ s.cpc = .sel ∧ s' = { s with cpc := .drainOut v }) := by
  unfold panicSend at h
  split at h
  · split at h
    · simp at h; exact Or.inl ⟨by assumption, by assumption, h.symm⟩
    · simp at h
  · split at h
    · simp at h; exact Or.inr ⟨by simp_all, by assumption, h.symm⟩
    · simp at h

theorem invC_gen {c : Cfg} {s s' : St} (I : InvC c s) (h : stepGen c s = some s') : InvC c s' := by
  unfold stepGen at h
  split at h
  · split at h
    · simp at h; subst h
      refine { I with gp := ?_ }
      intro _
      have := I.gle
      simp [genPanics, *]
    · split at h
      · simp at h; subst h; exact { I with gp := by simp }
      · simp at h
  · split at h
    · simp at h; subst h; exact { I with gp := by simp }
    · simp at h; subst h; exact { I with gp := by simp; exact I.gp (Or.inl (by assumption)) }
  · simp only [Option.map_eq_some_iff] at h
    obtain ⟨s1, h1, rfl⟩ := h
    have hg := I.gp (Or.inr (by assumption))
    rcases panicSend_eq h1 with ⟨_, _, rfl⟩ | ⟨_, hs, rfl⟩
    · exact { I with gp := by simp, pb := by intro p hp; simp at hp; subst hp; simpa [allowed0] using hg }
    · exact { I with cce := by simp, gp := by simp, cdr := by intro p hp; simp at hp; subst hp; simpa [allowed0] using hg,
                     cres := by simp, ccd := by simp, multi := by simp [callerPast] }
  · simp at h; subst h; exact { I with gp := by simp }
  · simp at h

theorem mlt_upd {c : Cfg} {s : St} (I : InvC c s) {i : Nat} (x : MPc) (hi : i < c.n) :
    ∀ j, upd s.mp i x j ≠ .idle → j < c.n := by
  intro j hj
  by_cases hji : j = i
  · subst hji; exact hi
  · rw [upd_other _ _ _ _ hji] at hj; exact I.mlt j hj

theorem msuf_upd {c : Cfg} {s : St} (I : InvC c s) {i : Nat} (x : MPc)
    (hs : ∀ l, mRem x = some l → l <:+ c.mscript i) :
    ∀ j l, mRem (upd s.mp i x j) = some l → l <:+ c.mscript j := by
  intro j l hj
  by_cases hji : j = i
  · subst hji; rw [upd_same] at hj; exact hs l hj
  · rw [upd_other _ _ _ _ hji] at hj; exact I.msuf j l hj

theorem mpan_upd {c : Cfg} {s : St} (I : InvC c s) {i : Nat} (x : MPc)
    (hp : (x = .recovered ∨ x = .pwrite ∨ x = .psend) → hasPanic (c.mscript i) = true) :
    ∀ j, (upd s.mp i x j = .recovered ∨ upd s.mp i x j = .pwrite ∨ upd s.mp i x j = .psend) →
      hasPanic (c.mscript j) = true := by
  intro j hj
  by_cases hji : j = i
  · subst hji; rw [upd_same] at hj; exact hp hj
  · rw [upd_other _ _ _ _ hji] at hj; exact I.mpan j hj

theorem mcd_upd {c : Cfg} {s : St} (I : InvC c s) {i : Nat} (x : MPc) {o : Nat}
    (ho : s.once ≠ 0 → o ≠ 0) (hx : ∀ sc, x = .cdrain sc → o ≠ 0) :
    ∀ j sc, upd s.mp i x j = .cdrain sc → o ≠ 0 := by
  intro j sc hj
  by_cases hji : j = i
  · subst hji; rw [upd_same] at hj; exact hx sc hj
  · rw [upd_other _ _ _ _ hji] at hj; exact ho (I.mcd j sc hj)

theorem invC_mapper {c : Cfg} {s s' : St} (i : Nat) (I : InvC c s) (h : stepMapper c s i = some s') : InvC c s' := by
  unfold stepMapper at h
  split at h
  next => simp at h
  next hpc =>   -- run []
    simp at h; subst h
    have hi := I.mlt i (by simp [hpc])
    exact { I with mlt := mlt_upd I _ hi, msuf := msuf_upd I _ (by simp [mRem]), mcd := mcd_upd I _ id (by simp), mpan := mpan_upd I _ (by simp) }
  next v sc hpc =>  -- write
    have hi := I.mlt i (by simp [hpc])
    have hs := I.msuf i (.write v :: sc) (by simp [hpc, mRem])
    split at h <;> (simp at h; subst h)
    · exact { I with mlt := mlt_upd I _ hi, msuf := msuf_upd I _ (by simp [mRem]; exact suffix_tail hs), mcd := mcd_upd I _ id (by simp), mpan := mpan_upd I _ (by simp) }
    · exact { I with mlt := mlt_upd I _ hi, msuf := msuf_upd I _ (by simp [mRem]; exact hs), mcd := mcd_upd I _ id (by simp), mpan := mpan_upd I _ (by simp) }
  next e sc hpc =>  -- cancel
    have hi := I.mlt i (by simp [hpc])
    have hs := I.msuf i (.cancel e :: sc) (by simp [hpc, mRem])
    split at h
    next h0 =>
      simp at h; subst h
      exact { I with mlt := mlt_upd I _ hi, msuf := msuf_upd I _ (by simp [mRem]; exact suffix_tail hs),
                     mcd := mcd_upd I _ (by simp) (by simp), mpan := mpan_upd I _ (by simp),
                     ret := by intro e' he; simp at he; subst he; exact errOK_cancel_mapper hi hs,
                     ole := by simp, once1 := by simp, once2 := by simp, rcd := by simp, ccd := by simp,
                     finw := by intro hfin; rcases I.finw hfin with h2 | h2
                                · omega
                                · exact Or.inr h2 }
    next =>
      split at h
      · simp at h
      · simp at h; subst h
        exact { I with mlt := mlt_upd I _ hi, msuf := msuf_upd I _ (by simp [mRem]; exact suffix_tail hs), mcd := mcd_upd I _ id (by simp), mpan := mpan_upd I _ (by simp) }
  next sc hpc =>  -- panic
    simp at h; subst h
    have hi := I.mlt i (by simp [hpc])
    have hs := I.msuf i (.panic :: sc) (by simp [hpc, mRem])
    exact { I with mlt := mlt_upd I _ hi, msuf := msuf_upd I _ (by simp [mRem]),
                   mcd := mcd_upd I _ id (by simp), mpan := mpan_upd I _ (by intro _; simpa [hasPanic] using suffix_head_mem hs) }
  next sc hpc =>  -- readOne
    simp at h; subst h
    have hi := I.mlt i (by simp [hpc])
    have hs := I.msuf i (.readOne :: sc) (by simp [hpc, mRem])
    exact { I with mlt := mlt_upd I _ hi, msuf := msuf_upd I _ (by simp [mRem]; exact suffix_tail hs), mcd := mcd_upd I _ id (by simp), mpan := mpan_upd I _ (by simp) }
  next sc hpc =>  -- readAll
    simp at h; subst h
    have hi := I.mlt i (by simp [hpc])
    have hs := I.msuf i (.readAll :: sc) (by simp [hpc, mRem])
    exact { I with mlt := mlt_upd I _ hi, msuf := msuf_upd I _ (by simp [mRem]; exact suffix_tail hs), mcd := mcd_upd I _ id (by simp), mpan := mpan_upd I _ (by simp) }
  next v sc hpc =>  -- send
    have hi := I.mlt i (by simp [hpc])
    have hs := I.msuf i (.write v :: sc) (by simp [hpc, mRem])
    split at h
    · simp at h; subst h
      exact { I with mlt := mlt_upd I _ hi, msuf := msuf_upd I _ (by simp [mRem]), mcd := mcd_upd I _ id (by simp), mpan := mpan_upd I _ (by simp) }
    · split at h
      · simp at h; subst h
        exact { I with mlt := mlt_upd I _ hi, msuf := msuf_upd I _ (by simp [mRem]; exact suffix_tail hs), mcd := mcd_upd I _ id (by simp), mpan := mpan_upd I _ (by simp) }
      · simp at h
  next sc hpc =>  -- cdrain
    have hi := I.mlt i (by simp [hpc])
    have hs := I.msuf i sc (by simp [hpc, mRem])
    split at h
    next j hr =>
      simp at h; subst h
      have := srcRecv_item hr
      exact { I with gle := by simp; omega }
    next =>
      simp at h; subst h
      exact { I with mlt := mlt_upd I _ hi, msuf := msuf_upd I _ (by simp [mRem]; exact hs), mcd := mcd_upd I _ (by simp) (by simp), mpan := mpan_upd I _ (by simp),
                     once1 := by intro _; exact I.once1 (I.mcd i sc hpc), rcd := by simp, ccd := by simp,
                     ole := by simp, once2 := by simp, finw := by simp, multi := by simp }
    next => simp at h
  next hpc =>  -- recovered
    simp at h; subst h
    have hi := I.mlt i (by simp [hpc])
    have hp := I.mpan i (Or.inl hpc)
    exact { I with mlt := mlt_upd I _ hi, msuf := msuf_upd I _ (by simp [mRem]), mcd := mcd_upd I _ id (by simp), mpan := mpan_upd I _ (fun _ => hp) }
  next hpc =>  -- pwrite
    have hi := I.mlt i (by simp [hpc])
    have hp := I.mpan i (Or.inr (Or.inl hpc))
    split at h <;> (simp at h; subst h)
    · exact { I with mlt := mlt_upd I _ hi, msuf := msuf_upd I _ (by simp [mRem]), mcd := mcd_upd I _ id (by simp), mpan := mpan_upd I _ (by simp) }
    · exact { I with mlt := mlt_upd I _ hi, msuf := msuf_upd I _ (by simp [mRem]), mcd := mcd_upd I _ id (by simp), mpan := mpan_upd I _ (fun _ => hp) }
  next hpc =>  -- psend
    have hi := I.mlt i (by simp [hpc])
    have hp := I.mpan i (Or.inr (Or.inr hpc))
    simp only [Option.map_eq_some_iff] at h
    obtain ⟨s1, h1, rfl⟩ := h
    rcases panicSend_eq h1 with ⟨_, _, rfl⟩ | ⟨_, hs, rfl⟩
    · exact { I with mlt := mlt_upd I _ hi, msuf := msuf_upd I _ (by simp [mRem]), mcd := mcd_upd I _ id (by simp), mpan := mpan_upd I _ (by simp),
                     pb := by intro p hp'; simp at hp'; subst hp'; simp [allowed0, hi, hp] }
    · exact { I with cce := by simp, mlt := mlt_upd I _ hi, msuf := msuf_upd I _ (by simp [mRem]), mcd := mcd_upd I _ id (by simp), mpan := mpan_upd I _ (by simp),
                     cdr := by intro p hp'; simp at hp'; subst hp'; simp [allowed0, hi, hp],
                     cres := by simp, ccd := by simp, multi := by simp [callerPast] }
  next hpc =>  -- wgdone
    simp at h; subst h
    have hi := I.mlt i (by simp [hpc])
    exact { I with mlt := mlt_upd I _ hi, msuf := msuf_upd I _ (by simp [mRem]), mcd := mcd_upd I _ id (by simp), mpan := mpan_upd I _ (by simp) }
  next hpc =>  -- unpool
    simp at h; subst h
    have hi := I.mlt i (by simp [hpc])
    exact { I with mlt := mlt_upd I _ hi, msuf := msuf_upd I _ (by simp [mRem]), mcd := mcd_upd I _ id (by simp), mpan := mpan_upd I _ (by simp) }
  next => simp at h
  next => simp at h

theorem rW_run_le (a : UAct) (sc : List UAct) : rW (.run sc) ≤ rW (.run (a :: sc)) := by
  simp only [rW, rRem]; exact writesOf_cons_le a sc

theorem invC_disp {c : Cfg} {s s' : St} (I : InvC c s) (h : stepDisp c s = some s') : InvC c s' := by
  unfold stepDisp at h
  split at h
  · split at h <;> (simp at h; subst h) <;> exact { I with spawnlt := by simp }
  · split at h
    · simp at h; subst h; exact { I with spawnlt := by simp }
    · simp at h
  · split at h
    next i hr =>
      simp at h; subst h
      have := srcRecv_item hr
      exact { I with gle := by simp; omega, spawnlt := by intro j hj; simp at hj; omega }
    next => simp at h; subst h; exact { I with spawnlt := by simp }
    next => simp at h
  next i hd =>
    simp at h; subst h
    have hi := I.spawnlt i hd
    exact { I with spawnlt := by simp, mlt := mlt_upd I _ hi, msuf := msuf_upd I _ (by simp [mRem]),
                   mcd := mcd_upd I _ id (by simp), mpan := mpan_upd I _ (by simp) }
  · simp at h; subst h; exact { I with spawnlt := by simp }
  · split at h
    · simp at h; subst h; exact { I with spawnlt := by simp }
    · simp at h
  · simp at h; subst h; exact { I with spawnlt := by simp }
  · split at h
    next i hr =>
      simp at h; subst h
      have := srcRecv_item hr
      exact { I with gle := by simp; omega }
    next => simp at h; subst h; exact { I with spawnlt := by simp }
    next => simp at h
  · simp at h

theorem invC_red {c : Cfg} {s s' : St} (I : InvC c s) (h : stepRed c s = some s') : InvC c s' := by
  unfold stepRed at h
  split at h
  next hpc =>  -- run []
    simp at h; subst h
    exact { I with rsuf := by simp [rRem], rpan := by simp, rcd := by simp,
                   finw := by intro hf; rcases I.finw hf with h2 | h2
                              · exact Or.inl h2
                              · simp [hpc] at h2,
                   multi := by intro a b; simp [rW, rRem] ; have := I.multi a b; omega }
  next sc hpc =>  -- readOne
    have hs := I.rsuf (.readOne :: sc) (by simp [hpc, rRem])
    have hw : rW (.run sc) ≤ rW s.rpc := by rw [hpc]; exact rW_run_le _ _
    have hfw : s.fin = true → s.once = 2 := by
      intro hf; rcases I.finw hf with h2 | h2
      · exact h2
      · simp [hpc] at h2
    split at h
    · simp at h; subst h
      exact { I with rsuf := by simp [rRem]; exact suffix_tail hs, rpan := by simp, rcd := by simp,
                     finw := fun hf => Or.inl (hfw hf),
                     multi := by intro a b; have := I.multi a b; simp at this ⊢; omega }
    · split at h
      · simp at h; subst h
        exact { I with rsuf := by simp [rRem]; exact suffix_tail hs, rpan := by simp, rcd := by simp,
                       finw := fun hf => Or.inl (hfw hf),
                       multi := by intro a b; have := I.multi a b; simp at this ⊢; omega }
      · simp at h
  next sc hpc =>  -- readAll
    have hs := I.rsuf (.readAll :: sc) (by simp [hpc, rRem])
    have hw : rW (.run sc) ≤ rW s.rpc := by rw [hpc]; exact rW_run_le _ _
    have hfw : s.fin = true → s.once = 2 := by
      intro hf; rcases I.finw hf with h2 | h2
      · exact h2
      · simp [hpc] at h2
    split at h
    · simp at h; subst h; exact { I with }
    · split at h
      · simp at h; subst h
        exact { I with rsuf := by simp [rRem]; exact suffix_tail hs, rpan := by simp, rcd := by simp,
                       finw := fun hf => Or.inl (hfw hf),
                       multi := by intro a b; have := I.multi a b; simp at this ⊢; omega }
      · simp at h
  next v sc hpc =>  -- write
    have hs := I.rsuf (.write v :: sc) (by simp [hpc, rRem])
    have hfw : s.fin = true → s.once = 2 := by
      intro hf; rcases I.finw hf with h2 | h2
      · exact h2
      · simp [hpc] at h2
    split at h <;> (simp at h; subst h)
    · exact { I with rsuf := by simp [rRem]; exact suffix_tail hs, rpan := by simp, rcd := by simp,
                     finw := fun hf => Or.inl (hfw hf),
                     multi := by intro a b; have := I.multi a b; simp [hpc, rW, rRem, writesOf] at this ⊢; omega }
    · exact { I with rsuf := by simp [rRem]; exact hs, rpan := by simp, rcd := by simp,
                     finw := fun hf => Or.inl (hfw hf),
                     multi := by intro a b; have := I.multi a b; simp [hpc, rW, rRem, writesOf] at this ⊢; omega }
  next e sc hpc =>  -- cancel
    have hs := I.rsuf (.cancel e :: sc) (by simp [hpc, rRem])
    have hfw : s.fin = true → s.once = 2 := by
      intro hf; rcases I.finw hf with h2 | h2
      · exact h2
      · simp [hpc] at h2
    split at h
    next h0 =>
      simp at h; subst h
      exact { I with rsuf := by simp [rRem]; exact suffix_tail hs, rpan := by simp,
                     ret := by intro e' he; simp at he; subst he; exact errOK_cancel_reducer hs,
                     ole := by simp, once1 := by simp, once2 := by simp, rcd := by simp, ccd := by simp, mcd := by simp,
                     finw := by intro hf; have := hfw hf; omega,
                     multi := by intro a b; have := I.multi a b; simp [hpc, rW, rRem, writesOf] at this ⊢; omega }
    next =>
      split at h
      · simp at h
      · simp at h; subst h
        exact { I with rsuf := by simp [rRem]; exact suffix_tail hs, rpan := by simp, rcd := by simp,
                       finw := fun hf => Or.inl (hfw hf),
                       multi := by intro a b; have := I.multi a b; simp [hpc, rW, rRem, writesOf] at this ⊢; omega }
  next sc hpc =>  -- panic
    have hs := I.rsuf (.panic :: sc) (by simp [hpc, rRem])
    have hfw : s.fin = true → s.once = 2 := by
      intro hf; rcases I.finw hf with h2 | h2
      · exact h2
      · simp [hpc] at h2
    simp at h; subst h
    exact { I with rsuf := by simp [rRem], rcd := by simp,
                   rpan := by intro p hp; simp at hp; subst hp; simpa [allowed0, hasPanic] using suffix_head_mem hs,
                   finw := fun hf => Or.inl (hfw hf),
                   multi := by intro a b; have := I.multi a b; simp [rW, rRem] at this ⊢; omega }
  next v sc hpc =>  -- send
    have hs := I.rsuf (.write v :: sc) (by simp [hpc, rRem])
    have hv : v ∈ writesOf c.rscript := mem_writesOf.mpr (suffix_head_mem hs)
    have hfw : s.fin = true → s.once = 2 := by
      intro hf; rcases I.finw hf with h2 | h2
      · exact h2
      · simp [hpc] at h2
    have hle := writesOf_suffix_le hs
    split at h
    next hfin =>
      simp at h; subst h
      have h2 := hfw hfin
      have hne := I.once1 (by omega)
      obtain ⟨e, he⟩ := Option.ne_none_iff_exists'.mp hne
      have hf := errOK_faulty (I.ret e he)
      exact { I with rsuf := by simp [rRem], rcd := by simp,
                     rpan := by
                       intro p hp; simp at hp; subst hp
                       simp only [allowed0, Bool.and_eq_true, Bool.not_eq_true', Bool.or_eq_true]
                       refine ⟨?_, ?_⟩
                       · cases hw : writesOf c.rscript with
                         | nil => simp [hw] at hv
                         | cons a l => rfl
                       · rcases hf with h | h | h <;> simp [h],
                     finw := fun hf => Or.inl (hfw hf),
                     multi := by intro a b; simp_all }
    next hfin =>
      have hfin' : s.fin = false := by simpa using hfin
      split at h
      next hc =>  -- caller at select
        simp at h; subst h
        exact { I with cce := by simp, rsuf := by simp [rRem]; exact suffix_tail hs, rpan := by simp, rcd := by simp,
                       cdr := by simp, ccd := by simp,
                       cres := by
                         intro r hr; simp at hr; subst hr
                         split
                         next e he => exact errOK_allowed (I.ret e he)
                         next => simpa [allowed0] using hv,
                       finw := fun hf => Or.inl (hfw hf),
                       multi := by intro a b; simp [rW, rRem, writesOf] at hle ⊢; omega }
      next p hc =>
        simp at h; subst h
        exact { I with rsuf := by simp [rRem]; exact suffix_tail hs, rpan := by simp, rcd := by simp,
                       finw := fun hf => Or.inl (hfw hf),
                       multi := by intro a b; have := I.multi a b; simp [hpc, rW, rRem, writesOf] at this ⊢; omega }
      next r hc =>
        simp at h; subst h
        have hm := I.multi (by simp [hc, callerPast]) hfin'
        exact { I with cce := by simp, rsuf := by simp [rRem]; exact suffix_tail hs, rpan := by simp, rcd := by simp,
                       cdr := by simp, ccd := by simp,
                       cres := by
                         intro r' hr; simp at hr; subst hr
                         simp [hpc, rW, rRem, writesOf] at hm
                         simp [allowed0]; omega,
                       finw := fun hf => Or.inl (hfw hf),
                       multi := by intro a b; simp [hpc, rW, rRem, writesOf] at hm ⊢; omega }
      next => simp at h
  next sc hpc =>  -- cdrain
    have hs := I.rsuf sc (by simp [hpc, rRem])
    split at h
    next j hr =>
      simp at h; subst h
      have := srcRecv_item hr
      exact { I with gle := by simp; omega }
    next =>
      simp at h; subst h
      exact { I with rsuf := by simp [rRem]; exact hs, rpan := by simp,
                     once1 := by intro _; exact I.once1 (I.rcd sc hpc), rcd := by simp, ccd := by simp, mcd := by simp,
                     ole := by simp, once2 := by simp, finw := by simp, multi := by simp }
    next => simp at h
  next p hpc =>  -- drain
    have hfw : s.fin = true → s.once = 2 := by
      intro hf; rcases I.finw hf with h2 | h2
      · exact h2
      · simp [hpc] at h2
    split at h
    · simp at h; subst h; exact { I with }
    · split at h
      · split at h
        next pv =>
          simp at h; subst h
          have := I.rpan pv (Or.inl hpc)
          exact { I with rsuf := by simp [rRem], rcd := by simp,
                         rpan := by intro p hp; simp at hp; subst hp; exact this,
                         finw := fun hf => Or.inl (hfw hf),
                         multi := by intro a b; have := I.multi a b; simp [hpc, rW, rRem] at this ⊢; omega }
        next =>
          simp at h; subst h
          exact { I with rsuf := by simp [rRem], rcd := by simp, rpan := by simp,
                         finw := fun hf => Or.inl (hfw hf),
                         multi := by intro a b; have := I.multi a b; simp [hpc, rW, rRem] at this ⊢; omega }
      · simp at h
  next pv hpc =>  -- pwrite
    have hfw : s.fin = true → s.once = 2 := by
      intro hf; rcases I.finw hf with h2 | h2
      · exact h2
      · simp [hpc] at h2
    have hp := I.rpan pv (Or.inr (Or.inl hpc))
    split at h <;> (simp at h; subst h)
    · exact { I with rsuf := by simp [rRem], rcd := by simp, rpan := by simp,
                     finw := fun hf => Or.inl (hfw hf),
                     multi := by intro a b; have := I.multi a b; simp [hpc, rW, rRem] at this ⊢; omega }
    · exact { I with rsuf := by simp [rRem], rcd := by simp,
                     rpan := by intro p hp'; simp at hp'; subst hp'; exact hp,
                     finw := fun hf => Or.inl (hfw hf),
                     multi := by intro a b; have := I.multi a b; simp [hpc, rW, rRem] at this ⊢; omega }
  next pv hpc =>  -- psend
    have hfw : s.fin = true → s.once = 2 := by
      intro hf; rcases I.finw hf with h2 | h2
      · exact h2
      · simp [hpc] at h2
    have hp := I.rpan pv (Or.inr (Or.inr hpc))
    simp only [Option.map_eq_some_iff] at h
    obtain ⟨s1, h1, rfl⟩ := h
    rcases panicSend_eq h1 with ⟨_, _, rfl⟩ | ⟨_, hs, rfl⟩
    · exact { I with rsuf := by simp [rRem], rcd := by simp, rpan := by simp,
                     pb := by intro p hp'; simp at hp'; subst hp'; exact hp,
                     finw := fun hf => Or.inl (hfw hf),
                     multi := by intro a b; have := I.multi a b; simp [hpc, rW, rRem] at this ⊢; omega }
    · exact { I with cce := by simp, rsuf := by simp [rRem], rcd := by simp, rpan := by simp,
                     cdr := by intro p hp'; simp at hp'; subst hp'; exact hp,
                     cres := by simp, ccd := by simp,
                     finw := fun hf => Or.inl (hfw hf),
                     multi := by simp [callerPast] }
  next hpc =>  -- finish
    simp at h; subst h
    exact { I with rsuf := by simp [rRem], rcd := by simp, rpan := by simp, once2 := by simp, finw := by simp, multi := by simp }
  next => simp at h

theorem invC_caller {c : Cfg} {s s' : St} (I : InvC c s) (h : stepCaller c s = some s') : InvC c s' := by
  unfold stepCaller at h
  split at h
  · simp at h
  next hpc =>  -- cancelEnter
    split at h
    · simp at h; subst h
      have hctx : c.ctxCan = true ∨ c.ctxPre = true := by
        -- the caller only enters cancel after it saw ctx.Done
        exact I.cce (Or.inl hpc)
      exact { I with ret := by intro e he; simp at he; subst he; simpa [errOK, allowed0] using hctx,
                     ole := by simp, once1 := by simp, once2 := by simp, rcd := by simp, ccd := by simp, mcd := by simp,
                     cdr := by simp, cres := by simp, cce := fun _ => hctx,
                     finw := by intro hf; rcases I.finw hf with h2 | h2
                                · omega
                                · exact Or.inr h2,
                     multi := by simp [callerPast] }
    · split at h
      · simp at h
      · simp at h; subst h
        have hctx := I.cce (Or.inl hpc)
        have h2 : s.once = 2 := by have := I.ole; omega
        exact { I with cdr := by simp, ccd := by simp, cce := by simp,
                       cres := by intro r hr; simp at hr; subst hr; simpa [allowed0] using hctx,
                       multi := by intro _ hf; have := I.once2 h2; simp_all }
  next hpc =>  -- cdrain
    split at h
    next j hr =>
      simp at h; subst h
      have := srcRecv_item hr
      exact { I with gle := by simp; omega }
    next =>
      simp at h; subst h
      have hctx := I.cce (Or.inr hpc)
      exact { I with once1 := by intro _; exact I.once1 (I.ccd hpc), rcd := by simp, ccd := by simp, mcd := by simp,
                     ole := by simp, once2 := by simp, finw := by simp, multi := by simp, cdr := by simp, cce := by simp,
                     cres := by intro r hr; simp at hr; subst hr; simpa [allowed0] using hctx }
    next => simp at h
  next p hpc =>  -- drainOut
    split at h
    · simp at h; subst h
      have := I.cdr p hpc
      exact { I with cdr := by simp, ccd := by simp, cce := by simp,
                     cres := by intro r hr; simp at hr; subst hr; exact this,
                     multi := by simp_all }
    · simp at h
  next r hpc =>  -- defer
    have hr := I.cres r (Or.inl hpc)
    split at h
    next hf =>
      split at h <;> (simp at h; subst h)
      · exact { I with cdr := by simp, ccd := by simp, cce := by simp,
                       cres := by intro r' h'; simp at h'; subst h'; exact hr, multi := by simp_all }
      · exact { I with cdr := by simp, ccd := by simp, cce := by simp,
                       cres := by intro r' h'; simp at h'; subst h'; exact hr, multi := by simp_all }
    · simp at h
  next r hpc =>  -- check
    have hr := I.cres r (Or.inr (Or.inl hpc))
    have hm : callerPast s.cpc = true := by simp [hpc, callerPast]
    split at h
    next p hp =>
      simp at h; subst h
      have := I.pb p hp
      exact { I with cdr := by simp, ccd := by simp, cce := by simp, pb := by simp,
                     cres := by intro r' h'; simp at h'; subst h'; exact this,
                     multi := by intro _ hf; exact I.multi hm hf }
    next =>
      simp at h; subst h
      exact { I with cdr := by simp, ccd := by simp, cce := by simp,
                     cres := by intro r' h'; simp at h'; subst h'; exact hr,
                     multi := by intro _ hf; exact I.multi hm hf }
  · simp at h

theorem invC_step {c : Cfg} {s s' : St} (a : Actor) (I : InvC c s) (h : step c s a = some s') : InvC c s' := by
  cases a with
  | gen => exact invC_gen I h
  | disp => exact invC_disp I h
  | mapper i => exact invC_mapper i I h
  | red => exact invC_red I h
  | caller => exact invC_caller I h
  | dispCtx =>
    simp only [step] at h; split at h
    · simp at h; subst h; exact { I with spawnlt := by simp }
    · simp at h
  | dispDone =>
    simp only [step] at h; split at h
    · simp at h; subst h; exact { I with spawnlt := by simp }
    · simp at h
  | callerCtx =>
    simp only [step] at h; split at h
    next hc =>
      simp at h; subst h
      exact { I with cdr := by simp, ccd := by simp, cres := by simp, multi := by simp [callerPast],
                     cce := fun _ => I.ctx hc.2 }
    · simp at h
  | callerPanic =>
    simp only [step] at h; split at h
    next hc =>
      split at h
      next p hp =>
        simp at h; subst h
        have := I.pb p hp
        exact { I with ccd := by simp, cres := by simp, multi := by simp [callerPast], cce := by simp, pb := by simp,
                       cdr := by intro p' h'; simp at h'; subst h'; exact this }
      · simp at h
    · simp at h
  | callerOut =>
    simp only [step] at h; split at h
    next hc =>
      simp at h; subst h
      exact { I with cdr := by simp, ccd := by simp, cce := by simp, multi := by simp [hc.2],
                     cres := by
                       intro r hr; simp at hr; subst hr
                       unfold outRes; split
                       next e he => exact errOK_allowed (I.ret e he)
                       next => rfl }
    · simp at h
  | env =>
    simp only [step] at h; split at h
    next hc => simp at h; subst h; exact { I with ctx := fun _ => Or.inl hc.1 }
    · simp at h

theorem invC_reach {c : Cfg} {s : St} (h : Reach c s) : InvC c s := by
  induction h with
  | init => exact invC_init c
  | step a _ hs ih => exact invC_step a ih hs

end GoZero.C10
