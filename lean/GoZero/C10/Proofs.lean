/-
C10 — helper lemmas: the safety invariant behind the returned-error table (`InvC`).
-/
import GoZero.C10.Spec
namespace GoZero.C10

/-- what is left of a mapper's script (a pending guarded write counts as not yet done). -/
def mRem : MPc → Option (List UAct)
  | .run sc => some sc
  | .send v sc => some (.write v :: sc)
  | .cdrain sc => some sc
  | _ => none

def rRem : RPc → Option (List UAct)
  | .run sc => some sc
  | .send v sc => some (.write v :: sc)
  | .cdrain sc => some sc
  | _ => none

/-- number of writes the reducer may still attempt. -/
def rW (p : RPc) : Nat :=
  match rRem p with
  | some l => (writesOf l).length
  | none => 0

def callerPast : CPc → Bool
  | .defer _ => true
  | .check _ => true
  | .done _ => true
  | _ => false

/-- errors that `cancel` can have stored. -/
def errOK (c : Cfg) : Err → Prop
  | .noOutput => False
  | e => allowed0 c (.err e) = true

theorem writesOf_cons_le (a : UAct) (l : List UAct) : (writesOf l).length ≤ (writesOf (a :: l)).length := by
  cases a <;> simp [writesOf]

theorem writesOf_suffix_le {l L : List UAct} (h : l <:+ L) : (writesOf l).length ≤ (writesOf L).length := by
  obtain ⟨pre, rfl⟩ := h
  induction pre with
  | nil => simp
  | cons a pre ih => exact Nat.le_trans ih (writesOf_cons_le a _)

theorem mem_writesOf {v : Nat} {l : List UAct} : v ∈ writesOf l ↔ UAct.write v ∈ l := by
  induction l with
  | nil => simp [writesOf]
  | cons a l ih => cases a <;> simp [writesOf, ih]

theorem suffix_tail {a : UAct} {l L : List UAct} (h : a :: l <:+ L) : l <:+ L :=
  List.IsSuffix.trans (List.suffix_cons a l) h

theorem suffix_head_mem {a : UAct} {l L : List UAct} (h : a :: l <:+ L) : a ∈ L :=
  h.subset (List.mem_cons_self)

theorem anyScript_of_mapper {c : Cfg} {p : List UAct → Bool} {i : Nat} (hi : i < c.n) (h : p (c.mscript i) = true) :
    anyScript c p = true := by
  simp only [anyScript, anyMapper, Bool.or_eq_true, List.any_eq_true, List.mem_range]
  exact Or.inl ⟨i, hi, h⟩

theorem anyScript_of_reducer {c : Cfg} {p : List UAct → Bool} (h : p c.rscript = true) : anyScript c p = true := by
  simp [anyScript, h]

theorem anyScript_mono {c : Cfg} {p q : List UAct → Bool} (hpq : ∀ l, p l = true → q l = true)
    (h : anyScript c p = true) : anyScript c q = true := by
  simp only [anyScript, anyMapper, Bool.or_eq_true, List.any_eq_true] at *
  rcases h with ⟨i, hi, h⟩ | h
  · exact Or.inl ⟨i, hi, hpq _ h⟩
  · exact Or.inr (hpq _ h)

theorem hasCancel_of_contains {l : List UAct} {e : Option Nat} (h : l.contains (.cancel e) = true) : hasCancel l = true := by
  simp only [hasCancel, List.any_eq_true]
  exact ⟨_, by simpa using h, rfl⟩

theorem errOK_cancel_mapper {c : Cfg} {i : Nat} {e : Option Nat} {sc : List UAct} (hi : i < c.n)
    (h : UAct.cancel e :: sc <:+ c.mscript i) : errOK c (cancelErr e) := by
  have hm := suffix_head_mem h
  cases e with
  | none => exact anyScript_of_mapper hi (by simpa using hm)
  | some k => exact anyScript_of_mapper hi (by simpa using hm)

theorem errOK_cancel_reducer {c : Cfg} {e : Option Nat} {sc : List UAct}
    (h : UAct.cancel e :: sc <:+ c.rscript) : errOK c (cancelErr e) := by
  have hm := suffix_head_mem h
  cases e with
  | none => exact anyScript_of_reducer (by simpa using hm)
  | some k => exact anyScript_of_reducer (by simpa using hm)

/-- a stored error means the context can end or somebody cancels. -/
theorem errOK_faulty {c : Cfg} {e : Err} (h : errOK c e) :
    c.ctxCan = true ∨ c.ctxPre = true ∨ anyScript c hasCancel = true := by
  cases e with
  | noOutput => exact h.elim
  | deadline => simp only [errOK, allowed0, Bool.or_eq_true] at h; rcases h with h | h <;> simp [h]
  | nilCancel => exact Or.inr (Or.inr (anyScript_mono (fun l => hasCancel_of_contains) h))
  | user k => exact Or.inr (Or.inr (anyScript_mono (fun l => hasCancel_of_contains) h))

theorem errOK_allowed {c : Cfg} {e : Err} (h : errOK c e) : allowed0 c (.err e) = true := by
  cases e <;> first | exact h | rfl

end GoZero.C10
