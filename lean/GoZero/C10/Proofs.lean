import GoZero.C10.Spec
namespace GoZero.C10

end GoZero.C10
