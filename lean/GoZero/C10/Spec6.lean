/-
C10 — round 5c: error VALUES with the private wrapper `cancelError` as the wrapper it is (round 5 carried a boolean
mark next to the error code), and the exit kinds of user functions.
-/
import GoZero.C10.Spec5
namespace GoZero.C10

/-- a Go error value: an error identified by a code (`Spec.encErr` for the library's own, anything else the user's),
or `cancelError{inner}`. -/
inductive GErr
  | code (k : Nat)
  | marked (inner : GErr)
  deriving DecidableEq, Repr

def GErr.isMarked : GErr → Bool
  | .marked _ => true
  | .code _ => false

/-- `errors.Is(err, ErrReduceNoOutput)` on values: `cancelError` embeds the error interface, no `Unwrap` is promoted, so
a wrapped value never matches. -/
def isNoOutputW : Option GErr → Bool
  | some (.code k) => isNoOutput (some k)
  | _ => false

/-- `markCancel(cancel)(err)`: `if err != nil { err = cancelError{err} }; cancel(err)`. -/
def markCancelW (err : Option GErr) : Option GErr := err.map .marked

/-- `cancel(err)` → `retErr` (through `AtomicError.Set`). -/
def cancelRecordsW (err : Option GErr) : Option GErr :=
  if err != none then err else some (.code (encErr .nilCancel))

/-- the caller's output branch (through `AtomicError.Load`). -/
def callerOutputW (retErr : Option GErr) (ok : Bool) (v : Nat) : Nat × Option GErr :=
  if retErr != none then (0, retErr) else if ok then (v, none) else (0, some (.code (encErr .noOutput)))

/-- `MapReduceVoid`'s return. -/
def voidReturnW (err : Option GErr) : Option GErr :=
  match err with
  | some (.marked inner) => some inner
  | _ => if isNoOutputW err then none else err

/-- what the public entry points return when a user function's `cancel(e)` wins: `MapReduce` / `MapReduceChan` … -/
def mrPathW (e : Option GErr) (ok : Bool) (v : Nat) : Option GErr := (callerOutputW (cancelRecordsW e) ok v).2

/-- … and `MapReduceVoid` / `Finish` (ForEach / FinishVoid return no error at all). -/
def voidPathW (e : Option GErr) (ok : Bool) (v : Nat) : Option GErr :=
  voidReturnW (callerOutputW (cancelRecordsW (markCancelW e)) ok v).2

/-- what they return for the errors the LIBRARY reports itself (context end, no output, nothing). -/
def voidOwnW (own : Option Err) : Option GErr := voidReturnW (own.map fun x => .code (encErr x))

/-! ### exit kinds of a user function

A user function is a script followed by the way it ends.  The library runs every user function as the ONLY statement
of a goroutine body outside the deferred cleanup (`Tie.tie_*GoBody`), so `runtime.Goexit` — which runs the deferred
calls and lets `recover()` return nil — is indistinguishable from a return; `panic(nil)` is a panic with a non-nil
recovered value (`*runtime.PanicNilError`, go.mod `go 1.21`, `Tie.tie_goDirective`). -/

inductive UExit | ret | goexit | panicVal | panicNil
  deriving DecidableEq, Repr

/-- the core script of a user function that runs `sc` and then ends by `x`. -/
def withExit (sc : List UAct) : UExit → List UAct
  | .ret => sc
  | .goexit => sc
  | .panicVal => sc ++ [.panic]
  | .panicNil => sc ++ [.panic]

/-- one goroutine of the library: the statements outside the deferred function, then the deferred ones.  What runs
when the user function (the body) ends by `x`: on return and on Goexit the deferred list with `recover() = nil`
(`rec = false`), on a panic the deferred list with a recovered value. -/
def goroutineRuns (deferred : Bool → List String) : UExit → List String
  | .ret => deferred false
  | .goexit => deferred false
  | .panicVal => deferred true
  | .panicNil => deferred true

/-- the configuration in which every user function ends by the given exit kind. -/
def withExits (c : Cfg) (mx : Nat → UExit) (rx : UExit) : Cfg :=
  { c with mscript := fun i => withExit (c.mscript i) (mx i), rscript := withExit c.rscript rx }

/-- the generator ends by `gx` after its `n` items: return / Goexit = it returns; a panic = `gPanicAt = n`. -/
def withGenExit (c : Cfg) : UExit → Cfg
  | .ret => c
  | .goexit => c
  | .panicVal => { c with gPanicAt := some c.n }
  | .panicNil => { c with gPanicAt := some c.n }

end GoZero.C10
