/-
C10 — executable small-step model of core/mr/mapreduce.go (MapReduce → mapReduceWithPanicChan,
buildSource, executeMappers, guardedWriter.Write, onceChan, once/cancel/finish).

Threads: the generator goroutine (buildSource), the dispatcher (executeMappers), one mapper goroutine
per item (unbounded number), the reducer goroutine, the caller (`main`: select + deferred function), and
the environment (the context ends).  User functions are arbitrary finite scripts (`UAct`).
`step cfg s a` is the effect of the next atomic action of actor `a` (`none` = blocked / finished /
not applicable); reachability quantifies over every actor choice, hence over every schedule.

`cfg.fixed = false` is the code as pinned before the fix (unbuffered panic channel, no re-raise in the
caller's deferred function); `cfg.fixed = true` is the repaired code (`newOnceChan`: capacity 1, and
`panicChan.repanic()` at the end of the caller's deferred function).

Atomicity choices (documented, each merges statements of ONE goroutine none of which can block):
 * `once.Do` entry + `retErr.Set`;  `finish()` (= close(done); close(output) under closeOnce) + the
   Once's completion;  `wg.Add(1)` + `go`;  receive from `output` + `retErr.Load()`.
 * an unbuffered channel operation is a rendezvous executed by ONE of the two parties' steps
   (source: the receiver pulls; output / unbuffered panicChan: the sender pushes into the waiting caller).
-/
namespace GoZero.C10

inductive Err | user (k : Nat) | nilCancel | deadline | noOutput
  deriving DecidableEq, Repr

/-- values that can be re-raised: the three kinds of user panics and the two panics of the library/runtime. -/
inductive PVal | gen | mapper (i : Nat) | reducer | multi | sendClosed
  deriving DecidableEq, Repr

inductive Res | val (v : Nat) | err (e : Err) | panic (p : PVal)
  deriving DecidableEq, Repr

/-- one action of a user function (mappers ignore the two read actions). -/
inductive UAct | write (v : Nat) | cancel (e : Option Nat) | panic | readOne | readAll
  deriving DecidableEq, Repr

def cancelErr : Option Nat → Err
  | none => .nilCancel
  | some k => .user k

structure Cfg where
  n : Nat                       -- the generator emits items 0 … n-1
  workers : Nat                 -- after WithWorkers' clamp: ≥ 1 is NOT assumed by the model
  gPanicAt : Option Nat         -- the generator panics before sending item k (k = n: after the last)
  mscript : Nat → List UAct
  rscript : List UAct
  ctxCan : Bool                 -- the context can end during the call
  ctxPre : Bool                 -- the context is over before the call
  fixed : Bool

inductive GPc | run | pwrite | psend | close | done
  deriving DecidableEq, Repr
inductive DPc | loop | sel | recv | spawn (i : Nat) | unpool | wait | closeColl | drain | done
  deriving DecidableEq, Repr
inductive MPc | idle | run (sc : List UAct) | send (v : Nat) (sc : List UAct) | cdrain (sc : List UAct)
  | recovered | pwrite | psend | wgdone | unpool | done
  | crash   -- send on the closed collector: proven unreachable (`Props.collector_open_while_mappers_run`)
  deriving DecidableEq, Repr
inductive RPc | run (sc : List UAct) | send (v : Nat) (sc : List UAct) | cdrain (sc : List UAct)
  | drain (p : Option PVal) | pwrite (p : PVal) | psend (p : PVal) | finish | done
  deriving DecidableEq, Repr
inductive CPc | sel | cancelEnter | cdrain | drainOut (p : PVal) | defer (r : Res) | check (r : Res) | done (r : Res)
  deriving DecidableEq, Repr

/-- who runs `cancel`'s function under the sync.Once (ghost). -/
inductive Canceller | mapper (i : Nat) | reducer | caller
  deriving DecidableEq, Repr

structure St where
  gpc : GPc := .run
  gNext : Nat := 0
  srcClosed : Bool := false
  dpc : DPc := .loop
  mp : Nat → MPc := fun _ => .idle
  rpc : RPc
  cpc : CPc := .sel
  collQ : List Nat := []
  collClosed : Bool := false
  fin : Bool := false           -- done and output are closed
  retErr : Option Err := none
  once : Nat := 0               -- cancel's sync.Once: 0 not entered, 1 running, 2 completed
  wrote : Bool := false         -- onceChan.wrote
  pbuf : Option PVal := none    -- buffer of the panic channel (fixed code only)
  pool : Nat := 0
  wg : Nat := 0
  failed : Nat := 0
  ctxDone : Bool
  -- ghost logs and snapshots (never read by the steps, except to keep a snapshot once taken)
  mapped : List Nat := []       -- items handed to a mapper
  dropped : List Nat := []      -- items taken from source by a drain
  sent : List Nat := []         -- values accepted by the collector
  reduced : List Nat := []      -- values received by the reducer function
  drained : List Nat := []      -- values received by the reducer goroutine's deferred drain
  wSnap : Option Bool := none   -- at the reducer's FIRST Write (its guard): was an error recorded / the context over?
  eSnap : Option Bool := none   -- at the end of the reducer function: was an error recorded?
  onceBy : Option Canceller := none   -- who entered cancel's sync.Once
  wroteBy : Option PVal := none       -- whose panic won the CAS of onceChan.write
  consumed : Bool := false            -- the caller has received the panic value

def init (c : Cfg) : St := { rpc := .run c.rscript, ctxDone := c.ctxPre }

/-- a ghost snapshot is taken once. -/
def snapOnce (o : Option Bool) (b : Bool) : Option Bool :=
  match o with
  | none => some b
  | some x => some x

def upd (f : Nat → MPc) (i : Nat) (x : MPc) : Nat → MPc := fun j => if j = i then x else f j

inductive Actor | gen | dispCtx | dispDone | disp | mapper (i : Nat) | red | callerCtx | callerPanic | callerOut | caller | env
  deriving DecidableEq, Repr

/-- the generator stands at `source <- gNext`. -/
def genSending (c : Cfg) (s : St) : Bool :=
  s.gpc = .run && s.gNext < c.n && c.gPanicAt ≠ some s.gNext

/-- `v, ok := <-source` by any receiver: `some (some i)` item i, `some none` closed, `none` blocked. -/
def srcRecv (c : Cfg) (s : St) : Option (Option Nat) :=
  if genSending c s then some (some s.gNext)
  else if s.srcClosed then some none else none

/-- `panicChan.channel <- v` (after the CAS succeeded). -/
def panicSend (c : Cfg) (s : St) (v : PVal) : Option St :=
  if c.fixed then
    if s.pbuf = none then some { s with pbuf := some v } else none
  else
    if s.cpc = .sel then some { s with cpc := .drainOut v } else none

def stepGen (c : Cfg) (s : St) : Option St :=
  match s.gpc with
  | .run =>
    if c.gPanicAt = some s.gNext then some { s with gpc := .pwrite }
    else if c.n ≤ s.gNext then some { s with gpc := .close }
    else none                       -- waits at the send; the receiver's step moves it
  | .pwrite => if s.wrote then some { s with gpc := .close } else some { s with wrote := true, gpc := .psend, wroteBy := some .gen }
  | .psend => (panicSend c s .gen).map fun s' => { s' with gpc := .close }
  | .close => some { s with srcClosed := true, gpc := .done }
  | .done => none

def stepDisp (c : Cfg) (s : St) : Option St :=
  match s.dpc with
  | .loop => if s.failed = 0 then some { s with dpc := .sel } else some { s with dpc := .wait }
  | .sel => if s.pool < c.workers then some { s with pool := s.pool + 1, dpc := .recv } else none
  | .recv =>
    match srcRecv c s with
    | some (some i) => some { s with gNext := s.gNext + 1, dpc := .spawn i }
    | some none => some { s with dpc := .unpool }
    | none => none
  | .spawn i => some { s with wg := s.wg + 1, mp := upd s.mp i (.run (c.mscript i)), mapped := s.mapped ++ [i], dpc := .loop }
  | .unpool => some { s with pool := s.pool - 1, dpc := .wait }
  | .wait => if s.wg = 0 then some { s with dpc := .closeColl } else none
  | .closeColl => some { s with collClosed := true, dpc := .drain }
  | .drain =>
    match srcRecv c s with
    | some (some i) => some { s with gNext := s.gNext + 1, dropped := s.dropped ++ [i] }
    | some none => some { s with dpc := .done }
    | none => none
  | .done => none

def stepMapper (c : Cfg) (s : St) (i : Nat) : Option St :=
  match s.mp i with
  | .idle => none
  | .run [] => some { s with mp := upd s.mp i .wgdone }
  | .run (.write v :: sc) =>
    if s.ctxDone || s.fin then some { s with mp := upd s.mp i (.run sc) }
    else some { s with mp := upd s.mp i (.send v sc) }
  | .run (.cancel e :: sc) =>
    if s.once = 0 then some { s with once := 1, retErr := some (cancelErr e), mp := upd s.mp i (.cdrain sc), onceBy := some (.mapper i) }
    else if s.once = 1 then none
    else some { s with mp := upd s.mp i (.run sc) }
  | .run (.panic :: _) => some { s with mp := upd s.mp i .recovered }
  | .run (.readOne :: sc) => some { s with mp := upd s.mp i (.run sc) }
  | .run (.readAll :: sc) => some { s with mp := upd s.mp i (.run sc) }
  | .send v sc =>
    if s.collClosed then some { s with mp := upd s.mp i .crash }
    else if s.collQ.length < c.workers then
      some { s with collQ := s.collQ ++ [v], sent := s.sent ++ [v], mp := upd s.mp i (.run sc) }
    else none
  | .cdrain sc =>
    match srcRecv c s with
    | some (some j) => some { s with gNext := s.gNext + 1, dropped := s.dropped ++ [j] }
    | some none => some { s with fin := true, once := 2, mp := upd s.mp i (.run sc) }
    | none => none
  | .recovered => some { s with failed := s.failed + 1, mp := upd s.mp i .pwrite }
  | .pwrite =>
    if s.wrote then some { s with mp := upd s.mp i .wgdone }
    else some { s with wrote := true, mp := upd s.mp i .psend, wroteBy := some (.mapper i) }
  | .psend => (panicSend c s (.mapper i)).map fun s' => { s' with mp := upd s'.mp i .wgdone }
  | .wgdone => some { s with wg := s.wg - 1, mp := upd s.mp i .unpool }
  | .unpool => some { s with pool := s.pool - 1, mp := upd s.mp i .done }
  | .done => none
  | .crash => none

def stepRed (c : Cfg) (s : St) : Option St :=
  match s.rpc with
  | .run [] => some { s with rpc := .drain none, eSnap := snapOnce s.eSnap s.retErr.isSome }
  | .run (.readOne :: sc) =>
    match s.collQ with
    | v :: q => some { s with collQ := q, reduced := s.reduced ++ [v], rpc := .run sc }
    | [] => if s.collClosed then some { s with rpc := .run sc } else none
  | .run (.readAll :: sc) =>
    match s.collQ with
    | v :: q => some { s with collQ := q, reduced := s.reduced ++ [v] }
    | [] => if s.collClosed then some { s with rpc := .run sc } else none
  | .run (.write v :: sc) =>
    if s.ctxDone || s.fin then some { s with rpc := .run sc, wSnap := snapOnce s.wSnap (s.retErr.isSome || s.ctxDone) }
    else some { s with rpc := .send v sc, wSnap := snapOnce s.wSnap (s.retErr.isSome || s.ctxDone) }
  | .run (.cancel e :: sc) =>
    if s.once = 0 then some { s with once := 1, retErr := some (cancelErr e), rpc := .cdrain sc, onceBy := some .reducer }
    else if s.once = 1 then none
    else some { s with rpc := .run sc }
  | .run (.panic :: _) => some { s with rpc := .drain (some .reducer), eSnap := snapOnce s.eSnap s.retErr.isSome }
  | .send v sc =>
    if s.fin then some { s with rpc := .drain (some .sendClosed), eSnap := snapOnce s.eSnap s.retErr.isSome }      -- send on closed channel
    else match s.cpc with
      | .sel => some { s with cpc := .defer (match s.retErr with | some e => .err e | none => .val v), rpc := .run sc }
      | .drainOut _ => some { s with rpc := .run sc }
      | .defer _ => some { s with cpc := .done (.panic .multi), rpc := .run sc }
      | _ => none
  | .cdrain sc =>
    match srcRecv c s with
    | some (some j) => some { s with gNext := s.gNext + 1, dropped := s.dropped ++ [j] }
    | some none => some { s with fin := true, once := 2, rpc := .run sc }
    | none => none
  | .drain p =>
    match s.collQ with
    | v :: q => some { s with collQ := q, drained := s.drained ++ [v] }
    | [] =>
      if s.collClosed then
        match p with
        | some pv => some { s with rpc := .pwrite pv }
        | none => some { s with rpc := .finish }
      else none
  | .pwrite pv => if s.wrote then some { s with rpc := .finish } else some { s with wrote := true, rpc := .psend pv, wroteBy := some pv }
  | .psend pv => (panicSend c s pv).map fun s' => { s' with rpc := .finish }
  | .finish => some { s with fin := true, rpc := .done }
  | .done => none

def outRes (s : St) : Res :=
  match s.retErr with
  | some e => .err e
  | none => .err .noOutput

def stepCaller (c : Cfg) (s : St) : Option St :=
  match s.cpc with
  | .sel => none                       -- the three select cases are separate actors
  | .cancelEnter =>
    if s.once = 0 then some { s with once := 1, retErr := some .deadline, cpc := .cdrain, onceBy := some .caller }
    else if s.once = 1 then none
    else some { s with cpc := .defer (.err .deadline) }
  | .cdrain =>
    match srcRecv c s with
    | some (some j) => some { s with gNext := s.gNext + 1, dropped := s.dropped ++ [j] }
    | some none => some { s with fin := true, once := 2, cpc := .defer (.err .deadline) }
    | none => none
  | .drainOut p => if s.fin then some { s with cpc := .done (.panic p) } else none
  | .defer r => if s.fin then (if c.fixed then some { s with cpc := .check r } else some { s with cpc := .done r }) else none
  | .check r =>
    match s.pbuf with
    | some p => some { s with pbuf := none, cpc := .done (.panic p), consumed := true }
    | none => some { s with cpc := .done r }
  | .done _ => none

def step (c : Cfg) (s : St) : Actor → Option St
  | .gen => stepGen c s
  | .dispCtx => if s.dpc = .sel ∧ s.ctxDone then some { s with dpc := .wait } else none
  | .dispDone => if s.dpc = .sel ∧ s.fin then some { s with dpc := .wait } else none
  | .disp => stepDisp c s
  | .mapper i => stepMapper c s i
  | .red => stepRed c s
  | .callerCtx => if s.cpc = .sel ∧ s.ctxDone then some { s with cpc := .cancelEnter } else none
  | .callerPanic =>
    if s.cpc = .sel ∧ c.fixed then
      match s.pbuf with
      | some p => some { s with pbuf := none, cpc := .drainOut p, consumed := true }
      | none => none
    else none
  | .callerOut => if s.cpc = .sel ∧ s.fin then some { s with cpc := .defer (outRes s) } else none
  | .caller => stepCaller c s
  | .env => if c.ctxCan ∧ ¬ s.ctxDone then some { s with ctxDone := true } else none

/-- every configuration some schedule can reach. -/
inductive Reach (c : Cfg) : St → Prop
  | init : Reach c (init c)
  | step {s s' : St} (a : Actor) : Reach c s → step c s a = some s' → Reach c s'

/-! ### running the model under a concrete scheduler (used by the driver and by `example`s) -/

/-- all actors that could possibly move in a configuration with `n` items. -/
def actors (n : Nat) : List Actor :=
  [.gen, .dispCtx, .dispDone, .disp, .red, .callerCtx, .callerPanic, .callerOut, .caller, .env]
    ++ (List.range n).map .mapper

/-- run with a priority list: always the first enabled actor of `prio`; stops when none is enabled. -/
def runPrio (c : Cfg) (prio : List Actor) : Nat → St → St
  | 0, s => s
  | fuel + 1, s =>
    match prio.findSome? (fun a => step c s a) with
    | some s' => runPrio c prio fuel s'
    | none => s

/-! ### the code as it is now: `onceChan.write` is `select { case oc.channel <- val: default: }`

`step` keeps the weaker form the code had before (`if CAS(&wrote,0,1) { channel <- val }`: two steps `pwrite`,
`psend` with other goroutines in between — `Props.generator_panic_can_be_lost` lives in that window).  The
non-blocking send into the capacity-1 channel is ONE atomic channel operation: it is the CAS form with the
winner sending at once.  `stepA` is that fusion: whenever an actor's step lands on its `psend`, the send is
executed in the same atomic action.  Every `stepA`-run is a `step`-run (`ProofsW.reachA_reach`), so every
theorem about `Reach` holds for `ReachA`; in `ReachA` nobody ever stands between the CAS and the send, and
`wrote` is exactly "the buffer was filled" (`ProofsW.InvQ.j`).  Abstraction (documented): after the caller has
emptied the buffer (`consumed`), a later write of the real code re-fills it, the model's does not (`wrote`
stays true); the buffer is never read again after `consumed` (the caller reads it at most once: `callerPanic`
or `check`), so no step of any actor depends on the difference. -/

/-- actor `a` stands at the send of `onceChan.write`. -/
def atPsend (s : St) : Actor → Bool
  | .gen => s.gpc = .psend
  | .mapper i => s.mp i = .psend
  | .red => match s.rpc with
    | .psend _ => true
    | _ => false
  | _ => false

def stepA (c : Cfg) (s : St) (a : Actor) : Option St :=
  match step c s a with
  | none => none
  | some s1 => if atPsend s1 a then step c s1 a else some s1

/-- every configuration some schedule of the code as it is now can reach. -/
inductive ReachA (c : Cfg) : St → Prop
  | init : ReachA c (init c)
  | step {s s' : St} (a : Actor) : ReachA c s → stepA c s a = some s' → ReachA c s'

def runPrioA (c : Cfg) (prio : List Actor) : Nat → St → St
  | 0, s => s
  | fuel + 1, s =>
    match prio.findSome? (fun a => stepA c s a) with
    | some s' => runPrioA c prio fuel s'
    | none => s

def result (s : St) : Option Res :=
  match s.cpc with
  | .done r => some r
  | _ => none

/-- the goroutines of the call that have not ended (the caller itself excluded). -/
def aliveCount (c : Cfg) (s : St) : Nat :=
  (if s.gpc = .done then 0 else 1) + (if s.dpc = .done then 0 else 1) + (if s.rpc = .done then 0 else 1)
    + ((List.range c.n).filter fun i => s.mp i ≠ .idle ∧ s.mp i ≠ .done).length

end GoZero.C10
