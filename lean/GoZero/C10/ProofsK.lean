/-
C10 — round 5c: the progress lemma of ProofsG at full generality.
 * no bound on the number of reducer writes: a stuck configuration is final, OR the reducer is blocked in a Write that
   is at least its third (the caller has left with the library's panic "more than one element written in reducer");
 * the caller's context case is not needed for progress: the lemma only asks the OTHER actors to be stuck — this is
   what makes `ForEach` (whose caller has no context case) with a context an instance of the core.
The proof is the one of `ProofsG.stuck_is_final`; the hypothesis `(writesOf c.rscript).length ≤ 2` was used in a single
case, which now is the second disjunct.
-/
import GoZero.C10.ProofsW
namespace GoZero.C10

/-- the reducer stands in a `Write` on `output` that nobody will ever take: the caller has returned with the
"more than one element" panic, the output is not closed, and this is at least the third write of the script. -/
def blockedInLateWrite (c : Cfg) (s : St) : Prop :=
  ∃ v sc, s.rpc = .send v sc ∧ s.cpc = .done (.panic .multi) ∧ s.fin = false ∧
    rW s.rpc + 2 ≤ (writesOf c.rscript).length

/-- **Progress, general form.** -/
theorem stuck_core (c : Cfg) (hf : c.fixed = true) (hw : 1 ≤ c.workers) (s : St) (h : Reach c s)
    (hstuck0 : ∀ a, a ≠ .callerCtx → step c s a = none) :
    (result s ≠ none ∧ aliveCount c s = 0) ∨ blockedInLateWrite c s := by
  have hstuck : ∀ a, a ≠ Actor.callerCtx → step c s a = none := hstuck0
  have IC := invC_reach h
  have IB := invB_reach h
  have IE := invE_reach h
  have IF := invF_reach h
  -- the source is ready for every receiver: the generator stands at its send, or has closed it
  have hsrc : srcRecv c s ≠ none := by
    have hg := gen_blocked (c := c) (s := s) (by simpa [step] using hstuck .gen (by simp))
    rcases hg with ⟨_, hs⟩ | ⟨hp, hn⟩ | hd
    · simp [srcRecv, hs]
    · exact absurd hn (panicSend_fixed hf (IE.p2 hp).1)
    · have := IE.g1 hd
      simp [srcRecv, genSending, hd, this]
  have hm := fun i => mapper_blocked (c := c) (s := s) (i := i) (by simpa [step] using hstuck (.mapper i) (by simp))
  have hred := red_blocked (c := c) (s := s) (by simpa [step] using hstuck .red (by simp))
  have hcal := caller_blocked (c := c) (s := s) (by simpa [step] using hstuck .caller (by simp))
  have hdis := disp_blocked (c := c) (s := s) (by simpa [step] using hstuck .disp (by simp))
  -- nobody waits inside cancel's sync.Once: its runner could drain
  have honce : s.once ≠ 1 := by
    intro h1
    have hby := IE.o1a h1
    cases hb : s.onceBy with
    | none => exact hby hb
    | some x =>
      cases x with
      | mapper i =>
        have hc := IE.o1m i h1 hb
        rcases hm i with h | h | h | ⟨e, sc, h, _⟩ | ⟨v, sc, h, _⟩ | ⟨sc, _, hn⟩ | ⟨h, _⟩
        all_goals (first | exact hsrc hn | (rw [h] at hc; simp [mIsCdrain] at hc))
      | reducer =>
        have hc := IE.o1r h1 hb
        rcases hred with h | ⟨e, sc, h, _⟩ | ⟨⟨sc, h | h⟩, _⟩ | ⟨p, h, _⟩ | ⟨v, sc, h, _⟩ | ⟨sc, _, hn⟩ | ⟨p, h, _⟩
        all_goals (first | exact hsrc hn | (rw [h] at hc; simp [rIsCdrain] at hc))
      | caller =>
        have hc := IE.o1c h1 hb
        rcases hcal with h | ⟨r, h⟩ | ⟨h, _⟩ | ⟨_, hn⟩ | ⟨⟨p, h⟩, _⟩ | ⟨⟨r, h⟩, _⟩
        all_goals (first | exact hsrc hn | (rw [h] at hc; simp at hc))
  -- a mapper goroutine is idle, ended, or blocked writing to a full open collector
  have hmi : ∀ i, s.mp i = .idle ∨ s.mp i = .done ∨
      (∃ v sc, s.mp i = .send v sc ∧ s.collClosed = false ∧ c.workers ≤ s.collQ.length) := by
    intro i
    rcases hm i with h | h | h | ⟨e, sc, _, h1⟩ | h | ⟨sc, _, hn⟩ | ⟨hp, hn⟩
    · exact Or.inl h
    · exact Or.inr (Or.inl h)
    · exact absurd h (IB.nocrash i)
    · exact absurd h1 honce
    · exact Or.inr (Or.inr h)
    · exact absurd hn hsrc
    · exact absurd hn (panicSend_fixed hf (IE.p3 i hp).1)
  -- the dispatcher waits for a pool slot, waits for the wait group, or has ended
  have hdi : (s.dpc = .sel ∧ c.workers ≤ s.pool) ∨ (s.dpc = .wait ∧ s.wg ≠ 0) ∨ s.dpc = .done := by
    rcases hdis with h | ⟨_, hn⟩ | h | ⟨_, hn⟩ | h
    · exact Or.inl h
    · exact absurd hn hsrc
    · exact Or.inr (Or.inl h)
    · exact absurd hn hsrc
    · exact Or.inr (Or.inr h)
  -- if no mapper goroutine is in the wait group / the pool, the dispatcher has ended
  have hdone_of_quiet : (∀ i, s.mp i = .idle ∨ s.mp i = .done) → s.dpc = .done := by
    intro hq
    have hwg : s.wg = 0 := by
      rw [IB.wgc]; exact cnt_zero_of _ _ _ (fun i _ => by rcases hq i with h | h <;> simp [h, inWg])
    have hpool : cnt inPool s.mp c.n = 0 :=
      cnt_zero_of _ _ _ (fun i _ => by rcases hq i with h | h <;> simp [h, inPool])
    rcases hdi with ⟨hd, hp⟩ | ⟨_, hn⟩ | hd
    · have := IB.poolc
      rw [hpool, hd] at this
      simp [dHolds, b2n] at this
      omega
    · exact absurd hwg hn
    · exact hd
  rcases hred with hrd | ⟨e, sc, _, h1⟩ | ⟨_, hq, hcl⟩ | ⟨p, _, hq, hcl⟩ | ⟨v, sc, hrs, hfin, hc⟩ | ⟨sc, _, hn⟩ | ⟨p, hp, hn⟩
  · -- the reducer goroutine has ended: everything has
    have hfin := IE.r2 hrd
    have hcq := IE.r1 (by simp [hrd, rAfterDrain])
    have hq : ∀ i, s.mp i = .idle ∨ s.mp i = .done := by
      intro i
      rcases hmi i with h | h | ⟨v, sc, _, hcl, _⟩
      · exact Or.inl h
      · exact Or.inr h
      · rw [hcq.1] at hcl; simp at hcl
    have hdd := hdone_of_quiet hq
    have hgd : s.gpc = .done := IF.f1 (IE.d2 hdd)
    refine Or.inl ⟨?_, alive_zero_of hgd hdd hrd hq⟩
    rcases hcal with hc | ⟨r, hc⟩ | ⟨_, h1⟩ | ⟨_, hn⟩ | ⟨_, hnf⟩ | ⟨_, hnf⟩
    · have := hstuck .callerOut (by simp)
      simp [step, hc, hfin] at this
    · simp [result, hc]
    · exact absurd h1 honce
    · exact absurd hn hsrc
    · rw [hfin] at hnf; simp at hnf
    · rw [hfin] at hnf; simp at hnf
  · exact absurd h1 honce
  · -- the reducer waits for a value on an empty open collector: then nobody is left to close it — impossible
    exfalso
    have hq' : ∀ i, s.mp i = .idle ∨ s.mp i = .done := by
      intro i
      rcases hmi i with h | h | ⟨v, sc, _, _, hfull⟩
      · exact Or.inl h
      · exact Or.inr h
      · rw [hq] at hfull; simp at hfull; omega
    have := IE.d1 (Or.inr (hdone_of_quiet hq'))
    rw [hcl] at this; simp at this
  · exfalso
    have hq' : ∀ i, s.mp i = .idle ∨ s.mp i = .done := by
      intro i
      rcases hmi i with h | h | ⟨v, sc, _, _, hfull⟩
      · exact Or.inl h
      · exact Or.inr h
      · rw [hq] at hfull; simp at hfull; omega
    have := IE.d1 (Or.inr (hdone_of_quiet hq'))
    rw [hcl] at this; simp at this
  · -- the reducer waits to hand over a value: the caller is always able to take it or has closed the output
    rcases hc with hc | hc | ⟨r, hc⟩ | ⟨r, hc⟩
    · exfalso
      rcases hcal with h | ⟨r, h⟩ | ⟨_, h1⟩ | ⟨h, _⟩ | ⟨⟨p, h⟩, _⟩ | ⟨⟨r, h⟩, _⟩
      all_goals (first | exact absurd h1 honce | (rw [hc] at h; simp at h))
    · exfalso
      rcases hcal with h | ⟨r, h⟩ | ⟨h, _⟩ | ⟨_, hn⟩ | ⟨⟨p, h⟩, _⟩ | ⟨⟨r, h⟩, _⟩
      all_goals (first | exact absurd hn hsrc | (rw [hc] at h; simp at h))
    · exfalso
      have := IE.c1 r hc
      rw [hfin] at this; simp at this
    · rcases IE.c2 r hc with h2 | ⟨hr2, h2⟩
      · rw [hfin] at h2; simp at h2
      · exact Or.inr ⟨v, sc, hrs, by rw [hc, hr2], hfin, h2⟩
  · exact absurd hn hsrc
  · exact absurd hn (panicSend_fixed hf (IE.p4 (by simp [hp, rIsPsend])).1)


/-- the round 1–4 form is the special case of at most two reducer writes. -/
theorem stuck_core_le2 (c : Cfg) (hf : c.fixed = true) (hw : 1 ≤ c.workers)
    (hr : (writesOf c.rscript).length ≤ 2) (s : St) (h : Reach c s)
    (hstuck : ∀ a, a ≠ .callerCtx → step c s a = none) : result s ≠ none ∧ aliveCount c s = 0 := by
  rcases stuck_core c hf hw s h hstuck with h1 | ⟨v, sc, hrs, _, _, h2⟩
  · exact h1
  · rw [hrs] at h2
    simp [rW, rRem, writesOf] at h2
    omega

end GoZero.C10
