/-
C10 — abstract specification: which outcomes a MapReduce call may have, as a function of the user
scripts and the context only (no reference to the pipeline), and the executable monitors evaluated on
what the harness observed on the real code.
-/
import GoZero.C10.Model
namespace GoZero.C10

def isCancel : UAct → Bool
  | .cancel _ => true
  | _ => false

def hasCancel (sc : List UAct) : Bool := sc.any isCancel
def hasPanic (sc : List UAct) : Bool := sc.contains .panic

def writesOf : List UAct → List Nat
  | [] => []
  | .write v :: sc => v :: writesOf sc
  | _ :: sc => writesOf sc

def genPanics (c : Cfg) : Bool :=
  match c.gPanicAt with
  | some k => k ≤ c.n
  | none => false

/-- some mapper script of an item `< n` satisfies `p`. -/
def anyMapper (c : Cfg) (p : List UAct → Bool) : Bool := (List.range c.n).any fun i => p (c.mscript i)

def anyScript (c : Cfg) (p : List UAct → Bool) : Bool := anyMapper c p || p c.rscript

/-- "nothing is cancelled": no cancel, no panic, the context cannot end. -/
def faultFree (c : Cfg) : Bool :=
  !c.ctxCan && !c.ctxPre && !genPanics c && !anyScript c hasCancel && !anyScript c hasPanic

/-- the context cannot end and nobody calls cancel (user panics are possible). -/
def noCancel (c : Cfg) : Bool := !c.ctxCan && !c.ctxPre && !anyScript c hasCancel

/-- what a call must return when nothing is cancelled: the reducer's single output, or
`ErrReduceNoOutput`; a reducer that writes twice gets the library's panic. -/
def expected (c : Cfg) : Res :=
  match writesOf c.rscript with
  | [] => .err .noOutput
  | [v] => .val v
  | _ :: _ :: _ => .panic .multi

/-- the returned-error table: every outcome a call may have. -/
def allowed (c : Cfg) : Res → Bool
  | .val v => (writesOf c.rscript).contains v
  | .err (.user k) => anyScript c fun sc => sc.contains (.cancel (some k))
  | .err .nilCancel => anyScript c fun sc => sc.contains (.cancel none)
  | .err .deadline => c.ctxCan || c.ctxPre
  | .err .noOutput => true
  | .panic .gen => genPanics c
  | .panic (.mapper i) => decide (i < c.n) && hasPanic (c.mscript i)
  | .panic .reducer => hasPanic c.rscript
  | .panic .multi => decide (2 ≤ (writesOf c.rscript).length)
  | .panic .sendClosed => !(writesOf c.rscript).isEmpty && (c.ctxCan || c.ctxPre || anyScript c hasCancel)

/-! ### monitors over observations -/

/-- peak number of mapper invocations running at once, from the start/end history
(`(true,i)` = start of item i, `(false,i)` = end). -/
def peak (h : List (Bool × Nat)) : Nat :=
  (h.foldl (fun (acc : Nat × Nat) e =>
    let cur := if e.1 then acc.1 + 1 else acc.1 - 1
    (cur, max acc.2 cur)) (0, 0)).2

def countIn (v : Nat) (l : List Nat) : Nat := l.count v

/-- `a` is a sub-multiset of `b`. -/
def subMultiset (a b : List Nat) : Bool := a.all fun v => a.count v ≤ b.count v

def sameMultiset (a b : List Nat) : Bool := subMultiset a b && subMultiset b a

/-- all values written by the mapper scripts of the given items. -/
def writesOfItems (c : Cfg) (items : List Nat) : List Nat :=
  items.flatMap fun i => writesOf (c.mscript i)

end GoZero.C10
