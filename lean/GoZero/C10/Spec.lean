/-
C10 — abstract specification: which outcomes a MapReduce call may have, as a function of the user
scripts and the context only (no reference to the pipeline), and the executable monitors evaluated on
what the harness observed on the real code.
-/
import GoZero.C10.Model
namespace GoZero.C10

def isCancel : UAct → Bool
  | .cancel _ => true
  | _ => false

def hasCancel (sc : List UAct) : Bool := sc.any isCancel
def hasPanic (sc : List UAct) : Bool := sc.contains .panic

def writesOf : List UAct → List Nat
  | [] => []
  | .write v :: sc => v :: writesOf sc
  | _ :: sc => writesOf sc

def genPanics (c : Cfg) : Bool :=
  match c.gPanicAt with
  | some k => k ≤ c.n
  | none => false

/-- some mapper script of an item `< n` satisfies `p`. -/
def anyMapper (c : Cfg) (p : List UAct → Bool) : Bool := (List.range c.n).any fun i => p (c.mscript i)

def anyScript (c : Cfg) (p : List UAct → Bool) : Bool := anyMapper c p || p c.rscript

/-- "nothing is cancelled": no cancel, no panic, the context cannot end. -/
def faultFree (c : Cfg) : Bool :=
  !c.ctxCan && !c.ctxPre && !genPanics c && !anyScript c hasCancel && !anyScript c hasPanic

/-- the context cannot end and nobody calls cancel (user panics are possible). -/
def noCancel (c : Cfg) : Bool := !c.ctxCan && !c.ctxPre && !anyScript c hasCancel

/-- what a call must return when nothing is cancelled: the reducer's single output, or
`ErrReduceNoOutput`; a reducer that writes twice gets the library's panic. -/
def expected (c : Cfg) : Res :=
  match writesOf c.rscript with
  | [] => .err .noOutput
  | [v] => .val v
  | _ :: _ :: _ => .panic .multi

/-- the coarse returned-error table (round 1): every outcome a call may have. -/
def allowed0 (c : Cfg) : Res → Bool
  | .val v => (writesOf c.rscript).contains v
  | .err (.user k) => anyScript c fun sc => sc.contains (.cancel (some k))
  | .err .nilCancel => anyScript c fun sc => sc.contains (.cancel none)
  | .err .deadline => c.ctxCan || c.ctxPre
  | .err .noOutput => true
  | .panic .gen => genPanics c
  | .panic (.mapper i) => decide (i < c.n) && hasPanic (c.mscript i)
  | .panic .reducer => hasPanic c.rscript
  | .panic .multi => decide (2 ≤ (writesOf c.rscript).length)
  | .panic .sendClosed => !(writesOf c.rscript).isEmpty && (c.ctxCan || c.ctxPre || anyScript c hasCancel)

/-- the refinement of round 2: the value is the reducer's FIRST write; `ErrReduceNoOutput` is possible
only if the reducer writes nothing, or its write can be dropped because the context ends, or it panics
instead (that panic is then re-raised unless a cancel ended the call first). -/
def refined (c : Cfg) : Res → Bool
  | .val v => (writesOf c.rscript).head? = some v
  | .err .noOutput => (writesOf c.rscript).isEmpty || c.ctxCan || c.ctxPre || hasPanic c.rscript
  | _ => true

/-- the returned-error table: every outcome a call may have. -/
def allowed (c : Cfg) (r : Res) : Bool := allowed0 c r && refined c r

/-! ### the table for the schedule that actually happened

The harness stamps every event of a user function into one totally ordered history (one mutex), an
event that *proves* something has happened AFTER the operation returned, an event that *announces* an
operation BEFORE it is invoked.  So "proof of A is stamped before the announcement of B" implies "A
happened before B" in the real execution.  `allowedAt` is the returned-error table restricted by these
facts; the model-side counterparts are `Props.value_only_if_no_error_before_the_write`,
`Props.no_output_only_if_no_error_before_reducer_end`, `Props.first_cancel_wins`,
`Props.dropped_item_means_fault`. -/

inductive Who | mapper (i : Nat) | reducer
  deriving DecidableEq, Repr

inductive Ev
  | mstart (i : Nat) | mend (i : Nat) | mpanic (i : Nat)     -- mapper i: started / about to return / about to panic
  | taken (k : Nat) | gend | gpanic                           -- generator: send of item k returned / about to return / to panic
  | cbegin (w : Who) (e : Option Nat) | cend (w : Who)        -- about to call cancel(e) / cancel returned
  | wbegin (v : Nat) | wend (v : Nat)                         -- reducer: about to Write v / Write returned
  | recv (v : Nat) | closed | rend | rpanic                   -- reducer: received v / saw the pipe closed / about to return / to panic
  | ctxBegin | ctxEnd                                         -- the context is about to be cancelled / has been cancelled
  | ret                                                       -- the call returned
  deriving DecidableEq, Repr

/-- the events before the first one satisfying `p` (all of them if there is none). -/
def upTo (p : Ev → Bool) (h : List Ev) : List Ev := h.takeWhile fun e => !p e

def isCend : Ev → Bool
  | .cend _ => true
  | _ => false

def isWbegin : Ev → Bool
  | .wbegin _ => true
  | _ => false

/-- events after which the dispatcher may leave its loop (and run its own deferred `drain(source)`)
without any cancel: a mapper panic (`failed`), the context, the end of the reducer (`finish`). -/
def opensDispatcherDrain : Ev → Bool
  | .mpanic _ => true
  | .ctxBegin => true
  | .rend => true
  | .rpanic => true
  | _ => false

/-- an item that was never handed to a mapper has been taken from the source while neither a mapper
panic, nor the context, nor the end of the reducer can have made the dispatcher drain: only
`cancel`'s `drain(source)` can have taken it, and that runs after `retErr.Set`
(model: `Props.dropped_item_means_fault`). -/
def drainedTake (mapped : List Nat) : List Ev → Bool
  | [] => false
  | e :: rest =>
    if opensDispatcherDrain e then false
    else (match e with
          | .taken k => !mapped.contains k
          | _ => false) || drainedTake mapped rest

/-- the history prefix `pre` proves that some cancel has recorded its error (`retErr.Set`). -/
def setEvidence (mapped : List Nat) (pre : List Ev) : Bool :=
  pre.any isCend || drainedTake mapped pre

def firstWrite (h : List Ev) : Option Nat :=
  h.findSome? fun e => match e with
    | .wbegin v => some v
    | _ => none

/-- some `cancel(e)` call began before any cancel call had returned (only such a call can be the one that
ran under the `sync.Once`). -/
def cancelCouldWin (e : Option Nat) : List Ev → Bool
  | [] => false
  | .cend _ :: _ => false
  | .cbegin _ e' :: rest => e' = e || cancelCouldWin e rest
  | _ :: rest => cancelCouldWin e rest

/-- some `cancel(e)` call began (before the return). -/
def cancelBegan (e : Option Nat) (h : List Ev) : Bool :=
  h.any fun ev => match ev with
    | .cbegin _ e' => e' = e
    | _ => false

/-- the outcomes possible for the schedule that happened (`h` = observed history, `mapped` = the items
handed to a mapper).  Sound for the real code by the happens-before argument above. -/
def allowedAt (mapped : List Nat) (h : List Ev) (r : Res) : Bool :=
  let hr := upTo (· == .ret) h
  match r with
  | .val v =>
    -- the first write, begun before the return, while no error was known to be recorded and the context not known to be over
    firstWrite hr = some v && !setEvidence mapped (upTo isWbegin hr) && !(upTo isWbegin hr).contains .ctxEnd
  | .err .noOutput =>
    -- the reducer ended normally before the return, and no error was known to be recorded before that
    hr.contains .rend && !setEvidence mapped (upTo (· == .rend) hr)
  | .err (.user k) => cancelCouldWin (some k) hr
  | .err .nilCancel => cancelCouldWin none hr
  | .err .deadline => hr.contains .ctxBegin
  | .panic .gen => hr.contains .gpanic
  | .panic (.mapper i) => hr.contains (.mpanic i)
  | .panic .reducer => hr.contains .rpanic
  | .panic .multi => decide (2 ≤ (hr.filter isWbegin).length)
  | .panic .sendClosed => hr.any isWbegin

/-! ### the entry points and the glue around the core (round 4)

Every public entry point is a configuration of the same core model:
`MapReduce` = the core; `MapReduceChan` = the core with a source the library cannot catch a panic of
(`gPanicAt = none`); `MapReduceVoid` = the core with a reducer that has no writer, `ErrReduceNoOutput ↦ nil`;
`Finish(fns…)` = `MapReduceVoid` with one item per function, `WithWorkers(len fns)`, a mapper that calls
`cancel(err)` iff the function returns a non-nil error, and an empty reducer; `ForEach` = the core with mappers
that neither write nor cancel and the caller itself ranging over the collector (simulated by a reducer
`[readAll]`: the caller's loop `select {panicChan → panic; collector closed → repanic; return}` is the
reducer's `for range` + `finish` + the caller's `output`/`repanic` sequence with nothing in between that
another goroutine can observe); `FinishVoid` = `ForEach` with `WithWorkers(len fns)`. -/

def minWorkersN : Nat := 1
def defaultWorkersN : Nat := 16

/-- `WithWorkers(w)`: `if workers < minWorkers { minWorkers } else { workers }`. -/
def clampWorkers (w : Int) : Nat := if w < (minWorkersN : Int) then minWorkersN else w.toNat

/-- `buildOptions(opts…)`: `newOptions()` (defaultWorkers), then every `WithWorkers` in order: the last one wins. -/
def workersOf (ws : List Int) : Nat := ws.foldl (fun _ w => clampWorkers w) defaultWorkersN

/-- `errorx.AtomicError` over error codes (`none` = nil): `Set` stores non-nil errors only; `Load` returns the
stored error or nil. -/
def aeSet (cur err : Option Nat) : Option Nat := if err != none then err else cur
def aeLoad (cur : Option Nat) : Option Nat := if cur != none then cur else none

/-- what `cancel(err)` records: `if err != nil { retErr.Set(err) } else { retErr.Set(ErrCancelWithNil) }`
(error code 0 stands for ErrCancelWithNil, user error k for k+1). -/
def encErr : Err → Nat
  | .nilCancel => 0
  | .user k => k + 4
  | .deadline => 1
  | .noOutput => 2

def cancelRecords (err : Option Nat) : Option Nat := aeSet none (if err != none then err else some (encErr .nilCancel))

/-- the caller's `case v, ok := <-output` branch: `if e := retErr.Load(); e != nil { err = e } else if ok { val = v }
else { err = ErrReduceNoOutput }` as (value, error) with 0 / none for the zero values. -/
def callerOutput (retErr : Option Nat) (ok : Bool) (v : Nat) : Nat × Option Nat :=
  if aeLoad retErr != none then (0, aeLoad retErr) else if ok then (v, none) else (0, some (encErr .noOutput))

/-- `MapReduceVoid`: `if errors.Is(err, ErrReduceNoOutput) { return nil }; return err`. -/
def voidReturn (err : Option Nat) : Option Nat := if err == some (encErr .noOutput) then none else err

/-- one function handed to `Finish` / `FinishVoid`. -/
inductive FnAct | ok | err (k : Nat) | panic
  deriving DecidableEq, Repr

def fnScript : FnAct → List UAct
  | .ok => []
  | .err k => [.cancel (some k)]
  | .panic => [.panic]

/-- `Finish(fns…)` (for `fns ≠ []`; `Finish()` returns nil without starting anything). -/
def finishCfg (fns : List FnAct) : Cfg :=
  { n := fns.length, workers := clampWorkers fns.length, gPanicAt := none,
    mscript := fun i => match fns[i]? with | some f => fnScript f | none => [],
    rscript := [], ctxCan := false, ctxPre := false, fixed := true }

/-- `ForEach(generate, mapper, WithWorkers(w))` without a context; `pan i` = the mapper panics on item i. -/
def forEachCfg (n : Nat) (w : Int) (gp : Option Nat) (pan : Nat → Bool) : Cfg :=
  { n := n, workers := clampWorkers w, gPanicAt := gp,
    mscript := fun i => if pan i then [.panic] else [],
    rscript := [.readAll], ctxCan := false, ctxPre := false, fixed := true }

/-! ### the error VALUE classes (round 5)

The property speaks of "an error that was passed to cancel (ErrCancelWithNil for nil)".  A Go `error` is an interface
value: it is nil only if it holds no dynamic value at all.  A dynamic value that is the ZERO value of its type — an
empty-struct sentinel, an int-coded error with code 0, an empty string-coded error, a typed nil pointer, a nil
slice-typed error, a struct whose fields are all zero — is a non-nil error and must come back like any other.  The
harness numbers the classes (`c<k>`); the model's error domain is the code itself (`Option Nat`, `none` = the nil
interface), so "zero-valued" is a property of the code, invisible to `aeSet` (which tests `≠ none` only). -/

/-- codes whose Go value is the zero value of its dynamic type (yet a non-nil error). -/
def zeroValuedKinds : List Nat := [101, 102, 103, 104, 107, 108]

/-- what `cancel` is called with for the token `c<k>`: `none` = the nil interface (k = 0), and k = 110 is
`ErrCancelWithNil` itself handed in by the user — the same recorded value as for nil. -/
def cancelArg (k : Nat) : Option Nat := if k = 0 ∨ k = 110 then none else some k

/-- code 111 = `ErrReduceNoOutput` handed to cancel by the user: the returned VALUE is indistinguishable from the
library's own "no output" result; code 112 wraps it (`errors.Is` sees through the wrapping, `==` does not). -/
def sentinelKinds : List Nat := [111, 112]

def errKindName (k : Nat) : String :=
  if k = 0 then "nil" else if k < 100 then "struct-value"
  else match k with
    | 101 => "zero-struct" | 102 => "int-code-0" | 103 => "empty-string" | 104 => "typed-nil-pointer"
    | 105 => "pointer" | 106 => "wrapped" | 107 => "nil-slice-uncomparable" | 108 => "struct-all-fields-zero"
    | 109 => "context.Canceled-by-user" | 110 => "ErrCancelWithNil-by-user" | 111 => "ErrReduceNoOutput-by-user"
    | 112 => "wraps-ErrReduceNoOutput" | _ => "other"

/-- `AtomicError.Set` as the seeded "hardening" would have it (`err != nil && !reflect.ValueOf(err).IsZero()`):
used only to show that the property fails for it (`Props5.isZero_variant_loses_the_error`). -/
def aeSetIsZero (cur err : Option Nat) : Option Nat :=
  match err with
  | some k => if zeroValuedKinds.contains k then cur else some k
  | none => cur

/-- `MapReduceVoid`'s result for the error `MapReduce` returned, given whether that error is the one a cancel call
recorded (`fromCancel`) or the caller's own "no output" decision: only the latter becomes nil.  The code before the
round-5 fix tested `errors.Is(err, ErrReduceNoOutput)` alone (`voidReturnIs`): a cancel error that is / wraps the
sentinel (codes 111, 112) was swallowed. -/
def voidReturn2 (fromCancel : Bool) (err : Option Nat) : Option Nat :=
  if fromCancel then err else voidReturn err

/-- `errors.Is(err, ErrReduceNoOutput)` over codes. -/
def isNoOutput (err : Option Nat) : Bool :=
  err == some (encErr .noOutput) || err == some (encErr (.user 111)) || err == some (encErr (.user 112))

def voidReturnIs (err : Option Nat) : Option Nat := if isNoOutput err then none else err

/-! ### monitors over observations -/

/-- peak number of mapper invocations running at once, from the start/end history
(`(true,i)` = start of item i, `(false,i)` = end). -/
def peak (h : List (Bool × Nat)) : Nat :=
  (h.foldl (fun (acc : Nat × Nat) e =>
    let cur := if e.1 then acc.1 + 1 else acc.1 - 1
    (cur, max acc.2 cur)) (0, 0)).2

def countIn (v : Nat) (l : List Nat) : Nat := l.count v

/-- `a` is a sub-multiset of `b`. -/
def subMultiset (a b : List Nat) : Bool := a.all fun v => a.count v ≤ b.count v

def sameMultiset (a b : List Nat) : Bool := subMultiset a b && subMultiset b a

/-- all values written by the mapper scripts of the given items. -/
def writesOfItems (c : Cfg) (items : List Nat) : List Nat :=
  items.flatMap fun i => writesOf (c.mscript i)

end GoZero.C10
