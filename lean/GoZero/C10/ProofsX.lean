/-
C10 — the fault-free case ("nothing is cancelled"): invariants that give the end-state equalities
result = expected, every item mapped exactly once, every written value reduced exactly once.
-/
import GoZero.C10.ProofsE
namespace GoZero.C10

/-- `faultFree c` unpacked. -/
structure FFacts (c : Cfg) : Prop where
  ctxCan : c.ctxCan = false
  ctxPre : c.ctxPre = false
  gen : genPanics c = false
  mcancel : ∀ i, i < c.n → hasCancel (c.mscript i) = false
  rcancel : hasCancel c.rscript = false
  mpanic : ∀ i, i < c.n → hasPanic (c.mscript i) = false
  rpanic : hasPanic c.rscript = false

theorem ffacts_of {c : Cfg} (h : faultFree c = true) : FFacts c := by
  simp only [faultFree, anyScript, anyMapper, Bool.and_eq_true, Bool.not_eq_true', Bool.or_eq_false_iff,
    List.any_eq_false, List.mem_range] at h
  obtain ⟨⟨⟨⟨h1, h2⟩, h3⟩, h4, h5⟩, h6, h7⟩ := h
  exact ⟨h1, h2, h3, fun i hi => by simpa using h4 i hi, h5, fun i hi => by simpa using h6 i hi, h7⟩

/-- what the returned-error invariant excludes when nothing can be cancelled. -/
structure XS (s : St) : Prop where
  retErr : s.retErr = none
  once : s.once = 0
  ctxDone : s.ctxDone = false
  gpc1 : s.gpc ≠ .pwrite
  gpc2 : s.gpc ≠ .psend
  mp1 : ∀ i, s.mp i ≠ .recovered ∧ s.mp i ≠ .pwrite ∧ s.mp i ≠ .psend
  mp2 : ∀ i sc, s.mp i ≠ .cdrain sc
  mp3 : ∀ i e sc, s.mp i ≠ .run (.cancel e :: sc)
  mp4 : ∀ i sc, s.mp i ≠ .run (.panic :: sc)
  rpc1 : ∀ sc, s.rpc ≠ .cdrain sc
  rpc2 : ∀ e sc, s.rpc ≠ .run (.cancel e :: sc)
  rpc3 : ∀ sc, s.rpc ≠ .run (.panic :: sc)
  cpc1 : s.cpc ≠ .cancelEnter
  cpc2 : s.cpc ≠ .cdrain
  finr : s.fin = true → s.rpc = .done

theorem xs_of {c : Cfg} {s : St} (F : FFacts c) (I : InvC c s) : XS s := by
  have hret : s.retErr = none := by
    cases h : s.retErr with
    | none => rfl
    | some e =>
      rcases errOK_faulty (I.ret e h) with h1 | h1 | h1
      · simp [F.ctxCan] at h1
      · simp [F.ctxPre] at h1
      · exfalso
        simp only [anyScript, anyMapper, Bool.or_eq_true, List.any_eq_true, List.mem_range] at h1
        rcases h1 with ⟨i, hi, h2⟩ | h2
        · simp [F.mcancel i hi] at h2
        · simp [F.rcancel] at h2
  have honce : s.once = 0 := by
    cases Nat.eq_zero_or_pos s.once with
    | inl h => exact h
    | inr h => exact absurd hret (I.once1 (by omega))
  have hctx : s.ctxDone = false := by
    cases h : s.ctxDone with
    | false => rfl
    | true => rcases I.ctx h with h1 | h1 <;> simp [F.ctxCan, F.ctxPre] at h1
  have hmc : ∀ i e sc, s.mp i ≠ .run (.cancel e :: sc) := by
    intro i e sc h
    have hi := I.mlt i (by simp [h])
    have hm := suffix_head_mem (I.msuf i (.cancel e :: sc) (by simp [h, mRem]))
    have : hasCancel (c.mscript i) = true := by
      simp only [hasCancel, List.any_eq_true]; exact ⟨_, hm, rfl⟩
    simp [F.mcancel i hi] at this
  have hmp : ∀ i sc, s.mp i ≠ .run (.panic :: sc) := by
    intro i sc h
    have hi := I.mlt i (by simp [h])
    have hm := suffix_head_mem (I.msuf i (.panic :: sc) (by simp [h, mRem]))
    have : hasPanic (c.mscript i) = true := by simpa [hasPanic] using hm
    simp [F.mpanic i hi] at this
  refine ⟨hret, honce, hctx, ?_, ?_, ?_, ?_, hmc, hmp, ?_, ?_, ?_, ?_, ?_, ?_⟩
  · intro h; have := I.gp (Or.inl h); simp [F.gen] at this
  · intro h; have := I.gp (Or.inr h); simp [F.gen] at this
  · intro i
    have key : ∀ x, s.mp i = x → (x = .recovered ∨ x = .pwrite ∨ x = .psend) → False := by
      intro x hx hor
      have hi := I.mlt i (by rcases hor with h | h | h <;> simp [hx, h])
      have := I.mpan i (by rw [hx]; exact hor)
      simp [F.mpanic i hi] at this
    exact ⟨fun h => key _ h (Or.inl rfl), fun h => key _ h (Or.inr (Or.inl rfl)), fun h => key _ h (Or.inr (Or.inr rfl))⟩
  · intro i sc h; exact I.mcd i sc h honce
  · intro sc h; exact I.rcd sc h honce
  · intro e sc h
    have hm := suffix_head_mem (I.rsuf (.cancel e :: sc) (by simp [h, rRem]))
    have : hasCancel c.rscript = true := by
      simp only [hasCancel, List.any_eq_true]; exact ⟨_, hm, rfl⟩
    simp [F.rcancel] at this
  · intro sc h
    have hm := suffix_head_mem (I.rsuf (.panic :: sc) (by simp [h, rRem]))
    have : hasPanic c.rscript = true := by simpa [hasPanic] using hm
    simp [F.rpanic] at this
  · intro h; rcases I.cce (Or.inl h) with h1 | h1 <;> simp [F.ctxCan, F.ctxPre] at h1
  · intro h; exact I.ccd h honce
  · intro h
    rcases I.finw h with h2 | h2
    · omega
    · exact h2

theorem list_of_head_len {l : List Nat} {v : Nat} (h : l.head? = some v) (hl : l.length = 1) : l = [v] := by
  cases l with
  | nil => simp at hl
  | cons a t =>
    cases t with
    | nil => simp at h; simp [h]
    | cons b t => simp at hl

structure InvX (c : Cfg) (s : St) : Prop where
  xw : s.wrote = false
  xf : s.failed = 0
  xr : ∀ p, s.rpc ≠ .drain (some p) ∧ s.rpc ≠ .pwrite p ∧ s.rpc ≠ .psend p
  xc : ∀ p, s.cpc ≠ .drainOut p
  y1 : (dWaiting s.dpc = true ∨ s.dpc = .unpool) → s.srcClosed = true
  y2 : s.dropped = []
  y3 : (s.gpc = .close ∨ s.gpc = .done) → s.gNext = c.n
  y4 : ∀ i, i ∈ s.mapped → s.mp i ≠ .idle
  z3 : ∀ r, s.cpc = .defer r → (r = .err .noOutput ∧ writesOf c.rscript = []) ∨
        (∃ v, r = .val v ∧ (writesOf c.rscript).head? = some v ∧ rW s.rpc + 1 = (writesOf c.rscript).length)
  z4 : ∀ r, (s.cpc = .check r ∨ s.cpc = .done r) → (r = .err .noOutput ∧ writesOf c.rscript = []) ∨
        (∃ v, r = .val v ∧ writesOf c.rscript = [v]) ∨ (r = .panic .multi ∧ 2 ≤ (writesOf c.rscript).length)

theorem invX_init (c : Cfg) : InvX c (init c) := by
  constructor <;> simp [init, dWaiting]

section
attribute [local grind] dWaiting upd rW rRem writesOf outRes rEnded rAfterDrain rIsPsend dAfter

theorem invX_gen {c : Cfg} {s s' : St} (F : FFacts c) (IC : InvC c s) (I : InvX c s)
    (h : stepGen c s = some s') : InvX c s' := by
  obtain ⟨xw, xf, xr, xc, y1, y2, y3, y4, z3, z4⟩ := I
  have X := xs_of F IC
  obtain ⟨_, _, _, hg1, hg2, _, _, _, _, _, _, _, _, _, _⟩ := X
  have hgle := IC.gle
  have hgp : c.gPanicAt ≠ some s.gNext := by
    intro hp
    have := F.gen
    simp [genPanics, hp] at this
    omega
  clear IC
  unfold stepGen at h
  leaves h
  all_goals (constructor <;> first | assumption | grind)

theorem invX_disp {c : Cfg} {s s' : St} (F : FFacts c) (IC : InvC c s) (IB : InvB c s) (IF : InvF c s) (I : InvX c s)
    (h : stepDisp c s = some s') : InvX c s' := by
  obtain ⟨xw, xf, xr, xc, y1, y2, y3, y4, z3, z4⟩ := I
  have hsr := fun i => @srcRecv_run c s i
  have hsc := @srcRecv_closed c s
  have hf1 := IF.f1
  have hsi := IB.spawnidle
  clear IC IB IF
  unfold stepDisp at h
  leaves h
  all_goals (constructor <;> first | assumption | grind)

theorem invX_mapper {c : Cfg} {s s' : St} (i : Nat) (F : FFacts c) (IC : InvC c s) (I : InvX c s)
    (h : stepMapper c s i = some s') : InvX c s' := by
  obtain ⟨xw, xf, xr, xc, y1, y2, y3, y4, z3, z4⟩ := I
  have X := xs_of F IC
  obtain ⟨_, honce, _, _, _, hm1, hm2, hm3, hm4, _, _, _, _, _, _⟩ := X
  clear IC
  unfold stepMapper at h
  leaves h
  all_goals (constructor <;> first | assumption | grind)

theorem invX_red {c : Cfg} {s s' : St} (F : FFacts c) (IC : InvC c s) (ID : InvD c s) (I : InvX c s)
    (h : stepRed c s = some s') : InvX c s' := by
  obtain ⟨xw, xf, xr, xc, y1, y2, y3, y4, z3, z4⟩ := I
  have X := xs_of F IC
  obtain ⟨hret, honce, hctx, _, _, _, _, _, _, hr1, hr2, hr3, hc1, hc2, hfinr⟩ := X
  have hv1s := ID.v1s
  have hwne : ∀ v sc, s.rpc = .send v sc → writesOf c.rscript ≠ [] := by
    intro v sc hs hW
    have hm := suffix_head_mem (IC.rsuf (.write v :: sc) (by simp [hs, rRem]))
    have := mem_writesOf.mpr hm
    rw [hW] at this; simp at this
  clear IC ID
  unfold stepRed at h
  leaves h
  all_goals (constructor <;> first | assumption | grind)

theorem invX_caller {c : Cfg} {s s' : St} (F : FFacts c) (IC : InvC c s) (IE : InvE c s) (I : InvX c s)
    (h : stepCaller c s = some s') : InvX c s' := by
  obtain ⟨xw, xf, xr, xc, y1, y2, y3, y4, z3, z4⟩ := I
  have X := xs_of F IC
  obtain ⟨hret, honce, hctx, _, _, _, _, _, _, hr1, hr2, hr3, hc1, hc2, hfinr⟩ := X
  have hp1 := IE.p1
  have hhl := fun v => @list_of_head_len (writesOf c.rscript) v
  clear IC IE
  unfold stepCaller at h
  leaves h
  all_goals (constructor <;> first | assumption | grind)

theorem invX_step {c : Cfg} {s s' : St} (a : Actor) (F : FFacts c) (IC : InvC c s) (IB : InvB c s) (ID : InvD c s)
    (IE : InvE c s) (IF : InvF c s) (I : InvX c s) (h : step c s a = some s') : InvX c s' := by
  cases a with
  | gen => exact invX_gen F IC I h
  | disp => exact invX_disp F IC IB IF I h
  | mapper i => exact invX_mapper i F IC I h
  | red => exact invX_red F IC ID I h
  | caller => exact invX_caller F IC IE I h
  | _ =>
    obtain ⟨xw, xf, xr, xc, y1, y2, y3, y4, z3, z4⟩ := I
    have X := xs_of F IC
    obtain ⟨hret, honce, hctx, _, _, _, _, _, _, hr1, hr2, hr3, hc1, hc2, hfinr⟩ := X
    have hp1 := IE.p1
    have hr1' := IE.r1
    have hcollc := IB.collc
    have hn2 := ID.n2
    have hfc := F.ctxCan
    have hfp := F.rpanic
    clear IC IB ID IE IF
    simp only [step] at h
    leaves h
    all_goals (constructor <;> first | assumption | grind)

end

theorem invX_reach {c : Cfg} (hff : faultFree c = true) {s : St} (h : Reach c s) : InvX c s := by
  induction h with
  | init => exact invX_init c
  | step a hr hs ih =>
    exact invX_step a (ffacts_of hff) (invC_reach hr) (invB_reach hr) (invD_reach hr) (invE_reach hr) (invF_reach hr) ih hs

end GoZero.C10
