/-
C10 — property theorems (statements, short proofs from the lemmas of Proofs*.lean, non-vacuity examples).
All theorems quantify over every configuration (any number of items, any worker count, arbitrary finite
user scripts, any position of a cancel / panic / context end) and over every schedule (`Reach`).
-/
import GoZero.C10.ProofsD
namespace GoZero.C10

/-! ### (b) at most `workers` mappers run concurrently -/

/-- **Mapper cap.**  In every reachable configuration the number of mapper goroutines that hold a pool
slot — in particular the number of running user mapper functions — is at most `workers`. -/
theorem mapper_cap (c : Cfg) (s : St) (h : Reach c s) :
    cnt mRunning s.mp c.n ≤ c.workers ∧ cnt inPool s.mp c.n ≤ c.workers := by
  have I := invB_reach h
  have h1 : cnt mRunning s.mp c.n ≤ cnt inPool s.mp c.n :=
    cnt_mono _ _ _ _ (by intro x hx; cases x <;> simp_all [mRunning, inPool])
  have := I.poolc
  have := I.poolle
  omega

/-- the wait group counts exactly the live mapper goroutines, and the collector is never closed while a
mapper goroutine can still write to it (the model's `crash` state is unreachable). -/
theorem collector_open_while_mappers_run (c : Cfg) (s : St) (h : Reach c s) :
    s.wg = cnt inWg s.mp c.n ∧ (s.collClosed = true → s.wg = 0) ∧ ∀ i, s.mp i ≠ .crash := by
  have I := invB_reach h
  exact ⟨I.wgc, fun hc => I.dafter (I.collc hc).1, I.nocrash⟩

/-! ### (c) the returned-error table -/

/-- **Returned-error table.**  Whatever the schedule, a finished call has an outcome of the table
`allowed`: a value the reducer wrote; an error some script passed to `cancel` (`ErrCancelWithNil` for
nil); `DeadlineExceeded` only if the context can end; `ErrReduceNoOutput`; or a re-raised panic — of the
generator / a mapper / the reducer only if that script panics, the library's "more than one element"
only if the reducer writes twice, and the runtime's "send on closed channel" only if the reducer writes
while somebody cancels or the context ends. -/
theorem returns_expected_error (c : Cfg) (s : St) (h : Reach c s) (r : Res) (hr : result s = some r) :
    allowed c r = true := by
  have I := invC_reach h
  have D := invD_reach h
  unfold result at hr
  split at hr
  next r' hc =>
    simp at hr; subst hr
    have h0 := I.cres r' (Or.inr (Or.inr hc))
    simp only [allowed, h0, Bool.true_and]
    cases r' with
    | val v => simpa [refined] using (D.v2 v (Or.inr (Or.inr hc))).1
    | err e =>
      cases e with
      | noOutput =>
        have := (D.n3 (Or.inr (Or.inr hc))).1
        simp only [refined, Bool.or_eq_true, List.isEmpty_iff]
        rcases this with h | h | h | h <;> simp [h]
      | _ => rfl
    | panic p => rfl
  next => simp at hr

/-- spelled out for errors: a cancel error was passed to `cancel` by a script of this call. -/
theorem cancel_error_was_passed (c : Cfg) (s : St) (h : Reach c s) (k : Nat)
    (hr : result s = some (.err (.user k))) :
    (∃ i, i < c.n ∧ UAct.cancel (some k) ∈ c.mscript i) ∨ UAct.cancel (some k) ∈ c.rscript := by
  have := returns_expected_error c s h _ hr
  simp only [allowed, allowed0, refined, Bool.and_true, anyScript, anyMapper, Bool.or_eq_true, List.any_eq_true,
    List.mem_range, List.contains_iff_mem] at this
  exact this

/-- a context error is returned only if the context can end. -/
theorem deadline_only_if_context_ends (c : Cfg) (s : St) (h : Reach c s)
    (hr : result s = some (.err .deadline)) : c.ctxCan = true ∨ c.ctxPre = true := by
  have := returns_expected_error c s h _ hr
  simpa [allowed, allowed0, refined] using this

/-- a re-raised mapper panic is a panic of that mapper's script. -/
theorem reraised_panic_is_user_panic (c : Cfg) (s : St) (h : Reach c s) (i : Nat)
    (hr : result s = some (.panic (.mapper i))) : i < c.n ∧ UAct.panic ∈ c.mscript i := by
  have := returns_expected_error c s h _ hr
  simpa [allowed, allowed0, refined, hasPanic] using this

/-! ### (c') the table for the schedule that happened (model side of `Spec.allowedAt`)

The harness proves "an error was recorded before the reducer began to write" from its event history; in the
model that moment is the guard of the reducer's first `Write` (`wSnap`), resp. the end of the reducer
function (`eSnap`). -/

/-- **A value is returned only if no error was recorded (and the context was not over) when the reducer
began its first write**; the value is that first write. -/
theorem value_only_if_no_error_before_the_write (c : Cfg) (s : St) (h : Reach c s) (v : Nat)
    (hr : result s = some (.val v)) :
    (writesOf c.rscript).head? = some v ∧ s.wSnap = some false := by
  have D := invD_reach h
  unfold result at hr
  split at hr
  next r' hc => simp at hr; subst hr; exact D.v2 v (Or.inr (Or.inr hc))
  next => simp at hr

/-- the snapshot means what it says: `some true` is only taken when an error is recorded or the context over. -/
theorem wSnap_sound (c : Cfg) (s : St) (h : Reach c s) (hs : s.wSnap = some true) :
    s.retErr ≠ none ∨ s.ctxDone = true := (invD_reach h).w1 hs

/-- **ErrReduceNoOutput is returned only if no error was recorded when the reducer function ended.** -/
theorem no_output_only_if_no_error_before_reducer_end (c : Cfg) (s : St) (h : Reach c s)
    (hr : result s = some (.err .noOutput)) : s.eSnap = some false := by
  have D := invD_reach h
  unfold result at hr
  split at hr
  next r' hc => simp at hr; subst hr; exact (D.n3 (Or.inr (Or.inr hc))).2
  next => simp at hr

/-- **The first cancel wins**: once an error is recorded no later `cancel` (nor the caller's
`cancel(DeadlineExceeded)`) replaces it. -/
theorem first_cancel_wins (c : Cfg) (s s' : St) (a : Actor) (e : Err) (hs : step c s a = some s')
    (he : s.retErr = some e) (h : Reach c s) : s'.retErr = some e := by
  have ho : s.once ≠ 0 := by
    intro h0
    have hn := (invF_reach h).f5 h0
    simp [hn] at he
  exact retErr_stable hs ho he

/-- **An item is dropped (taken from the source by a drain, never mapped) only after a fault**: some cancel
has recorded its error, or a mapper panicked, or the context is over, or the reducer goroutine has finished. -/
theorem dropped_item_means_fault (c : Cfg) (s : St) (h : Reach c s) (hd : s.dropped ≠ []) :
    s.retErr ≠ none ∨ (∃ i, i < c.n ∧ UAct.panic ∈ c.mscript i) ∨ s.ctxDone = true ∨ s.rpc = .done := by
  have F := invF_reach h
  have I := invC_reach h
  rcases F.f3 hd with h1 | h1 | h1 | h1
  · exact Or.inl (I.once1 h1)
  · have := F.f4 h1
    simp only [anyMapper, List.any_eq_true, List.mem_range, hasPanic, List.contains_iff_mem] at this
    exact Or.inr (Or.inl this)
  · exact Or.inr (Or.inr (Or.inl h1))
  · rcases I.finw h1 with h2 | h2
    · exact Or.inl (I.once1 (by omega))
    · exact Or.inr (Or.inr (Or.inr h2))

/-! ### (a) conservation (every schedule, every fault placement) -/

/-- **Every generated item is handed out exactly once.**  Each item the generator has sent (`i < gNext`)
has been handed to exactly one mapper invocation, or is in the dispatcher's hand about to be, or was
discarded by exactly one drain (only after a cancel / panic / context end: `drains_only_after_fault`);
items not yet sent have been handed to nobody.  In particular no item is ever mapped twice. -/
theorem each_item_handed_out_once (c : Cfg) (s : St) (h : Reach c s) (i : Nat) :
    s.mapped.count i + s.dropped.count i + (if s.dpc = .spawn i then 1 else 0) = (if i < s.gNext then 1 else 0) :=
  itemInv_reach h i

theorem no_item_mapped_twice (c : Cfg) (s : St) (h : Reach c s) (i : Nat) : s.mapped.count i ≤ 1 := by
  have := each_item_handed_out_once c s h i
  rcases ite_nat (i < s.gNext) with ⟨_, e⟩ | ⟨_, e⟩ <;> rw [e] at this <;> omega

/-- **Every value accepted from a mapper reaches the reducer exactly once.**  The multiset of values the
collector accepted equals the values received by the reducer function, plus those received by the
reducer goroutine's deferred drain (after the reducer function returned), plus those still buffered. -/
theorem each_value_reduced_once (c : Cfg) (s : St) (h : Reach c s) (v : Nat) :
    s.sent.count v = s.reduced.count v + s.drained.count v + s.collQ.count v :=
  valInv_reach h v

/-! ### the defect of the code as it was (unbuffered panic channel), proven on the faithful model -/

def stateWritePanic : St := (runSched (cfgWritePanic false) schedWritePanic (init (cfgWritePanic false))).getD (init (cfgWritePanic false))

/-- **Witness 1 (deadlock of the call).**  Before the fix: the reducer writes its value and then panics.
A schedule reaches a configuration in which nothing can move, the caller has not returned (it waits in its
deferred `for range output`) and the reducer goroutine is blocked forever in `panicChan.write`. -/
theorem unfixed_call_deadlocks :
    Reach (cfgWritePanic false) stateWritePanic ∧ stuck (cfgWritePanic false) stateWritePanic ∧
    result stateWritePanic = none ∧ stateWritePanic.rpc = .psend .reducer := by
  have hr : Reach (cfgWritePanic false) stateWritePanic :=
    reach_runSched schedWritePanic Reach.init (by rfl)
  exact ⟨hr, stuck_of_stuckB hr (by rfl), by rfl, by rfl⟩

def stateCancelThenPanic : St :=
  (runSched (cfgCancelThenPanic false) schedCancelThenPanic (init (cfgCancelThenPanic false))).getD (init (cfgCancelThenPanic false))

/-- **Witness 2 (goroutine leak).**  Before the fix: mapper 0 cancels, the call returns the cancel error,
then mapper 1 panics.  Nothing can move any more and three goroutines of the call stay alive forever
(mapper 1 in `panicChan.write`, the dispatcher in `wg.Wait`, the reducer reading the collector). -/
theorem unfixed_goroutine_leak :
    Reach (cfgCancelThenPanic false) stateCancelThenPanic ∧ stuck (cfgCancelThenPanic false) stateCancelThenPanic ∧
    result stateCancelThenPanic = some (.err (.user 1)) ∧ aliveCount (cfgCancelThenPanic false) stateCancelThenPanic = 3 := by
  have hr : Reach (cfgCancelThenPanic false) stateCancelThenPanic :=
    reach_runSched schedCancelThenPanic Reach.init (by rfl)
  exact ⟨hr, stuck_of_stuckB hr (by rfl), by rfl, by rfl⟩

/-! ### (d) NOT PROVEN — kept as the full statement (delivered as *partial*)

    theorem no_deadlock (c : Cfg) (hf : c.fixed = true) (hw : 1 ≤ c.workers)
        (hr : (writesOf c.rscript).length ≤ 2) (s : St) (h : Reach c s)
        (hlive : result s = none ∨ aliveCount c s ≠ 0) : ∃ a, step c s a ≠ none

    theorem terminates (c : Cfg) (hf : c.fixed = true) :
        ∃ μ : St → Nat, ∀ s a s', Reach c s → step c s a = some s' → μ s' < μ s

(so that every maximal run ends with the caller returned and `aliveCount = 0`).  What is missing is the
progress argument: the invariants "at most one goroutine is between the CAS and the send of
`onceChan.write`, and then the buffer is empty", "a goroutine blocked in `cancel` implies a runner in
`drain(source)`", "reducer blocked on an empty open collector implies the dispatcher has not closed it",
and the well-founded measure.  What IS proven: the negation for the code as it was (`unfixed_call_deadlocks`,
`unfixed_goroutine_leak`) and the safety side (`collector_open_while_mappers_run`: no send on a closed
collector).  At runtime the driver runs the fixed model under six schedulers per generated call and
requires the caller finished and no goroutine alive, and the harness checks the real code with a hang
watchdog and a goroutine snapshot.  Likewise the end-state equalities for "nothing cancelled"
(`result = expected c`, `mapped = range n`, `reduced = all written values`) are checked by the monitor
and by exact model/implementation comparison, not proven; the proven part is the conservation
invariants above, which hold at every point of every run. -/

/-! ### non-vacuity: the fixed model on the same two configurations, and a plain run -/

/-- the fixed code on witness 1 under the "caller first" scheduler: the panic is re-raised, nobody is left. -/
example : let c := cfgWritePanic true
    let s := runPrio c (actors c.n) 200 (init c)
    result s = some (.panic .reducer) ∧ aliveCount c s = 0 ∧ stuckB c s = true := by decide

/-- the fixed code on witness 2: the call returns the cancel error (or re-raises), nobody is left. -/
example : let c := cfgCancelThenPanic true
    let s := runPrio c (actors c.n).reverse 400 (init c)
    (result s).isSome ∧ aliveCount c s = 0 ∧ stuckB c s = true := by decide

/-- a plain run: 3 items, 2 workers, fan-out 2/0/1, the reducer reads everything and writes 7. -/
def cfgPlain : Cfg :=
  { n := 3, workers := 2, gPanicAt := none,
    mscript := fun i => if i = 0 then [.write 1, .write 2] else if i = 1 then [] else [.write 3],
    rscript := [.readAll, .write 7], ctxCan := false, ctxPre := false, fixed := true }

example : let s := runPrio cfgPlain (actors 3).reverse 400 (init cfgPlain)
    result s = some (expected cfgPlain) ∧ s.mapped = [0, 1, 2] ∧ s.dropped = [] ∧ s.reduced.count 1 = 1 ∧ s.reduced.count 2 = 1 ∧ s.reduced.count 3 = 1 ∧ s.reduced.length = 3
      ∧ s.drained = [] ∧ aliveCount cfgPlain s = 0 := by decide

end GoZero.C10
