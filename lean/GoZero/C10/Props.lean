/-
C10 — property theorems (statements, short proofs from the lemmas of Proofs*.lean, non-vacuity examples).
All theorems quantify over every configuration (any number of items, any worker count, arbitrary finite
user scripts, any position of a cancel / panic / context end) and over every schedule (`Reach`).
-/
import GoZero.C10.ProofsB
namespace GoZero.C10

/-! ### (b) at most `workers` mappers run concurrently -/

/-- **Mapper cap.**  In every reachable configuration the number of mapper goroutines that hold a pool
slot — in particular the number of running user mapper functions — is at most `workers`. -/
theorem mapper_cap (c : Cfg) (s : St) (h : Reach c s) :
    cnt mRunning s.mp c.n ≤ c.workers ∧ cnt inPool s.mp c.n ≤ c.workers := by
  have I := invB_reach h
  have h1 : cnt mRunning s.mp c.n ≤ cnt inPool s.mp c.n :=
    cnt_mono _ _ _ _ (by intro x hx; cases x <;> simp_all [mRunning, inPool])
  have := I.poolc
  have := I.poolle
  omega

/-- the wait group counts exactly the live mapper goroutines, and the collector is never closed while a
mapper goroutine can still write to it (the model's `crash` state is unreachable). -/
theorem collector_open_while_mappers_run (c : Cfg) (s : St) (h : Reach c s) :
    s.wg = cnt inWg s.mp c.n ∧ (s.collClosed = true → s.wg = 0) ∧ ∀ i, s.mp i ≠ .crash := by
  have I := invB_reach h
  exact ⟨I.wgc, fun hc => I.dafter (I.collc hc).1, I.nocrash⟩

/-! ### (c) the returned-error table -/

/-- **Returned-error table.**  Whatever the schedule, a finished call has an outcome of the table
`allowed`: a value the reducer wrote; an error some script passed to `cancel` (`ErrCancelWithNil` for
nil); `DeadlineExceeded` only if the context can end; `ErrReduceNoOutput`; or a re-raised panic — of the
generator / a mapper / the reducer only if that script panics, the library's "more than one element"
only if the reducer writes twice, and the runtime's "send on closed channel" only if the reducer writes
while somebody cancels or the context ends. -/
theorem returns_expected_error (c : Cfg) (s : St) (h : Reach c s) (r : Res) (hr : result s = some r) :
    allowed c r = true := by
  have I := invC_reach h
  unfold result at hr
  split at hr
  next r' hc => simp at hr; subst hr; exact I.cres r' (Or.inr (Or.inr hc))
  next => simp at hr

/-- spelled out for errors: a cancel error was passed to `cancel` by a script of this call. -/
theorem cancel_error_was_passed (c : Cfg) (s : St) (h : Reach c s) (k : Nat)
    (hr : result s = some (.err (.user k))) :
    (∃ i, i < c.n ∧ UAct.cancel (some k) ∈ c.mscript i) ∨ UAct.cancel (some k) ∈ c.rscript := by
  have := returns_expected_error c s h _ hr
  simp only [allowed, anyScript, anyMapper, Bool.or_eq_true, List.any_eq_true, List.mem_range,
    List.contains_iff_mem] at this
  exact this

/-- a context error is returned only if the context can end. -/
theorem deadline_only_if_context_ends (c : Cfg) (s : St) (h : Reach c s)
    (hr : result s = some (.err .deadline)) : c.ctxCan = true ∨ c.ctxPre = true := by
  have := returns_expected_error c s h _ hr
  simpa [allowed] using this

/-- a re-raised mapper panic is a panic of that mapper's script. -/
theorem reraised_panic_is_user_panic (c : Cfg) (s : St) (h : Reach c s) (i : Nat)
    (hr : result s = some (.panic (.mapper i))) : i < c.n ∧ UAct.panic ∈ c.mscript i := by
  have := returns_expected_error c s h _ hr
  simpa [allowed, hasPanic] using this

end GoZero.C10
