/-
C10 — property theorems (statements, short proofs from the lemmas of Proofs*.lean, non-vacuity examples).
All theorems quantify over every configuration (any number of items, any worker count, arbitrary finite
user scripts, any position of a cancel / panic / context end) and over every schedule (`Reach`).
-/
import GoZero.C10.ProofsH
import GoZero.C10.ProofsY
import GoZero.C10.ProofsP
namespace GoZero.C10

/-! ### (b) at most `workers` mappers run concurrently -/

/-- **Mapper cap.**  In every reachable configuration the number of mapper goroutines that hold a pool
slot — in particular the number of running user mapper functions — is at most `workers`. -/
theorem mapper_cap (c : Cfg) (s : St) (h : Reach c s) :
    cnt mRunning s.mp c.n ≤ c.workers ∧ cnt inPool s.mp c.n ≤ c.workers := by
  have I := invB_reach h
  have h1 : cnt mRunning s.mp c.n ≤ cnt inPool s.mp c.n :=
    cnt_mono _ _ _ _ (by intro x hx; cases x <;> simp_all [mRunning, inPool])
  have := I.poolc
  have := I.poolle
  omega

/-- the wait group counts exactly the live mapper goroutines, and the collector is never closed while a
mapper goroutine can still write to it (the model's `crash` state is unreachable). -/
theorem collector_open_while_mappers_run (c : Cfg) (s : St) (h : Reach c s) :
    s.wg = cnt inWg s.mp c.n ∧ (s.collClosed = true → s.wg = 0) ∧ ∀ i, s.mp i ≠ .crash := by
  have I := invB_reach h
  exact ⟨I.wgc, fun hc => I.dafter (I.collc hc).1, I.nocrash⟩

/-! ### (c) the returned-error table -/

/-- **Returned-error table.**  Whatever the schedule, a finished call has an outcome of the table
`allowed`: a value the reducer wrote; an error some script passed to `cancel` (`ErrCancelWithNil` for
nil); `DeadlineExceeded` only if the context can end; `ErrReduceNoOutput`; or a re-raised panic — of the
generator / a mapper / the reducer only if that script panics, the library's "more than one element"
only if the reducer writes twice, and the runtime's "send on closed channel" only if the reducer writes
while somebody cancels or the context ends. -/
theorem returns_expected_error (c : Cfg) (s : St) (h : Reach c s) (r : Res) (hr : result s = some r) :
    allowed c r = true := by
  have I := invC_reach h
  have D := invD_reach h
  unfold result at hr
  split at hr
  next r' hc =>
    simp at hr; subst hr
    have h0 := I.cres r' (Or.inr (Or.inr hc))
    simp only [allowed, h0, Bool.true_and]
    cases r' with
    | val v => simpa [refined] using (D.v2 v (Or.inr (Or.inr hc))).1
    | err e =>
      cases e with
      | noOutput =>
        have := (D.n3 (Or.inr (Or.inr hc))).1
        simp only [refined, Bool.or_eq_true, List.isEmpty_iff]
        rcases this with h | h | h | h <;> simp [h]
      | _ => rfl
    | panic p => rfl
  next => simp at hr

/-- spelled out for errors: a cancel error was passed to `cancel` by a script of this call. -/
theorem cancel_error_was_passed (c : Cfg) (s : St) (h : Reach c s) (k : Nat)
    (hr : result s = some (.err (.user k))) :
    (∃ i, i < c.n ∧ UAct.cancel (some k) ∈ c.mscript i) ∨ UAct.cancel (some k) ∈ c.rscript := by
  have := returns_expected_error c s h _ hr
  simp only [allowed, allowed0, refined, Bool.and_true, anyScript, anyMapper, Bool.or_eq_true, List.any_eq_true,
    List.mem_range, List.contains_iff_mem] at this
  exact this

/-- a context error is returned only if the context can end. -/
theorem deadline_only_if_context_ends (c : Cfg) (s : St) (h : Reach c s)
    (hr : result s = some (.err .deadline)) : c.ctxCan = true ∨ c.ctxPre = true := by
  have := returns_expected_error c s h _ hr
  simpa [allowed, allowed0, refined] using this

/-- a re-raised mapper panic is a panic of that mapper's script. -/
theorem reraised_panic_is_user_panic (c : Cfg) (s : St) (h : Reach c s) (i : Nat)
    (hr : result s = some (.panic (.mapper i))) : i < c.n ∧ UAct.panic ∈ c.mscript i := by
  have := returns_expected_error c s h _ hr
  simpa [allowed, allowed0, refined, hasPanic] using this

/-! ### (c') the table for the schedule that happened (model side of `Spec.allowedAt`)

The harness proves "an error was recorded before the reducer began to write" from its event history; in the
model that moment is the guard of the reducer's first `Write` (`wSnap`), resp. the end of the reducer
function (`eSnap`). -/

/-- **A value is returned only if no error was recorded (and the context was not over) when the reducer
began its first write**; the value is that first write. -/
theorem value_only_if_no_error_before_the_write (c : Cfg) (s : St) (h : Reach c s) (v : Nat)
    (hr : result s = some (.val v)) :
    (writesOf c.rscript).head? = some v ∧ s.wSnap = some false := by
  have D := invD_reach h
  unfold result at hr
  split at hr
  next r' hc => simp at hr; subst hr; exact D.v2 v (Or.inr (Or.inr hc))
  next => simp at hr

/-- the snapshot means what it says: `some true` is only taken when an error is recorded or the context over. -/
theorem wSnap_sound (c : Cfg) (s : St) (h : Reach c s) (hs : s.wSnap = some true) :
    s.retErr ≠ none ∨ s.ctxDone = true := (invD_reach h).w1 hs

/-- **ErrReduceNoOutput is returned only if no error was recorded when the reducer function ended.** -/
theorem no_output_only_if_no_error_before_reducer_end (c : Cfg) (s : St) (h : Reach c s)
    (hr : result s = some (.err .noOutput)) : s.eSnap = some false := by
  have D := invD_reach h
  unfold result at hr
  split at hr
  next r' hc => simp at hr; subst hr; exact (D.n3 (Or.inr (Or.inr hc))).2
  next => simp at hr

/-- **The first cancel wins**: once an error is recorded no later `cancel` (nor the caller's
`cancel(DeadlineExceeded)`) replaces it. -/
theorem first_cancel_wins (c : Cfg) (s s' : St) (a : Actor) (e : Err) (hs : step c s a = some s')
    (he : s.retErr = some e) (h : Reach c s) : s'.retErr = some e := by
  have ho : s.once ≠ 0 := by
    intro h0
    have hn := (invF_reach h).f5 h0
    simp [hn] at he
  exact retErr_stable hs ho he

/-- **An item is dropped (taken from the source by a drain, never mapped) only after a fault**: some cancel
has recorded its error, or a mapper panicked, or the context is over, or the reducer goroutine has finished. -/
theorem dropped_item_means_fault (c : Cfg) (s : St) (h : Reach c s) (hd : s.dropped ≠ []) :
    s.retErr ≠ none ∨ (∃ i, i < c.n ∧ UAct.panic ∈ c.mscript i) ∨ s.ctxDone = true ∨ s.rpc = .done := by
  have F := invF_reach h
  have I := invC_reach h
  rcases F.f3 hd with h1 | h1 | h1 | h1
  · exact Or.inl (I.once1 h1)
  · have := F.f4 h1
    simp only [anyMapper, List.any_eq_true, List.mem_range, hasPanic, List.contains_iff_mem] at this
    exact Or.inr (Or.inl this)
  · exact Or.inr (Or.inr (Or.inl h1))
  · rcases I.finw h1 with h2 | h2
    · exact Or.inl (I.once1 (by omega))
    · exact Or.inr (Or.inr (Or.inr h2))

/-! ### (a) conservation (every schedule, every fault placement) -/

/-- **Every generated item is handed out exactly once.**  Each item the generator has sent (`i < gNext`)
has been handed to exactly one mapper invocation, or is in the dispatcher's hand about to be, or was
discarded by exactly one drain (only after a cancel / panic / context end: `drains_only_after_fault`);
items not yet sent have been handed to nobody.  In particular no item is ever mapped twice. -/
theorem each_item_handed_out_once (c : Cfg) (s : St) (h : Reach c s) (i : Nat) :
    s.mapped.count i + s.dropped.count i + (if s.dpc = .spawn i then 1 else 0) = (if i < s.gNext then 1 else 0) :=
  itemInv_reach h i

theorem no_item_mapped_twice (c : Cfg) (s : St) (h : Reach c s) (i : Nat) : s.mapped.count i ≤ 1 := by
  have := each_item_handed_out_once c s h i
  rcases ite_nat (i < s.gNext) with ⟨_, e⟩ | ⟨_, e⟩ <;> rw [e] at this <;> omega

/-- **Every value accepted from a mapper reaches the reducer exactly once.**  The multiset of values the
collector accepted equals the values received by the reducer function, plus those received by the
reducer goroutine's deferred drain (after the reducer function returned), plus those still buffered. -/
theorem each_value_reduced_once (c : Cfg) (s : St) (h : Reach c s) (v : Nat) :
    s.sent.count v = s.reduced.count v + s.drained.count v + s.collQ.count v :=
  valInv_reach h v

/-! ### the defect of the code as it was (unbuffered panic channel), proven on the faithful model -/

def stateWritePanic : St := (runSched (cfgWritePanic false) schedWritePanic (init (cfgWritePanic false))).getD (init (cfgWritePanic false))

/-- **Witness 1 (deadlock of the call).**  Before the fix: the reducer writes its value and then panics.
A schedule reaches a configuration in which nothing can move, the caller has not returned (it waits in its
deferred `for range output`) and the reducer goroutine is blocked forever in `panicChan.write`. -/
theorem unfixed_call_deadlocks :
    Reach (cfgWritePanic false) stateWritePanic ∧ stuck (cfgWritePanic false) stateWritePanic ∧
    result stateWritePanic = none ∧ stateWritePanic.rpc = .psend .reducer := by
  have hr : Reach (cfgWritePanic false) stateWritePanic :=
    reach_runSched schedWritePanic Reach.init (by rfl)
  exact ⟨hr, stuck_of_stuckB hr (by rfl), by rfl, by rfl⟩

def stateCancelThenPanic : St :=
  (runSched (cfgCancelThenPanic false) schedCancelThenPanic (init (cfgCancelThenPanic false))).getD (init (cfgCancelThenPanic false))

/-- **Witness 2 (goroutine leak).**  Before the fix: mapper 0 cancels, the call returns the cancel error,
then mapper 1 panics.  Nothing can move any more and three goroutines of the call stay alive forever
(mapper 1 in `panicChan.write`, the dispatcher in `wg.Wait`, the reducer reading the collector). -/
theorem unfixed_goroutine_leak :
    Reach (cfgCancelThenPanic false) stateCancelThenPanic ∧ stuck (cfgCancelThenPanic false) stateCancelThenPanic ∧
    result stateCancelThenPanic = some (.err (.user 1)) ∧ aliveCount (cfgCancelThenPanic false) stateCancelThenPanic = 3 := by
  have hr : Reach (cfgCancelThenPanic false) stateCancelThenPanic :=
    reach_runSched schedCancelThenPanic Reach.init (by rfl)
  exact ⟨hr, stuck_of_stuckB hr (by rfl), by rfl, by rfl⟩

/-! ### (d) clean termination of the repaired code -/

/-- **No deadlock.**  In every reachable configuration of the repaired code (workers ≥ 1 — `WithWorkers`
clamps, `Tie.tie_minWorkers`; a reducer that writes at most twice — see `props/C10.json`) in which the
caller has not returned or a goroutine of the call is alive, some actor can take a step — whatever the
position of a cancel / panic / context end and whatever the schedule so far. -/
theorem no_deadlock (c : Cfg) (hf : c.fixed = true) (hw : 1 ≤ c.workers)
    (hr : (writesOf c.rscript).length ≤ 2) (s : St) (h : Reach c s)
    (hlive : result s = none ∨ aliveCount c s ≠ 0) : ∃ a, step c s a ≠ none := by
  apply Classical.byContradiction
  intro hn
  have hst : ∀ a, step c s a = none := by
    intro a
    cases hs : step c s a with
    | none => rfl
    | some s' => exact absurd ⟨a, by simp [hs]⟩ hn
  have := stuck_is_final c hf hw hr s h hst
  rcases hlive with h1 | h1
  · exact this.1 h1
  · exact h1 this.2

/-- **Termination.**  A measure (`mu`: items still in the source, remaining script and pipeline work of every
goroutine, buffered values, the context's one transition) that every step of every actor strictly
decreases: every run is finite (at most `mu c (init c)` steps). -/
theorem terminates (c : Cfg) : ∃ μ : St → Nat, ∀ s a s', Reach c s → step c s a = some s' → μ s' < μ s :=
  ⟨mu c, fun _ a _ hr hs => mu_step a hr hs⟩

/-- several steps. -/
inductive Steps (c : Cfg) : St → St → Prop
  | refl (s : St) : Steps c s s
  | step {s s1 s2 : St} (a : Actor) : step c s a = some s1 → Steps c s1 s2 → Steps c s s2

/-- **Every run ends clean.**  From every reachable configuration of the repaired code every maximal run is
finite (`terminates`) and ends in a configuration in which the caller has returned and no goroutine of the
call is alive; in particular such a configuration is reachable. -/
theorem every_run_ends_clean (c : Cfg) (hf : c.fixed = true) (hw : 1 ≤ c.workers)
    (hr : (writesOf c.rscript).length ≤ 2) (s : St) (h : Reach c s) :
    ∃ s', Steps c s s' ∧ Reach c s' ∧ (∀ a, step c s' a = none) ∧ result s' ≠ none ∧ aliveCount c s' = 0 := by
  generalize hm : mu c s = m
  induction m using Nat.strongRecOn generalizing s with
  | _ m ih =>
    by_cases hst : ∀ a, step c s a = none
    · have := stuck_is_final c hf hw hr s h hst
      exact ⟨s, Steps.refl s, h, hst, this.1, this.2⟩
    · have ⟨a, ha⟩ : ∃ a, step c s a ≠ none := by
        apply Classical.byContradiction
        intro hn
        exact hst (fun a => by
          cases hs : step c s a with
          | none => rfl
          | some s' => exact absurd ⟨a, by simp [hs]⟩ hn)
      obtain ⟨s1, hs1⟩ := Option.ne_none_iff_exists'.mp ha
      have hlt := mu_step a h hs1
      obtain ⟨s', hst', hr', hrest⟩ := ih (mu c s1) (by omega) s1 (Reach.step a h hs1) rfl
      exact ⟨s', Steps.step a hs1 hst', hr', hrest⟩

/-! ### (d') a user panic is re-raised

FULL STATEMENT (false for the code as it is, see the witness below):

    theorem panic_not_lost (c : Cfg) (hf : c.fixed = true) (hnc : noCancel c = true) (s : St) (h : Reach c s)
        (r : Res) (hr : result s = some r) (hnp : resIsPanic r = false) : s.wrote = false

i.e. "if nobody cancels and the context cannot end, a call that returns normally has captured no user panic".
`onceChan.write` is `if CAS(&wrote,0,1) { channel <- val }`: the winner of the CAS is the only one that will
ever send, but it sends LATER; a second panicking user function loses the CAS and goes on (wg.Done …).  Mapper
and reducer goroutines send before `wg.Done` / `finish`, so the call waits for them; the GENERATOR goroutine
is waited for by nobody but `drain(source)`, which runs after `close(collector)`.  So a generator that has
won the CAS and is delayed before its send, plus a mapper that panics meanwhile, lets the call return the
reducer's value with two user panics captured and none re-raised (`generator_panic_can_be_lost`).
Proven instead: `panic_not_lost_partial` (the generator does not panic). -/

/-- **A captured panic is re-raised** (partial: the generator does not panic).  If nobody cancels, the
context cannot end and the generator does not panic, a call of the repaired code that returns a value or an
error — not a panic — has captured no panic at all: `onceChan.wrote` is still false and the channel is
empty.  (Every panicking mapper / reducer goroutine passes `onceChan.write` before `wg.Done` / `finish`,
and the call returns only after `finish`: `no_deadlock` shows it does return.) -/
theorem panic_not_lost_partial (c : Cfg) (hf : c.fixed = true) (hnc : noCancel c = true) (hg : genPanics c = false)
    (s : St) (h : Reach c s) (r : Res) (hr : result s = some r) (hnp : resIsPanic r = false) :
    s.wrote = false ∧ s.pbuf = none := by
  have P := invP_reach hnc hg hf h
  unfold result at hr
  split at hr
  next r' hc =>
    simp at hr; subst hr
    have := P.k3 r' hc hnp
    exact ⟨this.2, this.1⟩
  next => simp at hr

/-- two items, two workers: mapper 0 panics, the generator panics after the last item, the reducer ranges over
the pipe and writes 7. -/
def cfgLost : Cfg :=
  { n := 2, workers := 2, gPanicAt := some 2,
    mscript := fun i => if i = 0 then [.panic] else [],
    rscript := [.readAll, .write 7], ctxCan := false, ctxPre := false, fixed := true }

/-- both items are handed out; the generator panics and wins the CAS of `onceChan.write` but is delayed
before its send; mapper 0 panics, loses the CAS, ends; mapper 1 ends; the dispatcher sees `failed`, closes
the collector; the reducer writes 7 and ends; the caller takes 7, finds the panic channel empty, returns. -/
def schedLost : List Actor :=
  [.disp, .disp, .disp, .disp, .disp, .disp, .disp, .disp, .gen, .gen,
   .mapper 0, .mapper 0, .mapper 0, .mapper 0, .mapper 0, .mapper 1, .mapper 1, .mapper 1,
   .disp, .disp, .disp, .red, .red, .red, .red, .red, .red, .caller, .caller]

def stateLost : St := (runSched cfgLost schedLost (init cfgLost)).getD (init cfgLost)

/-- **Witness (a user panic can be lost; the code as it is, also after the round-1 fix).**  Nobody cancels;
the generator and mapper 0 both panic; the call returns the reducer's value 7.  The generator goroutine
stands between the CAS and the send of `onceChan.write`, mapper 0's panic was dropped because it lost the CAS. -/
theorem generator_panic_can_be_lost :
    Reach cfgLost stateLost ∧ noCancel cfgLost = true ∧ result stateLost = some (.val 7) ∧
    stateLost.failed = 1 ∧ stateLost.wrote = true ∧ stateLost.wroteBy = some .gen ∧ stateLost.gpc = .psend ∧
    stateLost.pbuf = none := by
  have hr : Reach cfgLost stateLost := reach_runSched schedLost Reach.init (by rfl)
  exact ⟨hr, by decide, by rfl, by rfl, by rfl, by rfl, by rfl, by rfl⟩

/-! ### (e) nothing cancelled: the end-state equalities -/

/-- **The call returns the reducer's single output.**  When nothing is cancelled (no cancel, no panic, the
context cannot end) a finished call has exactly the expected outcome: the reducer's single value,
`ErrReduceNoOutput` if it writes nothing, the library's panic if it writes more than once. -/
theorem faultfree_result (c : Cfg) (hff : faultFree c = true) (s : St) (h : Reach c s) (r : Res)
    (hr : result s = some r) : r = expected c := by
  have X := invX_reach hff h
  unfold result at hr
  split at hr
  next r' hc =>
    simp at hr; subst hr
    rcases X.z4 r' (Or.inr hc) with ⟨h1, h2⟩ | ⟨v, h1, h2⟩ | ⟨h1, h2⟩
    · simp [expected, h1, h2]
    · simp [expected, h1, h2]
    · subst h1
      unfold expected
      split
      next hw => simp [hw] at h2
      next v hw => simp [hw] at h2
      next => rfl
  next => simp at hr

/-- **Every generated item is handed to the mapper exactly once.**  When nothing is cancelled, once the
dispatcher has left its loop every item `0 … n-1` has been handed to exactly one mapper invocation, nothing
was dropped, and nothing else was mapped. -/
theorem faultfree_every_item_mapped_once (c : Cfg) (hff : faultFree c = true) (s : St) (h : Reach c s)
    (hd : dWaiting s.dpc = true) :
    s.dropped = [] ∧ ∀ i, s.mapped.count i = if i < c.n then 1 else 0 := by
  have X := invX_reach hff h
  have F := invF_reach h
  have hg : s.gNext = c.n := X.y3 (Or.inr (F.f1 (X.y1 (Or.inl hd))))
  refine ⟨X.y2, fun i => ?_⟩
  have hi := itemInv_reach h i
  have hsp : ¬ s.dpc = .spawn i := by intro he; rw [he] at hd; simp [dWaiting] at hd
  rw [X.y2, hg] at hi
  simpa [hsp] using hi

/-- **Every value a mapper writes reaches the reducer exactly once.**  When nothing is cancelled, once the
reducer goroutine has ended, the values received by the reducer function (plus those received by the
deferred drain, if the reducer function did not range over the whole pipe) are exactly the values the
mapper scripts of all items write, with multiplicity; and if the reducer ranges over the pipe (`readAll`),
the deferred drain received nothing: `reduced` alone is the multiset of all written values. -/
theorem faultfree_every_value_reduced_once (c : Cfg) (hff : faultFree c = true) (s : St) (h : Reach c s)
    (hr : s.rpc = .done) :
    (∀ v, s.reduced.count v + s.drained.count v = (writesOfItems c (List.range c.n)).count v) ∧
    (UAct.readAll ∈ c.rscript → s.drained = []) := by
  have X := invX_reach hff h
  have E := invE_reach h
  have B := invB_reach h
  have R := invR_reach hff h
  have hcq := E.r1 (by simp [hr, rAfterDrain])
  have hda := (B.collc hcq.1).1
  have hdw : dWaiting s.dpc = true := by
    cases hp : s.dpc <;> simp [hp, dAfter] at hda <;> simp [dWaiting]
  have hmapped := (faultfree_every_item_mapped_once c hff s h hdw).2
  have hwg : s.wg = 0 := B.dafter hda
  have hpend : ∀ i, i < c.n → pend c i (s.mp i) = [] := by
    intro i hi
    have hw : inWg (s.mp i) = false := by
      have := cnt_ge inWg s.mp c.n i hi
      rw [← B.wgc, hwg] at this
      cases hx : inWg (s.mp i) <;> simp [hx, b2n] at this ⊢
    have hne : s.mp i ≠ .idle := X.y4 i (by
      have := hmapped i
      simp [hi] at this
      exact List.count_pos_iff.mp (by omega))
    cases hm : s.mp i <;> simp [hm, inWg] at hw hne ⊢ <;> simp [pend]
  refine ⟨fun v => ?_, fun hra => R.ra3 hra⟩
  have hs := sentInv_reach hff h v
  rw [sumP_zero c v s.mp c.n hpend] at hs
  have hv := valInv_reach h v
  rw [hcq.2] at hv
  rw [total_eq_writesOfItems]
  simp at hv
  omega

/-- the three equalities at once for a configuration in which nothing can move any more (a terminated run). -/
theorem faultfree_terminated (c : Cfg) (hff : faultFree c = true) (hf : c.fixed = true) (hw : 1 ≤ c.workers)
    (hr : (writesOf c.rscript).length ≤ 2) (s : St) (h : Reach c s) (hst : ∀ a, step c s a = none) :
    result s = some (expected c) ∧ aliveCount c s = 0 ∧ s.dropped = [] ∧
    (∀ i, s.mapped.count i = if i < c.n then 1 else 0) ∧
    (∀ v, s.reduced.count v + s.drained.count v = (writesOfItems c (List.range c.n)).count v) ∧
    (UAct.readAll ∈ c.rscript → s.drained = []) := by
  have hfin := stuck_is_final c hf hw hr s h hst
  obtain ⟨r, hres⟩ := Option.ne_none_iff_exists'.mp hfin.1
  have hexp := faultfree_result c hff s h r hres
  have hrd : s.rpc = .done := by
    have := hfin.2
    unfold aliveCount at this
    cases hp : s.rpc <;> simp [hp] at this ⊢
  have hdd : s.dpc = .done := by
    have := hfin.2
    unfold aliveCount at this
    cases hp : s.dpc <;> simp [hp] at this ⊢
  have hm := faultfree_every_item_mapped_once c hff s h (by simp [hdd, dWaiting])
  have hv := faultfree_every_value_reduced_once c hff s h hrd
  exact ⟨by rw [hres, hexp], hfin.2, hm.1, hm.2, hv.1, hv.2⟩

/-! ### non-vacuity: the fixed model on the same two configurations, and a plain run -/

/-- the fixed code on witness 1 under the "caller first" scheduler: the panic is re-raised, nobody is left. -/
example : let c := cfgWritePanic true
    let s := runPrio c (actors c.n) 200 (init c)
    result s = some (.panic .reducer) ∧ aliveCount c s = 0 ∧ stuckB c s = true := by decide

/-- the fixed code on witness 2: the call returns the cancel error (or re-raises), nobody is left. -/
example : let c := cfgCancelThenPanic true
    let s := runPrio c (actors c.n).reverse 400 (init c)
    (result s).isSome ∧ aliveCount c s = 0 ∧ stuckB c s = true := by decide

/-- a plain run: 3 items, 2 workers, fan-out 2/0/1, the reducer reads everything and writes 7. -/
def cfgPlain : Cfg :=
  { n := 3, workers := 2, gPanicAt := none,
    mscript := fun i => if i = 0 then [.write 1, .write 2] else if i = 1 then [] else [.write 3],
    rscript := [.readAll, .write 7], ctxCan := false, ctxPre := false, fixed := true }

example : let s := runPrio cfgPlain (actors 3).reverse 400 (init cfgPlain)
    result s = some (expected cfgPlain) ∧ s.mapped = [0, 1, 2] ∧ s.dropped = [] ∧ s.reduced.count 1 = 1 ∧ s.reduced.count 2 = 1 ∧ s.reduced.count 3 = 1 ∧ s.reduced.length = 3
      ∧ s.drained = [] ∧ aliveCount cfgPlain s = 0 := by decide

/-- `cfgPlain` is a "nothing cancelled" configuration with workers ≥ 1 and a single reducer write: the
hypotheses of `no_deadlock`, `every_run_ends_clean`, `faultfree_terminated` are satisfiable, and the run
above ends in a configuration in which nothing can move. -/
example : faultFree cfgPlain = true ∧ cfgPlain.fixed = true ∧ 1 ≤ cfgPlain.workers ∧
    (writesOf cfgPlain.rscript).length ≤ 2 ∧
    stuckB cfgPlain (runPrio cfgPlain (actors 3).reverse 400 (init cfgPlain)) = true := by decide

/-- the measure of `terminates` on the initial configuration of `cfgPlain` (an upper bound for the length of
every run of this call). -/
example : mu cfgPlain (init cfgPlain) = 112 := by decide

/-- the C10-1 scenario in the model: one worker, mapper 0 writes and cancels with error 1 while the generator
still has items, the reducer reads one value and writes 7.  Schedule: the cancel records its error and
drains; the reducer's write begins after that (`wSnap = some true`); the caller receives the value while
`cancel` is still in progress and must return the error, not the value. -/
def cfgRace : Cfg :=
  { n := 3, workers := 1, gPanicAt := none,
    mscript := fun i => if i = 0 then [.write 5, .cancel (some 1)] else [],
    rscript := [.readOne, .write 7], ctxCan := false, ctxPre := false, fixed := true }

def schedRace : List Actor :=
  [.disp, .disp, .disp, .disp, .mapper 0, .mapper 0, .mapper 0, .mapper 0, .red, .red, .red]

example : let s := (runSched cfgRace schedRace (init cfgRace)).getD (init cfgRace)
    s.once = 1 ∧ s.fin = false ∧ s.wSnap = some true ∧ s.dropped = [1] ∧ s.cpc = .defer (.err (.user 1)) := by decide

end GoZero.C10
