/-
C10 — property theorems (statements, short proofs from the lemmas of Proofs*.lean, non-vacuity examples).
-/
import GoZero.C10.Proofs
namespace GoZero.C10

end GoZero.C10
