/-
C10 — deadlock freedom of the repaired code: in every reachable configuration in which the caller has
not returned or a goroutine of the call is still alive, some actor can take a step.
-/
import GoZero.C10.ProofsE
namespace GoZero.C10

/-! ### what a blocked thread looks like -/

theorem gen_blocked {c : Cfg} {s : St} (h : stepGen c s = none) :
    (s.gpc = .run ∧ genSending c s = true) ∨ (s.gpc = .psend ∧ panicSend c s .gen = none) ∨ s.gpc = .done := by
  unfold stepGen at h
  split at h
  · split at h
    · simp at h
    · split at h
      · simp at h
      · left; simp_all [genSending]
  · split at h <;> simp at h
  · right; left; simp_all
  · simp at h
  · right; right; assumption

theorem disp_blocked {c : Cfg} {s : St} (h : stepDisp c s = none) :
    (s.dpc = .sel ∧ c.workers ≤ s.pool) ∨ (s.dpc = .recv ∧ srcRecv c s = none) ∨ (s.dpc = .wait ∧ s.wg ≠ 0) ∨
    (s.dpc = .drain ∧ srcRecv c s = none) ∨ s.dpc = .done := by
  unfold stepDisp at h
  repeat' split at h
  all_goals (try (simp at h))
  all_goals simp_all
  all_goals omega

theorem mapper_blocked {c : Cfg} {s : St} {i : Nat} (h : stepMapper c s i = none) :
    s.mp i = .idle ∨ s.mp i = .done ∨ s.mp i = .crash ∨
    (∃ e sc, s.mp i = .run (.cancel e :: sc) ∧ s.once = 1) ∨
    (∃ v sc, s.mp i = .send v sc ∧ s.collClosed = false ∧ c.workers ≤ s.collQ.length) ∨
    (∃ sc, s.mp i = .cdrain sc ∧ srcRecv c s = none) ∨
    (s.mp i = .psend ∧ panicSend c s (.mapper i) = none) := by
  unfold stepMapper at h
  repeat' split at h
  all_goals (try (simp at h))
  all_goals simp_all
  all_goals omega

theorem red_blocked {c : Cfg} {s : St} (h : stepRed c s = none) :
    s.rpc = .done ∨
    (∃ e sc, s.rpc = .run (.cancel e :: sc) ∧ s.once = 1) ∨
    ((∃ sc, s.rpc = .run (.readOne :: sc) ∨ s.rpc = .run (.readAll :: sc)) ∧ s.collQ = [] ∧ s.collClosed = false) ∨
    (∃ p, s.rpc = .drain p ∧ s.collQ = [] ∧ s.collClosed = false) ∨
    (∃ v sc, s.rpc = .send v sc ∧ s.fin = false ∧
       (s.cpc = .cancelEnter ∨ s.cpc = .cdrain ∨ (∃ r, s.cpc = .check r) ∨ (∃ r, s.cpc = .done r))) ∨
    (∃ sc, s.rpc = .cdrain sc ∧ srcRecv c s = none) ∨
    (∃ p, s.rpc = .psend p ∧ panicSend c s p = none) := by
  unfold stepRed at h
  repeat' split at h
  all_goals (try (simp at h))
  all_goals simp_all
  -- what remains: the send with the caller neither at its select, nor draining, nor in its deferred loop
  all_goals (cases hc : s.cpc <;> simp_all)

theorem caller_blocked {c : Cfg} {s : St} (h : stepCaller c s = none) :
    s.cpc = .sel ∨ (∃ r, s.cpc = .done r) ∨ (s.cpc = .cancelEnter ∧ s.once = 1) ∨
    (s.cpc = .cdrain ∧ srcRecv c s = none) ∨ ((∃ p, s.cpc = .drainOut p) ∧ s.fin = false) ∨
    ((∃ r, s.cpc = .defer r) ∧ s.fin = false) := by
  unfold stepCaller at h
  repeat' split at h
  all_goals (try (simp at h))
  all_goals simp_all

/-- all mapper goroutines idle or ended: the counters are zero. -/
theorem cnt_zero_of (p : MPc → Bool) (f : Nat → MPc) (n : Nat) (h : ∀ i, i < n → p (f i) = false) : cnt p f n = 0 := by
  induction n with
  | zero => rfl
  | succ n ih =>
    simp only [cnt]
    rw [ih (fun i hi => h i (by omega)), h n (by omega)]
    simp [b2n]

theorem alive_zero_of {c : Cfg} {s : St} (hg : s.gpc = .done) (hd : s.dpc = .done) (hr : s.rpc = .done)
    (hm : ∀ i, s.mp i = .idle ∨ s.mp i = .done) : aliveCount c s = 0 := by
  have : (List.filter (fun i => decide (s.mp i ≠ MPc.idle ∧ s.mp i ≠ MPc.done)) (List.range c.n)) = [] := by
    rw [List.filter_eq_nil_iff]
    intro i _
    rcases hm i with h | h <;> simp [h]
  unfold aliveCount
  rw [this]
  simp [hg, hd, hr]

theorem panicSend_fixed {c : Cfg} {s : St} {v : PVal} (hf : c.fixed = true) (hp : s.pbuf = none) :
    panicSend c s v ≠ none := by
  simp [panicSend, hf, hp]

/-- **Progress.**  A reachable configuration of the repaired code in which no actor can move is a final
one: the caller has returned and no goroutine of the call is alive. -/
theorem stuck_is_final (c : Cfg) (hf : c.fixed = true) (hw : 1 ≤ c.workers)
    (hr : (writesOf c.rscript).length ≤ 2) (s : St) (h : Reach c s)
    (hstuck : ∀ a, step c s a = none) : result s ≠ none ∧ aliveCount c s = 0 := by
  have IC := invC_reach h
  have IB := invB_reach h
  have IE := invE_reach h
  have IF := invF_reach h
  -- the source is ready for every receiver: the generator stands at its send, or has closed it
  have hsrc : srcRecv c s ≠ none := by
    have hg := gen_blocked (c := c) (s := s) (by simpa [step] using hstuck .gen)
    rcases hg with ⟨_, hs⟩ | ⟨hp, hn⟩ | hd
    · simp [srcRecv, hs]
    · exact absurd hn (panicSend_fixed hf (IE.p2 hp).1)
    · have := IE.g1 hd
      simp [srcRecv, genSending, hd, this]
  have hm := fun i => mapper_blocked (c := c) (s := s) (i := i) (by simpa [step] using hstuck (.mapper i))
  have hred := red_blocked (c := c) (s := s) (by simpa [step] using hstuck .red)
  have hcal := caller_blocked (c := c) (s := s) (by simpa [step] using hstuck .caller)
  have hdis := disp_blocked (c := c) (s := s) (by simpa [step] using hstuck .disp)
  -- nobody waits inside cancel's sync.Once: its runner could drain
  have honce : s.once ≠ 1 := by
    intro h1
    have hby := IE.o1a h1
    cases hb : s.onceBy with
    | none => exact hby hb
    | some x =>
      cases x with
      | mapper i =>
        have hc := IE.o1m i h1 hb
        rcases hm i with h | h | h | ⟨e, sc, h, _⟩ | ⟨v, sc, h, _⟩ | ⟨sc, _, hn⟩ | ⟨h, _⟩
        all_goals (first | exact hsrc hn | (rw [h] at hc; simp [mIsCdrain] at hc))
      | reducer =>
        have hc := IE.o1r h1 hb
        rcases hred with h | ⟨e, sc, h, _⟩ | ⟨⟨sc, h | h⟩, _⟩ | ⟨p, h, _⟩ | ⟨v, sc, h, _⟩ | ⟨sc, _, hn⟩ | ⟨p, h, _⟩
        all_goals (first | exact hsrc hn | (rw [h] at hc; simp [rIsCdrain] at hc))
      | caller =>
        have hc := IE.o1c h1 hb
        rcases hcal with h | ⟨r, h⟩ | ⟨h, _⟩ | ⟨_, hn⟩ | ⟨⟨p, h⟩, _⟩ | ⟨⟨r, h⟩, _⟩
        all_goals (first | exact hsrc hn | (rw [h] at hc; simp at hc))
  -- a mapper goroutine is idle, ended, or blocked writing to a full open collector
  have hmi : ∀ i, s.mp i = .idle ∨ s.mp i = .done ∨
      (∃ v sc, s.mp i = .send v sc ∧ s.collClosed = false ∧ c.workers ≤ s.collQ.length) := by
    intro i
    rcases hm i with h | h | h | ⟨e, sc, _, h1⟩ | h | ⟨sc, _, hn⟩ | ⟨hp, hn⟩
    · exact Or.inl h
    · exact Or.inr (Or.inl h)
    · exact absurd h (IB.nocrash i)
    · exact absurd h1 honce
    · exact Or.inr (Or.inr h)
    · exact absurd hn hsrc
    · exact absurd hn (panicSend_fixed hf (IE.p3 i hp).1)
  -- the dispatcher waits for a pool slot, waits for the wait group, or has ended
  have hdi : (s.dpc = .sel ∧ c.workers ≤ s.pool) ∨ (s.dpc = .wait ∧ s.wg ≠ 0) ∨ s.dpc = .done := by
    rcases hdis with h | ⟨_, hn⟩ | h | ⟨_, hn⟩ | h
    · exact Or.inl h
    · exact absurd hn hsrc
    · exact Or.inr (Or.inl h)
    · exact absurd hn hsrc
    · exact Or.inr (Or.inr h)
  -- if no mapper goroutine is in the wait group / the pool, the dispatcher has ended
  have hdone_of_quiet : (∀ i, s.mp i = .idle ∨ s.mp i = .done) → s.dpc = .done := by
    intro hq
    have hwg : s.wg = 0 := by
      rw [IB.wgc]; exact cnt_zero_of _ _ _ (fun i _ => by rcases hq i with h | h <;> simp [h, inWg])
    have hpool : cnt inPool s.mp c.n = 0 :=
      cnt_zero_of _ _ _ (fun i _ => by rcases hq i with h | h <;> simp [h, inPool])
    rcases hdi with ⟨hd, hp⟩ | ⟨_, hn⟩ | hd
    · have := IB.poolc
      rw [hpool, hd] at this
      simp [dHolds, b2n] at this
      omega
    · exact absurd hwg hn
    · exact hd
  rcases hred with hrd | ⟨e, sc, _, h1⟩ | ⟨_, hq, hcl⟩ | ⟨p, _, hq, hcl⟩ | ⟨v, sc, hrs, hfin, hc⟩ | ⟨sc, _, hn⟩ | ⟨p, hp, hn⟩
  · -- the reducer goroutine has ended: everything has
    have hfin := IE.r2 hrd
    have hcq := IE.r1 (by simp [hrd, rAfterDrain])
    have hq : ∀ i, s.mp i = .idle ∨ s.mp i = .done := by
      intro i
      rcases hmi i with h | h | ⟨v, sc, _, hcl, _⟩
      · exact Or.inl h
      · exact Or.inr h
      · rw [hcq.1] at hcl; simp at hcl
    have hdd := hdone_of_quiet hq
    have hgd : s.gpc = .done := IF.f1 (IE.d2 hdd)
    refine ⟨?_, alive_zero_of hgd hdd hrd hq⟩
    rcases hcal with hc | ⟨r, hc⟩ | ⟨_, h1⟩ | ⟨_, hn⟩ | ⟨_, hnf⟩ | ⟨_, hnf⟩
    · have := hstuck .callerOut
      simp [step, hc, hfin] at this
    · simp [result, hc]
    · exact absurd h1 honce
    · exact absurd hn hsrc
    · rw [hfin] at hnf; simp at hnf
    · rw [hfin] at hnf; simp at hnf
  · exact absurd h1 honce
  · -- the reducer waits for a value on an empty open collector: then nobody is left to close it — impossible
    exfalso
    have hq' : ∀ i, s.mp i = .idle ∨ s.mp i = .done := by
      intro i
      rcases hmi i with h | h | ⟨v, sc, _, _, hfull⟩
      · exact Or.inl h
      · exact Or.inr h
      · rw [hq] at hfull; simp at hfull; omega
    have := IE.d1 (Or.inr (hdone_of_quiet hq'))
    rw [hcl] at this; simp at this
  · exfalso
    have hq' : ∀ i, s.mp i = .idle ∨ s.mp i = .done := by
      intro i
      rcases hmi i with h | h | ⟨v, sc, _, _, hfull⟩
      · exact Or.inl h
      · exact Or.inr h
      · rw [hq] at hfull; simp at hfull; omega
    have := IE.d1 (Or.inr (hdone_of_quiet hq'))
    rw [hcl] at this; simp at this
  · -- the reducer waits to hand over a value: the caller is always able to take it or has closed the output
    exfalso
    rcases hc with hc | hc | ⟨r, hc⟩ | ⟨r, hc⟩
    · rcases hcal with h | ⟨r, h⟩ | ⟨_, h1⟩ | ⟨h, _⟩ | ⟨⟨p, h⟩, _⟩ | ⟨⟨r, h⟩, _⟩
      all_goals (first | exact absurd h1 honce | (rw [hc] at h; simp at h))
    · rcases hcal with h | ⟨r, h⟩ | ⟨h, _⟩ | ⟨_, hn⟩ | ⟨⟨p, h⟩, _⟩ | ⟨⟨r, h⟩, _⟩
      all_goals (first | exact absurd hn hsrc | (rw [hc] at h; simp at h))
    · have := IE.c1 r hc
      rw [hfin] at this; simp at this
    · rcases IE.c2 r hc with h2 | ⟨_, h2⟩
      · rw [hfin] at h2; simp at h2
      · rw [hrs] at h2
        simp [rW, rRem, writesOf] at h2
        omega
  · exact absurd hn hsrc
  · exact absurd hn (panicSend_fixed hf (IE.p4 (by simp [hp, rIsPsend])).1)

end GoZero.C10
