/-
C10 — round 4: the decision for nil.  With no context and a generator that does not panic: if the caller decides
for ErrReduceNoOutput while no mapper has panicked, then no cancel has begun (`once = 0`), every item was handed
to a mapper, and every mapper ran its whole script — so no mapper script contains a cancel or a panic.
-/
import GoZero.C10.ProofsW
namespace GoZero.C10

theorem hasCancel_cons (a : UAct) (l : List UAct) : hasCancel (a :: l) = (isCancel a || hasCancel l) := by
  simp [hasCancel]

theorem hasPanic_cons (a : UAct) (l : List UAct) : hasPanic (a :: l) = (decide (a = .panic) || hasPanic l) := by
  simp only [hasPanic, List.contains_cons]
  cases a <;> simp

/-- the mapper goroutine has left the user function without a panic. -/
def mFinished : MPc → Bool
  | .wgdone => true
  | .unpool => true
  | .done => true
  | _ => false

/-- no context, the generator does not panic. -/
structure NX (c : Cfg) : Prop where
  ctxCan : c.ctxCan = false
  ctxPre : c.ctxPre = false
  gen : c.gPanicAt = none

structure InvN (c : Cfg) (s : St) : Prop where
  gend : (s.gpc = .close ∨ s.gpc = .done) → s.gNext = c.n
  n1 : s.once = 0 → dLeft s.dpc = true → s.failed ≠ 0 ∨ s.srcClosed = true
  n2 : s.once = 0 → s.failed = 0 → s.dropped = []
  n3 : ∀ i, i ∈ s.mapped → s.mp i ≠ .idle
  n4 : s.once = 0 → s.failed = 0 → ∀ i l, mRem (s.mp i) = some l →
         hasCancel (c.mscript i) = hasCancel l ∧ hasPanic (c.mscript i) = hasPanic l
  n5 : s.once = 0 → s.failed = 0 → ∀ i, mFinished (s.mp i) = true →
         hasCancel (c.mscript i) = false ∧ hasPanic (c.mscript i) = false
  n6 : ∀ i, (s.mp i = .pwrite ∨ s.mp i = .psend) → s.failed ≠ 0

theorem invN_init (c : Cfg) : InvN c (init c) := by
  constructor <;> simp [init, dLeft, mRem, mFinished]

section
attribute [local grind] dLeft dAfter upd mRem mFinished isCancel
attribute [local grind =] hasCancel_cons hasPanic_cons

theorem invN_step {c : Cfg} {s s' : St} (a : Actor) (F : NX c) (IC : InvC c s) (IB : InvB c s) (IE : InvE c s)
    (IF : InvF c s) (I : InvN c s) (h : step c s a = some s') : InvN c s' := by
  obtain ⟨gend, n1, n2, n3, n4, n5, n6⟩ := I
  have n4' : s.once = 0 → s.failed = 0 → ∀ i, s.mp i = .run [] →
      hasCancel (c.mscript i) = false ∧ hasPanic (c.mscript i) = false := by
    intro h0 hf i hi
    have := n4 h0 hf i [] (by simp [hi, mRem])
    simpa [hasCancel, hasPanic] using this
  have hgle := IC.gle
  have hctx : s.ctxDone = false := by
    cases hx : s.ctxDone with
    | false => rfl
    | true => rcases IC.ctx hx with h1 | h1 <;> simp [F.ctxCan, F.ctxPre] at h1
  have hfinr : s.once = 0 → s.fin = true → dAfter s.dpc = true := by
    intro h0 hf
    have hr : s.rpc = .done := by
      rcases IC.finw hf with h2 | h2
      · omega
      · exact h2
    exact (IB.collc (IE.r1 (by simp [hr, rAfterDrain])).1).1
  have hmcd := IC.mcd
  have hrcd := IC.rcd
  have hccd := IC.ccd
  have hsi := IB.spawnidle
  have hf1 := IF.f1
  have hsr := @srcRecv_run c s
  have hsc := @srcRecv_closed c s
  have hgp : c.gPanicAt = none := F.gen
  have hgp1 : s.gpc ≠ .pwrite ∧ s.gpc ≠ .psend := by
    constructor <;> intro hx
    · have := IC.gp (Or.inl hx); simp [genPanics, hgp] at this
    · have := IC.gp (Or.inr hx); simp [genPanics, hgp] at this
  clear IC IB IE IF
  cases a <;> simp only [step] at h
  all_goals (try unfold stepGen at h)
  all_goals (try unfold stepDisp at h)
  all_goals (try unfold stepMapper at h)
  all_goals (try unfold stepRed at h)
  all_goals (try unfold stepCaller at h)
  all_goals (leaves h)
  all_goals (refine ⟨?_, ?_, ?_, ?_, ?_, ?_, ?_⟩)
  all_goals (first | assumption | grind)

end

theorem invN_reach {c : Cfg} (F : NX c) {s : St} (h : Reach c s) : InvN c s := by
  induction h with
  | init => exact invN_init c
  | step a hr hs ih =>
    exact invN_step a F (invC_reach hr) (invB_reach hr) (invE_reach hr) (invF_reach hr) ih hs

/-- no mapper script contains a cancel or a panic. -/
def ScriptsClean (c : Cfg) : Prop := ∀ i, i < c.n → hasCancel (c.mscript i) = false ∧ hasPanic (c.mscript i) = false

/-- once `finish` has happened while no cancel has begun: the dispatcher is past `close(collector)` and no mapper
goroutine is in the wait group. -/
theorem quiet_of_fin0 {c : Cfg} {s : St} (IC : InvC c s) (IB : InvB c s) (IE : InvE c s) (h0 : s.once = 0)
    (hf : s.fin = true) : dAfter s.dpc = true ∧ ∀ i, inWg (s.mp i) = false := by
  have hr : s.rpc = .done := by
    rcases IC.finw hf with h2 | h2
    · omega
    · exact h2
  have hda := (IB.collc (IE.r1 (by simp [hr, rAfterDrain])).1).1
  refine ⟨hda, fun i => ?_⟩
  have hwg : s.wg = 0 := IB.dafter hda
  by_cases hi : i < c.n
  · have := cnt_ge inWg s.mp c.n i hi
    rw [← IB.wgc, hwg] at this
    cases hx : inWg (s.mp i) <;> simp [hx, b2n] at this ⊢
  · have : s.mp i = .idle := by
      cases hm : s.mp i with
      | idle => rfl
      | _ => exact absurd (IC.mlt i (by simp [hm])) hi
    simp [this, inWg]

/-- **The decision for nil without a panic**: `finish` has happened, no error is recorded, no mapper has panicked ⇒
every item was handed to a mapper and every mapper ran its whole script, which contains neither cancel nor panic. -/
theorem decision_clean {c : Cfg} (F : NX c) {s : St} (h : Reach c s) (hf : s.fin = true) (hr : s.retErr = none)
    (hp : s.failed = 0) : ScriptsClean c := by
  have IC := invC_reach h
  have IB := invB_reach h
  have IE := invE_reach h
  have IF := invF_reach h
  have N := invN_reach F h
  have h0 : s.once = 0 := by
    cases Nat.eq_zero_or_pos s.once with
    | inl h0 => exact h0
    | inr h0 => exact absurd hr (IC.once1 (by omega))
  obtain ⟨hda, hq⟩ := quiet_of_fin0 IC IB IE h0 hf
  have hdl : dLeft s.dpc = true := by
    cases hm : s.dpc <;> simp [hm, dAfter, dLeft] at hda ⊢
  have hsc : s.srcClosed = true := by
    rcases N.n1 h0 hdl with h1 | h1
    · exact absurd hp h1
    · exact h1
  have hgn : s.gNext = c.n := N.gend (Or.inr (IF.f1 hsc))
  intro i hi
  have hitem := itemInv_reach h i
  have hsp : ¬ s.dpc = .spawn i := by intro he; rw [he] at hda; simp [dAfter] at hda
  rw [N.n2 h0 hp, hgn] at hitem
  simp [hsp, hi] at hitem
  have hmem : i ∈ s.mapped := List.count_pos_iff.mp (by omega)
  have hne := N.n3 i hmem
  have hw := hq i
  have hfin : mFinished (s.mp i) = true := by
    cases hm : s.mp i <;> simp [hm, inWg] at hw hne ⊢ <;> simp [mFinished]
  exact N.n5 h0 hp i hfin

/-- facts about the panic channel that hold whether or not somebody cancels (code as it is now). -/
structure InvJ (s : St) : Prop where
  j : s.wrote = true → s.pbuf ≠ none ∨ s.consumed = true
  k2 : s.consumed = true → cPan s.cpc = true
  g2 : s.failed ≠ 0 → s.wrote = true ∨ ∃ i, s.mp i = .pwrite

section
attribute [local grind] cPan rIsPsend upd atPsend

theorem invJ_step {c : Cfg} {s s' : St} (a : Actor) (IB : InvB c s) (IE : InvE c s) (I : InvJ s)
    (h : step c s a = some s') :
    (s'.consumed = true → cPan s'.cpc = true) ∧ (s'.failed ≠ 0 → s'.wrote = true ∨ ∃ i, s'.mp i = .pwrite) ∧
    ((s'.wrote = true → s'.pbuf ≠ none ∨ s'.consumed = true) ∨ atPsend s' a = true) := by
  have G2 := g2_step a IB I.g2 h
  obtain ⟨hj, k2, _⟩ := I
  have hp1 := IE.p1
  clear IB IE
  cases a <;> simp only [step] at h
  all_goals (try unfold stepGen at h)
  all_goals (try unfold stepDisp at h)
  all_goals (try unfold stepMapper at h)
  all_goals (try unfold stepRed at h)
  all_goals (try unfold stepCaller at h)
  all_goals (leaves h)
  all_goals (refine ⟨?_, G2, ?_⟩)
  all_goals (first | assumption | grind)

theorem invJ_psend {c : Cfg} {s s' : St} (a : Actor) (IB : InvB c s) (hfx : c.fixed = true)
    (k2 : s.consumed = true → cPan s.cpc = true) (g2 : s.failed ≠ 0 → s.wrote = true ∨ ∃ i, s.mp i = .pwrite)
    (hp : atPsend s a = true) (h : step c s a = some s') : InvJ s' := by
  have G2 := g2_step a IB g2 h
  clear IB
  cases a <;> simp only [step] at h <;> simp only [atPsend] at hp
  all_goals (try unfold stepGen at h)
  all_goals (try unfold stepMapper at h)
  all_goals (try unfold stepRed at h)
  all_goals (try (simp at hp; done))
  all_goals (leaves h)
  all_goals (refine ⟨?_, ?_, G2⟩)
  all_goals (first | assumption | grind)

end

theorem invJ_reachA {c : Cfg} (hfx : c.fixed = true) {s : St} (h : ReachA c s) : InvJ s := by
  induction h with
  | init => exact ⟨by simp [init], by simp [init], by simp [init]⟩
  | step a hr hs ih =>
    have R := reachA_reach hr
    rcases stepA_cases hs with ⟨h1, hp⟩ | ⟨s1, h1, hp, h2⟩
    · obtain ⟨a1, a2, a3⟩ := invJ_step a (invB_reach R) (invE_reach R) ih h1
      rcases a3 with hj | hj
      · exact ⟨hj, a1, a2⟩
      · simp [hp] at hj
    · obtain ⟨a1, a2, _⟩ := invJ_step a (invB_reach R) (invE_reach R) ih h1
      exact invJ_psend a (invB_reach (Reach.step a R h1)) hfx a1 a2 hp h2

/-- at the decision point: the scripts are clean, or a captured panic is waiting in the buffer. -/
theorem decision_point {c : Cfg} (F : NX c) (hfx : c.fixed = true) {s : St} (h : ReachA c s) (hc : s.cpc = .sel)
    (hf : s.fin = true) (hr : s.retErr = none) : ScriptsClean c ∨ s.pbuf ≠ none := by
  have R := reachA_reach h
  by_cases hp : s.failed = 0
  · exact Or.inl (decision_clean F R hf hr hp)
  · right
    have IC := invC_reach R
    have h0 : s.once = 0 := by
      cases Nat.eq_zero_or_pos s.once with
      | inl h0 => exact h0
      | inr h0 => exact absurd hr (IC.once1 (by omega))
    have J := invJ_reachA hfx h
    obtain ⟨_, hq⟩ := quiet_of_fin0 IC (invB_reach R) (invE_reach R) h0 hf
    have hw : s.wrote = true := by
      rcases J.g2 hp with h1 | ⟨i, h1⟩
      · exact h1
      · have := hq i; simp [h1, inWg] at this
    rcases J.j hw with h1 | h1
    · exact h1
    · have := J.k2 h1; simp [hc, cPan] at this

/-- the caller is about to return / has returned ErrReduceNoOutput. -/
structure InvFin (P : Prop) (s : St) : Prop where
  f1 : (s.cpc = .defer (.err .noOutput) ∨ s.cpc = .check (.err .noOutput)) → P ∨ s.pbuf ≠ none
  f2 : s.cpc = .done (.err .noOutput) → P

section
attribute [local grind] upd outRes

theorem invFin_step {c : Cfg} {s s' : St} (P : Prop) (a : Actor) (hfx : c.fixed = true) (IC : InvC c s)
    (hdec : s.cpc = .sel → s.fin = true → s.retErr = none → P ∨ s.pbuf ≠ none)
    (I : InvFin P s) (h : step c s a = some s') : InvFin P s' := by
  obtain ⟨f1, f2⟩ := I
  have hret : ∀ e, s.retErr = some e → e ≠ .noOutput := by
    intro e he hn
    have := IC.ret e he
    rw [hn] at this
    exact this
  clear IC
  cases a <;> simp only [step] at h
  all_goals (try unfold stepGen at h)
  all_goals (try unfold stepDisp at h)
  all_goals (try unfold stepMapper at h)
  all_goals (try unfold stepRed at h)
  all_goals (try unfold stepCaller at h)
  all_goals (leaves h)
  all_goals (refine ⟨?_, ?_⟩)
  all_goals (first | assumption | grind)

theorem invFin_psend {c : Cfg} {s s' : St} (P : Prop) (a : Actor) (I : InvFin P s) (hp : atPsend s a = true)
    (h : step c s a = some s') : InvFin P s' := by
  obtain ⟨f1, f2⟩ := I
  cases a <;> simp only [step] at h <;> simp only [atPsend] at hp
  all_goals (try unfold stepGen at h)
  all_goals (try unfold stepMapper at h)
  all_goals (try unfold stepRed at h)
  all_goals (try (simp at hp; done))
  all_goals (leaves h)
  all_goals (refine ⟨?_, ?_⟩)
  all_goals (first | assumption | grind)

end

theorem invFin_reachA {c : Cfg} (F : NX c) (hfx : c.fixed = true) {s : St} (h : ReachA c s) :
    InvFin (ScriptsClean c) s := by
  induction h with
  | init => exact ⟨by simp [init], by simp [init]⟩
  | step a hr hs ih =>
    have R := reachA_reach hr
    rcases stepA_cases hs with ⟨h1, _⟩ | ⟨s1, h1, hp, h2⟩
    · exact invFin_step _ a hfx (invC_reach R) (fun hc hf hre => decision_point F hfx hr hc hf hre) ih h1
    · have I1 := invFin_step _ a hfx (invC_reach R) (fun hc hf hre => decision_point F hfx hr hc hf hre) ih h1
      exact invFin_psend _ a I1 hp h2

end GoZero.C10
