/-
C10 — round 4: the code as it is now (`onceChan.write` = one atomic non-blocking send, `Model.stepA`).
`ReachA ⊆ Reach`; in `ReachA` the flag `wrote` means "the buffer was filled"; and the FULL statement of
"a captured panic is re-raised" (also for a panicking generator) holds.
-/
import GoZero.C10.ProofsP
import GoZero.C10.ProofsH
namespace GoZero.C10

theorem stepA_cases {c : Cfg} {s s' : St} {a : Actor} (h : stepA c s a = some s') :
    (step c s a = some s' ∧ atPsend s' a = false) ∨
    (∃ s1, step c s a = some s1 ∧ atPsend s1 a = true ∧ step c s1 a = some s') := by
  unfold stepA at h
  split at h
  · simp at h
  next s1 h1 =>
    split at h
    next hp => exact Or.inr ⟨s1, h1, hp, h⟩
    next hp => simp at h; subst h; exact Or.inl ⟨h1, by simpa using hp⟩

theorem reachA_reach {c : Cfg} {s : St} (h : ReachA c s) : Reach c s := by
  induction h with
  | init => exact Reach.init
  | step a _ hs ih =>
    rcases stepA_cases hs with ⟨h1, _⟩ | ⟨s1, h1, _, h2⟩
    · exact Reach.step a ih h1
    · exact Reach.step a (Reach.step a ih h1) h2

/-- nobody cancels and the context cannot end (user panics — also of the generator — are possible). -/
structure NC (c : Cfg) : Prop where
  ctxCan : c.ctxCan = false
  ctxPre : c.ctxPre = false
  mcancel : ∀ i, i < c.n → hasCancel (c.mscript i) = false
  rcancel : hasCancel c.rscript = false

theorem nc_of {c : Cfg} (h : noCancel c = true) : NC c := by
  simp only [noCancel, anyScript, anyMapper, Bool.and_eq_true, Bool.not_eq_true', Bool.or_eq_false_iff,
    List.any_eq_false, List.mem_range] at h
  obtain ⟨⟨h1, h2⟩, h4, h5⟩ := h
  exact ⟨h1, h2, fun i hi => by simpa using h4 i hi, h5⟩

structure XM (s : St) : Prop where
  retErr : s.retErr = none
  once : s.once = 0
  ctxDone : s.ctxDone = false
  finr : s.fin = true → s.rpc = .done

theorem xm_of {c : Cfg} {s : St} (F : NC c) (I : InvC c s) : XM s := by
  have hret : s.retErr = none := by
    cases h : s.retErr with
    | none => rfl
    | some e =>
      rcases errOK_faulty (I.ret e h) with h1 | h1 | h1
      · simp [F.ctxCan] at h1
      · simp [F.ctxPre] at h1
      · exfalso
        simp only [anyScript, anyMapper, Bool.or_eq_true, List.any_eq_true, List.mem_range] at h1
        rcases h1 with ⟨i, hi, h2⟩ | h2
        · simp [F.mcancel i hi] at h2
        · simp [F.rcancel] at h2
  have honce : s.once = 0 := by
    cases Nat.eq_zero_or_pos s.once with
    | inl h => exact h
    | inr h => exact absurd hret (I.once1 (by omega))
  refine ⟨hret, honce, ?_, ?_⟩
  · cases h : s.ctxDone with
    | false => rfl
    | true => rcases I.ctx h with h1 | h1 <;> simp [F.ctxCan, F.ctxPre] at h1
  · intro h
    rcases I.finw h with h2 | h2
    · omega
    · exact h2

/-- once `finish` has happened and nobody cancelled: the reducer goroutine has ended, no mapper goroutine is in
the wait group, the collector is closed. -/
theorem quiet_of_fin' {c : Cfg} {s : St} (X : XM s) (IC : InvC c s) (IB : InvB c s) (IE : InvE c s) (hf : s.fin = true) :
    s.rpc = .done ∧ (∀ i, inWg (s.mp i) = false) ∧ dAfter s.dpc = true := by
  have hr := X.finr hf
  have hcq := IE.r1 (by simp [hr, rAfterDrain])
  have hda := (IB.collc hcq.1).1
  refine ⟨hr, fun i => ?_, hda⟩
  have hwg : s.wg = 0 := IB.dafter hda
  by_cases hi : i < c.n
  · have := cnt_ge inWg s.mp c.n i hi
    rw [← IB.wgc, hwg] at this
    cases hx : inWg (s.mp i) <;> simp [hx, b2n] at this ⊢
  · have : s.mp i = .idle := by
      cases hm : s.mp i with
      | idle => rfl
      | _ => exact absurd (IC.mlt i (by simp [hm])) hi
    simp [this, inWg]

/-- the dispatcher has left its loop for good. -/
def dLeft : DPc → Bool
  | .unpool => true
  | .wait => true
  | .closeColl => true
  | .drain => true
  | .done => true
  | _ => false

/-- the part of the invariant every `step` preserves (given `J` before the step). -/
structure InvQ (c : Cfg) (s : St) : Prop where
  k2 : s.consumed = true → cPan s.cpc = true
  g1 : dLeft s.dpc = true → s.failed ≠ 0 ∨ s.srcClosed = true
  g2 : s.failed ≠ 0 → s.wrote = true ∨ ∃ i, s.mp i = .pwrite
  k3 : ∀ r, s.cpc = .done r → resIsPanic r = false → s.wrote = false

/-- `wrote` means: the buffer was filled (and possibly emptied by the caller). -/
def J (s : St) : Prop := s.wrote = true → s.pbuf ≠ none ∨ s.consumed = true

theorem invQ_init (c : Cfg) : InvQ c (init c) := by
  constructor <;> simp [init, dLeft]

section
attribute [local grind] cPan resIsPanic rIsPsend upd inWg dLeft dAfter atPsend

/-- frame facts of one step for "a panicking mapper that has not passed `onceChan.write` yet". -/
theorem frame_step {c : Cfg} {s s' : St} (a : Actor) (IB : InvB c s) (h : step c s a = some s') :
    (s.wrote = true → s'.wrote = true) ∧
    (∀ j, s.mp j = .pwrite → s'.mp j = .pwrite ∨ s'.wrote = true) ∧
    (s'.failed = s.failed ∨ (match a with | .mapper i => s'.mp i = .pwrite | _ => False)) := by
  have hsi := IB.spawnidle
  clear IB
  cases a <;> simp only [step] at h
  all_goals (try unfold stepGen at h)
  all_goals (try unfold stepDisp at h)
  all_goals (try unfold stepMapper at h)
  all_goals (try unfold stepRed at h)
  all_goals (try unfold stepCaller at h)
  all_goals (leaves h)
  all_goals (refine ⟨?_, ?_, ?_⟩)
  all_goals (first | assumption | grind)

theorem g2_step {c : Cfg} {s s' : St} (a : Actor) (IB : InvB c s)
    (g2 : s.failed ≠ 0 → s.wrote = true ∨ ∃ i, s.mp i = .pwrite) (h : step c s a = some s') :
    s'.failed ≠ 0 → s'.wrote = true ∨ ∃ i, s'.mp i = .pwrite := by
  obtain ⟨f1, f2, f3⟩ := frame_step a IB h
  intro hf
  rcases f3 with f3 | f3
  · rw [f3] at hf
    rcases g2 hf with hw | ⟨j, hj⟩
    · exact Or.inl (f1 hw)
    · rcases f2 j hj with h1 | h1
      · exact Or.inr ⟨j, h1⟩
      · exact Or.inl h1
  · cases a <;> simp at f3
    exact Or.inr ⟨_, f3⟩

/-- one `step` (any actor): `InvQ` is kept; `J` is kept unless the actor has just won the CAS and stands at its send. -/
theorem invQ_step {c : Cfg} {s s' : St} (a : Actor) (F : NC c) (hfx : c.fixed = true) (IC : InvC c s) (IB : InvB c s)
    (IE : InvE c s) (IF : InvF c s) (I : InvQ c s) (hj : J s) (h : step c s a = some s') :
    InvQ c s' ∧ (J s' ∨ atPsend s' a = true) := by
  have G2 := g2_step a IB I.g2 h
  obtain ⟨k2, g1, g2, k3⟩ := I
  have X := xm_of F IC
  have hq := fun hf => quiet_of_fin' X IC IB IE hf
  have hq2 : s.fin = true → ∀ i, s.mp i ≠ .pwrite ∧ s.mp i ≠ .recovered := by
    intro hf i
    have := (hq hf).2.1 i
    cases hm : s.mp i <;> simp [hm, inWg] at this ⊢
  have hq3 : s.fin = true → dLeft s.dpc = true ∧ s.dpc ≠ .sel ∧ s.rpc = .done := by
    intro hf
    have := (hq hf).2.2
    refine ⟨?_, ?_, (hq hf).1⟩ <;> (cases hm : s.dpc <;> simp [hm, dAfter, dLeft] at this ⊢)
  have hsc := @srcRecv_closed c s
  obtain ⟨_, _, hctx, _⟩ := X
  have hc1 := IE.c1
  have hc2 := IE.c2
  have hp1 := IE.p1
  have hf1 := IF.f1
  have hf2u := IF.f2u
  unfold J at hj ⊢
  clear IC IB IE IF hq
  cases a <;> simp only [step] at h
  all_goals (try unfold stepGen at h)
  all_goals (try unfold stepDisp at h)
  all_goals (try unfold stepMapper at h)
  all_goals (try unfold stepRed at h)
  all_goals (try unfold stepCaller at h)
  all_goals (leaves h)
  all_goals (refine ⟨⟨?_, ?_, G2, ?_⟩, ?_⟩)
  all_goals (first | assumption | grind)

/-- the send of `onceChan.write` by the actor standing at it: `InvQ` is kept and the buffer is full afterwards. -/
theorem invQ_psend {c : Cfg} {s s' : St} (a : Actor) (hfx : c.fixed = true) (IB : InvB c s) (I : InvQ c s)
    (hp : atPsend s a = true) (h : step c s a = some s') : InvQ c s' ∧ J s' := by
  have G2 := g2_step a IB I.g2 h
  clear IB
  obtain ⟨k2, g1, g2, k3⟩ := I
  unfold J
  cases a <;> simp only [step] at h <;> simp only [atPsend] at hp
  all_goals (try unfold stepGen at h)
  all_goals (try unfold stepMapper at h)
  all_goals (try unfold stepRed at h)
  all_goals (try (simp at hp; done))
  all_goals (leaves h)
  all_goals (refine ⟨⟨?_, ?_, G2, ?_⟩, ?_⟩)
  all_goals (first | assumption | grind)

end

theorem invQ_reachA {c : Cfg} (hnc : noCancel c = true) (hfx : c.fixed = true) {s : St} (h : ReachA c s) :
    InvQ c s ∧ J s := by
  induction h with
  | init => exact ⟨invQ_init c, by simp [J, init]⟩
  | step a hr hs ih =>
    have R := reachA_reach hr
    rcases stepA_cases hs with ⟨h1, hp⟩ | ⟨s1, h1, hp, h2⟩
    · have := invQ_step a (nc_of hnc) hfx (invC_reach R) (invB_reach R) (invE_reach R) (invF_reach R) ih.1 ih.2 h1
      rcases this.2 with hj | hj
      · exact ⟨this.1, hj⟩
      · simp [hp] at hj
    · have := invQ_step a (nc_of hnc) hfx (invC_reach R) (invB_reach R) (invE_reach R) (invF_reach R) ih.1 ih.2 h1
      exact invQ_psend a hfx (invB_reach (Reach.step a R h1)) this.1 hp h2

/-- the send of `onceChan.write` never blocks in the repaired code (capacity-1 buffer, single writer). -/
theorem psend_enabled {c : Cfg} {s : St} (a : Actor) (hfx : c.fixed = true) (IE : InvE c s) (hp : atPsend s a = true) :
    step c s a ≠ none := by
  cases a <;> simp only [atPsend] at hp <;> try (simp at hp; done)
  · have h := of_decide_eq_true hp
    have hb := (IE.p2 h).1
    simp only [step, stepGen, h]
    have := @panicSend_fixed c s .gen hfx hb
    cases hx : panicSend c s .gen <;> simp_all
  next i =>
    have h := of_decide_eq_true hp
    have hb := (IE.p3 i h).1
    simp only [step, stepMapper, h]
    have := @panicSend_fixed c s (.mapper i) hfx hb
    cases hx : panicSend c s (.mapper i) <;> simp_all
  · cases hr : s.rpc <;> simp [hr] at hp
    next pv =>
      have hb := (IE.p4 (by simp [hr, rIsPsend])).1
      simp only [step, stepRed, hr]
      have := @panicSend_fixed c s pv hfx hb
      cases hx : panicSend c s pv <;> simp_all

/-- an actor can move in the code as it is now iff it can move in the two-step form. -/
theorem stepA_none_iff {c : Cfg} {s : St} (a : Actor) (hfx : c.fixed = true) (h : Reach c s) :
    stepA c s a = none ↔ step c s a = none := by
  unfold stepA
  cases hs : step c s a with
  | none => simp
  | some s1 =>
    simp only [reduceCtorEq, iff_false]
    split
    next hp => exact psend_enabled a hfx (invE_reach (Reach.step a h hs)) hp
    next => simp

theorem muA_step {c : Cfg} {s s' : St} (a : Actor) (hr : Reach c s) (h : stepA c s a = some s') : mu c s' < mu c s := by
  rcases stepA_cases h with ⟨h1, _⟩ | ⟨s1, h1, _, h2⟩
  · exact mu_step a hr h1
  · have := mu_step a hr h1
    have := mu_step a (Reach.step a hr h1) h2
    omega

end GoZero.C10
