/-
C10 — round 5c: `ForEach` with a context as an instance of the core.  ForEach's caller has no context case: the
actor `callerCtx` never moves (`stepF`).  Invariant: the caller never enters its cancel(DeadlineExceeded) branch, no
deadline error is ever recorded or returned.
-/
import GoZero.C10.ProofsK
namespace GoZero.C10

/-- the code as it is now without the caller's context case (ForEach / FinishVoid). -/
def stepF (c : Cfg) (s : St) (a : Actor) : Option St := if a = .callerCtx then none else stepA c s a

inductive ReachF (c : Cfg) : St → Prop
  | init : ReachF c (init c)
  | step {s s' : St} (a : Actor) : ReachF c s → stepF c s a = some s' → ReachF c s'

theorem stepF_stepA {c : Cfg} {s s' : St} {a : Actor} (h : stepF c s a = some s') : a ≠ .callerCtx ∧ stepA c s a = some s' := by
  unfold stepF at h
  split at h
  · simp at h
  · exact ⟨by assumption, h⟩

theorem reachF_reachA {c : Cfg} {s : St} (h : ReachF c s) : ReachA c s := by
  induction h with
  | init => exact ReachA.init
  | step a _ hs ih => exact ReachA.step a ih (stepF_stepA hs).2

/-- no cancel of any user function carries the deadline error, the caller is not in its context branch. -/
structure InvFJ (s : St) : Prop where
  j1 : s.cpc ≠ .cancelEnter
  j2 : s.cpc ≠ .cdrain
  j3 : s.retErr ≠ some .deadline
  j4 : ∀ r, (s.cpc = .defer r ∨ s.cpc = .check r ∨ s.cpc = .done r) → r ≠ .err .deadline

theorem cancelErr_ne_deadline (e : Option Nat) : cancelErr e ≠ .deadline := by
  cases e <;> simp [cancelErr]

theorem invFJ_step {c : Cfg} {s s' : St} {a : Actor} (ha : a ≠ .callerCtx) (hs : step c s a = some s') (J : InvFJ s) : InvFJ s' := by
  obtain ⟨j1, j2, j3, j4⟩ := J
  cases a with
  | callerCtx => exact absurd rfl ha
  | gen =>
    simp only [step] at hs
    unfold stepGen panicSend at hs
    constructor <;> (repeat' split at hs) <;> simp at hs <;> (try subst hs) <;> simp_all
  | dispCtx => simp only [step] at hs; split at hs <;> simp at hs; subst hs; exact ⟨j1, j2, j3, j4⟩
  | dispDone => simp only [step] at hs; split at hs <;> simp at hs; subst hs; exact ⟨j1, j2, j3, j4⟩
  | env => simp only [step] at hs; split at hs <;> simp at hs; subst hs; exact ⟨j1, j2, j3, j4⟩
  | disp =>
    simp only [step] at hs
    unfold stepDisp at hs
    constructor <;> (repeat' split at hs) <;> simp at hs <;> (try subst hs) <;> simp_all
  | mapper i =>
    simp only [step] at hs
    unfold stepMapper panicSend at hs
    have := cancelErr_ne_deadline
    constructor <;> (repeat' split at hs) <;> simp at hs <;> (try subst hs) <;> simp_all
  | red =>
    simp only [step] at hs
    unfold stepRed panicSend at hs
    have := cancelErr_ne_deadline
    constructor <;> (repeat' split at hs) <;> simp at hs <;> (try subst hs) <;> simp_all
  | callerPanic =>
    simp only [step] at hs
    constructor <;> (repeat' split at hs) <;> simp at hs <;> (try subst hs) <;> simp_all
  | callerOut =>
    simp only [step] at hs
    constructor <;> (repeat' split at hs) <;> simp at hs <;> (try subst hs) <;> simp_all [outRes]
    all_goals (split <;> simp_all)
  | caller =>
    simp only [step] at hs
    unfold stepCaller at hs
    constructor <;> (repeat' split at hs) <;> simp at hs <;> (try subst hs) <;> simp_all

theorem invFJ_init (c : Cfg) : InvFJ (init c) := by
  constructor <;> simp [init]

theorem invFJ_reachF {c : Cfg} {s : St} (h : ReachF c s) : InvFJ s := by
  induction h with
  | init => exact invFJ_init c
  | step a _ hs ih =>
    obtain ⟨hne, hA⟩ := stepF_stepA hs
    rcases stepA_cases hA with ⟨h1, _⟩ | ⟨s1, h1, _, h2⟩
    · exact invFJ_step hne h1 ih
    · exact invFJ_step hne h2 (invFJ_step hne h1 ih)

end GoZero.C10
