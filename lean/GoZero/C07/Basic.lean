/-
C07 — basics shared by the executable small-step models of core/syncx/singleflight.go (`SF`), core/syncx/lockedcalls.go (`LC`)
and core/syncx/resourcemanager.go (`RM`).      (core Lean only)

One model = one transition system `step : St → Tid → Nat → Option St`:
  * `Tid := Nat`  — an unbounded supply of goroutines; every goroutine loops  idle → call → … → return → idle,
    so one goroutine issues any number of calls, with any keys.
  * the third argument is the *environment input* of the step: the key on `invoke`, the value the user
    function returns on `fn end` (encodes the pair (val, err); `0` is Go's zero value), ignored elsewhere.
  * `none` = the step is not enabled (mutex taken, wait-group counter not zero).
  * one row per statement of the Go function (the row list is tied to the extracted statement skeleton in Tie.lean).
  * ghost fields (logical clock, call / execution records, the list of returned calls) never influence control.
A schedule is a list of `(tid, input)`; `Reach` closes over *every* schedule.
-/
namespace GoZero.C07

abbrev Tid := Nat
abbrev Key := Nat
abbrev CallId := Nat
abbrev Val := Nat

/-- function update on `Nat`-indexed tables. -/
def upd {α : Type} (f : Nat → α) (i : Nat) (v : α) : Nat → α := fun j => if j = i then v else f j

@[simp] theorem upd_same {α : Type} (f : Nat → α) (i : Nat) (v : α) : upd f i v i = v := by simp [upd]
theorem upd_other {α : Type} (f : Nat → α) (i j : Nat) (v : α) (h : j ≠ i) : upd f i v j = f j := by simp [upd, h]

/-- one returned call, as seen by its caller (ghost record). -/
structure Ret where
  tid   : Tid
  key   : Key
  inv   : Nat          -- clock at invocation
  ret   : Nat          -- clock at return
  exec  : CallId       -- the `call` object whose result was handed out
  val   : Val          -- (val, err) handed to the caller
  fresh : Bool         -- DoEx's `fresh`
  deriving Repr, DecidableEq

end GoZero.C07
