/-
C07 — Tie: the statement skeletons the extractor read from core/syncx/{singleflight,lockedcalls,resourcemanager}.go
*now* are the ones the models' step tables were written against.  `SF.stmt pc` is the statement the model's
row `pc` stands for; a reordered delete/Done, a dropped lock, a changed `fresh` flag, a different map key, an
extra or missing statement breaks an obligation here.
-/
import GoZero.Extracted.C07
import GoZero.C07.Model
namespace GoZero.C07.Tie
open GoZero.Extracted.C07

theorem extraction_clean : extractionErrors = [] := by decide

/-! ### SingleFlight -/
open SF in
/-- `createCall`: lock; look the key up; found → unlock, wait, (done = true); else allocate, Add(1), publish, unlock. -/
theorem tie_createCall : createCallShape =
    [stmt .l0, stmt .l1, "if ok {", stmt .w0, stmt .w1, "return c, true", "}",
     stmt .n0, stmt .n1, stmt .n2, stmt .n3, "return c, false"] := by decide

open SF in
/-- `makeCall`: run fn, store its result; deferred: lock, **delete the entry, unlock, then Done**.  The cleanup is a
`defer`red function registered before `fn` is called, so it also runs when `fn` panics (model rows `mp` → `d0 … d3` → `px`;
the store `m2` is skipped). -/
theorem tie_makeCall : makeCallShape =
    ["defer{", "func{", stmt .d0, stmt .d1, stmt .d2, stmt .d3, "}", "call func", "}",
     stmt .m0, stmt .m2, "store c.err"] := by decide

open SF in
/-- `DoEx`: joiners (`done`) are reported `fresh = false`, the executing caller `fresh = true`. -/
theorem tie_doEx : doExShape =
    ["call g.createCall(key)", "if done {", stmt .w2, "}", "call g.makeCall(c, key, fn)", stmt .r0] := by decide

/-- `Do` is `DoEx` without the flag. -/
theorem tie_do : doShape =
    ["call g.createCall(key)", "if done {", "return c.val, c.err", "}", "call g.makeCall(c, key, fn)",
     "return c.val, c.err"] := by decide

theorem tie_newSingleFlight : newSingleFlightShape = ["return &flightGroup{ calls: make(map[string]*call), }"] := by
  decide

/-! ### LockedCalls -/
open LC in
/-- `lockedGroup.Do`: lock; somebody registered for the key → unlock, wait, **retry from the top**; else makeCall
(still holding the mutex). -/
theorem tie_lockedDo : lockedDoShape =
    ["label begin", stmt .b0, stmt .b1, "if ok {", stmt .b2, stmt .b3, "goto begin", "}",
     "call lg.makeCall(key, fn)", stmt .e4] := by decide

open LC in
/-- `lockedGroup.makeCall`: Add(1), register, unlock, run the caller's own fn; deferred: lock, **delete, unlock,
then Done** (registered with `defer` before `fn` runs: also executed when `fn` panics, rows `fp` → `e0 … e3` → `px`). -/
theorem tie_lockedMakeCall : lockedMakeCallShape =
    [stmt .c0, stmt .c1, stmt .c2, stmt .c3,
     "defer{", "func{", stmt .e0, stmt .e1, stmt .e2, stmt .e3, "}", "call func", "}",
     stmt .f0, stmt .e4] := by decide

theorem tie_newLockedCalls : newLockedCallsShape = ["return &lockedGroup{ m: make(map[string]*sync.WaitGroup), }"] := by
  decide

/-! ### ResourceManager -/
open RM in
/-- `GetResource`: the closure handed to `singleFlight.Do` — read-locked lookup, return the stored instance if
present, else `create`, return its error, else store under the write lock and return the new instance. -/
theorem tie_getResource : getResourceShape =
    ["func{", stmt .g0, stmt .g1, stmt .g2, stmt .g3, "return resource, nil", "}",
     stmt .g4, stmt .g5, "return nil, err", "}",
     stmt .g6, "defer{", stmt .g8, "}", stmt .g7, "return resource, nil", "}",
     "call manager.singleFlight.Do(key, func)", "if err != nil {", "return nil, err", "}",
     "return val.(io.Closer), nil"] := by decide

/-- the manager's flight group is the `SingleFlight` of singleflight.go (whose skeleton is tied above). -/
theorem tie_newResourceManager : newResourceManagerShape =
    ["return &ResourceManager{ resources: make(map[string]io.Closer), singleFlight: NewSingleFlight(), }"] := by
  decide

/-- `Inject`: one write-locked map store — the atomic `RM.inject` of the model (used by the correspondence runs to
pre-register resources; outside `RM.Reach`). -/
theorem tie_rmInject : rmInjectShape =
    ["call manager.lock.Lock()", "mapset manager.resources[key] = resource", "call manager.lock.Unlock()"] := by decide

/-- `Close`: under the write lock, close every held resource, then drop the map (the manager must not be used
afterwards: a later `GetResource` would store into a nil map).  The correspondence runs call it after all calls
returned and check that exactly the held instances were closed, once each. -/
theorem tie_rmClose : rmCloseShape =
    ["call manager.lock.Lock()", "defer{", "call manager.lock.Unlock()", "}", "var be",
     "range manager.resources {", "call resource.Close()", "if err != nil {", "call be.Add(err)", "}", "}",
     "store manager.resources", "call be.Err()", "return <call>"] := by decide

/-! ### the synchronisation objects are the ones the rows' semantics were written for
(`sync.Mutex`: exclusive; `sync.WaitGroup`: counter, `Wait` passes iff 0; `sync.RWMutex`: one writer or many readers;
the maps are keyed by the caller's key string) -/
theorem tie_callFields : callFields = ["wg sync.WaitGroup", "val any", "err error"] := by decide
theorem tie_flightGroupFields : flightGroupFields = ["calls map[string]*call", "lock sync.Mutex"] := by decide
theorem tie_lockedGroupFields : lockedGroupFields = ["mu sync.Mutex", "m map[string]*sync.WaitGroup"] := by decide
theorem tie_resourceManagerFields : resourceManagerFields =
    ["resources map[string]io.Closer", "singleFlight SingleFlight", "lock sync.RWMutex"] := by decide

/-! ### the users named in the property's anchors
`cacheNode.doTake` and `collection.Cache.Take` put exactly one `SingleFlight` call around the load, keyed by the
cache key itself (so "one execution per key" is "one load per cache key"). -/
theorem tie_cacheNode_barrier : cacheNodeBarrierCalls = ["c.barrier.DoEx(key, func)"] := by decide
theorem tie_collectionCache_barrier : collectionCacheBarrierCalls = ["c.barrier.Do(key, func)"] := by decide
theorem tie_collectionCache_ctor : collectionCacheBarrierCtor = ["syncx.NewSingleFlight()"] := by decide

/-- `collection.Cache.Take` = unlocked lookup (hit → return) ; `barrier.Do(key, closure)` with the closure of the
same form as `GetResource`'s: look the key up again (`RM` row g1/g3: found → return it), run the loader (g4), on error
return it uncached (g5), else store (g7) and return the loaded value; joiners and leader alike return the flight's
`val`.  This is why its histories are checked against the `RM` model and monitor (harness TestVerifC07Collection). -/
theorem tie_collectionTake : collectionTakeShape =
    ["call c.doGet(key)", "if ok {", "call c.stats.IncrementHit()", "return val, nil", "}",
     "var fresh",
     "func{", "call c.doGet(key)", "if ok {", "return val, nil", "}",
     "call fetch()", "if e != nil {", "return nil, e", "}",
     "call c.Set(key, v)", "return v, nil", "}",
     "call c.barrier.Do(key, func)", "if err != nil {", "return nil, err", "}",
     "if fresh {", "call c.stats.IncrementMiss()", "return val, nil", "}",
     "call c.stats.IncrementHit()", "return val, nil"] := by decide

/-- `cacheNode.doTake`: the closure handed to the flight starts with the cache read for the same key, … -/
theorem tie_doTake_reads_cache_first : cacheNodeDoTakeShape.take 2 = ["func{", "call c.doGetCache(ctx, key, v)"] := by
  decide
/-- … queries the database exactly once, writes the cache after it, … -/
theorem tie_doTake_one_query :
    cacheNodeDoTakeShape.filter (fun t => t = "call query(v)" || t = "call cacheVal(v)" || t = "call c.setCacheWithNotFound(ctx, key)")
      = ["call query(v)", "call c.setCacheWithNotFound(ctx, key)", "call cacheVal(v)"] := by decide
/-- … hands the marshalled row to the flight; after the flight: an error goes to everyone, the fresh caller keeps
its own `v`, every joiner unmarshals the *leader's* bytes into its own `v`. -/
theorem tie_doTake_after_flight :
    cacheNodeDoTakeShape.dropWhile (fun t => t ≠ "call jsonx.Marshal(v)") =
      ["call jsonx.Marshal(v)", "return <call>", "}",
       "call c.barrier.DoEx(key, func)", "if err != nil {", "return err", "}", "if fresh {", "return nil", "}",
       "call c.stat.IncrementTotal()", "call c.stat.IncrementHit()",
       "call jsonx.Unmarshal(val.([]byte), v)", "return <call>"] := by decide

/-- sqlc and monc hand ONE process-wide flight group to every cache (node) they build: flights are keyed by the
cache key across all models of the process. -/
theorem tie_sqlc_flight : sqlcFlightVar = ["singleFlights = syncx.NewSingleFlight()"] ∧
    sqlcFlightUses = ["NewConn: cache.New(c, singleFlights, stats, sql.ErrNoRows, opts)",
                      "NewNodeConn: cache.NewNode(rds, singleFlights, stats, sql.ErrNoRows, opts)"] := by decide
theorem tie_monc_flight : moncFlightVar = ["singleFlight = syncx.NewSingleFlight()"] ∧
    moncFlightUses = ["NewModel: cache.New(conf, singleFlight, stats, mongo.ErrNoDocuments, opts)",
                      "NewNodeModel: cache.NewNode(rds, singleFlight, stats, mongo.ErrNoDocuments, opts)"] := by decide

/-- the process-wide ResourceManagers: redis clients / clusters keyed by address, mongo clients by url (plus the
`Inject` test hook), sql connections by data-source name — one `GetResource` call each, nothing else touches them. -/
theorem tie_redis_managers :
    redisClientManagerVar = ["clientManager = syncx.NewResourceManager()"] ∧
    redisClientManagerUses = ["getClient: clientManager.GetResource(r.Addr, func)"] ∧
    redisClusterManagerVar = ["clusterManager = syncx.NewResourceManager()"] ∧
    redisClusterManagerUses = ["getCluster: clusterManager.GetResource(r.Addr, func)"] := by decide
theorem tie_mon_manager :
    monClientManagerVar = ["clientManager = syncx.NewResourceManager()"] ∧
    monClientManagerUses = ["Inject: clientManager.Inject(key, &ClosableClient{client})",
                            "getClient: clientManager.GetResource(url, func)"] := by decide
theorem tie_sqlx_manager :
    sqlxConnManagerVar = ["connManager = syncx.NewResourceManager()"] ∧
    sqlxConnManagerUses = ["getCachedSqlConn: connManager.GetResource(server, func)"] := by decide

/-! ### Round 4: the functions `Take` / `doTake` call on the property's path, the constructors' wiring -/

/-- the rows of `RM` under `Cfg.cacheTake`: which statement of core/collection/cache.go each stands for. -/
def takeStmt : RM.PC → String
  | .p0 | .g0 => "call c.lock.Lock()"          -- doGet
  | .p1 | .g1 => "mapget c.data[key]"
  | .p2 | .g2 => "call c.lock.Unlock()"
  | .p3 | .g3 => "if ok {"
  | .g4 => "call fetch()"
  | .g5 => "if e != nil {"
  | .g6 => "call c.lock.Lock()"                 -- Set → SetWithExpire
  | .g7 => "mapset c.data[key] = value"
  | .g8 => "call c.lock.Unlock()"
  | _ => "(singleflight)"

/-- `Cache.doGet` (rows p0…p2 in front of the flight and g0…g2 inside it): lookup of `c.data[key]` under `c.lock`
(a `sync.Mutex`; the model's read lock only adds schedules), `ok` returned as read. -/
theorem tie_collectionDoGet : collectionDoGetShape =
    [takeStmt .p0, "defer{", takeStmt .p2, "}", takeStmt .p1, "if ok {", "call c.lruCache.add(key)", "}",
     "return value, ok"] := by decide

/-- `Cache.Set` / `SetWithExpire` (rows g6…g8): the store into `c.data[key]` under `c.lock`, key and value as passed. -/
theorem tie_collectionSet : collectionSetShape = ["call c.SetWithExpire(key, value, c.expire)"] ∧
    collectionSetWithExpireShape =
      [takeStmt .g6, takeStmt .g7, "call c.lruCache.add(key)", takeStmt .g8,
       "call c.unstableExpiry.AroundDuration(expire)", "call c.timingWheel.SetTimer(key, value, expiry)"] := by decide

/-- `Cache.Take` row by row (replaces the bare string list): front lookup p0…p3, closure g0…g5, store g6…g8. -/
theorem tie_collectionTake_rows : collectionTakeShape =
    ["call c.doGet(key)", takeStmt .p3, "call c.stats.IncrementHit()", "return val, nil", "}",
     "var fresh",
     "func{", "call c.doGet(key)", takeStmt .g3, "return val, nil", "}",
     takeStmt .g4, takeStmt .g5, "return nil, e", "}",
     "call c.Set(key, v)", "return v, nil", "}",
     "call c.barrier.Do(key, func)", "if err != nil {", "return nil, err", "}",
     "if fresh {", "call c.stats.IncrementMiss()", "return val, nil", "}",
     "call c.stats.IncrementHit()", "return val, nil"] := by decide

/-- `NewCache` wires a flight group of its own and an empty map into every Cache (per instance: nothing shared). -/
theorem tie_newCache_fields :
    collectionNewCacheFields =
      ["data: make(map[string]any)", "expire: expire", "lruCache: emptyLruCache", "barrier: syncx.NewSingleFlight()",
       "unstableExpiry: mathx.NewUnstable(expiryDeviation)"] := by decide

/-- `NewNode` stores the flight group, the redis handle and the not-found error it was given (the group may be shared
between nodes: sqlc / monc pass one per process). -/
theorem tie_newNode_fields :
    cacheNodeNewNodeFields.filter (fun f => f = "barrier: barrier" || f = "rds: rds" || f = "errNotFound: errNotFound") =
      ["rds: rds", "barrier: barrier", "errNotFound: errNotFound"] ∧ cacheNodeNewNodeFields.length = 9 := by decide

/-- both entry points of `doTake` forward the caller's `val`, `key` and `query` unchanged. -/
theorem tie_cacheNode_entry_points :
    cacheNodeTakeShape = ["call context.Background()", "call c.TakeCtx(context.Background(), val, key, query)", "return <call>"] ∧
    cacheNodeTakeCtxShape = ["func{", "call c.SetCtx(ctx, key, v)", "return <call>", "}",
                             "call c.doTake(ctx, val, key, query, func)", "return <call>"] ∧
    cacheNodeTakeWithExpireShape = ["call context.Background()",
                                    "call c.TakeWithExpireCtx(context.Background(), val, key, query)", "return <call>"] ∧
    cacheNodeTakeWithExpireCtxShape = ["call c.aroundDuration(c.expiry)", "func{", "call query(v, expire)", "return <call>", "}",
                                       "func{", "call c.SetWithExpireCtx(ctx, key, v, expire)", "return <call>", "}",
                                       "call c.doTake(ctx, val, key, func, func)", "return <call>"] ∧
    cacheNodeSetCtxShape = ["call c.aroundDuration(c.expiry)",
                            "call c.SetWithExpireCtx(ctx, key, val, c.aroundDuration(c.expiry))", "return <call>"] := by decide

/-- `doGetCache` (row g1 of `Cfg.doTake`): redis GET of the same key; empty → `errNotFound` (a miss), the placeholder →
`errPlaceholder`, else the cached row is unmarshalled into the caller's `v`. -/
theorem tie_doGetCache : cacheNodeDoGetCacheShape =
    ["call c.stat.IncrementTotal()", "call c.rds.GetCtx(ctx, key)", "if err != nil {", "call c.stat.IncrementMiss()",
     "return err", "}", "if len(data) == 0 {", "call c.stat.IncrementMiss()", "return c.errNotFound", "}",
     "call c.stat.IncrementHit()", "if data == notFoundPlaceholder {", "return errPlaceholder", "}",
     "call c.processCache(ctx, key, data, v)", "return <call>"] := by decide

/-- the whole closure of `doTake` (error classification included): cache read; placeholder → not found; other error →
returned, no query; miss → `query`; not found → placeholder written, not found; error → returned; else `cacheVal`. -/
theorem tie_doTake_closure :
    cacheNodeDoTakeShape.takeWhile (fun t => t ≠ "call jsonx.Marshal(v)") =
      ["func{", "call c.doGetCache(ctx, key, v)", "if err != nil {",
       "if errors.Is(err, errPlaceholder) {", "return nil, c.errNotFound", "}",
       "else{", "if !errors.Is(err, c.errNotFound) {", "return nil, err", "}", "}",
       "call query(v)", "if errors.Is(err, c.errNotFound) {", "call c.setCacheWithNotFound(ctx, key)",
       "if err != nil {", "call logger.Error(err)", "}", "return nil, c.errNotFound", "}",
       "else{", "if err != nil {", "call c.stat.IncrementDbFails()", "return nil, err", "}", "}",
       "call cacheVal(v)", "if err != nil {", "call logger.Error(err)", "}", "}"] := by decide

/-! ### Round 4: decision conditions translated to Lean (extract/c07.go `c07Branches`) and compared with the models'
branching for ALL values of their atoms — a negated or swapped condition breaks these even if the skeleton survives. -/

/-- `createCall`: exit 0 (`return c, true`: join) iff the key is in `g.calls` — the model's row `l1` branches the same way. -/
theorem tie_createCall_branch (s : SF.St) (t : Tid) (x : Nat) (h : s.pc t = .l1) :
    (SF.step s t x).map (fun s' => s'.pc t) =
      some (if createCallBranch (s.calls (s.key t)).isSome = 0 then .w0 else .n0) := by
  unfold SF.step; rw [h]
  cases hc : s.calls (s.key t) <;> simp [createCallBranch, upd]
theorem tie_createCall_exits : createCallBranchExits = ["return c, true", "return c, false"] := by decide

/-- `DoEx`: `done` (joiner) takes the exit that reports `fresh = false` (row `w2`), the leader the one with `true` (`r0`);
`Do` branches the same way. -/
theorem tie_doEx_branch : ∀ done, doExBranchExits[doExBranch done]? = some (SF.stmt (if done then .w2 else .r0))
    ∧ doBranch done = doExBranch done := by decide
/-- … and those rows record exactly these flags. -/
theorem tie_doEx_fresh_model (s : SF.St) (t : Tid) (x : Nat) :
    (s.pc t = .w2 → ((SF.step s t x).bind (·.rets.head?)).map (·.fresh) = some false) ∧
    (s.pc t = .r0 → ((SF.step s t x).bind (·.rets.head?)).map (·.fresh) = some true) := by
  constructor <;> intro h <;> unfold SF.step <;> rw [h] <;> simp

/-- `lockedGroup.Do`: key registered → wait and `goto begin` (rows b2, b3 → b0), else `makeCall` (c0). -/
theorem tie_lockedDo_branch (s : LC.St) (t : Tid) (x : Nat) (h : s.pc t = .b1) :
    (LC.step s t x).map (fun s' => s'.pc t) =
      some (if lockedDoBranch (s.m (s.key t)).isSome = 0 then .b2 else .c0) := by
  unfold LC.step; rw [h]
  cases hc : s.m (s.key t) <;> simp [lockedDoBranch, upd]
theorem tie_lockedDo_exits : lockedDoBranchExits = ["goto begin", "return lg.makeCall(key, fn)"] := by decide
theorem tie_lockedDo_retry (s : LC.St) (t : Tid) (x : Nat) (h : s.pc t = .b3) (hw : s.wg (s.reg t) = 0) :
    (LC.step s t x).map (fun s' => s'.pc t) = some .b0 := by
  unfold LC.step; rw [h]; simp [hw, upd]

/-- the closure of `GetResource` / `Cache.Take`: found → exit 0 (the stored instance, no load); load failed → exit 1
(the error, nothing stored); else exit 2 (store, return the new instance) — rows g3 and g5 branch the same way. -/
theorem tie_closure_branch_g3 (s : RM.St) (t : Tid) (x : Nat) (h : s.pc t = .g3) :
    (RM.step s t x).map (fun s' => s'.pc t) =
      some (if getResourceClosureBranch (s.found t) false = 0 then .m2 else .g4) := by
  unfold RM.step; rw [h]
  cases hf : s.found t <;> simp [getResourceClosureBranch, upd]
theorem tie_closure_branch_g5 (s : RM.St) (t : Tid) (x : Nat) (h : s.pc t = .g5) :
    (RM.step s t x).map (fun s' => s'.pc t) =
      some (if getResourceClosureBranch false (x == 0) = 1 then .m2 else .g6) := by
  unfold RM.step; rw [h]
  by_cases hx : x = 0 <;> simp [getResourceClosureBranch, upd, hx]
theorem tie_closure_exits :
    getResourceClosureBranchExits = ["return resource, nil", "return nil, err", "return resource, nil"] ∧
    collectionTakeClosureBranchExits = ["return val, nil", "return nil, e", "return v, nil"] ∧
    (∀ a b, collectionTakeClosureBranch a b = getResourceClosureBranch a b) := by decide

/-- what distinguishes the users (`Cfg`): `Cache.Take` has an exit in front of the flight (`pre`, row p3 branches on
`found` like exit 0 of `collectionTakeBranch`) and no type assertion after it; `GetResource` starts with the flight and
asserts `val.(io.Closer)`; `doTake` starts with the flight and asserts `val.([]byte)`. -/
theorem tie_cfg_users :
    (∀ e f, collectionTakeBranch true e f = 0) ∧ (∀ e f, collectionTakeBranch false e f ≠ 0) ∧
    collectionTakeBranchExits = ["return val, nil", "return nil, err", "return val, nil", "return val, nil"] ∧
    Cfg.cacheTake = { pre := true, asrt := false } ∧
    getResourceShape.head? = some "func{" ∧ getResourceBranchExits = ["return nil, err", "return val.(io.Closer), nil"] ∧
    (∀ e, getResourceBranch e = if e then 0 else 1) ∧
    Cfg.getResource = { pre := false, asrt := true } ∧
    cacheNodeDoTakeShape.head? = some "func{" ∧ cacheNodeDoTakeShape.getLast? = some "return <call>" ∧
    cacheNodeDoTakeShape.contains "call jsonx.Unmarshal(val.([]byte), v)" = true ∧
    Cfg.doTake = { pre := false, asrt := true } := by decide
theorem tie_front_lookup_p3 (s : RM.St) (t : Tid) (x : Nat) (h : s.pc t = .p3) :
    (RM.step s t x).map (fun s' => s'.pc t) =
      some (if collectionTakeBranch (s.found t) false false = 0 then .idle else .l0) := by
  unfold RM.step; rw [h]
  cases hf : s.found t <;> simp [collectionTakeBranch, upd]

/-- the wait group is incremented by exactly 1 (and released by one `Done`): `Wait` passes iff the leader is past `Done`. -/
theorem tie_wgAdd : sfWgAdd = [1] ∧ lcWgAdd = [1] := by decide
theorem tie_wgAdd_model (s : SF.St) (l : LC.St) (t : Tid) (x : Nat) :
    (s.pc t = .n1 → (SF.step s t x).map (fun s' => s'.wg (s.reg t)) = some (s.wg (s.reg t) + 1)) ∧
    (l.pc t = .c1 → (LC.step l t x).map (fun s' => s'.wg (l.reg t)) = some (l.wg (l.reg t) + 1)) := by
  constructor <;> intro h
  · unfold SF.step; rw [h]; simp [upd]
  · unfold LC.step; rw [h]; simp [upd]

end GoZero.C07.Tie
